/-
Source tie for the rest of htmltools/_jsx.py (harness/pytr_c20b.py): embeddings of keyword dicts / allow-lists, the
model-level reading of `JSXTagAttrDict._update` / `update` (`propsMergeC20b`, `propsUpdateC20b`) and its relation to the
model's `mkProps` / `foldProps` (Model/Jsx.lean, Lemmas/Jsx.lean), facts about the primitives of Py/PrimC20b.lean on the
embedded shapes, the loop lemmas (quantified over the loop body) used by Props/SrcC20b.lean, and what the translated
`TagList` constructor / mutators of `_core.py` do on a list of *plain nodes* (`plainNodeC20b`: the items
`_tagchilds_to_tagnodes` keeps as they are — which every child of the component model is, a `jsx` string excepted).
The embeddings `embJNode` / `embJVal` / `embJProps` are those of Lemmas/SrcC20.lean.
-/
import HtmlVerif.Lemmas.SrcC20
import HtmlVerif.Lemmas.SrcC15b
import HtmlVerif.Lemmas.Jsx
import HtmlVerif.Py.PrimC20b
import HtmlVerif.Generated.Src

set_option linter.unusedVariables false
set_option linter.unusedSimpArgs false

namespace HtmlVerif.SrcTie
open HtmlVerif HtmlVerif.Py HtmlVerif.Generated.Src HtmlVerif.JsxL

/-! ### embeddings -/

/-- a keyword dict / a mapping argument as the Python value -/
def embKwC20b (ι : Str → Option Int) (kw : List (Str × JVal)) : PVal := .dict (kw.map fun kv => (kv.1, embJVal ι kv.2))

/-- no keyword is called like one of `names` (parameters of the callee: Python binds such a keyword to the parameter, or
    raises "multiple values", instead of handing it to `**kwargs`; the model does not have that binding) -/
def kwFreeC20b (names : List Str) (kw : List (Str × JVal)) : Bool := kw.all fun kv => !names.contains kv.1

/-- the value given for `allowedProps`: None, or a list of names -/
def embAllowedC20b : Option (List Str) → PVal
  | none => .none
  | some ps => .list (ps.map .str)

/-! ### `_update` / `update` at the model level -/

/-- `dict.update(cur, **new)`: the items of `new` set one after the other -/
def propsMergeC20b (cur new : JProps) : JProps := new.toList.foldl (fun acc kv => acc.set kv.1 kv.2) cur

/-- `update(*args, **kwargs)`: every mapping in turn, its names normalised into the receiver -/
def propsUpdateC20b (cur : JProps) (maps : List (List (Str × JVal))) : JProps := maps.foldl foldProps cur

theorem set_set_sameC20b (k : Str) (a b : JVal) : (p : JProps) → (p.set k a).set k b = p.set k b
  | .nil => by simp [JProps.set]
  | .cons k0 v0 t => by
    by_cases h : k0 = k
    · simp [JProps.set, h]
    · simp [JProps.set, h, set_set_sameC20b k a b t]

theorem set_comm_memC20b (k k' : Str) (v v' : JVal) (hne : k ≠ k') : (p : JProps) → k ∈ p.keys →
    (p.set k' v').set k v = (p.set k v).set k' v'
  | .nil, h => by simp [JProps.keys] at h
  | .cons k0 v0 t, h => by
    by_cases h0 : k0 = k
    · subst h0
      have : ¬ k0 = k' := hne
      simp [JProps.set, this]
    · have hk : k ∈ t.keys := by
        simp only [JProps.keys, List.mem_cons] at h
        rcases h with h | h
        · exact absurd h.symm h0
        · exact h
      by_cases h1 : k0 = k'
      · subst h1
        simp [JProps.set, h0]
      · simp [JProps.set, h0, h1, set_comm_memC20b k k' v v' hne t hk]

theorem merge_consC20b (cur : JProps) (k : Str) (v : JVal) (t : JProps) :
    propsMergeC20b cur (.cons k v t) = propsMergeC20b (cur.set k v) t := rfl

theorem merge_set_freshC20b (k : Str) (v : JVal) : (t Q : JProps) → k ∉ t.keys → k ∈ Q.keys →
    (propsMergeC20b Q t).set k v = propsMergeC20b (Q.set k v) t
  | .nil, Q, _, _ => rfl
  | .cons k1 v1 t', Q, hk, hQ => by
    simp only [JProps.keys, List.mem_cons, not_or] at hk
    rw [merge_consC20b, merge_consC20b]
    have hmem : k ∈ (Q.set k1 v1).keys := by
      rw [set_keys]; split
      · exact hQ
      · exact List.mem_append_left _ hQ
    rw [merge_set_freshC20b k v t' (Q.set k1 v1) hk.2 hmem, set_comm_memC20b k k1 v v1 hk.1 Q hQ]

theorem mem_keys_set_selfC20b (k : Str) (v : JVal) (p : JProps) : k ∈ (p.set k v).keys := by
  rw [set_keys]; split
  · assumption
  · simp

theorem merge_setC20b (k : Str) (v : JVal) : (acc cur : JProps) → acc.keys.Nodup →
    propsMergeC20b cur (acc.set k v) = (propsMergeC20b cur acc).set k v
  | .nil, cur, _ => rfl
  | .cons k0 v0 t, cur, hn => by
    simp only [JProps.keys, List.nodup_cons] at hn
    by_cases h0 : k0 = k
    · subst h0
      simp only [JProps.set, if_true, merge_consC20b]
      rw [merge_set_freshC20b k0 v t (cur.set k0 v0) hn.1 (mem_keys_set_selfC20b _ _ _), set_set_sameC20b]
    · simp only [JProps.set, h0, if_false, merge_consC20b]
      exact merge_setC20b k v t (cur.set k0 v0) hn.2

theorem merge_foldPropsC20b (cur : JProps) : (kw : List (Str × JVal)) → (acc : JProps) → acc.keys.Nodup →
    propsMergeC20b cur (foldProps acc kw) = foldProps (propsMergeC20b cur acc) kw
  | [], acc, _ => rfl
  | kv :: t, acc, hn => by
    have : foldProps acc (kv :: t) = foldProps (acc.set (normAttrName kv.1) kv.2) t := rfl
    rw [this, merge_foldPropsC20b cur t _ (set_nodup _ _ _ hn), merge_setC20b _ _ acc cur hn]
    rfl

/-- what `_update` does in two steps — the names of the mapping normalised one after the other into a *fresh* dict
    (`mkProps`), whose items are then set in the receiver — is normalising them one after the other into the receiver: of two
    keywords with the same normalised name the later decides the value, the first the place -/
theorem merge_mkPropsC20b (cur : JProps) (kw : List (Str × JVal)) :
    propsMergeC20b cur (mkProps kw) = foldProps cur kw :=
  merge_foldPropsC20b cur kw .nil (by simp [JProps.keys])

/-! ### facts about the primitives on the embedded shapes -/

theorem dictSet_embJPropsC20b (ι : Str → Option Int) (k : Str) (v : JVal) : (ps : JProps) →
    Py.dictSet k (embJVal ι v) (embJProps ι ps) = embJProps ι (ps.set k v)
  | .nil => rfl
  | .cons k' v' t => by
    simp only [embJProps, Py.dictSet, JProps.set]
    split
    · simp [embJProps]
    · simp [embJProps, dictSet_embJPropsC20b ι k v t]

theorem dictUpdate_embJPropsC20b (ι : Str → Option Int) : (new cur : JProps) →
    (embJProps ι new).foldl (fun c kv => Py.dictSet kv.1 kv.2 c) (embJProps ι cur) = embJProps ι (propsMergeC20b cur new)
  | .nil, cur => rfl
  | .cons k v t, cur => by
    simp only [embJProps, List.foldl_cons, dictSet_embJPropsC20b, propsMergeC20b, JProps.toList]
    exact dictUpdate_embJPropsC20b ι t (cur.set k v)

theorem pyIterJ_listC20b (xs : List PVal) : pyIterJ (.list xs) = .ok xs := pyIterJ_list xs
theorem pyIterJ_tupleC20b (xs : List PVal) : pyIterJ (.tuple xs) = .ok xs := pyIterJ_tuple xs

theorem pyKeys_embKwC20b (ι : Str → Option Int) (kw : List (Str × JVal)) :
    pyKeys (embKwC20b ι kw) = .ok (.list (kw.map fun kv => PVal.str kv.1)) := by
  simp [embKwC20b, pyKeys, Function.comp_def]

/-- `f(**kwargs)` with keywords free of the callee's parameter names: they reach `**kwargs` unchanged -/
theorem pyKwRest_embKwC20b (ι : Str → Option Int) (kw : List (Str × JVal)) (bound : List Str)
    (h : kwFreeC20b bound kw = true) : pyKwRestC15b (embKwC20b ι kw) bound [] = .ok (embKwC20b ι kw) := by
  have h1 : (kw.map fun kv => (kv.1, embJVal ι kv.2)).any (fun kv => bound.contains kv.1) = false := by
    rw [List.any_eq_false]
    intro x hx
    obtain ⟨kv, hkv, rfl⟩ := List.mem_map.1 hx
    have := (List.all_eq_true.mp h) kv hkv
    simpa using this
  simp only [embKwC20b, pyKwRestC15b, h1, Bool.false_eq_true, if_false, pure_eq_ok]
  congr 2
  simp

theorem foldlM_okC20b {α β : Type} (g : β → α → β) (l : List α) (b0 : β) :
    l.foldlM (fun b c => (Except.ok (g b c) : Except Err β)) b0 = .ok (l.foldl g b0) := by
  induction l generalizing b0 with
  | nil => rfl
  | cons a t ih => simp only [List.foldlM_cons, List.foldl_cons]; exact ih _

theorem splitOn_ne_nilC20b (c : Char) (s : Str) : splitOn c s ≠ [] := by
  induction s with
  | nil => simp [splitOn]
  | cons x xs ih =>
    rw [splitOn]
    split
    · simp
    · cases h : splitOn c xs <;> simp

/-- `pieces[-1]` -/
theorem getItem_lastC20b (l : List Str) (hne : l ≠ []) :
    pyGetItem (.list (l.map PVal.str)) (.int (-1)) = .ok (.str (l.getLast hne)) := by
  have hlen : 0 < l.length := List.length_pos_iff.mpr hne
  have h1 : ((-1 : Int) + ((l.map PVal.str).length : Int)).toNat = l.length - 1 := by simp; omega
  have h2 : ¬ ((-1 : Int) + ((l.map PVal.str).length : Int) < 0) := by simp; omega
  simp only [pyGetItem, show ((-1 : Int) < 0) from by decide, if_true, h2, if_false, h1]
  rw [List.getLast_eq_getElem]
  have h3 : (l.map PVal.str)[l.length - 1]? = some (PVal.str (l[l.length - 1]'(by omega))) := by
    simp [List.getElem?_eq_getElem (show l.length - 1 < l.length by omega)]
  rw [h3]
  rfl

/-- `x[:1]` -/
theorem slice_take1C20b (p : Str) : Py.pySlice (PVal.str p) none (some 1) = Except.ok (PVal.str (p.take 1)) := by
  simp only [Py.pySlice, sliceList, Py.clampIdx, pure_eq_ok]
  congr 2
  cases p <;> simp

/-- `pieces[-1][:1]` is the model's `nameInitial` -/
theorem nameInitial_eqC20b (name : Str) :
    nameInitial name = ((splitOn '.' name).getLast (splitOn_ne_nilC20b '.' name)).take 1 := by
  unfold nameInitial
  rw [List.getLast?_eq_some_getLast (splitOn_ne_nilC20b '.' name)]

theorem pyIn_strsC20b (ps : List Str) (k : Str) : pyIn (.str k) (.list (ps.map PVal.str)) = .ok (.bool (ps.contains k)) := by
  simp only [pyIn, pure_eq_ok]
  congr 2
  induction ps with
  | nil => rfl
  | cons a t ih => simp only [List.map_cons, List.any_cons, ih, List.contains_cons]; rw [Bool.beq_comm]

/-! ### loop lemmas (the body `f` is whatever the translator emitted; `hstep` is about one pass) -/

/-- the loop of `_update`: if one pass sets the normalised key in the dict held in the first component of the state, the loop
    computes `foldProps` -/
theorem kw_loop_kC20b {β τ : Type} (ι : Str → Option Int) (kw : List (Str × JVal)) (acc : JProps) (L : List PVal)
    (hL : L = kw.map fun kv => PVal.tuple [.str kv.1, embJVal ι kv.2]) (t0 : τ)
    (f : PVal → PVal × τ → PyM (ForInStep (PVal × τ)))
    (hstep : ∀ kv ∈ kw, ∀ (s : PVal × τ) (b : JProps), s.1 = .dict (embJProps ι b) →
      ∃ s', f (.tuple [.str kv.1, embJVal ι kv.2]) s = .ok (.yield s')
        ∧ s'.1 = .dict (embJProps ι (b.set (normAttrName kv.1) kv.2)))
    (k : PVal × τ → PyM β) (r : PyM β)
    (hk : ∀ s, s.1 = .dict (embJProps ι (foldProps acc kw)) → k s = r) :
    (forIn L (PVal.dict (embJProps ι acc), t0) f >>= k) = r := by
  have sim := forIn_sim (fun (s : PVal × τ) (b : JProps) => s.1 = .dict (embJProps ι b)) embErr
    (fun kv : Str × JVal => PVal.tuple [.str kv.1, embJVal ι kv.2]) kw f
    (fun kv b => .ok (b.set (normAttrName kv.1) kv.2)) (PVal.dict (embJProps ι acc), t0) acc rfl
    (by
      intro c hc s b hR
      obtain ⟨s', h1, h2⟩ := hstep c hc s b hR
      exact ⟨_, h1, s', rfl, h2⟩)
  rw [foldlM_okC20b (fun (b : JProps) (kv : Str × JVal) => b.set (normAttrName kv.1) kv.2)] at sim
  obtain ⟨s, hs, h1⟩ := sim
  rw [hL, hs, ok_bind]
  exact hk s h1

/-- the loop of `update`: if one pass does `_update(arg)` on the dict held in the first component of the state, the loop
    computes `propsUpdateC20b` -/
theorem maps_loop_kC20b {β τ : Type} (ι : Str → Option Int) (maps : List (List (Str × JVal))) (cur : JProps) (L : List PVal)
    (hL : L = maps.map (embKwC20b ι)) (t0 : τ)
    (f : PVal → PVal × τ → PyM (ForInStep (PVal × τ)))
    (hstep : ∀ m ∈ maps, ∀ (s : PVal × τ) (b : JProps), s.1 = .dict (embJProps ι b) →
      ∃ s', f (embKwC20b ι m) s = .ok (.yield s') ∧ s'.1 = .dict (embJProps ι (foldProps b m)))
    (k : PVal × τ → PyM β) (r : PyM β)
    (hk : ∀ s, s.1 = .dict (embJProps ι (propsUpdateC20b cur maps)) → k s = r) :
    (forIn L (PVal.dict (embJProps ι cur), t0) f >>= k) = r := by
  have sim := forIn_sim (fun (s : PVal × τ) (b : JProps) => s.1 = .dict (embJProps ι b)) embErr
    (embKwC20b ι) maps f
    (fun m b => .ok (foldProps b m)) (PVal.dict (embJProps ι cur), t0) cur rfl
    (by
      intro c hc s b hR
      obtain ⟨s', h1, h2⟩ := hstep c hc s b hR
      exact ⟨_, h1, s', rfl, h2⟩)
  rw [foldlM_okC20b (fun (b : JProps) (m : List (Str × JVal)) => foldProps b m)] at sim
  obtain ⟨s, hs, h1⟩ := sim
  rw [hL, hs, ok_bind]
  exact hk s h1

/-- the loop of the `allowedProps` check, whatever its body and its state: if one pass raises NotImplementedError exactly for
    a keyword that is not listed (and otherwise goes on), the loop raises iff some keyword is not listed -/
theorem allowed_loop_kC20b {α β σ : Type} (ps : List Str) (kw : List (Str × α)) (L : List PVal)
    (hL : L = kw.map fun kv => PVal.str kv.1) (init : σ)
    (f : PVal → σ → PyM (ForInStep σ))
    (hstep : ∀ kv ∈ kw, ∀ s : σ, if ps.contains kv.1 = true then ∃ s', f (.str kv.1) s = .ok (.yield s')
      else f (.str kv.1) s = .error .notImplemented)
    (k : σ → PyM β) (r : PyM β)
    (hk : if (kw.all fun kv => ps.contains kv.1) = true then ∀ s, k s = r else r = .error .notImplemented) :
    (forIn L init f >>= k) = r := by
  subst hL
  induction kw generalizing init with
  | nil => simp only [List.map_nil, List.forIn_nil, pure_eq_ok, ok_bind]; simpa using hk init
  | cons a t ih =>
    have h1 := hstep a (by simp) init
    simp only [List.map_cons, List.forIn_cons]
    by_cases ha : ps.contains a.1 = true
    · simp only [ha, if_true] at h1
      obtain ⟨s', hs'⟩ := h1
      rw [hs', ok_bind]
      refine ih s' (fun kv hkv s => hstep kv (by simp [hkv]) s) ?_
      simp only [List.all_cons, ha, Bool.true_and] at hk
      exact hk
    · simp only [ha, Bool.false_eq_true, if_false] at h1
      rw [h1]
      have : (List.all (a :: t) fun kv => ps.contains kv.1) = false := by
        rw [List.all_cons]; simp only [Bool.and_eq_false_imp]; intro h; exact absurd h ha
      simp only [this, Bool.false_eq_true, if_false] at hk
      rw [hk]; rfl

/-- a loop every pass of which keeps an invariant of the state -/
theorem inv_loop_kC20b {α β σ : Type} (P : σ → Prop) (L : List α) (f : α → σ → PyM (ForInStep σ))
    (hstep : ∀ a ∈ L, ∀ s, P s → ∃ s', f a s = .ok (.yield s') ∧ P s')
    (init : σ) (h0 : P init) (k : σ → PyM β) (r : PyM β) (hk : ∀ s, P s → k s = r) :
    (forIn L init f >>= k) = r := by
  induction L generalizing init with
  | nil => exact hk init h0
  | cons a t ih =>
    obtain ⟨s', h1, h2⟩ := hstep a (by simp) init h0
    simp only [List.forIn_cons, h1, ok_bind]
    exact ih (fun b hb s hs => hstep b (by simp [hb]) s hs) s' h2

/-- a loop every pass of which appends its item to the list held in the first component of the state -/
theorem append_loop_kC20b {β τ : Type} (L : List PVal) (acc : List PVal) (t0 : τ)
    (f : PVal → PVal × τ → PyM (ForInStep (PVal × τ)))
    (hstep : ∀ a ∈ L, ∀ (s : PVal × τ) (b : List PVal), s.1 = .list b → ∃ s', f a s = .ok (.yield s') ∧ s'.1 = .list (b ++ [a]))
    (k : PVal × τ → PyM β) (r : PyM β) (hk : ∀ s, s.1 = .list (acc ++ L) → k s = r) :
    (forIn L (PVal.list acc, t0) f >>= k) = r := by
  induction L generalizing acc t0 with
  | nil => exact hk _ (by simp)
  | cons a t ih =>
    obtain ⟨s', h1, h2⟩ := hstep a (by simp) (PVal.list acc, t0) acc rfl
    obtain ⟨s1, s2⟩ := s'
    simp only at h2
    subst h2
    simp only [List.forIn_cons, h1, ok_bind]
    exact ih (acc ++ [a]) s2 (fun b hb s c hs => hstep b (by simp [hb]) s c hs) (fun s hs => hk s (by simpa using hs))

/-! ### the `TagList` translations of `_core.py` on plain nodes -/

/-- `isinstance(x, (A, B, C))` does not depend on the order of the tuple -/
theorem isInstance_permC20b (v : PVal) {l l' : List String} (h : l.Perm l') : isInstance v l = isInstance v l' := by
  cases v <;> simp only [isInstance] <;> exact h.any_eq

/-- an item `_tagchilds_to_tagnodes` keeps as it is: a tag node (`is_tag_node`) that `flatten` neither unnests (a list, a
    tuple, a TagList) nor drops (None) and that is not a number — stated as exactly the tests the code makes -/
def plainNodeC20b (v : PVal) : Bool :=
  isInstance v ["Tagifiable", "MetadataNode", "ReprHtml", "str", "HTML"] && !isInstance v ["list", "tuple", "TagList"]
    && !isNone v && !isInstance v ["int", "float"]

/-- the children of the component model that are not `jsx` strings -/
def noJsxKidsC20b : JNodes → Bool
  | .nil => true
  | .cons (.str .jsx _) _ => false
  | .cons _ t => noJsxKidsC20b t

theorem plain_embJNodeC20b (ι : Str → Option Int) (n : JNode) (h : ∀ s, n ≠ .str .jsx s) :
    plainNodeC20b (embJNode ι n) = true ∧ hasJsxArgC20b (embJNode ι n) = false := by
  cases n with
  | str k s =>
    cases k with
    | jsx => exact absurd rfl (h s)
    | plain => simp [embJNode, plainNodeC20b, isInstance, builtinClasses, isNone, hasJsxArgC20b]
    | html => simp [embJNode, plainNodeC20b, isInstance, builtinClasses, isNone, hasJsxArgC20b]
  | md m => cases m <;> simp [embJNode, plainNodeC20b, isInstance, classBases, isNone, hasJsxArgC20b, hasJsxDataC20b]
  | _ => simp [embJNode, plainNodeC20b, isInstance, classBases, isNone, hasJsxArgC20b, hasJsxDataC20b]

theorem plain_embJNodesC20b (ι : Str → Option Int) : (ks : JNodes) → noJsxKidsC20b ks = true →
    (∀ v ∈ embJNodes ι ks, plainNodeC20b v = true) ∧ hasJsxArgsC20b (embJNodes ι ks) = false
  | .nil, _ => by simp [embJNodes, hasJsxArgsC20b]
  | .cons n t, h => by
    have hn : ∀ s, n ≠ .str .jsx s := by
      intro s e; subst e; simp [noJsxKidsC20b] at h
    have ht : noJsxKidsC20b t = true := by
      cases n with
      | str k s => cases k <;> first | exact absurd rfl (hn s) | simpa [noJsxKidsC20b] using h
      | _ => simpa [noJsxKidsC20b] using h
    obtain ⟨h1, h2⟩ := plain_embJNodeC20b ι n hn
    obtain ⟨h3, h4⟩ := plain_embJNodesC20b ι t ht
    refine ⟨?_, by simp [embJNodes, hasJsxArgsC20b, h2, h4]⟩
    intro v hv
    simp only [embJNodes, List.mem_cons] at hv
    rcases hv with rfl | hv
    · exact h1
    · exact h3 v hv

theorem noJsxKids_appendC20b : (a b : JNodes) → noJsxKidsC20b a = true → noJsxKidsC20b b = true →
    noJsxKidsC20b (JNodes.ofList (a.toList ++ b.toList)) = true
  | .nil, b, _, hb => by
    have : ∀ b : JNodes, JNodes.ofList b.toList = b := by
      intro b
      induction b using JNodes.rec (motive_1 := fun _ => True) (motive_3 := fun _ => True) (motive_4 := fun _ => True)
        (motive_5 := fun _ => True) <;> simp_all [JNodes.toList, JNodes.ofList]
    simpa [JNodes.toList, this] using hb
  | .cons n t, b, ha, hb => by
    have ih := noJsxKids_appendC20b t b
    cases n with
    | str k s =>
      cases k <;> first | (simp [noJsxKidsC20b] at ha; done) | (simp only [noJsxKidsC20b] at ha; simpa [JNodes.toList, JNodes.ofList, noJsxKidsC20b] using ih ha hb)
    | _ => simp only [noJsxKidsC20b] at ha; simpa [JNodes.toList, JNodes.ofList, noJsxKidsC20b] using ih ha hb

theorem embJNodes_ofList_appendC20b (ι : Str → Option Int) (a b : JNodes) :
    embJNodes ι (JNodes.ofList (a.toList ++ b.toList)) = embJNodes ι a ++ embJNodes ι b := by
  rw [embJNodes_toList, embJNodes_toList, embJNodes_toList]
  have : ∀ l : List JNode, (JNodes.ofList l).toList = l := by
    intro l; induction l with
    | nil => rfl
    | cons x r ih => simp [JNodes.ofList, JNodes.toList, ih]
  rw [this, List.map_append]

/-! ### the walk: embeddings of the input and of the walked tree -/

mutual
  /-- a node as the Python object the *walk* sees: `embJNode`, except that a tagifiable object records what its `tagify()`
      returns (the convention of `pyTagifyObj`, Py/PrimC10.lean) -/
  def embInNC20b (ι : Str → Option Int) : JNode → PVal
    | .comp name props kids =>
      .obj "JSXTag" [("name", .str name), ("attrs", .dict (embInPC20b ι props)),
                     ("children", .obj "TagList" [("data", .list (embInKC20b ι kids))])]
    | .tag name attrs kids =>
      .obj "Tag" [("name", .str name), ("attrs", embAttrs attrs),
                  ("children", .obj "TagList" [("data", .list (embInKC20b ι kids))]), ("add_ws", .bool true)]
    | .str .plain s => .str s
    | .str .jsx s => mkJsx s
    | .str .html s => .html s
    | .md (.mnode n) => .obj "MetadataNode" [("id", .int n)]
    | .md (.dep d) => .obj "HTMLDependency" [("name", .str d.name)]
    | .tobj e => .obj "TagifiableObj" [("tagify", embInNC20b ι e)]
    | .tobjL es => .obj "TagifiableObj" [("tagify", .obj "TagList" [("data", .list (embInKC20b ι es))])]
  def embInKC20b (ι : Str → Option Int) : JNodes → List PVal
    | .nil => []
    | .cons h t => embInNC20b ι h :: embInKC20b ι t
  def embInVC20b (ι : Str → Option Int) : JVal → PVal
    | .null => .none
    | .bool b => .bool b
    | .num t => (match ι t with
      | some n => .int n
      | none => .float t)
    | .list tup vs => if tup then .tuple (embInVsC20b ι vs) else .list (embInVsC20b ι vs)
    | .dict fs => .dict (embInPC20b ι fs)
    | .node n => embInNC20b ι n
  def embInVsC20b (ι : Str → Option Int) : JVals → List PVal
    | .nil => []
    | .cons h t => embInVC20b ι h :: embInVsC20b ι t
  def embInPC20b (ι : Str → Option Int) : JProps → List (Str × PVal)
    | .nil => []
    | .cons k v t => (k, embInVC20b ι v) :: embInPC20b ι t
end

mutual
  /-- a node of the *walked* tree (`(x.walk d).node`) as the object the walk returns: a component / tag with walked props and
      children; `.tobj e` there stands for an object the walk left un-expanded (`tagify()` of a tagifiable object returned
      another one), `.tobjL es` for the TagList a `tagify()` returned -/
  def embOutNC20b (ι : Str → Option Int) : JNode → PVal
    | .comp name props kids =>
      .obj "JSXTag" [("name", .str name), ("attrs", .dict (embOutPC20b ι props)),
                     ("children", .obj "TagList" [("data", .list (embOutKC20b ι kids))])]
    | .tag name attrs kids =>
      .obj "Tag" [("name", .str name), ("attrs", embAttrs attrs),
                  ("children", .obj "TagList" [("data", .list (embOutKC20b ι kids))]), ("add_ws", .bool true)]
    | .tobjL es => .obj "TagList" [("data", .list (embInKC20b ι es))]
    | n => embInNC20b ι n
  def embOutKC20b (ι : Str → Option Int) : JNodes → List PVal
    | .nil => []
    | .cons h t => embOutNC20b ι h :: embOutKC20b ι t
  def embOutVC20b (ι : Str → Option Int) : JVal → PVal
    | .node n => embOutNC20b ι n
    | v => embInVC20b ι v
  def embOutPC20b (ι : Str → Option Int) : JProps → List (Str × PVal)
    | .nil => []
    | .cons k v t => (k, embOutVC20b ι v) :: embOutPC20b ι t
end

/-- a collected metadata node as the Python object -/
def embMetaC20b (ι : Str → Option Int) (m : JMeta) : PVal := embInNC20b ι (.md m)

/-- the keys of a dict that `copy.copy` / `JSXTagAttrDict.__setitem__` would rename -/
def cleanKeysC20b (ks : List Str) : Bool := ks.all fun k => !k.contains '_'

mutual
  /-- side conditions of the tie for the walk, through the whole tree (expansions included): the props of a component have
      each name once (a Python dict has) and no name contains `_` (stored names never do: `normAttrName_no_underscoreC20b`; a
      name with `_`, put there behind the dict's back, would be renamed by `copy.copy` / the assignment of the walk); the
      attribute names of an html Tag likewise; a dict that is itself a prop value has no key with `_` (the universe does not
      tell a dict from a JSXTagAttrDict, which `copy.copy` would rename); no tagifiable object whose `tagify()` returns a tagifiable
      object whose `tagify()` returns a TagList (the model's `.tobjL` then stands for two different objects) -/
  def walkOkNC20b : JNode → Bool
    | .comp _ props kids => decide props.keys.Nodup && cleanKeysC20b props.keys && walkOkPC20b props && walkOkKC20b kids
    | .tag _ attrs kids => cleanKeysC20b (attrs.map (·.1)) && walkOkKC20b kids
    | .tobj (.tobjL _) => false
    | .tobj e => walkOkNC20b e
    | _ => true
  def walkOkKC20b : JNodes → Bool
    | .nil => true
    | .cons h t => walkOkNC20b h && walkOkKC20b t
  def walkOkVC20b : JVal → Bool
    | .node n => walkOkNC20b n
    | .dict fs => cleanKeysC20b fs.keys
    | _ => true
  def walkOkPC20b : JProps → Bool
    | .nil => true
    | .cons _ v t => walkOkVC20b v && walkOkPC20b t
end

mutual
  /-- calls of the walk nest at most this deep below a call on the node (the expansion of a tagifiable object is walked by
      the same call) -/
  def whNC20b : JNode → Nat
    | .comp _ props kids => max (whPC20b props) (whKC20b kids) + 1
    | .tag _ _ kids => whKC20b kids + 1
    | .tobj e => whNC20b e
    | _ => 1
  def whKC20b : JNodes → Nat
    | .nil => 0
    | .cons h t => max (whNC20b h) (whKC20b t)
  def whVC20b : JVal → Nat
    | .node n => whNC20b n
    | _ => 1
  def whPC20b : JProps → Nat
    | .nil => 0
    | .cons _ v t => max (whVC20b v) (whPC20b t)
end

theorem whN_posC20b : (x : JNode) → 1 ≤ whNC20b x
  | .comp _ _ _ => by simp [whNC20b]
  | .tag _ _ _ => by simp [whNC20b]
  | .str _ _ => by simp [whNC20b]
  | .md _ => by simp [whNC20b]
  | .tobj e => by simp only [whNC20b]; exact whN_posC20b e
  | .tobjL _ => by simp [whNC20b]

theorem whV_posC20b (v : JVal) : 1 ≤ whVC20b v := by
  cases v <;> simp [whVC20b, whN_posC20b]

/-! ### the visitor and the loops of the walk -/

/-- what the visitor returns for a value -/
def visOutC20b (ι : Str → Option Int) : JVal → PVal
  | .node (.tobj e) => embInNC20b ι e
  | .node (.tobjL es) => .obj "TagList" [("data", .list (embInKC20b ι es))]
  | v => embInVC20b ι v

/-- what it appends to `metadata_nodes` -/
def visMetasC20b (ι : Str → Option Int) : JVal → List PVal
  | .node (.md m) => [embMetaC20b ι m]
  | .node (.tobj (.md m)) => [embMetaC20b ι m]
  | _ => []

/-- the conditions of `walkOkVC20b` that one call of the visitor needs -/
def visOkC20b : JVal → Bool
  | .node (.comp _ ps _) => cleanKeysC20b ps.keys
  | .node (.tag _ a _) => cleanKeysC20b (a.map (·.1))
  | .node (.tobj (.comp _ ps _)) => cleanKeysC20b ps.keys
  | .node (.tobj (.tag _ a _)) => cleanKeysC20b (a.map (·.1))
  | .dict fs => cleanKeysC20b fs.keys
  | _ => true

theorem embInP_keysC20b (ι : Str → Option Int) : (ps : JProps) → (embInPC20b ι ps).map (·.1) = ps.keys
  | .nil => rfl
  | .cons k v t => by simp [embInPC20b, JProps.keys, embInP_keysC20b ι t]

theorem clean_anyC20b (kvs : List (Str × PVal)) (h : cleanKeysC20b (kvs.map (·.1)) = true) :
    kvs.any (fun kv => kv.1.contains '_') = false := by
  rw [List.any_eq_false]
  intro kv hkv
  have := (List.all_eq_true.mp h) kv.1 (List.mem_map.2 ⟨kv, hkv, rfl⟩)
  simpa using this

theorem embAttrs_cleanC20b (a : Attrs) (h : cleanKeysC20b (a.map (·.1)) = true) :
    (a.map fun kv => (kv.1, embVal kv.2)).all (fun kv => !kv.1.contains '_' && isStoredAttrC20b kv.2) = true := by
  rw [List.all_eq_true]
  intro x hx
  obtain ⟨kv, hkv, rfl⟩ := List.mem_map.1 hx
  have := (List.all_eq_true.mp h) kv.1 (List.mem_map.2 ⟨kv, hkv, rfl⟩)
  cases hv : kv.2 <;> simp_all [embVal, isStoredAttrC20b]

theorem embInNC20b_tobj (ι : Str → Option Int) (e : JNode) :
    embInNC20b ι (.tobj e) = .obj "TagifiableObj" [("tagify", embInNC20b ι e)] := by
  cases e <;> rfl

theorem normAttrName_cleanC20b (k : Str) (h : k.contains '_' = false) : normAttrName k = k := by
  have hm : '_' ∉ k := by simpa using h
  unfold normAttrName
  have hl : k.getLast? ≠ some '_' := by
    intro e
    exact hm (List.mem_of_getLast? e)
  simp only [hl, if_false]
  show List.map _ k = k
  rw [List.map_congr_left (g := id)]
  · simp
  · intro c hc
    have : c ≠ '_' := fun e => hm (e ▸ hc)
    simp [this]

theorem dictSet_midC20b (k : Str) (o v : PVal) : (pre rest : List (Str × PVal)) → k ∉ pre.map (·.1) →
    Py.dictSet k v (pre ++ (k, o) :: rest) = pre ++ (k, v) :: rest
  | [], rest, _ => by simp [Py.dictSet]
  | (k', v') :: t, rest, h => by
    simp only [List.map_cons, List.mem_cons, not_or] at h
    have : ¬ k' = k := fun e => h.1 e.symm
    simp [Py.dictSet, this, dictSet_midC20b k o v t rest h.2]

theorem setItemU_midC20b (pre rest : List PVal) (c v : PVal) :
    pySetItemU (.obj "TagList" [("data", .list (pre ++ c :: rest))]) (.int pre.length) v
      = .ok (.obj "TagList" [("data", .list (pre ++ v :: rest))]) := by
  have h1 : ¬ ((pre.length : Int) < 0) := by omega
  have h2 : ¬ ((pre.length : Int) < 0 ∨ (pre.length : Int).toNat ≥ (pre ++ c :: rest).length) := by
    simp
  have h3 : ¬ (pre.length + (rest.length + 1) ≤ pre.length) := by omega
  simp [pySetItemU, userListData?, fieldGet?, pySetItem, h1, h3, fieldSet]

/-- `enumerate` from `k` -/
def enumPC20b : Nat → List PVal → List PVal
  | _, [] => []
  | k, x :: r => .tuple [.int k, x] :: enumPC20b (k + 1) r

theorem zip_range'_C20b : (xs : List PVal) → (k : Nat) →
    ((List.range' k xs.length).zip xs).map (fun p => PVal.tuple [PVal.int (p.1 : Nat), p.2]) = enumPC20b k xs
  | [], k => rfl
  | x :: r, k => by
    simp only [List.length_cons, List.range'_succ, List.zip_cons_cons, List.map_cons, enumPC20b]
    rw [zip_range'_C20b r (k + 1)]

theorem pyEnumerate_taglistC20b (xs : List PVal) :
    pyEnumerate (.obj "TagList" [("data", .list xs)]) = .ok (.list (enumPC20b 0 xs)) := by
  simp only [pyEnumerate, pyIter, List.find?, pure_eq_ok, ok_bind]
  simp [List.range_eq_range', zip_range'_C20b]

/-- the child loop of the walk, whatever its body, for any object `mk data` given as a function of its children data: if one
    pass replaces the child at its position by the result of walking it and appends what that walk collected, the loop does
    so for every child -/
theorem kids_walk_loopC20b {β τ : Type} (mk : List PVal → PVal) (inE outE : JNode → PVal) (mt : JNode → List PVal)
    (ks : List JNode) (pre : List PVal) (mds : List PVal) (t0 : τ)
    (f : PVal → PVal × PVal × τ → PyM (ForInStep (PVal × PVal × τ)))
    (hstep : ∀ (pre' : List PVal) (c : JNode) (rest : List JNode) (mds' : List PVal) (t : τ), c ∈ ks →
      ∃ t', f (.tuple [.int pre'.length, inE c]) (mk (pre' ++ inE c :: rest.map inE), .list mds', t)
        = .ok (.yield (mk (pre' ++ outE c :: rest.map inE), .list (mds' ++ mt c), t')))
    (k : PVal × PVal × τ → PyM β) (r : PyM β)
    (hk : ∀ s, s.1 = mk (pre ++ ks.map outE) → s.2.1 = .list (mds ++ ks.flatMap mt) → k s = r) :
    (forIn (enumPC20b pre.length (ks.map inE)) (mk (pre ++ ks.map inE), PVal.list mds, t0) f >>= k) = r := by
  induction ks generalizing pre mds t0 with
  | nil => exact hk _ (by simp) (by simp)
  | cons c rest ih =>
    obtain ⟨t', ht'⟩ := hstep pre c rest mds t0 (by simp)
    simp only [List.map_cons, enumPC20b, List.forIn_cons, ht', ok_bind]
    have := ih (pre ++ [outE c]) (mds ++ mt c) t' (fun p c' r' m t hc => by
      exact hstep p c' r' m t (by simp [hc])) (fun s h1 h2 => hk s (by simpa using h1) (by simpa using h2))
    simpa using this

/-- the attribute loop of the walk on a JSXTag, likewise: the dict `pre ++ items` of an object `mk dict` -/
theorem props_walk_loopC20b {β τ : Type} (mk : List (Str × PVal) → PVal) (inE outE : JVal → PVal) (mt : JVal → List PVal)
    (ps : List (Str × JVal)) (pre : List (Str × PVal)) (mds : List PVal) (t0 : τ)
    (hnd : (pre.map (·.1) ++ ps.map (·.1)).Nodup)
    (f : PVal → PVal × PVal × τ → PyM (ForInStep (PVal × PVal × τ)))
    (hstep : ∀ (pre' : List (Str × PVal)) (kv : Str × JVal) (rest : List (Str × JVal)) (mds' : List PVal) (t : τ), kv ∈ ps →
      kv.1 ∉ pre'.map (·.1) →
      ∃ t', f (.tuple [.str kv.1, inE kv.2])
          (mk (pre' ++ (kv.1, inE kv.2) :: rest.map fun x => (x.1, inE x.2)), .list mds', t)
        = .ok (.yield (mk (pre' ++ (kv.1, outE kv.2) :: rest.map fun x => (x.1, inE x.2)), .list (mds' ++ mt kv.2), t')))
    (k : PVal × PVal × τ → PyM β) (r : PyM β)
    (hk : ∀ s, s.1 = mk (pre ++ ps.map fun x => (x.1, outE x.2)) → s.2.1 = .list (mds ++ ps.flatMap fun x => mt x.2) → k s = r) :
    (forIn (ps.map fun kv => PVal.tuple [.str kv.1, inE kv.2]) (mk (pre ++ ps.map fun x => (x.1, inE x.2)), PVal.list mds, t0) f
      >>= k) = r := by
  induction ps generalizing pre mds t0 with
  | nil => exact hk _ (by simp) (by simp)
  | cons kv rest ih =>
    have hfresh : kv.1 ∉ pre.map (·.1) := by
      intro hm
      have := List.nodup_append.mp hnd
      exact this.2.2 _ hm _ (by simp) rfl
    obtain ⟨t', ht'⟩ := hstep pre kv rest mds t0 (by simp) hfresh
    simp only [List.map_cons, List.forIn_cons, ht', ok_bind]
    have hnd' : ((pre ++ [(kv.1, outE kv.2)]).map (·.1) ++ rest.map (·.1)).Nodup := by
      simpa [List.append_assoc] using hnd
    have := ih (pre ++ [(kv.1, outE kv.2)]) (mds ++ mt kv.2) t' hnd' (fun p c' r' m t hc hf => by
      exact hstep p c' r' m t (by simp [hc]) hf) (fun s h1 h2 => hk s (by simpa using h1) (by simpa using h2))
    simpa using this

/-! ### the walk at the model level -/

/-- what the walk answers for a value, at the model level -/
def walkResC20b (ι : Str → Option Int) (v : JVal) (mds : List PVal) : PyM PVal :=
  .ok (.tuple [embOutVC20b ι (v.walkVal .demanded).node, .list (mds ++ (v.walkVal .demanded).metas.map (embMetaC20b ι))])

theorem embInK_toListC20b (ι : Str → Option Int) : (ks : JNodes) → embInKC20b ι ks = ks.toList.map (embInNC20b ι)
  | .nil => rfl
  | .cons h t => by simp [embInKC20b, JNodes.toList, embInK_toListC20b ι t]

theorem embInP_toListC20b (ι : Str → Option Int) : (ps : JProps) →
    embInPC20b ι ps = ps.toList.map fun kv => (kv.1, embInVC20b ι kv.2)
  | .nil => rfl
  | .cons k v t => by simp [embInPC20b, JProps.toList, embInP_toListC20b ι t]

theorem walkKids_outC20b (ι : Str → Option Int) : (ks : JNodes) →
    embOutKC20b ι (ks.walkKids .demanded).node = ks.toList.map (fun c => embOutNC20b ι (c.walk .demanded).node)
      ∧ (ks.walkKids .demanded).metas = ks.toList.flatMap (fun c => (c.walk .demanded).metas)
  | .nil => by simp [JNodes.walkKids, embOutKC20b, JNodes.toList]
  | .cons h t => by
    have := walkKids_outC20b ι t
    simp [JNodes.walkKids, embOutKC20b, JNodes.toList, this.1, this.2]

theorem walkProps_outC20b (ι : Str → Option Int) : (ps : JProps) →
    embOutPC20b ι (ps.walkProps .demanded).node = ps.toList.map (fun kv => (kv.1, embOutVC20b ι (kv.2.walkVal .demanded).node))
      ∧ (ps.walkProps .demanded).metas = ps.toList.flatMap (fun kv => (kv.2.walkVal .demanded).metas)
  | .nil => by simp [JProps.walkProps, embOutPC20b, JProps.toList]
  | .cons k v t => by
    have := walkProps_outC20b ι t
    simp [JProps.walkProps, embOutPC20b, JProps.toList, this.1, this.2]

theorem keys_toListC20b : (fs : JProps) → fs.keys = fs.toList.map (·.1)
  | .nil => rfl
  | .cons k v t => by simp [JProps.keys, JProps.toList, keys_toListC20b t]

theorem whK_memC20b : (ks : JNodes) → (c : JNode) → c ∈ ks.toList → whNC20b c ≤ whKC20b ks
  | .nil, c, h => by simp [JNodes.toList] at h
  | .cons x t, c, h => by
    simp only [JNodes.toList, List.mem_cons] at h
    simp only [whKC20b]
    rcases h with rfl | h
    · omega
    · have := whK_memC20b t c h; omega

theorem whP_memC20b : (ps : JProps) → (kv : Str × JVal) → kv ∈ ps.toList → whVC20b kv.2 ≤ whPC20b ps
  | .nil, kv, h => by simp [JProps.toList] at h
  | .cons k v t, kv, h => by
    simp only [JProps.toList, List.mem_cons] at h
    simp only [whPC20b]
    rcases h with rfl | h
    · simp only; omega
    · have := whP_memC20b t kv h; omega

theorem walkOkK_memC20b : (ks : JNodes) → walkOkKC20b ks = true → ∀ c ∈ ks.toList, walkOkNC20b c = true
  | .nil, _, c, h => by simp [JNodes.toList] at h
  | .cons x t, ht, c, h => by
    simp only [walkOkKC20b, Bool.and_eq_true] at ht
    simp only [JNodes.toList, List.mem_cons] at h
    rcases h with rfl | h
    · exact ht.1
    · exact walkOkK_memC20b t ht.2 c h

theorem walkOkP_memC20b : (ps : JProps) → walkOkPC20b ps = true → ∀ kv ∈ ps.toList, walkOkVC20b kv.2 = true
  | .nil, _, c, h => by simp [JProps.toList] at h
  | .cons k v t, ht, c, h => by
    simp only [walkOkPC20b, Bool.and_eq_true] at ht
    simp only [JProps.toList, List.mem_cons] at h
    rcases h with rfl | h
    · exact ht.1
    · exact walkOkP_memC20b t ht.2 c h

/-- `walkOkVC20b` gives what one call of the visitor needs -/
theorem visOk_of_walkOkC20b (v : JVal) (h : walkOkVC20b v = true) : visOkC20b v = true := by
  cases v with
  | node x =>
    cases x with
    | comp n ps ks => simp only [walkOkVC20b, walkOkNC20b, Bool.and_eq_true] at h; exact h.1.1.2
    | tag n a ks => simp only [walkOkVC20b, walkOkNC20b, Bool.and_eq_true] at h; exact h.1
    | tobj e =>
      cases e with
      | comp n ps ks => simp only [walkOkVC20b, walkOkNC20b, Bool.and_eq_true] at h; exact h.1.1.2
      | tag n a ks => simp only [walkOkVC20b, walkOkNC20b, Bool.and_eq_true] at h; exact h.1
      | _ => rfl
    | _ => rfl
  | dict fs => exact h
  | _ => rfl

/-! ### walked trees without un-expanded tagifiable objects: the embeddings coincide with `embJNode` -/

mutual
  /-- no tagifiable object anywhere in the tree (in a walked tree: none was left un-expanded) -/
  def noTobjNC20b : JNode → Bool
    | .comp _ props kids => noTobjPC20b props && noTobjKC20b kids
    | .tag _ _ kids => noTobjKC20b kids
    | .tobj _ => false
    | .tobjL _ => false
    | _ => true
  def noTobjKC20b : JNodes → Bool
    | .nil => true
    | .cons h t => noTobjNC20b h && noTobjKC20b t
  def noTobjVC20b : JVal → Bool
    | .list _ vs => noTobjVsC20b vs
    | .dict fs => noTobjPC20b fs
    | .node n => noTobjNC20b n
    | _ => true
  def noTobjVsC20b : JVals → Bool
    | .nil => true
    | .cons h t => noTobjVC20b h && noTobjVsC20b t
  def noTobjPC20b : JProps → Bool
    | .nil => true
    | .cons _ v t => noTobjVC20b v && noTobjPC20b t
end

mutual
  theorem embIn_eq_embJNC20b (ι : Str → Option Int) : (n : JNode) → noTobjNC20b n = true → embInNC20b ι n = embJNode ι n
    | .comp nm ps ks, h => by
      simp only [noTobjNC20b, Bool.and_eq_true] at h
      simp only [embInNC20b, embJNode, embIn_eq_embJPC20b ι ps h.1, embIn_eq_embJKC20b ι ks h.2]
    | .tag nm a ks, h => by
      simp only [noTobjNC20b] at h
      simp only [embInNC20b, embJNode, embIn_eq_embJKC20b ι ks h]
    | .str k s, _ => by cases k <;> rfl
    | .md m, _ => by cases m <;> rfl
    | .tobj e, h => by simp [noTobjNC20b] at h
    | .tobjL es, h => by simp [noTobjNC20b] at h
  theorem embIn_eq_embJKC20b (ι : Str → Option Int) : (ks : JNodes) → noTobjKC20b ks = true → embInKC20b ι ks = embJNodes ι ks
    | .nil, _ => rfl
    | .cons x t, h => by
      simp only [noTobjKC20b, Bool.and_eq_true] at h
      simp only [embInKC20b, embJNodes, embIn_eq_embJNC20b ι x h.1, embIn_eq_embJKC20b ι t h.2]
  theorem embIn_eq_embJVC20b (ι : Str → Option Int) : (v : JVal) → noTobjVC20b v = true → embInVC20b ι v = embJVal ι v
    | .null, _ => rfl
    | .bool _, _ => rfl
    | .num _, _ => rfl
    | .list tup vs, h => by
      simp only [noTobjVC20b] at h
      simp only [embInVC20b, embJVal, embIn_eq_embJVsC20b ι vs h]
    | .dict fs, h => by
      simp only [noTobjVC20b] at h
      simp only [embInVC20b, embJVal, embIn_eq_embJPC20b ι fs h]
    | .node n, h => by
      simp only [noTobjVC20b] at h
      simp only [embInVC20b, embJVal, embIn_eq_embJNC20b ι n h]
  theorem embIn_eq_embJVsC20b (ι : Str → Option Int) : (vs : JVals) → noTobjVsC20b vs = true → embInVsC20b ι vs = embJVals ι vs
    | .nil, _ => rfl
    | .cons x t, h => by
      simp only [noTobjVsC20b, Bool.and_eq_true] at h
      simp only [embInVsC20b, embJVals, embIn_eq_embJVC20b ι x h.1, embIn_eq_embJVsC20b ι t h.2]
  theorem embIn_eq_embJPC20b (ι : Str → Option Int) : (ps : JProps) → noTobjPC20b ps = true → embInPC20b ι ps = embJProps ι ps
    | .nil, _ => rfl
    | .cons k v t, h => by
      simp only [noTobjPC20b, Bool.and_eq_true] at h
      simp only [embInPC20b, embJProps, embIn_eq_embJVC20b ι v h.1, embIn_eq_embJPC20b ι t h.2]
end

mutual
  theorem embOut_eq_embJNC20b (ι : Str → Option Int) : (n : JNode) → noTobjNC20b n = true → embOutNC20b ι n = embJNode ι n
    | .comp nm ps ks, h => by
      simp only [noTobjNC20b, Bool.and_eq_true] at h
      simp only [embOutNC20b, embJNode, embOut_eq_embJPC20b ι ps h.1, embOut_eq_embJKC20b ι ks h.2]
    | .tag nm a ks, h => by
      simp only [noTobjNC20b] at h
      simp only [embOutNC20b, embJNode, embOut_eq_embJKC20b ι ks h]
    | .str k s, h => by simp only [embOutNC20b]; exact embIn_eq_embJNC20b ι _ h
    | .md m, h => by simp only [embOutNC20b]; exact embIn_eq_embJNC20b ι _ h
    | .tobj e, h => by simp [noTobjNC20b] at h
    | .tobjL es, h => by simp [noTobjNC20b] at h
  theorem embOut_eq_embJKC20b (ι : Str → Option Int) : (ks : JNodes) → noTobjKC20b ks = true → embOutKC20b ι ks = embJNodes ι ks
    | .nil, _ => rfl
    | .cons x t, h => by
      simp only [noTobjKC20b, Bool.and_eq_true] at h
      simp only [embOutKC20b, embJNodes, embOut_eq_embJNC20b ι x h.1, embOut_eq_embJKC20b ι t h.2]
  theorem embOut_eq_embJPC20b (ι : Str → Option Int) : (ps : JProps) → noTobjPC20b ps = true → embOutPC20b ι ps = embJProps ι ps
    | .nil, _ => rfl
    | .cons k v t, h => by
      simp only [noTobjPC20b, Bool.and_eq_true] at h
      have hv : embOutVC20b ι v = embJVal ι v := by
        cases v with
        | node n => simp only [noTobjVC20b] at h; simp only [embOutVC20b, embJVal, embOut_eq_embJNC20b ι n h.1]
        | null => rfl
        | bool _ => rfl
        | num _ => rfl
        | list tup vs => simp only [embOutVC20b]; exact embIn_eq_embJVC20b ι _ h.1
        | dict fs => simp only [embOutVC20b]; exact embIn_eq_embJVC20b ι _ h.1
      simp only [embOutPC20b, embJProps, hv, embOut_eq_embJPC20b ι t h.2]
end

/-! ### the script element `tagify` returns -/

/-- the `<script>` Tag `tagify` returns, as `Tag.__init__` leaves it: `js` the JavaScript, `r` / `rd` the two library
    dependencies, `metas` the collected metadata nodes -/
def scriptObjC20b (js : Str) (r rd : PVal) (metas : List PVal) : PVal :=
  .obj "Tag" [("name", .str (chars% "script")), ("add_ws", .bool true),
    ("attrs", .dict [(chars% "type", .str (chars% "text/javascript")), (chars% "data-needs-render", .str [])]),
    ("children", .obj "TagList" [("data", .list (.html ('\n' :: js ++ ['\n']) :: r :: rd :: metas))]),
    ("prev_displayhook", .none)]

/-- the lines `tagify` joins (the list of `jsWrap`, Model/Jsx.lean) -/
def jsWrapPartsC20b (name component : Str) : List Str := [
    chars% "(function() {",
    chars% "  var container = new DocumentFragment();",
    chars% "  ReactDOM.render(",
    component,
    chars% "  , container);",
    chars% "  var thisScript = document.querySelector('script[data-needs-render]');",
    chars% "  if (!thisScript) throw new Error('Failed to render JSXTag(\"" ++ (name ++ chars% "\")');"),
    chars% "  thisScript.after(container);",
    chars% "  thisScript.removeAttribute('data-needs-render');",
    chars% "})();"]

theorem jsWrap_partsC20b (name component : Str) : jsWrap name component = joinStr ['\n'] (jsWrapPartsC20b name component) := by
  simp [jsWrap, jsWrapPartsC20b, List.append_assoc]

theorem char10C20b : Char.ofNat 10 = '\n' := rfl
theorem char39C20b : Char.ofNat 39 = '\'' := rfl
theorem char34C20b : Char.ofNat 34 = '"' := rfl


end HtmlVerif.SrcTie
