"""C14 — Child lists hold only normalised nodes after any sequence of operations."""
from __future__ import annotations

import itertools

import core
import gen
from wire import Toks, earg, enode, eops, elist, p_arg, p_list, p_op

PID = "C14"
MANIFEST = dict(
    text="Lean theorems over a model of flatten/_tagchilds_to_tagnodes and of every TagList/Tag child operation in which the "
         "stored elements are `node n | raw a` (so the invariant can fail): C14_toNodes_is_spec / C14_tagnodes_is_spec / "
         "C14_init_is_spec (the code's flatten-then-convert equals the one-pass depth-first flattening `flatSpec`: lists, tuples, "
         "TagLists spliced, None dropped, numbers to str() text, strings whole; C14_flatSpec_none/num/node/splice/ok_iff/error pin "
         "that reading down), C14_step_refines / C14_ops_refine / C14_trace_refines (construction, append, extend, insert with "
         "Python index clamping, +, reflected +, +=, slicing, *, reflected *, *= each leave exactly what `specStep` says, over "
         "arbitrary histories incl. operands that mention the receiver), C14_normalise_inv / C14_new_lists_inv / C14_step_inv / "
         "C14_history_inv(_from_empty) (every stored element is a node after any history, by induction over the operation list), "
         "C14_step_atomic / C14_step_error_kind / C14_unsupported_rejected (an unsupported type at any depth raises TypeError and the "
         "list is unchanged, from any receiver state), C14_stored_are_nodes / C14_history_stored_are_nodes (is_tag_node holds for "
         "every stored element), C14_tagchild_complete / C14_accepted_is_tagchild (is_tag_child accepts everything the operations "
         "accept), C14_tag_delegates / C14_tag_init / C14_tag_history_inv (Tag.insert/extend/append act on `children` by the same "
         "functions), and the negative twins C14_inherited_iadd_breaks_inv / C14_inherited_iadd_splits_str (UserList.__iadd__ stores "
         "raw). The model is tied to the working tree by exhaustive small-scope and random long operation histories on TagList and "
         "on Tag (state after every step, is_tag_node of every stored element, exception kind), by function-level runs of "
         "_tagchilds_to_tagnodes / flatten / is_tag_child / is_tag_node over all argument shapes, and the executable statement "
         "(Ops/HoldsC14.lean: specStep, Inv, supported, isTagChild) is evaluated by the Lean driver on every real answer; a separate "
         "Python reference flattening is compared as a second oracle.",
    design="DESIGN.md §6 C14, §7 F-C14a F-C14b",
    note="Modelled, not verified: Python's isinstance/protocol dispatch (which Arg constructor a value is), str(number) (supplied by "
         "the harness), list slice assignment / extended slicing / list repetition (modelled as clampIdx / sliceIdx / rep and "
         "compared with the interpreter on every case), iteration of HTML (a UserString yields one-character HTML objects, so "
         "`x + HTML('ab')` adds two children: kept as the code does it, only `str` is 'kept whole'). Indices, repeat counts and "
         "slice bounds are ints. `+=` and is_tag_child(int) are modelled as the property demands (fixes/C14-iadd.patch, "
         "fixes/C14-is-tag-child-int.patch).",
    technique="Lean 4 proofs (mutual structural induction over nested arguments, induction over operation histories, refinement to a "
              "one-pass specification) + differential correspondence check of histories and predicates",
)
PROP_FILES = ["HtmlVerif/Props/C14.lean", "HtmlVerif/Props/SrcC14.lean", "HtmlVerif/Props/SrcC15b.lean"]

# ------------------------------------------------------------------ argument shapes
S = lambda s: ("node", ("text", s))  # noqa: E731
H = lambda s: ("node", ("html", s))  # noqa: E731
I = lambda n: ("num", "i", str(n))  # noqa: E731
F = lambda x: ("num", "f", str(float(x)))  # noqa: E731
NONE = ("none",)
DEP = ("node", ("dep", dict(name="d", version="1.0", vrank=0, source=None, script=[], stylesheet=[], metas=[], all_files=False),
                False, []))
TAG = ("node", ("tag", "div", True, [], [("text", "k"), ("tag", "br", False, [], [])]))
BADDEEP = ("list", [S("a"), ("tuple", [S("b"), ("list", [("bad", 0)])])])

# the pool of the exhaustive scope (DESIGN §6 C14): chosen so that every branch of flatten / the conversion loop / the str
# special cases / the iterable-vs-child distinction is hit, and so that a wrong splice or split is visible (multi-char strings)
POOL = [
    S("a"), S(""), S("cd"),                                            # strings: whole, empty, splittable
    I(3), ("num", "b", "True"), ("num", "f", "nan"), F("inf"),          # numbers incl. bool / nan / inf
    NONE,
    H("<i>x"), TAG, DEP, ("node", ("meta", 1)), ("node", ("robj", "<u>")),  # other nodes
    ("list", []), ("list", [I(1), ("list", [I(2), NONE])]),             # nested lists
    ("tuple", [S("a"), ("tuple", [NONE, S("b")])]),                     # nested tuples
    ("tl", [S("t"), H("u")]), ("list", [("tl", [S("t")]), ("tuple", [("tl", [])])]),   # TagLists at depth
    ("bad", 0), ("bad", 2), BADDEEP, ("list", [("seq", "bytes", [I(97)])]),       # invalid objects at every depth
    ("seq", "bytes", [I(97), I(98)]), ("seq", "range", [I(0), I(1)]), ("seq", "set", [S("k")]),
    ("seq", "dict", [S("k"), S("m")]), ("seq", "gen", [S("g"), ("list", [I(1), NONE])]),
    ("tl", [I(1), ("list", [S("z")])]),                                 # a TagList whose own data is not normalised
]
SMALL_POOL = [S("cd"), I(3), NONE, ("list", [I(1), ("list", [I(2), NONE])]), ("tuple", [S("a"), ("tl", [S("t")])]),
              H("hi"), BADDEEP, ("seq", "bytes", [I(97)]), ("bad", 0)]
TINY_POOL = [S("cd"), ("list", [I(1), ("list", [I(2), NONE])]), BADDEEP, ("seq", "gen", [S("g")]), NONE, H("hi")]
MICRO_POOL = [S("cd"), ("list", [I(1), ("tuple", [I(2), NONE])]), BADDEEP]
INDICES = [-7, -2, -1, 0, 1, 2, 7]
SLICES = [(None, None, None), (1, None, None), (None, -1, None), (-2, 7, None), (None, None, -1), (None, None, 2),
          (7, -7, -2), (None, None, 0)]


def alphabet(pool, indices, slices, muls, selfrefs=True):
    ops = []
    for a in pool:
        v = ("v", a)
        ops += [("extend", v), ("append", [v]), ("add", v), ("radd", v), ("iadd", v), ("init", [a])]
        ops += [("insert", i, v) for i in indices]
    ops.append(("init", [pool[0], pool[-1]]))
    ops.append(("init", []))
    ops.append(("append", []))
    ops.append(("append", [("v", pool[0]), ("v", pool[min(3, len(pool) - 1)])]))
    ops += [("slice",) + s for s in slices]
    for n in muls:
        ops += [("mul", n), ("rmul", n), ("imul", n)]
    if selfrefs:
        ops += [("extend", ("self",)), ("add", ("self",)), ("radd", ("self",)), ("iadd", ("self",)),
                ("insert", 1, ("self",)), ("append", [("inl", [NONE], [S("e")])])]
    return ops


BASE = ("init", [S("p"), S("q"), S("r")])


# ------------------------------------------------------------------ Python reference (second oracle, on terms)
class Reject(Exception):
    pass


def ref_flat(args):
    out = []
    for a in args:
        k = a[0]
        if k == "none":
            continue
        if k == "num":
            out.append(("text", a[2]))
        elif k == "node":
            out.append(a[1])
        elif k in ("list", "tuple", "tl"):
            out += ref_flat(a[1])
        else:
            raise Reject
    return out


def ref_operand(a):
    """children supplied by the operand of extend / + / reflected + / +="""
    if a[0] == "node" and a[1][0] == "text":
        return [a]
    if a[0] in ("list", "tuple", "tl"):
        return a[1]
    if a[0] == "seq":
        return a[2]
    if a[0] == "node" and a[1][0] == "html":
        return [("node", ("html", c)) for c in a[1][1]]
    raise Reject


def ref_resolve(a, s):
    me = ("tl", [("node", n) for n in s])
    if a[0] == "v":
        return a[1]
    if a[0] == "self":
        return me
    return ("list", list(a[1]) + [me] + list(a[2]))


def ref_step(s, o, is_tag):
    """-> (outcome, new list of node terms)"""
    k = o[0]
    try:
        if k == "init":
            args = [a for a in o[1] if not (is_tag and a[0] == "seq" and a[1] == "dict")]
            return "ok", ref_flat(args)
        if k in ("extend", "add", "iadd"):
            return "ok", s + ref_flat(ref_operand(ref_resolve(o[1], s)))
        if k == "radd":
            return "ok", ref_flat(ref_operand(ref_resolve(o[1], s))) + s
        if k == "append":
            if not o[1]:
                raise Reject
            return "ok", s + ref_flat([ref_resolve(a, s) for a in o[1]])
        if k == "insert":
            ns = ref_flat([ref_resolve(o[2], s)])
            t = list(s)
            t[o[1]:o[1]] = ns
            return "ok", t
        if k == "slice":
            if o[3] == 0:
                return "err valueError", s
            return "ok", s[o[1]:o[2]:o[3]]
        if k in ("mul", "rmul", "imul"):
            return "ok", s * o[1]
    except Reject:
        return "err typeError", s
    raise ValueError(o)


def ref_trace(is_tag, ops):
    s, out = [], []
    for o in ops:
        res, s = ref_step(s, o, is_tag)
        out.append(res + " " + elist(["n " + enode(n) + " T" for n in s]))
    return elist(out), len(s)


# ------------------------------------------------------------------ random arguments and histories
NUMS = [0, -1, 3, 10 ** 20, True, False, 1.5, -0.0, float("inf"), float("-inf"), float("nan"), 1e16, 1e-7, 3.0]


def num_term(v):
    return ("num", "b" if isinstance(v, bool) else "i" if isinstance(v, int) else "f", str(v))


def rand_leaf(rng, bad_p):
    r = rng.random()
    if r < 0.28:
        return S(gen.rand_text(rng, 6))
    if r < 0.46:
        return num_term(rng.choice(NUMS) if rng.random() < 0.7 else rng.randint(-999, 999))
    if r < 0.58:
        return NONE
    if r < 0.66:
        return H(rng.choice(gen.HTML_POOL))
    if r < 0.80:
        n = gen.rand_node(rng, rng.randint(0, 2), leaves=("text", "html", "robj", "meta"), fan=2)
        return ("node", n)
    if r < 0.84:
        return rng.choice([DEP, ("node", ("tobjL", None, [("text", "o")])), ("node", ("tobj1", "<r>", ("html", "h")))])
    if r < 0.84 + bad_p:
        return rng.choice([("bad", rng.randint(0, 8)), ("bad", 8), rand_seq(rng, 0, 0.0)])
    return S(rng.choice(["a", "", "cd"]))


def rand_seq(rng, depth, bad_p):
    kind = rng.choice(["bytes", "range", "set", "dict", "gen"])
    if kind == "bytes":
        return ("seq", kind, [I(rng.randint(0, 255)) for _ in range(rng.randint(0, 3))])
    if kind == "range":
        return ("seq", kind, [I(i) for i in range(rng.randint(0, 3))])
    if kind == "set":
        return ("seq", kind, [rng.choice([S("k"), I(5)])] if rng.random() < 0.8 else [])
    if kind == "dict":
        keys = rng.sample([S("k"), S("m"), I(5), S("")], rng.randint(0, 3))
        return ("seq", kind, keys)
    return ("seq", kind, [rand_arg(rng, depth, bad_p) for _ in range(rng.randint(0, 3))])


def rand_arg(rng, depth, bad_p=0.04):
    if depth <= 0 or rng.random() < 0.45:
        return rand_leaf(rng, bad_p)
    k = rng.choice(["list", "list", "tuple", "tl"])
    n = rng.choice([0, 1, 2, 2, 3, 4])
    if k == "tl" and rng.random() < 0.9:
        # a well-formed TagList argument: nodes only
        items = []
        for _ in range(n):
            x = rand_leaf(rng, 0.0)
            items.append(x if x[0] == "node" else S("w"))
        return ("tl", items)
    return (k, [rand_arg(rng, depth - 1, bad_p) for _ in range(n)])


def rand_oarg(rng, depth, bad_p, iterable_pos):
    r = rng.random()
    if r < 0.06:
        return ("self",)
    if r < 0.10:
        return ("inl", [rand_arg(rng, 1, bad_p) for _ in range(rng.randint(0, 2))], [rand_arg(rng, 1, bad_p) for _ in range(rng.randint(0, 2))])
    if iterable_pos:
        q = rng.random()
        if q < 0.12:
            return ("v", rand_seq(rng, depth - 1, bad_p))
        if q < 0.75:
            k = rng.choice(["list", "tuple", "tl"])
            if k == "tl":
                return ("v", ("tl", [x if x[0] == "node" else S("w") for x in (rand_leaf(rng, 0.0) for _ in range(rng.randint(0, 3)))]))
            return ("v", (k, [rand_arg(rng, depth - 1, bad_p) for _ in range(rng.randint(0, 4))]))
    return ("v", rand_arg(rng, depth, bad_p))


def rand_history(rng, maxlen, depth, is_tag):
    n = rng.randint(1, maxlen)
    bad_p = rng.choice([0.0, 0.03, 0.08])
    ops, s = [], []
    for _ in range(n):
        big = len(s) > 60
        r = rng.random()
        if r < 0.07 or (big and r < 0.4):
            o = ("init", [rand_arg(rng, depth, bad_p) for _ in range(rng.randint(0, 4))])
        elif r < 0.22:
            o = ("extend", rand_oarg(rng, depth, bad_p, True))
        elif r < 0.37:
            o = ("append", [rand_oarg(rng, depth, bad_p, False) for _ in range(rng.choice([0, 1, 1, 1, 2, 3]))])
        elif r < 0.52:
            o = ("insert", rng.choice(INDICES + [len(s), -len(s), len(s) // 2, 3, -3]), rand_oarg(rng, depth, bad_p, False))
        elif r < 0.62:
            o = ("add", rand_oarg(rng, depth, bad_p, True))
        elif r < 0.70:
            o = ("radd", rand_oarg(rng, depth, bad_p, True))
        elif r < 0.84:
            o = ("iadd", rand_oarg(rng, depth, bad_p, True))
        elif r < 0.93:
            b = lambda: rng.choice([None, None, 0, 1, 2, -1, -2, 5, -5, len(s), -len(s) - 1, 99, -99])  # noqa: E731
            o = ("slice", b(), b(), rng.choice([None, None, None, 1, 2, -1, -2, 3, 0]))
        else:
            o = (rng.choice(["mul", "rmul", "imul"]), rng.choice([0, 1, 2, 2, 3, -1]) if not big else rng.choice([0, 1, -2]))
        if big and o[0] in ("extend", "add", "radd", "iadd", "append", "insert") and _mentions_self(o):
            continue
        ops.append(o)
        _, s = ref_step(s, o, is_tag)
    return ops


def _mentions_self(o):
    xs = o[1] if o[0] == "append" else [o[-1]]
    return any(a[0] != "v" for a in xs)


def needs_work(a) -> bool:
    """the argument exercises flattening / conversion / rejection (not just a bare node)"""
    return a[0] != "node"


def op_nontrivial(o) -> bool:
    k = o[0]
    if k == "init":
        return any(needs_work(a) for a in o[1])
    if k in ("extend", "add", "radd", "iadd", "insert"):
        a = o[-1]
        if a[0] != "v":
            return True
        v = a[1]
        if v[0] in ("list", "tuple", "tl", "seq"):
            return any(needs_work(x) for x in v[1 if v[0] != "seq" else 2]) or k == "insert"
        return v[0] != "node" or (k != "insert" and v[1][0] in ("text", "html"))
    if k == "append":
        return (not o[1]) or any(a[0] != "v" or needs_work(a[1]) for a in o[1])
    return False


# ------------------------------------------------------------------ the run
CORPUS = [
    # F-C14a: x = TagList("a"); x += [1, [2, None]]   /   x += "cd"
    ("L", [("init", [S("a")]), ("iadd", ("v", ("list", [I(1), ("list", [I(2), NONE])])))]),
    ("L", [("init", [S("a")]), ("iadd", ("v", S("cd")))]),
    ("T", [("init", [S("a")]), ("iadd", ("v", ("tuple", [NONE, F(1.5)])))]),
    ("L", [("init", [S("a")]), ("iadd", ("v", ("bad", 0))), ("iadd", ("v", I(3))), ("iadd", ("self",))]),
    # atomicity: a bad value at depth after good ones
    ("L", [BASE, ("extend", ("v", ("list", [S("x"), BADDEEP]))), ("insert", 1, ("v", BADDEEP)), ("append", [("v", S("y")), ("v", ("bad", 1))])]),
    # index clamping
    ("L", [BASE] + [("insert", i, ("v", ("list", [I(i), NONE, S("s")]))) for i in (-7, 7, -1, 0, 2)]),
    ("T", [BASE, ("slice", None, None, -1), ("mul", 2), ("extend", ("self",)), ("slice", 1, -1, 2), ("imul", 0), ("radd", ("v", S("cd")))]),
]


_ENC: dict = {}   # id(op term) -> (op term, encoding); the alphabets' operations are encoded once


def hist_line(recv, ops, cached=False) -> str:
    if not cached:
        return f"c14_hist {recv} {eops(ops)}"
    parts = []
    for o in ops:
        hit = _ENC.get(id(o))
        if hit is None or hit[0] is not o:
            from wire import eop
            hit = (o, eop(o))
            _ENC[id(o)] = hit
        parts.append(hit[1])
    return f"c14_hist {recv} {elist(parts)}"


def parse_hist(line):
    t = Toks(line)
    assert t.next() == "c14_hist"
    recv = t.next()
    return recv, p_list(t, p_op)


def snippet(line: str) -> str:
    import ops_children as oc
    t = Toks(line)
    name = t.next()
    if name == "c14_hist":
        recv = t.next()
        return oc.py_history(recv == "T", p_list(t, p_op))
    a = p_arg(t)
    if name == "c14_pred":
        return f"from htmltools import *; from htmltools._core import is_tag_child, is_tag_node; v = {oc.py_arg(a)}; print(is_tag_child(v), is_tag_node(v)); TagList(v)"
    if name == "c14_t2n":
        return f"from htmltools import *; from htmltools._core import _tagchilds_to_tagnodes; print(_tagchilds_to_tagnodes({oc.py_arg(a)}))"
    return f"from htmltools import *; from htmltools._util import flatten; print(flatten({oc.py_arg(a)}))"


def run(tier: str) -> int:
    import ops
    ck = core.Check(PID, tier, PROP_FILES)
    ck.prepare()
    rng = ck.rng
    thorough = tier == "thorough"
    ck.rule = ("a case is one operation history on a TagList or on a Tag's children (observed: outcome and full list after every "
               "step, is_tag_node of every stored element), or one value given to _tagchilds_to_tagnodes / flatten / is_tag_child+"
               "is_tag_node; a history is non-trivial when at least one operation receives an argument that has to be normalised "
               "or rejected (container, None, number, unsupported type, the receiver itself, an operand string), a predicate case "
               "when the value is not a bare node; distinct by wire term")
    ck.assumptions += [
        "insertion indices, repeat counts and slice bounds are Python ints (None for an omitted slice bound)",
        "strings are sequences of Unicode scalar values (no lone surrogates)",
        "argument values are instances of the modelled classes: None, int/float/bool, str, HTML, Tag, MetadataNode/HTMLDependency, "
        "objects with _repr_html_ or tagify, list, tuple, TagList, other iterables (bytes, range, set, dict, generator), "
        "non-iterable objects; user subclasses of str/list/tuple with overridden protocols are not modelled",
        "an HTML operand of extend / + / reflected + / += is iterated like any non-str iterable (one-character HTML children), as the code does",
    ]
    lines: list[str] = []
    nontriv: list[bool] = []
    tags: list[str] = []

    terms: list = []      # (receiver, op terms) of every history line, None for the function-level lines
    nt_cache: dict = {}

    def nt(o):
        hit = nt_cache.get(id(o))
        if hit is None or hit[0] is not o:
            hit = (o, op_nontrivial(o))
            nt_cache[id(o)] = hit
        return hit[1]

    def add_hist(recv, ops_, tag):
        lines.append(hist_line(recv, ops_, cached=(tag != "random")))
        nontriv.append(any(nt(o) for o in ops_))
        tags.append(tag)
        terms.append((recv, ops_))

    # 0. corpus
    for recv, ops_ in CORPUS:
        add_hist(recv, ops_, "corpus")
    # 1. function level, every pool shape + nested variants
    shapes = list(POOL)
    shapes += [(k, [a]) for a in POOL for k in ("list", "tuple", "tl")]
    shapes += [("list", [a, ("tuple", [b])]) for a in SMALL_POOL for b in SMALL_POOL]
    shapes += [num_term(v) for v in NUMS]
    shapes += [("bad", k) for k in range(9)]
    for _ in range(ck.budget(1500, 30000)):
        shapes.append(rand_arg(rng, rng.randint(0, 5), rng.choice([0.0, 0.05, 0.15])) if rng.random() < 0.8
                      else rand_seq(rng, 2, 0.05))
    # deep nesting: a TagList / list / tuple below d levels of list and tuple nesting, d around typical recursion and table
    # limits and around every integer the source has started to mention (harness/literals.py)
    for d in sorted(set(gen.BOUNDARY_LEVELS)):
        if d > 130:
            continue
        for inner in (("tl", [S("a"), S("b")]), ("list", [S("c"), ("tl", [S("d")])]), ("tuple", [I(1), ("tl", [])])):
            a = inner
            for k in range(d):
                a = ("list" if k % 2 == 0 else "tuple", [a] + ([S("s")] if k % 17 == 0 else []))
            shapes.append(a)
    for a in shapes:
        for fn in ("c14_pred", "c14_t2n", "c14_flatten"):
            lines.append(f"{fn} {earg(a)}")
            nontriv.append(needs_work(a))
            tags.append(fn)
            terms.append(None)
    ck.exhaustive_scopes.append({"scope": f"is_tag_child / is_tag_node / _tagchilds_to_tagnodes / flatten on each of the {len(POOL)} pool "
                                          "shapes, each wrapped in list / tuple / TagList, all pairs of 9 shapes nested two deep, 14 numbers, 8 invalid objects",
                                 "values": len(POOL) * 4 + len(SMALL_POOL) ** 2 + len(NUMS) + 8, "exhaustive": True})
    # 2. exhaustive histories
    full = alphabet(POOL, INDICES, SLICES, [0, 2, -1])
    mid = alphabet(SMALL_POOL, [-7, -1, 0, 2], [(1, None, None), (None, None, -1), (None, -1, 2), (None, None, 0)], [2])
    tiny = alphabet(TINY_POOL, [-1, 1], [(None, None, -1), (1, None, None)], [2], selfrefs=False) + [("iadd", ("self",))]
    micro = [o for o in alphabet(MICRO_POOL, [-1], [(None, None, -1)], [], selfrefs=False)
             if not (o[0] == "init" and len(o[1]) != 1) and not (o[0] == "append" and len(o[1]) != 1)]
    micro += [("iadd", ("self",)), ("mul", 2)]
    n1 = n2 = n3 = n4 = 0
    for recv in "LT":
        for o in full:
            add_hist(recv, [o], "exh1"); add_hist(recv, [BASE, o], "exh1"); n1 += 2
    if thorough:
        for recv in "LT":
            for a, b in itertools.product(full, full):
                add_hist(recv, [BASE, a, b], "exh2"); n2 += 1
    else:
        for k, (a, b) in enumerate(itertools.chain(itertools.product(full, mid), itertools.product(mid, full))):
            add_hist("LT"[k % 2], [BASE, a, b], "exh2"); n2 += 1
    l3 = tiny if thorough else micro
    for k, (a, b, c) in enumerate(itertools.product(l3, l3, l3)):
        add_hist("LT"[k % 2], [BASE, a, b, c], "exh3"); n3 += 1
    if thorough:
        for k, (a, b, c, d) in enumerate(itertools.product(micro, micro, micro, micro)):
            add_hist("LT"[k % 2], [BASE, a, b, c, d], "exh4"); n4 += 1
    ck.exhaustive_scopes.append({"scope": f"all histories of length 1 (from the empty list and from ['p','q','r']) over the full alphabet of "
                                          f"{len(full)} operations = 11 operation kinds x {len(POOL)} argument shapes x indices {INDICES} x "
                                          f"{len(SLICES)} slices x repeat counts, on both receivers", "histories": n1, "exhaustive": True})
    ck.exhaustive_scopes.append({"scope": ("all pairs over the full alphabet on both receivers" if thorough else
                                           f"all pairs full x reduced and reduced x full (reduced = {len(mid)} operations over 9 shapes), receivers alternating"),
                                 "histories": n2, "exhaustive": True})
    ck.exhaustive_scopes.append({"scope": f"all triples over the {'small' if thorough else 'micro'} alphabet ({len(l3)} operations), receivers alternating",
                                 "histories": n3, "exhaustive": True})
    if thorough:
        ck.exhaustive_scopes.append({"scope": f"all 4-step histories over the micro alphabet ({len(micro)} operations over 3 shapes)",
                                     "histories": n4, "exhaustive": True})
    # 3. random long histories
    for _ in range(ck.budget(6000, 100000)):
        is_tag = rng.random() < 0.4
        add_hist("T" if is_tag else "L", rand_history(rng, rng.choice([3, 8, 20, 40]), rng.choice([1, 2, 3, 5]), is_tag), "random")

    impl = core.impl_many(lines)
    for l, im, nt, tg in zip(lines, impl, nontriv, tags):
        ck.add(l, im, nontrivial=nt, tag=tg)
    ck.add_src(["is_tag_node", "is_tag_child", "util_flatten_recurse", "util_flatten", "tagchilds_to_tagnodes",
                "TagList_should_not_expand", "TagList_init", "TagList_extend", "TagList_append", "TagList_insert",
                "TagList_add", "TagList_radd", "TagList_iadd"], quick=250, thorough=2500)
    ck.add_src(["Tag_initC15b", "Tag_insertC15b", "Tag_extendC15b", "Tag_appendC15b"], quick=250, thorough=2500)   # `tag_delegates` (Props/SrcC15b.lean)
    ck.correspond(holds=True)
    for f in ck.failures:
        if f.line and not f.py and f.line.split(" ", 1)[0] != "src":      # (`src` lines are the translator validation's own)
            f.py = snippet(f.line)
    # second oracle: the Python reference flattening, for every history
    n_ref = 0
    for l, im, tm in zip(lines, impl, terms):
        if tm is None:
            continue
        recv, ops_ = tm
        want, _ = ref_trace(recv == "T", ops_)
        n_ref += 1
        if want != im and len(ck.py_fail) < 50:
            ck.py_violation(l, im, "python reference: outcome/list after some step differs from the one-pass flattening; expected " + want[:2000],
                            py=snippet(l))
    # which clauses of the statement fail, with one reproducer each (the replay file carries only the first failing input)
    clauses: dict = {}
    for f in ck.failures:
        if f.kind != "property":
            continue
        c = " ".join(w for w in f.detail.split()[1:] if not w.startswith("step="))
        e = clauses.setdefault(c, {"count": 0, "example_python": f.py, "example_line": f.line[:400]})
        e["count"] += 1
    ck.extra_cov["failing_clauses"] = clauses
    ck.extra_cov["python_reference_histories"] = n_ref
    ck.extra_cov["repo_under_test"] = core.REPO
    ck.extra_cov["op_kinds"] = _op_mix(lines)

    def shrink(f):
        if not f.line.startswith("c14_hist") or ck.driver is None:
            return f
        recv, ops_ = parse_hist(f.line)

        def fails(cand):
            line = hist_line(recv, cand)
            im = ops.run_line(line)
            mo, h = ck.driver.run([line, f"holds {PID} {line} | {im}"])
            return (h != "T" or mo != im or ref_trace(recv == "T", cand)[0] != im), im, mo, h

        changed = True
        while changed and len(ops_) > 1:
            changed = False
            for k in range(len(ops_) - 1, -1, -1):
                cand = ops_[:k] + ops_[k + 1:]
                if cand and fails(cand)[0]:
                    ops_ = cand
                    changed = True
                    break
        bad, im, mo, h = fails(ops_)
        if not bad:
            return f
        line = hist_line(recv, ops_)
        return core.Failure("property", line=line, impl=im, model=mo,
                            detail=(h if h != "T" else "model/implementation differ") + " (shrunk from a longer history)",
                            py=snippet(line))

    return ck.finish(shrink=shrink)


def _op_mix(lines):
    mix: dict[str, int] = {}
    for l in lines:
        if l.startswith("c14_hist"):
            for tok in l.split():
                if tok in ("init", "extend", "append", "insert", "add", "radd", "iadd", "slice", "mul", "rmul", "imul"):
                    mix[tok] = mix.get(tok, 0) + 1
    return mix
