"""C17 — Tag context manager restores the display hook and collects children in order."""
from __future__ import annotations

import core
import gen
from wire import Toks, ehitem, ehprogs, ehval, elist, p_hitem, p_hprog, p_list

PID = "C17"
MANIFEST = dict(
    text="Lean theorems over an inductive type of programs (display v / with tag: body / raise, any nesting, raise anywhere) "
         "executed by a model that follows Tag.__enter__/__exit__/wrap_displayhook_handler/append as written: C17_restore, "
         "C17_restore_any, C17_restore_all (sys.displayhook after every with-statement, at every depth and on every exit path, "
         "is the hook before it — unconditional), C17_reenter, C17_reenter_active (entering a tag whose block is active raises "
         "RuntimeError and changes nothing), C17_collect / C17_collect_step / C17_collect_outer / C17_collect_final (a tag's "
         "children afterwards = before ++ normalised values displayed directly in its block, in order, up to the first raise, nested "
         "tags when their block exits; the recorder's log; untouched elsewhere), C17_child_rules, C17_invalid(+_propagates, "
         "C17_raise_skips_rest), C17_once / C17_once_outer / C17_once_nobody_else (each entered tag is handed exactly once, at its exit, "
         "to the hook current at its entry, on every exit path). All by mutual structural induction, for all programs and states. "
         "Tie: the same program terms are interpreted with real `with tag:` statements and sys.displayhook(v) calls (recorder as "
         "outermost hook, hook identity sampled around every block) and children, log, flags and exception kind are compared "
         "with the model and fed to the executable statement (Lean, spec side) for every case.",
    design="DESIGN.md §6 C17",
    note="Guard: the outermost hook is the harness's recorder, which never raises. Modelled, not verified: Python's `with` "
         "protocol itself (__exit__ runs on every exit path, a None result lets the exception propagate, an exception in __exit__ "
         "replaces the one in flight); isinstance dispatch of the wrapper and of _tagchilds_to_tagnodes on the eight value kinds of "
         "the model (lists/tuples/TagLists/Tagifiable objects as displayed values are outside the modelled alphabet); str(number) is "
         "supplied by the interpreter. Observed and modelled as is (not part of the property): __exit__ never clears "
         "prev_displayhook, so a tag cannot be entered a second time even after its block ended (C17_reenter_exited).",
    technique="Lean 4 proof by mutual structural induction over block programs with exceptions + differential correspondence "
              "check (exhaustive small programs, random deep programs) + executable statement evaluated on the real run",
)
PROP_FILES = ["HtmlVerif/Props/C17.lean"]

TXT = ("d", ("text", "a"))
NONE = ("d", ("none",))
ELL = ("d", ("ellipsis",))
REPR = ("d", ("reprHtml", "<r>"))
HTM = ("d", ("html", "<h>"))
NUM = ("d", ("num", "7"))
INV = ("d", ("invalid",))
SELF0 = ("d", ("tagRef", 0))
RAISE = ("r",)


# ------------------------------------------------------------------ exhaustive small scope
def forests(budget: int, depth: int, nxt: int, leafs):
    """all statement lists with <= budget statements and nesting <= depth, tags numbered in order of first appearance:
    a block's tag is a fresh one or ANY tag used before (active => re-enter raises; exited => raises too).
    yields (stmts, n_statements, next_fresh_id)"""
    yield ([], 0, nxt)
    if budget == 0:
        return
    for first, used1, nxt1 in stmts(budget, depth, nxt, leafs):
        for rest, used2, nxt2 in forests(budget - used1, depth, nxt1, leafs):
            yield ([first] + rest, used1 + used2, nxt2)


def stmts(budget: int, depth: int, nxt: int, leafs):
    for l in leafs:
        yield (l, 1, nxt)
    if depth > 0:
        for tid in range(nxt + 1):
            nxt1 = max(nxt, tid + 1)
            for body, used, nxt2 in forests(budget - 1, depth - 1, nxt1, leafs):
                yield (("b", tid, body), 1 + used, nxt2)


def n_tags(ps) -> int:
    m = 0
    for p in ps:
        if p[0] == "b":
            m = max(m, p[1] + 1, n_tags(p[2]))
        elif p[0] == "d" and p[1][0] == "tagRef":
            m = max(m, p[1][1] + 1)
    return m


def has_block(ps) -> bool:
    return any(p[0] == "b" for p in ps)


def depth_of(ps) -> int:
    return max([1 + depth_of(p[2]) for p in ps if p[0] == "b"] or [0])


def line_of(ps, init=None) -> str:
    n = n_tags(ps)
    init = init if init is not None else [[] for _ in range(n)]
    assert len(init) >= n
    return "hook_run " + elist([elist([ehitem(i) for i in l]) for l in init]) + " " + ehprogs(ps)


# ------------------------------------------------------------------ random deep programs
def rand_val(rng, ntags: int):
    r = rng.random()
    if r < 0.30:
        return ("text", gen.rand_text(rng, 6))
    if r < 0.40:
        return ("none",)
    if r < 0.47:
        return ("ellipsis",)
    if r < 0.57:
        x = rng.choice([0, 1, -3, 42, 10 ** 20, True, False, 1.5, -0.0, 1e100, 2.5e-7, float("inf"), float("nan"), 3.0])
        return ("num", str(x))
    if r < 0.67:
        return ("html", rng.choice(gen.HTML_POOL))
    if r < 0.80:
        return ("reprHtml", rng.choice(gen.HTML_POOL + ["<p>&</p>"]))
    if r < 0.92:
        return ("tagRef", rng.randrange(ntags))
    return ("invalid",)


def rand_prog(rng, ntags: int, depth: int, size: list, p_raise: float, p_inv: float, state: dict):
    """a statement list; `size` is a one-element budget; `state['next']` = next unused tag"""
    out = []
    n = rng.randint(0, 4)
    for _ in range(n):
        if size[0] <= 0:
            break
        size[0] -= 1
        r = rng.random()
        if depth > 0 and r < 0.45:
            q = rng.random()
            if q < 0.75 and state["next"] < ntags:
                t = state["next"]
                state["next"] += 1
            else:
                t = rng.randrange(ntags)          # usually a re-enter (active or exited); sometimes a tag not yet used
            # bias towards a deep spine
            out.append(("b", t, rand_prog(rng, ntags, depth - 1, size, p_raise, p_inv, state)))
        elif r < 0.45 + p_raise:
            out.append(RAISE)
        else:
            v = rand_val(rng, ntags)
            if v[0] == "invalid" and rng.random() > p_inv * 10:
                v = ("text", "k")
            out.append(("d", v))
    return out


def rand_spine(rng, ntags: int, depth: int, state: dict, p_raise: float):
    """a program that really reaches nesting `depth`: a chain of fresh blocks with random statements around"""
    size = [rng.randint(3, 12)]
    pre = rand_prog(rng, ntags, 0, size, 0.0, 0.0, state)
    if depth == 0 or state["next"] >= ntags:
        tail = rand_prog(rng, ntags, 1, [rng.randint(0, 4)], p_raise, 0.05, state)
        return pre + tail
    t = state["next"]
    state["next"] += 1
    inner = rand_spine(rng, ntags, depth - 1, state, p_raise)
    post = rand_prog(rng, ntags, 1, [rng.randint(0, 4)], p_raise / 2, 0.02, state)
    return pre + [("b", t, inner)] + post


def rand_init(rng, ntags: int):
    init = []
    for _ in range(ntags):
        l = []
        while rng.random() < 0.3:
            k = rng.random()
            if k < 0.5:
                l.append(("text", gen.rand_text(rng, 4)))
            elif k < 0.7:
                l.append(("html", rng.choice(gen.HTML_POOL)))
            elif k < 0.85:
                l.append(("robj", "<o>"))
            else:
                l.append(("tagRef", rng.randrange(ntags)))
        init.append(l)
    return init


# ------------------------------------------------------------------ pretty printer (replays)
def py_of(ps, ind="    ") -> str:
    out = []
    for p in ps:
        if p[0] == "r":
            out.append(ind + "raise Boom()")
        elif p[0] == "d":
            v = p[1]
            src = {"none": "None", "ellipsis": "...", "invalid": "object()", "text": repr(v[-1]), "num": v[-1],
                   "html": f"HTML({v[-1]!r})", "reprHtml": f"ReprObj({v[-1]!r})", "tagRef": f"t[{v[-1]}]"}[v[0]]
            out.append(ind + f"sys.displayhook({src})")
        else:
            out.append(ind + f"with t[{p[1]}]:")
            out.append(py_of(p[2], ind + "    ") if p[2] else ind + "    pass")
    return "\n".join(out)


def snippet(line: str) -> str:
    t = Toks(line.split(" ", 1)[1])
    init = p_list(t, lambda t: p_list(t, p_hitem))
    ps = p_list(t, p_hprog)
    return ("import sys; from htmltools import Tag, HTML\n"
            "class Boom(Exception): pass\n"
            "class ReprObj:\n    def __init__(s, h): s.h = h\n    def _repr_html_(s): return s.h\n"
            f"t = [Tag('div') for _ in range({len(init)})]   # initial children: {init!r}\n"
            "log = []; saved = sys.displayhook; sys.displayhook = log.append\n"
            "try:\n" + (py_of(ps) or "    pass") + "\n"
            "finally:\n    print(sys.displayhook == log.append, [x.children for x in t], log); sys.displayhook = saved\n")


def _shrink(f):
    """cases are evaluated in order of size, so the first failing input is already a smallest one: add the model's
    answer and a reproduction against the public API"""
    try:
        if not f.model:
            f.model = core.Driver().run([f.line])[0]
        if f.line.startswith("hook_run") and not f.py:
            f.py = snippet(f.line)
    except Exception:
        pass
    return f


# ------------------------------------------------------------------ runner
CORPUS = [
    # the two situations of tests/test_tags_context.py, in this alphabet
    [("b", 0, [TXT, ("d", ("tagRef", 3)), ("b", 1, [("b", 2, [("d", ("text", "world"))])]), ("d", ("text", "!"))])],
    [("b", 0, [RAISE])], [("b", 0, [INV])], [("b", 0, [("b", 0, [])])],
    # a tag displayed inside its own block (cycle through a reference), and inside a nested one
    [("b", 0, [SELF0, ("b", 1, [SELF0, ("d", ("tagRef", 1))])])],
    # re-entering: active at distance 1..3, exited sibling, exited then inside another
    [("b", 0, [("b", 1, [("b", 2, [("b", 0, [TXT])]), TXT]), TXT]), TXT],
    [("b", 0, [TXT]), ("b", 0, [TXT]), TXT],
    [("b", 0, [("b", 1, []), ("b", 2, [("b", 1, [TXT]), TXT]), TXT])],
    # exceptions at depth with siblings before/after; invalid at top level is only logged
    [INV, ELL, NONE, ("b", 0, [NONE, ELL, REPR, HTM, NUM, ("b", 1, [TXT, INV, TXT]), TXT]), TXT],
    [("b", 0, [("b", 1, [("b", 2, [("b", 3, [RAISE])])])]), TXT],
    [],
]


def run(tier: str) -> int:
    ck = core.Check(PID, tier, PROP_FILES)
    ck.prepare()
    rng = ck.rng
    ck.rule = ("a case is one program run (initial children, statement list) or one single-value normalisation; non-trivial = "
               "the program contains at least one with-block; distinct by wire term")
    cases = []  # (line, nontrivial, tag)

    def add_prog(ps, tag, init=None):
        cases.append((line_of(ps, init), has_block(ps), tag))

    # 0. the value rules, one value at a time (Tag.append and the wrapper in isolation)
    vals = [("none",), ("ellipsis",), ("invalid",), ("tagRef", 0), ("tagRef", 1)]
    strs = ["", "a", "<&>", "x\ny", "é😀"] + [gen.rand_text(rng, 8) for _ in range(ck.budget(20, 200))]
    for s in strs:
        vals += [("text", s), ("html", s), ("reprHtml", s)]
    for x in [0, 1, -1, True, False, 1.5, -0.0, 1e22, 1e-7, float("inf"), float("-inf"), float("nan"), 10 ** 30]:
        vals.append(("num", str(x)))
    for v in vals:
        cases.append(("hook_append " + ehval(v), True, "append"))
        cases.append(("hook_wrap " + ehval(v), True, "wrap"))
        add_prog([("b", 0, [("d", v)])] if v[0] != "tagRef" else [("b", 2, [("d", v)])], "single")
    # 1. corpus
    for ps in CORPUS:
        add_prog(ps, "corpus")
    # 2. exhaustive small scope: a raise of every kind at every possible point
    ex = []
    if tier == "quick":
        scopes = [(6, 4, [TXT, INV, RAISE], "text / invalid value / raise"),
                  (5, 4, [TXT, NONE, ELL, REPR, INV, RAISE, SELF0], "text / None / Ellipsis / _repr_html_ object / invalid / raise / the first tag itself")]
    else:
        scopes = [(6, 4, [TXT, NONE, REPR, INV, RAISE], "text / None / _repr_html_ object / invalid / raise"),
                  (5, 5, [TXT, NONE, ELL, REPR, HTM, NUM, INV, RAISE, SELF0], "all nine leaf kinds"),
                  (6, 6, [TXT, INV, RAISE], "text / invalid value / raise (nesting to 6)")]
    seen = set()
    for (n, d, leafs, what) in scopes:
        k = 0
        for f, _, _ in forests(n, d, 0, leafs):
            l = line_of(f)
            k += 1
            if l in seen:
                continue
            seen.add(l)
            ex.append((l, has_block(f), "exhaustive"))
        ck.exhaustive_scopes.append({
            "scope": f"all programs with <= {n} statements, nesting <= {d}, leaves: {what}; every with-statement over a fresh tag or "
                     "any tag used before (active or already exited)", "programs": k, "exhaustive": True})
    cases += ex
    # 3. random deep programs (nesting up to 10), random initial children, rich values
    for _ in range(ck.budget(6000, 120000)):
        ntags = rng.randint(1, 14)
        state = {"next": 0}
        depth = rng.randint(0, 10)
        p_raise = rng.choice([0.0, 0.0, 0.03, 0.1])
        if rng.random() < 0.5:
            ps = rand_spine(rng, ntags, depth, state, p_raise)
        else:
            ps = rand_prog(rng, ntags, depth, [rng.randint(1, 40)], p_raise, rng.choice([0.0, 0.02]), state)
        add_prog(ps, f"random-depth-{min(depth_of(ps), 10)}", rand_init(rng, max(ntags, n_tags(ps))))
    cases.sort(key=lambda c: len(c[0]))   # stable; the failing input reported first is then a smallest one
    lines = [c[0] for c in cases]
    impl = core.impl_many(lines)
    for (l, nt, tag), im in zip(cases, impl):
        ck.add(l, im, nontrivial=nt, tag=tag)
        if im.startswith("raised"):
            ck.tagc("outcome-" + im.split(" ", 2)[1])
    ck.correspond(holds=True)
    return ck.finish(shrink=_shrink)


def replay(body: dict) -> int:
    import ops
    line = body.get("line")
    if not line:
        import json
        print(json.dumps(body, indent=1))
        print("no concrete input in this replay file (no-failing-input-found)")
        return 1
    impl = ops.run_line(line)
    drv = core.Driver()
    model, holds = drv.run([line, f"holds {PID} {line} | {impl}"])
    if line.startswith("hook_run"):
        print(snippet(line))
    print("line :", line)
    print("impl :", impl, "   (outcome, recorder current again, per-with hook restored, recorder log, children per tag)")
    print("model:", model)
    print("statement holds on impl answer:", holds)
    return 0 if (impl == model and holds == "T") else 1
