/-
JSX components (htmltools/_jsx.py): JSXTagAttrDict name normalisation (41-69), JSXTag.__init__ (86-105),
JSXTag.tagify (113-174), _walk_attrs_and_children (186-201), _render_react_js (207-250),
_serialize_attr (255-271), _serialize_style_attr (274-287), _lib_dependency (371-377).

The component tree is an own mutual inductive (`JNode` …).  Mutation is returned state: the walk returns,
next to the walked copy and the collected metadata nodes, what the *visited* object looks like afterwards
(`orig`), derived from the copy discipline of each object kind (`Discipline`): whether `copy.copy` of a JSXTag
gives the copy its own `attrs`/`children` containers, whether the result of a user `tagify()` is copied before
the walk assigns into it, and which object is rendered.  `Discipline.demanded` is what property C20 demands
(and what the repaired code does); `Discipline.pinned` is `_jsx.py` as pinned (F-C20).  Purity is therefore a
theorem about `(jsxTagify .demanded …).after` which is false for `.pinned`.
-/
import HtmlVerif.Model.Attrs

namespace HtmlVerif

open Lean in
/-- `chars% "abc"` : the string literal as an explicit `List Char` literal (so that nothing in a proof has to
    evaluate `String.toList`) -/
macro:max "chars%" s:str : term => do
  let elems : Array Term := s.getString.toList.toArray.map fun c => Syntax.mkCharLit c
  `(([$elems,*] : List Char))

/-! ### strings -/

/-- `s.split(c)` for a one-character separator: always at least one piece -/
def splitOn (c : Char) : Str → List Str
  | [] => [[]]
  | x :: xs =>
    if x = c then [] :: splitOn c xs
    else match splitOn c xs with
      | [] => [[x]]
      | p :: ps => (x :: p) :: ps

/-- `'"' + x.replace('"', '\\"') + '"'`  (_jsx.py:213, 271) -/
def jsQuote (s : Str) : Str :=
  '"' :: replaceChar '"' ['\\', '"'] s ++ ['"']

/-- `d[k] = v` on an insertion-ordered dict -/
def odictSet {β} (k : Str) (v : β) : List (Str × β) → List (Str × β)
  | [] => [(k, v)]
  | (k', v') :: r => if k' = k then (k, v) :: r else (k', v') :: odictSet k v r

/-- `dict([tuple(y.split(":")) for y in x.split(";") if re.search(":", y)])` (_jsx.py:279-283):
    a piece with more than one colon is a tuple of length ≠ 2, which `dict()` rejects (ValueError) -/
def styleTuples : List Str → Except Err (List (Str × Str))
  | [] => .ok []
  | y :: ys =>
    if y.contains ':' then
      match splitOn ':' y with
      | [a, b] =>
        match styleTuples ys with
        | .ok r => .ok ((a, b) :: r)
        | .error e => .error e
      | _ => .error .valueError
    else styleTuples ys

def parseStyle (s : Str) : Except Err (List (Str × Str)) :=
  match styleTuples (splitOn ';' s) with
  | .ok ts => .ok (ts.foldl (fun acc kv => odictSet kv.1 kv.2 acc) [])
  | .error e => .error e

/-- `"{" + ", ".join(fields) + "}"` -/
def jsObj (fields : List Str) : Str := '{' :: joinStr [',', ' '] fields ++ ['}']

def jsArr (items : List Str) : Str := '[' :: joinStr [',', ' '] items ++ [']']

/-- `f'"{k}": {v}'` — the key is written as it is -/
def jsField (k v : Str) : Str := '"' :: k ++ '"' :: ':' :: ' ' :: v

/-- a CSS string as a style object: every value a quoted string -/
def styleOfString (s : Str) : Except Err Str :=
  match parseStyle s with
  | .ok kvs => .ok (jsObj (kvs.map fun kv => jsField kv.1 (jsQuote kv.2)))
  | .error e => .error e

/-! ### the component tree -/

/-- the three string classes that can sit in a component: `str`, `jsx` (a `str` subclass), `HTML` (not a `str`) -/
inductive StrKind
  | plain | jsx | html
  deriving DecidableEq, Repr, Inhabited

/-- a metadata node: bare `MetadataNode` or an `HTMLDependency` (without `head`) -/
inductive JMeta
  | mnode (n : Nat)
  | dep (d : DepInfo)
  deriving DecidableEq, Repr, Inhabited

def JMeta.toNode : JMeta → Node
  | .mnode n => .mnode n
  | .dep d => .dep d false .nil

mutual
  inductive JNode
    | comp (name : Str) (props : JProps) (kids : JNodes)   -- JSXTag: attrs (stored, i.e. normalised, dict order), children
    | tag (name : Str) (attrs : Attrs) (kids : JNodes)     -- html Tag
    | str (k : StrKind) (s : Str)
    | md (m : JMeta)                                       -- metadata node
    | tobj (exp : JNode)                                   -- tagifiable object; `tagify()` returns `exp`
    | tobjL (exp : JNodes)                                 -- tagifiable object whose `tagify()` returns a TagList
  inductive JNodes
    | nil
    | cons (h : JNode) (t : JNodes)
  /-- a prop value -/
  inductive JVal
    | null
    | bool (b : Bool)
    | num (txt : Str)                                      -- int / float, carried as its `str()` (supplied by the harness)
    | list (tup : Bool) (vs : JVals)                       -- list / tuple
    | dict (fs : JProps)
    | node (n : JNode)                                     -- str / jsx / HTML / tag / component / tagifiable object
  inductive JVals
    | nil
    | cons (h : JVal) (t : JVals)
  inductive JProps
    | nil
    | cons (k : Str) (v : JVal) (t : JProps)
end

instance : Inhabited JNode := ⟨.str .plain []⟩
instance : Inhabited JNodes := ⟨.nil⟩
instance : Inhabited JVal := ⟨.null⟩
instance : Inhabited JProps := ⟨.nil⟩

/-- a `str` prop value -/
abbrev JVal.str (s : Str) : JVal := .node (.str .plain s)
/-- a `jsx()` prop value -/
abbrev JVal.jsx (s : Str) : JVal := .node (.str .jsx s)

def JNodes.toList : JNodes → List JNode
  | .nil => []
  | .cons h t => h :: t.toList

def JNodes.ofList : List JNode → JNodes
  | [] => .nil
  | h :: t => .cons h (JNodes.ofList t)

def JVals.toList : JVals → List JVal
  | .nil => []
  | .cons h t => h :: t.toList

def JVals.ofList : List JVal → JVals
  | [] => .nil
  | h :: t => .cons h (JVals.ofList t)

def JProps.toList : JProps → List (Str × JVal)
  | .nil => []
  | .cons k v t => (k, v) :: t.toList

def JProps.ofList : List (Str × JVal) → JProps
  | [] => .nil
  | (k, v) :: t => .cons k v (JProps.ofList t)

def JProps.keys : JProps → List Str
  | .nil => []
  | .cons k _ t => k :: t.keys

def JProps.isEmpty : JProps → Bool
  | .nil => true
  | _ => false

def JNodes.isEmpty : JNodes → Bool
  | .nil => true
  | _ => false

/-- `d[k] = v` on the props dict: replace in place, else append -/
def JProps.set (k : Str) (v : JVal) : JProps → JProps
  | .nil => .cons k v .nil
  | .cons k' v' t => if k' = k then .cons k v t else .cons k' v' (t.set k v)

def JProps.lookup (k : Str) : JProps → Option JVal
  | .nil => none
  | .cons k' v t => if k' = k then some v else t.lookup k

/-! ### construction: JSXTagAttrDict(**kwargs) and JSXTag.__init__ -/

/-- `JSXTagAttrDict._update` (59-63): keys normalised one after the other into a fresh dict -/
def mkProps (kwargs : List (Str × JVal)) : JProps :=
  kwargs.foldl (fun acc kv => acc.set (normAttrName kv.1) kv.2) .nil

/-- `_name.split(".")[-1][:1]` -/
def nameInitial (name : Str) : Str :=
  match (splitOn '.' name).getLast? with
  | some p => p.take 1
  | none => []

/-- a *declared* allow-list (`allowedProps is not None`) must list every keyword; a declared empty list allows
    nothing.  This is what C20 demands ("a prop outside a declared allow-list is rejected at construction") and what
    the docstring of `jsx_tag_create` says ("If None, all properties are allowed"). -/
def propsAllowed (allowed : Option (List Str)) (kwargs : List (Str × JVal)) : Bool :=
  match allowed with
  | none => true
  | some ps => kwargs.all fun kv => ps.contains kv.1

/-- `_jsx.py` as pinned (97): `if allowedProps:` — truthiness, so a declared empty list is "no restriction"
    (defect F-C20b; `C20_allowed_fails_for_pinned`) -/
def propsAllowedPinned (allowed : Option (List Str)) (kwargs : List (Str × JVal)) : Bool :=
  match allowed with
  | none => true
  | some [] => true
  | some ps => kwargs.all fun kv => ps.contains kv.1

/-- `JSXTag.__init__` (86-105).  `upper` is Python's `str.upper` (runtime, supplied by the harness);
    `kids` are the children as `TagList(*args)` stores them. -/
def jsxInit (upper : Str → Str) (name : Str) (allowed : Option (List Str))
    (kwargs : List (Str × JVal)) (kids : JNodes) : Except Err JNode :=
  if nameInitial name ≠ upper (nameInitial name) then .error .notImplemented
  else if !propsAllowed allowed kwargs then .error .notImplemented
  else .ok (.comp name (mkProps kwargs) kids)

/-! ### _render_react_js / _serialize_attr / _serialize_style_attr -/

/-- the JavaScript for a number whose Python `str()` is `t`: a finite number is written as Python writes it; Python
    writes the non-finite floats as `inf` / `-inf` / `nan`, which are not JavaScript numbers (bare identifiers that
    are not defined), and C20 demands "numbers … written as the corresponding JavaScript": `Infinity` / `-Infinity` /
    `NaN`.  The pinned `_serialize_attr` (`str(x)`, 281-282) writes `t` for every number (defect F-C20c). -/
def numJs (t : Str) : Str :=
  if t = chars% "inf" then chars% "Infinity"
  else if t = chars% "-inf" then chars% "-Infinity"
  else if t = chars% "nan" then chars% "NaN"
  else t

def sCreate : Str := chars% "React.createElement("

/-- attribute value of an html Tag (`str` or `HTML`) under key `k` (235-239) -/
def attrValJs (k : Str) (v : AttrVal) : Except Err Str :=
  if k = chars% "style" then
    match v with
    | .plain s => styleOfString s
    | .html _ => .error .typeError          -- HTML is not a `str`: "must be a dict() or string"
  else .ok (jsQuote v.str)

/-- the `for k, v in x.attrs.items()` loop for an html Tag: the fields `"k": v` -/
def attrsJs : Attrs → Except Err (List Str)
  | [] => .ok []
  | (k, v) :: r =>
    match attrValJs k v with
    | .error e => .error e
    | .ok s =>
      match attrsJs r with
      | .error e => .error e
      | .ok rs => .ok (jsField k s :: rs)

/-- the common tail of `_render_react_js` (222-250) once name, attribute fields and child strings are known -/
def elemJs (i : Nat) (eol nm : Str) (noAttrs noKids : Bool)
    (fields : Except Err (List Str)) (kids : Except Err Str) : Except Err Str :=
  let ind := indentStr i
  if noAttrs && noKids then .ok (ind ++ sCreate ++ nm ++ [')'])
  else match fields with
    | .error e => .error e
    | .ok fs =>
      let res := ind ++ sCreate ++ eol ++ ind ++ [' ', ' '] ++ nm ++ [',', ' '] ++ jsObj fs
      if noKids then .ok (res ++ [')'])
      else match kids with
        | .error e => .error e
        | .ok ks => .ok (res ++ ks ++ eol ++ ind ++ [')'])

mutual
  /-- `_render_react_js(x, indent, eol)` -/
  def JNode.renderJs : JNode → Nat → Str → Except Err Str
    | .md _, _, _ => .ok []
    | .str .html _, _, _ => .error .typeError
    | .str _ s, i, _ => .ok (indentStr i ++ jsQuote s)
    | .comp name props kids, i, eol =>
      elemJs i eol name props.isEmpty kids.isEmpty (props.fieldsJs true) (kids.kidsJs (i + 1) eol)
    | .tag name attrs kids, i, eol =>
      elemJs i eol ('\'' :: name ++ ['\'']) attrs.isEmpty kids.isEmpty (attrsJs attrs) (kids.kidsJs (i + 1) eol)
    | .tobj _, _, _ => .error .typeError      -- "x must be a tag or JSXTag object. Did you run tagify()?"
    | .tobjL _, _, _ => .error .typeError
  /-- the `for child in x.children` loop (245-248): `"," + eol + child_str` for every non-empty child string -/
  def JNodes.kidsJs : JNodes → Nat → Str → Except Err Str
    | .nil, _, _ => .ok []
    | .cons h t, i, eol =>
      match h.renderJs i eol with
      | .error e => .error e
      | .ok cs =>
        match t.kidsJs i eol with
        | .error e => .error e
        | .ok rest => .ok ((if cs = [] then [] else ',' :: eol ++ cs) ++ rest)
  /-- `_serialize_attr(x)` -/
  def JVal.serialize : JVal → Except Err Str
    | .null => .ok chars% "null"
    | .bool b => .ok (if b then chars% "true" else chars% "false")
    | .num t => .ok (numJs t)
    | .list _ vs =>
      match vs.serializeAll with
      | .error e => .error e
      | .ok ss => .ok (jsArr ss)
    | .dict fs =>
      match fs.fieldsJs false with
      | .error e => .error e
      | .ok ss => .ok (jsObj ss)
    | .node (.str .jsx s) => .ok s
    | .node (.str _ s) => .ok (jsQuote s)
    | .node (.comp n p k) => (JNode.comp n p k).renderJs 0 ['\n']
    | .node (.tag n a k) => (JNode.tag n a k).renderJs 0 ['\n']
    | .node _ => .error .exception          -- an object written as `str(x)`: runtime repr, not modelled
  def JVals.serializeAll : JVals → Except Err (List Str)
    | .nil => .ok []
    | .cons h t =>
      match h.serialize with
      | .error e => .error e
      | .ok s =>
        match t.serializeAll with
        | .error e => .error e
        | .ok ss => .ok (s :: ss)
  /-- `_serialize_style_attr(x)` -/
  def JVal.serializeStyle : JVal → Except Err Str
    | .null => .ok ['{', '}']
    | .node (.str .html _) => .error .typeError
    | .node (.str _ s) => styleOfString s
    | .dict fs =>
      match fs.fieldsJs false with
      | .error e => .error e
      | .ok ss => .ok (jsObj ss)
    | _ => .error .typeError
  /-- the fields `"k": v` of a props dict (`top`: the `style` key goes through `_serialize_style_attr`)
      or of a dict value (`top = false`) -/
  def JProps.fieldsJs (top : Bool) : JProps → Except Err (List Str)
    | .nil => .ok []
    | .cons k v t =>
      match (if top && k = chars% "style" then v.serializeStyle else v.serialize) with
      | .error e => .error e
      | .ok s =>
        match t.fieldsJs top with
        | .error e => .error e
        | .ok ss => .ok (jsField k s :: ss)
end

/-! ### the walk -/

/-- which objects own their containers after `copy.copy`, and which object is rendered -/
structure Discipline where
  /-- `copy.copy(JSXTag)` gives the copy its own `attrs` and `children` -/
  jsxCopy : Bool
  /-- the value returned by a user `tagify()` is copied before the walk assigns into it -/
  expCopy : Bool
  /-- `_render_react_js` is applied to the walked copy (else to `self`) -/
  renderCopy : Bool
  deriving DecidableEq, Repr

/-- `_jsx.py` as pinned: `copy.copy(self)` shares `attrs`/`children`; `x = x.tagify()` walked in place; `self` rendered -/
def Discipline.pinned : Discipline := ⟨false, false, false⟩
/-- what C20 demands -/
def Discipline.demanded : Discipline := ⟨true, true, true⟩

/-- result of walking one object: the value installed in the copy, the visited object afterwards,
    the metadata nodes appended to `metadata_nodes` (in call order of `fn`) -/
structure Walked (α : Type) where
  node : α
  orig : α
  metas : List JMeta

mutual
  /-- `_walk_attrs_and_children(x, fn)` with `fn = tagify_tagifiable_and_get_metadata` (121-128, 186-201) -/
  def JNode.walk (d : Discipline) : JNode → Walked JNode
    | .comp n ps ks =>
      -- fn: copy.copy(x) (a JSXTag); then attrs values, then children are assigned in the copy's containers
      let p := ps.walkProps d
      let k := ks.walkKids d
      { node := .comp n p.node k.node
        orig := if d.jsxCopy then .comp n p.orig k.orig else .comp n p.node k.node
        metas := p.metas ++ k.metas }
    | .tag n a ks =>
      -- fn: copy.copy(x) = Tag.__copy__, own attrs and children (_core.py:683-690)
      let k := ks.walkKids d
      { node := .tag n a k.node, orig := .tag n a k.orig, metas := k.metas }
    | .str k s => { node := .str k s, orig := .str k s, metas := [] }
    | .md m => { node := .md m, orig := .md m, metas := [m] }     -- copy.copy(x); appended
    | .tobj e =>
      -- fn: x = x.tagify(); the descent then continues on the expansion
      let r := e.walkExp d
      { node := r.node, orig := .tobj r.orig, metas := r.metas }
    | .tobjL es => { node := .tobjL es, orig := .tobjL es, metas := [] }   -- a TagList: `elif Tagifiable: pass`
  /-- the part of the walk that acts on the value a `tagify()` returned (fn is not applied to it again) -/
  def JNode.walkExp (d : Discipline) : JNode → Walked JNode
    | .comp n ps ks =>
      let p := ps.walkProps d
      let k := ks.walkKids d
      { node := .comp n p.node k.node
        orig := if d.expCopy && d.jsxCopy then .comp n p.orig k.orig else .comp n p.node k.node
        metas := p.metas ++ k.metas }
    | .tag n a ks =>
      let k := ks.walkKids d
      { node := .tag n a k.node
        orig := if d.expCopy then .tag n a k.orig else .tag n a k.node
        metas := k.metas }
    | .md m => { node := .md m, orig := .md m, metas := [m] }
    | .str k s => { node := .str k s, orig := .str k s, metas := [] }
    | .tobj e => { node := .tobj e, orig := .tobj e, metas := [] }       -- left as it is; rendering raises
    | .tobjL es => { node := .tobjL es, orig := .tobjL es, metas := [] }
  def JNodes.walkKids (d : Discipline) : JNodes → Walked JNodes
    | .nil => { node := .nil, orig := .nil, metas := [] }
    | .cons h t =>
      let a := h.walk d
      let b := t.walkKids d
      { node := .cons a.node b.node, orig := .cons a.orig b.orig, metas := a.metas ++ b.metas }
  /-- a prop value: tags, components, tagifiable objects and metadata nodes are walked; lists and dicts are
      shallow-copied and not descended into -/
  def JVal.walkVal (d : Discipline) : JVal → Walked JVal
    | .node n =>
      let r := n.walk d
      { node := .node r.node, orig := .node r.orig, metas := r.metas }
    | v => { node := v, orig := v, metas := [] }
  def JProps.walkProps (d : Discipline) : JProps → Walked JProps
    | .nil => { node := .nil, orig := .nil, metas := [] }
    | .cons k v t =>
      let a := v.walkVal d
      let b := t.walkProps d
      { node := .cons k a.node b.node, orig := .cons k a.orig b.orig, metas := a.metas ++ b.metas }
end

/-! ### tagify -/

/-- `_lib_dependency(pkg, script={"src": src})` -/
def libDependency (versions : List (Str × Str)) (pkg src : Str) : Except Err Node :=
  match alookup pkg versions with
  | none => .error .keyError
  | some v =>
    .ok (.dep { name := pkg, version := v, vrank := 0,
                source := .subdir (some chars% "htmltools") (chars% "lib/" ++ pkg) [],
                script := [[(chars% "src", src)]], stylesheet := [], metas := [], allFiles := false } false .nil)

/-- the `"\n".join([...])` of tagify (149-162) -/
def jsWrap (name component : Str) : Str :=
  joinStr ['\n'] [
    chars% "(function() {",
    chars% "  var container = new DocumentFragment();",
    chars% "  ReactDOM.render(",
    component,
    chars% "  , container);",
    chars% "  var thisScript = document.querySelector('script[data-needs-render]');",
    chars% "  if (!thisScript) throw new Error('Failed to render JSXTag(\"" ++ name ++ chars% "\")');",
    chars% "  thisScript.after(container);",
    chars% "  thisScript.removeAttribute('data-needs-render');",
    chars% "})();"]

def scriptAttrs : Attrs :=
  [(chars% "type", .plain chars% "text/javascript"), (chars% "data-needs-render", .plain [])]

/-- the returned `Tag("script", {...}, HTML("\n" + js + "\n"), react, react-dom, *metadata_nodes)` -/
def scriptTag (js : Str) (react reactDom : Node) (metas : List JMeta) : Node :=
  .tag chars% "script" true scriptAttrs
    (.cons (.html ('\n' :: js ++ ['\n'])) (.cons react (.cons reactDom (Nodes.ofList (metas.map JMeta.toNode)))))

structure TagifyOut where
  /-- the script tag, or the exception raised -/
  result : Except Err Node
  /-- the component afterwards -/
  after : JNode

/-- `JSXTag.tagify` on the component `comp name props kids` -/
def jsxTagify (d : Discipline) (versions : List (Str × Str)) (name : Str) (props : JProps) (kids : JNodes) :
    TagifyOut :=
  -- cp = copy.copy(self); the walk's fn copies cp once more: `self` keeps its containers iff a copy owns its own
  let w := (JNode.comp name props kids).walk d
  let rendered := if d.renderCopy then w.node else w.orig
  { after := w.orig
    result :=
      match rendered.renderJs 2 ['\n'] with
      | .error e => .error e
      | .ok component =>
        match libDependency versions chars% "react" chars% "react.production.min.js" with
        | .error e => .error e
        | .ok react =>
          match libDependency versions chars% "react-dom" chars% "react-dom.production.min.js" with
          | .error e => .error e
          | .ok reactDom => .ok (scriptTag (jsWrap name component) react reactDom w.metas) }

/-- tagify on any node of the tree (only components have it) -/
def JNode.tagify (d : Discipline) (versions : List (Str × Str)) : JNode → TagifyOut
  | .comp n p k => jsxTagify d versions n p k
  | x => { result := .error .exception, after := x }

/-- `n` calls of tagify() in a row: the last result and the component afterwards -/
def JNode.tagifyN (d : Discipline) (versions : List (Str × Str)) (x : JNode) : Nat → TagifyOut
  | 0 => x.tagify d versions
  | n + 1 => (x.tagify d versions).after.tagifyN d versions n

/-! ### structural equality (for the driver) -/

mutual
  def JNode.beq : JNode → JNode → Bool
    | .comp n p k, .comp n' p' k' => n == n' && p.beq p' && k.beq k'
    | .tag n a k, .tag n' a' k' => n == n' && a == a' && k.beq k'
    | .str k s, .str k' s' => k == k' && s == s'
    | .md m, .md m' => m == m'
    | .tobj e, .tobj e' => e.beq e'
    | .tobjL e, .tobjL e' => e.beq e'
    | _, _ => false
  def JNodes.beq : JNodes → JNodes → Bool
    | .nil, .nil => true
    | .cons h t, .cons h' t' => h.beq h' && t.beq t'
    | _, _ => false
  def JVal.beq : JVal → JVal → Bool
    | .null, .null => true
    | .bool b, .bool b' => b == b'
    | .num t, .num t' => t == t'
    | .list u vs, .list u' vs' => u == u' && vs.beq vs'
    | .dict fs, .dict fs' => fs.beq fs'
    | .node n, .node n' => n.beq n'
    | _, _ => false
  def JVals.beq : JVals → JVals → Bool
    | .nil, .nil => true
    | .cons h t, .cons h' t' => h.beq h' && t.beq t'
    | _, _ => false
  def JProps.beq : JProps → JProps → Bool
    | .nil, .nil => true
    | .cons k v t, .cons k' v' t' => k == k' && v.beq v' && t.beq t'
    | _, _ => false
end

end HtmlVerif
