/-
Source tie for C17 (Props/SrcC17.lean): facts about the state monad `PySM` of Py/PrimC17.lean, the embedding of the
display-hook model (Model/Hook.lean: `Val`, `Item`, `HookId`, `St`) into the Python value universe and the interpreter state
`SysC17`, and facts about the primitives on the embedded shapes.

Embedding.  A tag is known by identity: the value `Val.tagRef t` / the stored child `Item.tagRef t` is the *reference*
`mkRefC17 "Tag" t`; the object itself lives in the heap, `SysC17.heap t`, with the five fields `Tag.__init__` assigns, in that
order.  `name`, `add_ws`, `attrs` are not part of the model: they are arbitrary (`TagMetaC17`), every theorem is for all of
them.  A callable is the first-order value Py/PrimC17.lean describes: the recorder, the closure of
`wrap_displayhook_handler` over the bound method `append` of tag `t`, `None`.  A number is carried by the model as its `str()`
text; it is embedded as the fragment's float with that text (ints and bools go through the same tests in these functions;
the `srcc17` validation runs all three).
-/
import HtmlVerif.Py.PrimC17
import HtmlVerif.Py.PrimC14
import HtmlVerif.Lemmas.PyLoop
import HtmlVerif.Lemmas.SrcTie
import HtmlVerif.Model.Hook

set_option linter.unusedSimpArgs false

namespace HtmlVerif.Py
open HtmlVerif

/-! ### the monad `PySM`, without unfolding `bind` under binders -/

instance : LawfulMonad PySM := LawfulMonad.mk' PySM
  (id_map := by
    intro α x; funext S
    show PySM.bind x (fun a => PySM.pure a) S = x S
    unfold PySM.bind PySM.pure
    rcases h : x S with ⟨r, S'⟩
    cases r <;> rfl)
  (pure_bind := by intro α β a f; rfl)
  (bind_assoc := by
    intro α β γ x f g; funext S
    show PySM.bind (PySM.bind x f) g S = PySM.bind x (fun a => PySM.bind (f a) g) S
    unfold PySM.bind
    rcases h : x S with ⟨r, S'⟩
    cases r <;> rfl)

theorem PySM.run_pure {α} (a : α) (S : SysC17) : (pure a : PySM α) S = (.ok a, S) := rfl

theorem PySM.run_bind {α β} (x : PySM α) (f : α → PySM β) (S : SysC17) :
    (x >>= f) S = match x S with
      | (.ok a, S') => f a S'
      | (.error e, S') => (.error e, S') := rfl

theorem PySM.run_bind_ok {α β} {x : PySM α} {f : α → PySM β} {S S' : SysC17} {a : α} (h : x S = (.ok a, S')) :
    (x >>= f) S = f a S' := by
  rw [PySM.run_bind, h]

theorem PySM.run_bind_error {α β} {x : PySM α} {f : α → PySM β} {S S' : SysC17} {e : PyErr} (h : x S = (.error e, S')) :
    (x >>= f) S = (.error e, S') := by
  rw [PySM.run_bind, h]

theorem PySM.run_throw {α} (e : PyErr) (S : SysC17) : (throw e : PySM α) S = (.error e, S) := rfl

theorem PySM.run_lift {α} (x : PyM α) (S : SysC17) : (liftM x : PySM α) S = (x, S) := rfl

@[simp] theorem PySM.lift_ok {α} (a : α) : (liftM (Except.ok a : PyM α) : PySM α) = pure a := rfl

@[simp] theorem PySM.lift_pure {α} (a : α) : (liftM (pure a : PyM α) : PySM α) = pure a := rfl

@[simp] theorem PySM.lift_error {α} (e : PyErr) : (liftM (Except.error e : PyM α) : PySM α) = throw e := rfl

@[simp] theorem PySM.throw_bind {α β} (e : PyErr) (f : α → PySM β) : ((throw e : PySM α) >>= f) = throw e := rfl

end HtmlVerif.Py

namespace HtmlVerif.SrcTie
open HtmlVerif HtmlVerif.Py HtmlVerif.Hook

/-! ### the embedding of the display-hook model -/

/-- a reference to the Tag object `t` -/
abbrev tagRefC17 (t : TagId) : PVal := mkRefC17 "Tag" t

/-- a stored child -/
def embItemC17 : Item → PVal
  | .text s => .str s
  | .html s => .html s
  | .robj s => .obj "ReprObj" [("_repr_html_", .str s)]
  | .tagRef t => tagRefC17 t
  | .tobj s => .obj "TagifiableObj" [("tagify", .none), ("name", .str s)]
  | .trobj s => .obj "TagifiableObj" [("tagify", .none), ("_repr_html_", .str s), ("name", .str s)]

/-- a TagList holding these children -/
def embTagListC17 (its : List Item) : PVal := .obj "TagList" [("data", .list (its.map embItemC17))]

mutual
  /-- a displayed value -/
  def embValC17 : Val → PVal
    | .none => .none
    | .ellipsis => ellipsisC17
    | .text s => .str s
    | .num s => .float s
    | .html s => .html s
    | .reprHtml s => .obj "ReprObj" [("_repr_html_", .str s)]
    | .tagRef t => tagRefC17 t
    | .invalid => .obj "Opaque" []
    | .tagifiable s => .obj "TagifiableObj" [("tagify", .none), ("name", .str s)]
    | .tagifiableRepr s => .obj "TagifiableObj" [("tagify", .none), ("_repr_html_", .str s), ("name", .str s)]
    | .tagList its => embTagListC17 its
    | .list vs => .list (embValsC17 vs)
    | .tuple vs => .tuple (embValsC17 vs)
  def embValsC17 : Vals → List PVal
    | .nil => []
    | .cons v vs => embValC17 v :: embValsC17 vs
end

theorem embValsC17_toList (vs : Vals) : embValsC17 vs = vs.toList.map embValC17 := by
  induction vs using Vals.rec (motive_1 := fun _ => True) with
  | nil => rfl
  | cons v vs _ ih => simp [embValsC17, Vals.toList, ih]
  | _ => trivial

/-- a stored child is the Python object it is -/
theorem embVal_toVal (i : Item) : embValC17 i.toVal = embItemC17 i := by
  cases i <;> rfl

/-- the wrapper `wrap_displayhook_handler(h)` -/
abbrev wrapperC17 (h : PVal) : PVal := mkClosureC17 "wrap_displayhook_handler.<inner>" [h]

/-- the bound method `tag_t.append` -/
abbrev appendOfC17 (t : TagId) : PVal := mkMethodC17 (tagRefC17 t) "Tag.append"

/-- what sits in `sys.displayhook` -/
def embHookC17 : HookId → PVal
  | .outer => .obj "recorder" []
  | .wrap t => wrapperC17 (appendOfC17 t)
  | .unset => .none

/-- `self.prev_displayhook` -/
def embPrevC17 : Option HookId → PVal
  | Option.none => .none
  | some h => embHookC17 h

/-- the fields of a Tag object the model does not speak about -/
structure TagMetaC17 where
  name : PVal
  add_ws : PVal
  attrs : PVal

/-- the `__dict__` of a Tag object, in the order `Tag.__init__` assigns it -/
def embTagC17 (m : TagMetaC17) (ts : TagSt) : PVal :=
  .obj "Tag" [("name", m.name), ("add_ws", m.add_ws), ("attrs", m.attrs), ("children", embTagListC17 ts.children),
              ("prev_displayhook", embPrevC17 ts.prev)]

/-- the interpreter state -/
def embStC17 (m : TagId → TagMetaC17) (s : St) : SysC17 :=
  { displayhook := embHookC17 s.hook, heap := fun t => embTagC17 (m t) (s.tags t), log := s.outer.map embValC17 }

/-- outcome and state of a state-passing translation against a model transition -/
def embOutC17 (m : TagId → TagMetaC17) (r : St × Outcome) : Except PyErr PVal × SysC17 :=
  (match r.2 with
   | .done => .ok .none
   | .raised e => .error (embErr e), embStC17 m r.1)

/-! ### the primitives of Py/PrimC17.lean on an embedded state: each is the corresponding step of the model -/

theorem refId_tagRefC17 (t : TagId) : refIdC17 (tagRefC17 t) = some t := by
  simp [refIdC17, tagRefC17, mkRefC17]

theorem heapGet_prevC17 (m : TagId → TagMetaC17) (s : St) (t : TagId) :
    heapGetAttrC17 (tagRefC17 t) "prev_displayhook" (embStC17 m s) = (.ok (embPrevC17 (s.tags t).prev), embStC17 m s) := by
  simp [heapGetAttrC17, refId_tagRefC17, embStC17, embTagC17, pyGetAttr, fieldGet?]

/-- the state in which tag `t` has `prev_displayhook = p` -/
def setPrevC17 (s : St) (t : TagId) (p : Option HookId) : St :=
  { s with tags := fun u => if u = t then { s.tags t with prev := p } else s.tags u }

theorem heapSet_prevC17 (m : TagId → TagMetaC17) (s : St) (t : TagId) (p : Option HookId) :
    heapSetAttrC17 (tagRefC17 t) "prev_displayhook" (embPrevC17 p) (embStC17 m s) = (.ok ⟨⟩, embStC17 m (setPrevC17 s t p)) := by
  simp only [heapSetAttrC17, refId_tagRefC17, embStC17, embTagC17, pySetAttr, fieldSet, pure_eq_ok, setPrevC17]
  simp
  funext u
  by_cases hu : u = t
  · subst hu; simp
  · simp [hu]

theorem sysGet_hookC17 (m : TagId → TagMetaC17) (s : St) :
    sysGetC17 "displayhook" (embStC17 m s) = (.ok (embHookC17 s.hook), embStC17 m s) := by
  simp [sysGetC17, embStC17]

theorem sysSet_hookC17 (m : TagId → TagMetaC17) (s : St) (h : HookId) :
    sysSetC17 "displayhook" (embHookC17 h) (embStC17 m s) = (.ok ⟨⟩, embStC17 m { s with hook := h }) := by
  simp [sysSetC17, embStC17]

/-- what `sys.displayhook = self.prev_displayhook` installs: the saved hook, or `None` (the model's `unset`) -/
def prevHookC17 : Option HookId → HookId
  | some h => h
  | Option.none => .unset

theorem embPrev_eq_hookC17 (p : Option HookId) : embPrevC17 p = embHookC17 (prevHookC17 p) := by
  cases p <;> rfl

theorem sysSet_prevC17 (m : TagId → TagMetaC17) (s : St) (p : Option HookId) :
    sysSetC17 "displayhook" (embPrevC17 p) (embStC17 m s) = (.ok ⟨⟩, embStC17 m { s with hook := prevHookC17 p }) := by
  cases p <;> simp [sysSetC17, embStC17, embPrevC17, embHookC17, prevHookC17]

theorem heapSet_prev_hookC17 (m : TagId → TagMetaC17) (s : St) (t : TagId) (h : HookId) :
    heapSetAttrC17 (tagRefC17 t) "prev_displayhook" (embHookC17 h) (embStC17 m s) = (.ok ⟨⟩, embStC17 m (setPrevC17 s t (some h))) :=
  heapSet_prevC17 m s t (some h)

theorem sysSet_wrapC17 (m : TagId → TagMetaC17) (s : St) (t : TagId) :
    sysSetC17 "displayhook" (wrapperC17 (mkMethodC17 (tagRefC17 t) "Tag.append")) (embStC17 m s)
      = (.ok ⟨⟩, embStC17 m { s with hook := .wrap t }) :=
  sysSet_hookC17 m s (.wrap t)

theorem isNone_embHookC17 (h : HookId) (hu : h ≠ .unset) : isNone (embHookC17 h) = false := by
  cases h <;> first | rfl | exact absurd rfl hu

/-- a conditional between two state-passing computations, run on a state -/
theorem ite_applyC17 {α β : Type} (c : Prop) [Decidable c] (x y : α → β) (a : α) :
    (if c then x else y) a = if c then x a else y a := by
  split <;> rfl

theorem isNone_embPrevC17 (p : Option HookId) (hp : p ≠ some .unset) : isNone (embPrevC17 p) = p.isNone := by
  cases p with
  | none => rfl
  | some h => cases h <;> first | rfl | exact absurd rfl hp

/-! ### `flatten` on displayed values: depth, leaves, the loop of `_flatten_recurse` -/

mutual
  /-- nesting depth of list / tuple / TagList (what `_flatten_recurse` recurses into) -/
  def valDepthC17 : Val → Nat
    | .list vs => valsDepthC17 vs + 1
    | .tuple vs => valsDepthC17 vs + 1
    | .tagList _ => 1
    | _ => 0
  def valsDepthC17 : Vals → Nat
    | .nil => 0
    | .cons v vs => max (valDepthC17 v) (valsDepthC17 vs)
end

/-- `isinstance(x, (list, tuple, TagList))` -/
def valIsNestC17 : Val → Bool
  | .list _ => true
  | .tuple _ => true
  | .tagList _ => true
  | _ => false

/-- what `flatten` can yield: not None, not a list / tuple / TagList -/
def valIsLeafC17 : Val → Bool
  | .none => false
  | .list _ => false
  | .tuple _ => false
  | .tagList _ => false
  | _ => true

theorem depth_memC17 (vs : Vals) (c : Val) (h : c ∈ vs.toList) : valDepthC17 c ≤ valsDepthC17 vs := by
  induction vs using Vals.rec (motive_1 := fun _ => True) with
  | nil => simp [Vals.toList] at h
  | cons x t _ ih =>
    simp only [Vals.toList, List.mem_cons] at h
    simp only [valsDepthC17]
    rcases h with rfl | h
    · omega
    · have := ih h; omega
  | _ => trivial

theorem toList_ofListC17 (l : List Val) : (Vals.ofList l).toList = l := by
  induction l with
  | nil => rfl
  | cons a t ih => simp [Vals.ofList, Vals.toList, ih]

theorem flat_toListC17 (vs : Vals) : vs.flat = vs.toList.flatMap Val.flat := by
  induction vs using Vals.rec (motive_1 := fun _ => True) with
  | nil => rfl
  | cons x t _ ih => simp [Vals.flat, Vals.toList, ih]
  | _ => trivial

theorem flat_foldC17 (l : List Val) (acc : List PVal) :
    l.foldlM (m := Except Err) (fun b c => .ok (b ++ c.flat.map embValC17)) acc
      = .ok (acc ++ (l.flatMap Val.flat).map embValC17) := by
  induction l generalizing acc with
  | nil => simp [pure, Except.pure]
  | cons c r ih =>
    simp only [List.foldlM_cons, bind, Except.bind, ih, List.flatMap_cons, List.map_append, List.append_assoc]

/-- whatever the body of `for item in x` is: if each pass extends `result` (the first component of the loop state) by the
    model's flattening of the item, the loop extends it by the flattening of all items; with the continuation after the loop -/
theorem flat_loop_kC17 {β τ : Type} (vs : Vals) (acc : List PVal) (L : List PVal) (hL : L = vs.toList.map embValC17) (it0 : τ)
    (f : PVal → PVal × τ → PyM (ForInStep (PVal × τ)))
    (hstep : ∀ c ∈ vs.toList, ∀ (s : PVal × τ) (b : List PVal), s.1 = .list b →
      ∃ s', f (embValC17 c) s = .ok (.yield s') ∧ s'.1 = .list (b ++ c.flat.map embValC17))
    (k : PVal × τ → PyM β) (r : PyM β)
    (hk : ∀ s, s.1 = .list (acc ++ vs.flat.map embValC17) → k s = r) :
    (forIn L (PVal.list acc, it0) f >>= k) = r := by
  have sim := forIn_sim (fun (s : PVal × τ) (b : List PVal) => s.1 = .list b) embErr embValC17 vs.toList f
    (fun c b => .ok (b ++ c.flat.map embValC17)) (PVal.list acc, it0) acc rfl
    (by
      intro c hc s b hR
      obtain ⟨s', h1, h2⟩ := hstep c hc s b hR
      exact ⟨_, h1, s', rfl, h2⟩)
  rw [flat_foldC17] at sim
  obtain ⟨s, hs, h1⟩ := sim
  rw [hL, hs, ok_bind]
  exact hk s (by rw [h1, flat_toListC17])

theorem pyListAppendA_listC17 (l : List PVal) (v : PVal) : pyListAppendA (.list l) v = .ok (.list (l ++ [v])) := rfl

theorem embVals_ofItemsC17 (its : List Item) : embValsC17 (Vals.ofList (its.map Item.toVal)) = its.map embItemC17 := by
  rw [embValsC17_toList, toList_ofListC17]
  simp [embVal_toVal]

theorem toVal_flatC17 (i : Item) : i.toVal.flat = [i.toVal] := by cases i <;> rfl

theorem flat_ofItemsC17 (its : List Item) : (Vals.ofList (its.map Item.toVal)).flat = its.map Item.toVal := by
  rw [flat_toListC17, toList_ofListC17]
  induction its with
  | nil => rfl
  | cons i r ih => simp [List.flatMap_cons, toVal_flatC17, ih]

theorem depth_ofItemsC17 (its : List Item) : valsDepthC17 (Vals.ofList (its.map Item.toVal)) = 0 := by
  induction its with
  | nil => rfl
  | cons i r ih => cases i <;> simp [Vals.ofList, valsDepthC17, valDepthC17, Item.toVal, ih]

theorem flat_leavesC17 : ∀ (n : Nat) (vs : Vals), valsDepthC17 vs ≤ n → ∀ a ∈ vs.flat, valIsLeafC17 a = true := by
  intro n
  induction n with
  | zero =>
    intro vs
    induction vs using Vals.rec (motive_1 := fun _ => True) with
    | nil => intro _ a ha; simp [Vals.flat] at ha
    | cons c t _ iht =>
      intro hd a ha
      simp only [valsDepthC17] at hd
      simp only [Vals.flat, List.mem_append] at ha
      rcases ha with ha | ha
      · cases c <;> simp [valDepthC17] at hd <;> simp [Val.flat] at ha <;> subst ha <;> rfl
      · exact iht (by omega) a ha
    | _ => trivial
  | succ n ih =>
    intro vs
    induction vs using Vals.rec (motive_1 := fun _ => True) with
    | nil => intro _ a ha; simp [Vals.flat] at ha
    | cons c t _ iht =>
      intro hd a ha
      simp only [valsDepthC17] at hd
      simp only [Vals.flat, List.mem_append] at ha
      rcases ha with ha | ha
      · cases c with
        | list ys => exact ih ys (by simp [valDepthC17] at hd; omega) a (by simpa [Val.flat] using ha)
        | tuple ys => exact ih ys (by simp [valDepthC17] at hd; omega) a (by simpa [Val.flat] using ha)
        | tagList its =>
          simp only [Val.flat, List.mem_map] at ha
          obtain ⟨i, _, rfl⟩ := ha
          cases i <;> rfl
        | none => simp [Val.flat] at ha
        | _ => simp [Val.flat] at ha; subst ha; rfl
      · exact iht (by omega) a ha
    | _ => trivial

/-- `enumerate` from `k` -/
def enumPC17 : Nat → List Val → List (Nat × Val)
  | _, [] => []
  | k, a :: r => (k, a) :: enumPC17 (k + 1) r

/-- an `(index, item)` pair as `enumerate` yields it -/
def embIdxC17 (p : Nat × Val) : PVal := .tuple [.int p.1, embValC17 p.2]

theorem enumP_memC17 (L : List Val) (k : Nat) (p : Nat × Val) (h : p ∈ enumPC17 k L) : k ≤ p.1 ∧ p.1 < k + L.length ∧ p.2 ∈ L := by
  induction L generalizing k with
  | nil => simp [enumPC17] at h
  | cons a r ih =>
    simp only [enumPC17, List.mem_cons] at h
    rcases h with rfl | h
    · simp
    · have := ih (k + 1) h
      refine ⟨by omega, by simp only [List.length_cons]; omega, by simp [this.2.2]⟩

theorem zip_rangeC17 (L : List Val) (k : Nat) :
    ((List.range' k L.length).zip (L.map embValC17)).map (fun p => PVal.tuple [PVal.int (p.1 : Nat), p.2])
      = (enumPC17 k L).map embIdxC17 := by
  induction L generalizing k with
  | nil => rfl
  | cons a r ih =>
    simp only [List.length_cons, List.range'_succ, List.map_cons, List.zip_cons_cons, enumPC17, embIdxC17]
    rw [ih (k + 1)]

theorem pyEnumerate_embC17 (L : List Val) :
    pyEnumerate (.list (L.map embValC17)) = .ok (.list ((enumPC17 0 L).map embIdxC17)) := by
  simp only [pyEnumerate, pyIter_list, ok_bind, pure_eq_ok, List.length_map, List.range_eq_range']
  rw [zip_rangeC17]

/-- what one pass of the conversion loop does to `result` (as a list of Python values) -/
def convStepC17 (p : Nat × Val) (b : List PVal) : Except Err (List PVal) :=
  match p.2 with
  | .num t => .ok (b.set p.1 (.str t))
  | a => match nodeOf a with
    | .ok _ => .ok b
    | .error e => .error e

theorem convStep_numC17 (i : Nat) (t : Str) (b : List PVal) : convStepC17 (i, .num t) b = .ok (b.set i (.str t)) := rfl

theorem nodeOf_leaf_embC17 (a : Val) (i : Item) (hl : valIsLeafC17 a = true) (hn : ∀ t, a ≠ .num t) (h : nodeOf a = .ok i) :
    embItemC17 i = embValC17 a := by
  cases a <;> simp [nodeOf] at h <;> first | (subst h; rfl) | exact absurd rfl (hn _)

theorem convStep_foldC17 (rest : List Val) (hl : ∀ a ∈ rest, valIsLeafC17 a = true) (pre : List PVal) :
    (enumPC17 pre.length rest).foldlM (fun b c => convStepC17 c b) (pre ++ rest.map embValC17)
      = match toNodes rest with
        | .ok r => .ok (pre ++ r.map embItemC17)
        | .error e => .error e := by
  induction rest generalizing pre with
  | nil => simp [enumPC17, toNodes, pure, Except.pure]
  | cons a r ih =>
    have hlr : ∀ x ∈ r, valIsLeafC17 x = true := fun x hx => hl x (by simp [hx])
    simp only [enumPC17, List.foldlM_cons, List.map_cons]
    by_cases hnum : ∃ t, a = .num t
    · obtain ⟨t, rfl⟩ := hnum
      have hset : (pre ++ embValC17 (Val.num t) :: r.map embValC17).set pre.length (PVal.str t) = (pre ++ [PVal.str t]) ++ r.map embValC17 := by
        simp
      have ih' := ih hlr (pre ++ [PVal.str t])
      simp only [List.length_append, List.length_cons, List.length_nil, Nat.zero_add] at ih'
      rw [convStep_numC17]
      simp only [bind, Except.bind, hset, ih', toNodes, nodeOf]
      cases toNodes r <;> simp [embItemC17]
    · have hnn : ∀ t, a ≠ .num t := fun t ht => hnum ⟨t, ht⟩
      have hcs : convStepC17 (pre.length, a) (pre ++ embValC17 a :: r.map embValC17)
          = match nodeOf a with
            | .ok _ => .ok (pre ++ embValC17 a :: r.map embValC17)
            | .error e => .error e := by
        cases a <;> first | rfl | exact absurd rfl (hnn _)
      rw [hcs]
      cases hno : nodeOf a with
      | error e => simp [toNodes, hno, bind, Except.bind]
      | ok i =>
        have he := nodeOf_leaf_embC17 a i (hl a (by simp)) hnn hno
        have ih' := ih hlr (pre ++ [embValC17 a])
        simp only [List.length_append, List.length_cons, List.length_nil, Nat.zero_add, List.append_assoc, List.cons_append,
          List.nil_append] at ih'
        simp only [bind, Except.bind, ih', toNodes, hno]
        cases toNodes r <;> simp [he]

/-- whatever the body of `for i, item in enumerate(result)` is: if each pass does to `result` what `convStepC17` does (or
    raises TypeError when it does), the loop followed by `return result` is the model's `toNodes` -/
theorem conv_loopC17 {τ : Type} (L : List Val) (hl : ∀ a ∈ L, valIsLeafC17 a = true) (t0 : τ)
    (f : PVal → PVal × τ → PyM (ForInStep (PVal × τ)))
    (hstep : ∀ p ∈ enumPC17 0 L, ∀ (s : PVal × τ) (b : List PVal), s.1 = .list b → b.length = L.length →
      Sim (fun (r : ForInStep (PVal × τ)) b' => ∃ s', r = .yield s' ∧ s'.1 = .list b' ∧ b'.length = L.length) embErr
        (f (embIdxC17 p) s) (convStepC17 p b)) :
    (do
      let s ← forIn ((enumPC17 0 L).map embIdxC17) (PVal.list (L.map embValC17), t0) f
      Except.ok s.1 : PyM PVal)
      = embRes (fun r => .list (r.map embItemC17)) (toNodes L) := by
  have sim := forIn_sim (fun (s : PVal × τ) (b : List PVal) => s.1 = .list b ∧ b.length = L.length) embErr embIdxC17
    (enumPC17 0 L) f (fun c b => convStepC17 c b) (PVal.list (L.map embValC17), t0) (L.map embValC17) ⟨rfl, by simp⟩
    (by
      intro p hp s b hR
      have := hstep p hp s b hR.1 hR.2
      cases hc : convStepC17 p b with
      | error e => rw [hc] at this; exact this
      | ok b' =>
        rw [hc] at this
        obtain ⟨r, hr, s', rfl, h1, h2⟩ := this
        exact ⟨_, hr, s', rfl, h1, h2⟩)
  have cf := convStep_foldC17 L hl []
  simp only [List.length_nil, List.nil_append] at cf
  rw [cf] at sim
  cases hcl : toNodes L with
  | error e =>
    rw [hcl] at sim
    simp only [Sim] at sim
    rw [sim]; rfl
  | ok r =>
    rw [hcl] at sim
    obtain ⟨s, hs, h1, _⟩ := sim
    rw [hs]
    simp [embRes, h1]

theorem embSt_addChildrenC17 (m : TagId → TagMetaC17) (s : St) (t : TagId) (new : List Item) :
    ({ embStC17 m s with heap := fun k => if k = t then embTagC17 (m t) { s.tags t with children := (s.tags t).children ++ new }
        else (embStC17 m s).heap k } : SysC17) = embStC17 m (s.addChildren t new) := by
  simp only [embStC17, St.addChildren]
  congr 1
  funext u
  by_cases hu : u = t
  · subst hu; simp
  · simp [hu]

end HtmlVerif.SrcTie
