/-
Byte-level path algebra used by HTMLDependency (htmltools/_core.py:1635-1661, 1698-1740) — all of it
Python standard library behaviour, *modelled* (DESIGN §8):

* `str.encode("utf-8")`                         → `utf8`
* `urllib.parse.quote(s)` (safe="/")            → `quote`   (bytes level: `quoteB`)
* `urllib.parse.unquote_to_bytes(s)`            → `unquoteB`
* `posixpath.join(a, b)` = `os.path.join(a, b)` → `posixJoin`
* `posixpath.dirname(p)`                        → `dirname`
* how the operating system reads a path string  → `segs` (split on "/", empty segments ignored)
-/
import HtmlVerif.Model.Str

namespace HtmlVerif

abbrev Bytes := List UInt8

/-! ### UTF-8 -/

/-- `c.encode("utf-8")` for one Unicode scalar value -/
def utf8Char (c : Char) : Bytes :=
  let n := c.toNat
  if n < 0x80 then [n.toUInt8]
  else if n < 0x800 then [(0xC0 + n / 64).toUInt8, (0x80 + n % 64).toUInt8]
  else if n < 0x10000 then
    [(0xE0 + n / 4096).toUInt8, (0x80 + n / 64 % 64).toUInt8, (0x80 + n % 64).toUInt8]
  else
    [(0xF0 + n / 262144).toUInt8, (0x80 + n / 4096 % 64).toUInt8, (0x80 + n / 64 % 64).toUInt8,
     (0x80 + n % 64).toUInt8]

/-- `s.encode("utf-8")` -/
def utf8 (s : Str) : Bytes := s.flatMap utf8Char

/-! ### urllib.parse.quote / unquote_to_bytes -/

/-- `_ALWAYS_SAFE` of urllib.parse: ASCII letters, digits and `_.-~` -/
def isUnreservedN (n : Nat) : Bool :=
  (0x41 ≤ n && n ≤ 0x5A) || (0x61 ≤ n && n ≤ 0x7A) || (0x30 ≤ n && n ≤ 0x39)
    || n == 0x5F || n == 0x2E || n == 0x2D || n == 0x7E

/-- bytes `quote` leaves alone: always-safe plus the default `safe="/"` -/
def isSafeN (n : Nat) : Bool := isUnreservedN n || n == 0x2F

/-- upper-case hexadecimal digit (`'%{:02X}'.format`) -/
def hexUp (n : Nat) : Char :=
  if n < 10 then Char.ofNat (0x30 + n) else Char.ofNat (0x37 + n)

/-- value of a hexadecimal digit, either case (`bytes.fromhex`) -/
def hexDigitVal (c : Char) : Option Nat :=
  let n := c.toNat
  if 0x30 ≤ n ∧ n ≤ 0x39 then some (n - 0x30)
  else if 0x41 ≤ n ∧ n ≤ 0x46 then some (n - 0x37)
  else if 0x61 ≤ n ∧ n ≤ 0x66 then some (n - 0x57)
  else none

/-- one byte of `quote_from_bytes` -/
def quoteByte (b : UInt8) : Str :=
  if isSafeN b.toNat then [Char.ofNat b.toNat]
  else ['%', hexUp (b.toNat / 16), hexUp (b.toNat % 16)]

/-- `urllib.parse.quote_from_bytes(bs)` with the default `safe="/"` -/
def quoteB (bs : Bytes) : Str := bs.flatMap quoteByte

/-- `urllib.parse.quote(s)`: UTF-8 encode, then quote the bytes -/
def quote (s : Str) : Str := quoteB (utf8 s)

/-- `urllib.parse.unquote_to_bytes(s)`: `%XX` (either case) becomes the byte, a `%` not followed by two
    hexadecimal digits stays literally, every other character contributes its UTF-8 encoding -/
def unquoteB : Str → Bytes
  | [] => []
  | [c] => if c = '%' then [0x25] else utf8Char c
  | [c, a] => if c = '%' then 0x25 :: unquoteB [a] else utf8Char c ++ unquoteB [a]
  | c :: a :: b :: r =>
    if c = '%' then
      match hexDigitVal a, hexDigitVal b with
      | some x, some y => (x * 16 + y).toUInt8 :: unquoteB r
      | _, _ => 0x25 :: unquoteB (a :: b :: r)
    else utf8Char c ++ unquoteB (a :: b :: r)

/-! ### posixpath -/

/-- two-argument `posixpath.join(a, b)` (also `os.path.join` on POSIX):
    an absolute `b` discards `a`; otherwise exactly one separator is supplied unless `a` is empty or
    already ends in one -/
def posixJoin (a b : Str) : Str :=
  if b.head? = some '/' then b
  else if a.isEmpty || a.getLast? = some '/' then a ++ b
  else a ++ '/' :: b

/-- the part of `p` up to and including its last `/` (`p[:p.rfind("/") + 1]`) -/
def headUpToSlash : Str → Str
  | [] => []
  | c :: r =>
    let h := headUpToSlash r
    if h.isEmpty then (if c = '/' then ['/'] else []) else c :: h

/-- `s.rstrip("/")` -/
def rstripSlash (s : Str) : Str := (s.reverse.dropWhile (· = '/')).reverse

/-- `posixpath.dirname(p)` -/
def dirname (p : Str) : Str :=
  let h := headUpToSlash p
  if h.isEmpty || h.all (· = '/') then h else rstripSlash h

/-! ### path strings as the operating system reads them -/

/-- split on the byte `/`, keeping empty pieces (`bs.split(b"/")`) -/
def splitSlash : Bytes → List Bytes
  | [] => [[]]
  | b :: r =>
    if b = 0x2F then [] :: splitSlash r
    else match splitSlash r with
      | [] => [[b]]
      | h :: t => (b :: h) :: t

/-- the components of a path: empty pieces (doubled or trailing slashes, the leading slash of an absolute
    path) carry no meaning for the OS.  `.` / `..` / symbolic links are *not* interpreted here — the
    theorems exclude them by guard and the harness never creates them. -/
def segs (bs : Bytes) : List Bytes := (splitSlash bs).filter (fun s => !s.isEmpty)

/-- an absolute path of the abstract file system: its components from the root -/
abbrev Path := List Bytes

/-- the file-system location a path *string* denotes -/
def pathResolve (s : Str) : Path := segs (utf8 s)

end HtmlVerif
