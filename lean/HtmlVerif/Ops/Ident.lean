/-
Driver ops for C08's identity layer (model side).  The tree arrives as a plain term; `labelNode` gives every mutable
object the id a freshly built tree would have (0, 1, 2, …), the counter after labelling is the allocator's start.

  c08_tagify tag <node> | list <nodes>
      → <result tree> eq <b|-> <b|-> fixed <b> shared <tag> <attrs> <list> <mnode> <dep> <container> nodup <b> objs <n>
        (eq: result == original, original == result — `-` when a tagifiable object sits in a dependency head;
         shared: objects of the result that are objects of the original, by kind; objs: mutable objects in the result)
  c08_mutate tag <node> | list <nodes>
      → <b> <b>   (mutating every object of the copy leaves the original's value unchanged; vice versa)
  c08_seq tag|dep <node> [ ops ] | list <nodes> [ ops ]
      → pure <b> [ ; r1 ; r2 … ]      ops: tg rd st rp rh gh <indent> <eol> gd <b> cp dt <lp> <iv> dd <lp> <iv> dm <lp> <iv> ds <indent>
  c08_views tag <node> | list <nodes>
      → <str> <repr> <_repr_html_> <render()['html']>   each `ok <s>` / `err <kind>`
  c08_doc <nodes> <kwargs>
      → root <S attrs | N> pure <b>     (attributes of the first content item after HTMLDocument(...).render())
-/
import HtmlVerif.Ops.Base
import HtmlVerif.Ops.Tagify
import HtmlVerif.Ops.Deps
import HtmlVerif.Ops.Paths
import HtmlVerif.Ops.Json
import HtmlVerif.Model.ReadOps
import HtmlVerif.Model.Equality
import HtmlVerif.Spec.Ident

namespace HtmlVerif.Ops.IdentOps
open HtmlVerif HtmlVerif.Wire HtmlVerif.Ident HtmlVerif.Ops

/-! ### ids by kind (0 Tag, 1 TagAttrDict, 2 TagList, 3 MetadataNode, 4 HTMLDependency, 5 dependency container) -/

mutual
  def kinded : ITree → List (Nat × Nat)
    | .tag i a k _ _ _ kids => (0, i) :: (1, a) :: (2, k) :: kindedAll kids
    | .mnode i _ => [(3, i)]
    | .dep i d hh hid hd => (4, i) :: d.ids.map (fun j => (5, j)) ++ (if hh then [(2, hid)] else []) ++ kindedAll hd
    | .tobjL _ c => kindedAll c
    | .tobj1 _ c => kinded c
    | .text _ => []
    | .html _ => []
    | .robj _ => []
  def kindedAll : ITrees → List (Nat × Nat)
    | .nil => []
    | .cons h t => kinded h ++ kindedAll t
end

def nodupB : List Nat → Bool
  | [] => true
  | a :: r => !r.contains a && nodupB r

/-- a receiver: a Tag / dependency (`one`) or a TagList object `lid` holding `items` -/
inductive Recv
  | one (x : ITree)
  | many (lid : Nat) (items : ITrees)

def Recv.ids : Recv → List Nat
  | .one x => x.ids
  | .many l ks => l :: ks.idsAll

def Recv.kinded : Recv → List (Nat × Nat)
  | .one x => IdentOps.kinded x
  | .many l ks => (2, l) :: kindedAll ks

def Recv.headsPlain : Recv → Bool
  | .one x => x.headsPlain
  | .many _ ks => ks.headsPlainAll

/-- receiver term: `tag <node>` / `dep <node>` / `list <nodes>`; labelled from 0; returns the counter too -/
def recvP : P (Recv × Nat) := do
  let k ← next
  if k == "list" then do
    let ks ← nodes
    let r := labelNodes ks 1
    pure (.many 0 r.1, r.2)
  else if k == "tag" || k == "dep" then do
    let n ← node
    let r := labelNode n 0
    pure (.one r.1, r.2)
  else throw s!"bad receiver kind {k}"

/-- `x.tagify()` for either receiver -/
def Recv.tagify (r : Recv) (n : Nat) : Recv × Nat :=
  match r with
  | .one x => let t := x.itagifyTag n; (.one t.1, t.2)
  | .many _ ks => let t := ks.itagifyList n; (.many t.1 t.2.1, t.2.2)

def Recv.enc : Recv → String
  | .one x => encNode x.erase
  | .many _ ks => encNodes ks.eraseAll

def Recv.eqv (a b : Recv) : Bool :=
  match a, b with
  | .one x, .one y => x.erase.eqv y.erase
  | .many _ x, .many _ y => x.eraseAll.eqvKids y.eraseAll
  | _, _ => false

def Recv.beq (a b : Recv) : Bool :=
  match a, b with
  | .one x, .one y => x.erase.beq y.erase
  | .many _ x, .many _ y => x.eraseAll.beq y.eraseAll
  | _, _ => false

def Recv.plainB : Recv → Bool
  | .one x => Ident.plainB x.erase
  | .many _ ks => Ident.plainKidsB ks.eraseAll

def Recv.mutate (i : Nat) (f : Mut) : Recv → Recv
  | .one x => .one (x.mutateAt i f)
  | .many l ks => .many l (if l = i then f.listF (ks.mutateAll i f) else ks.mutateAll i f)

/-- number of `(kind, id)` pairs of `cp` of kind `c` whose id occurs in `orig` -/
def sharedOfKind (orig : List Nat) (cp : List (Nat × Nat)) (c : Nat) : Nat :=
  (cp.filter fun p => p.1 == c && orig.contains p.2).length

structure TagifyAns where
  result : Recv
  eqAB   : Option (Bool × Bool)
  fixed  : Bool
  shared : List Nat
  nodup  : Bool
  objs   : Nat

def tagifyAns (r : Recv) (n : Nat) : TagifyAns :=
  let t := r.tagify n
  let cp := t.1
  let again := cp.tagify t.2
  { result := cp,
    eqAB := if r.headsPlain then some (cp.eqv r, r.eqv cp) else none,
    fixed := again.1.beq cp,
    shared := (List.range 6).map (sharedOfKind r.ids cp.kinded),
    nodup := nodupB cp.ids,
    objs := cp.ids.length }

def encOptFlags : Option (Bool × Bool) → String
  | some (a, b) => encBool a ++ " " ++ encBool b
  | none => "- -"

def TagifyAns.enc (a : TagifyAns) : String :=
  a.result.enc ++ " eq " ++ encOptFlags a.eqAB ++ " fixed " ++ encBool a.fixed ++ " shared "
    ++ " ".intercalate (a.shared.map toString) ++ " nodup " ++ encBool a.nodup ++ " objs " ++ toString a.objs

/-- the mutation applied to whatever object has the chosen id: each component changes the value of its object -/
def canonMut : Mut :=
  { tagF := fun p => (p.1 ++ ['x'], !p.2),
    attrsF := fun a => a ++ [(['z', 'z', '-', 'm', 'u', 't'], .plain ['1'])],
    listF := fun ks => ks ++ ITrees.cons (.text ['M']) .nil,
    mnodeF := fun k => k + 1,
    depF := fun d => { d with name := d.name ++ ['x'] },
    sourceF := fun s => match s with
      | .none => .none
      | .href h => .href (h ++ ['x'])
      | .subdir p d a => .subdir p (d ++ ['x']) a,
    dictF := fun kvs => kvs ++ [(['z', 'z'], ['1'])],
    dictsF := fun l => l ++ [{ id := 0, kvs := [(['z', 'z'], ['1'])] }] }

/-- does mutating each object of `a` (one at a time) leave the value of `b` as it is? -/
def untouchedBy (a b : Recv) : Bool :=
  a.ids.all fun i => (b.mutate i canonMut).beq b

def mutateAns (r : Recv) (n : Nat) : Bool × Bool :=
  let cp := (r.tagify n).1
  (untouchedBy cp r, untouchedBy r cp)

/-! ### read-only operation sequences -/

def lpP : P (Option Str) := optStr

def readOpP : P ReadOp := do
  let t ← next
  match t with
  | "tg" => pure .tagify
  | "rd" => pure .render
  | "st" => pure (.strOf .invisible)
  | "rp" => pure (.reprOf .invisible)
  | "rh" => pure (.reprHtmlOf .invisible)
  | "gh" => do let i ← nat; let e ← str; pure (.getHtmlString i e)
  | "gd" => do let b ← bool; pure (.getDeps b)
  | "cp" => pure .copy
  | "dt" => do let lp ← lpP; let iv ← bool; pure (.depAsHtmlTags lp iv)
  | "dd" => do let lp ← lpP; let iv ← bool; pure (.depAsDict lp iv)
  | "dm" => do let lp ← lpP; let iv ← bool; pure (.depSourcePathMap lp iv)
  | "ds" => do let i ← indentP; pure (.depSerialize i)
  | _ => throw s!"bad read op {t}"

def encDepDict (dd : DepDict) : String :=
  encKvsList dd.script ++ " " ++ encKvsList dd.stylesheet ++ " " ++ encKvsList dd.metas ++ " " ++ encOptStr dd.head

def encObs : Obs → String
  | .tree n => "t " ++ encNode n
  | .list ks => "l " ++ encNodes ks
  | .rendered (.ok h) deps => "r ok " ++ encStr h ++ " " ++ encDepEntries deps
  | .rendered (.error e) _ => "r err " ++ encErr e
  | .text r => "s " ++ encExcept encStr r
  | .deps ds => "d " ++ encNodeList ds
  | .nodes r => "n " ++ encExcept encNodes r
  | .dict r => "c " ++ encExcept encDepDict r
  | .pathMap m => "m " ++ encStr m.source ++ " " ++ encStr m.href
  | .notApplicable => "na"

/-- run a history on a receiver: `(results, receiver's value unchanged?)` -/
def seqAns (r : Recv) (n : Nat) (ops : List ReadOp) : List Obs × Bool :=
  match r with
  | .one x =>
    let s := runSeq (ReadOp.step cfg) ops x n
    (s.1, s.2.1.erase.beq x.erase)
  | .many l ks =>
    let s := runSeq (ReadOp.stepList cfg) ops (l, ks) n
    (s.1, s.2.1.2.eraseAll.beq ks.eraseAll && s.2.1.1 == l)

def encSeq (a : List Obs × Bool) : String :=
  "pure " ++ encBool a.2 ++ " " ++ encList (a.1.map fun o => "; " ++ encObs o)

/-! ### views -/

def viewsAns (r : Recv) : List (Except Err Str) :=
  match r with
  | .one x => [strView cfg .invisible x.erase, reprView cfg .invisible x.erase, reprHtmlView cfg .invisible x.erase,
               renderHtmlView cfg x.erase]
  | .many _ ks => [strViewList cfg .invisible ks.eraseAll, reprViewList cfg .invisible ks.eraseAll,
                   reprHtmlViewList cfg .invisible ks.eraseAll, renderHtmlViewList cfg ks.eraseAll]

/-! ### document -/

def docP : P (IDoc × Nat) := do
  let ks ← nodes
  let args ← listOf attrPair
  let r := labelNodes ks 1
  pure ({ cid := 0, content := r.1, args := args }, r.2)

def encRootAttrs : Option Attrs → String
  | some a => "S " ++ encAttrs a
  | none => "N"

def docAns (d : IDoc) (n : Nat) : String :=
  let r := docGenTree cfg d n
  "root " ++ encRootAttrs r.2.1.rootAttrs ++ " pure "
    ++ encBool (r.2.1.content.eraseAll.beq d.content.eraseAll && r.2.1.args == d.args && r.2.1.cid == d.cid)

end HtmlVerif.Ops.IdentOps

namespace HtmlVerif.Ops
open HtmlVerif HtmlVerif.Wire HtmlVerif.Ident HtmlVerif.Ops.IdentOps

def identOps : OpTable
  | "c08_tagify" => some do
    let (r, n) ← recvP
    pure (tagifyAns r n).enc
  | "c08_mutate" => some do
    let (r, n) ← recvP
    let a := mutateAns r n
    pure (encBool a.1 ++ " " ++ encBool a.2)
  | "c08_seq" => some do
    let (r, n) ← recvP
    let ops ← listOf readOpP
    pure (encSeq (seqAns r n ops))
  | "c08_views" => some do
    let (r, _) ← recvP
    pure (" ".intercalate ((viewsAns r).map (encExcept encStr)))
  | "c08_doc" => some do
    let (d, n) ← docP
    pure (docAns d n)
  | _ => none

end HtmlVerif.Ops
