/-
Operations the driver exposes.  Each parses its arguments from the token stream and
returns the canonical encoding of the model's answer.
-/
import HtmlVerif.Generated.Tables
import HtmlVerif.Generated.TagFns
import HtmlVerif.Wire
import HtmlVerif.Spec.Meta

namespace HtmlVerif.Ops
open HtmlVerif HtmlVerif.Wire

/-- the renderer's tables, as they are in the source right now -/
def cfg : Cfg :=
  { void := Generated.voidNames, noesc := Generated.noescNames,
    textTbl := Generated.textTbl, attrTbl := Generated.attrTbl }

def dispatch (op : String) : P String :=
  match op with
  | "escape" => do
    let a ← bool; let s ← str
    pure (encStr (htmlEscapeT (if a then cfg.attrTbl else cfg.textTbl) s))
  | "render_tag" => do
    let n ← node; let i ← nat; let e ← str
    pure (encExcept encStr (renderTagChecked cfg n i e))
  | "render_list" => do
    let ks ← nodes; let i ← nat; let e ← str; let aw ← bool; let esc ← bool
    pure (encExcept encStr (renderListChecked cfg ks i e aw esc))
  | "strip_meta" => do
    let n ← node
    pure (encNode n.stripMeta)
  | "strip_meta_list" => do
    let ks ← nodes
    pure (encNodes ks.stripMeta)
  | _ => throw s!"unknown op {op}"

end HtmlVerif.Ops
