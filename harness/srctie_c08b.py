"""Translator validation lines for the C08b translations (DESIGN §14.3).

By value (`src <function> [ … ]`): objects are written with their real `__dict__` in attribute-creation order (Tag = name,
add_ws, attrs, children, prev_displayhook; TagList = data; HTMLDependency = name, version, source, script, stylesheet,
meta, all_files, head; HTMLDocument = _content, _html_attr_args; a bare MetadataNode = whatever was set on it); receivers of
the wrong kind and field values the fragment does not cover (a Tag stored in a field of a Tag) are generated too.

With identity (`srcc08b <function> L [ heap ] [ … ]`, harness/ops_src_c08b.py): a tree is laid out in a heap — Tag, its
TagAttrDict and its TagList are three objects, a metadata node one, a dependency one plus its `source` dict, its three
item lists with their dicts, its head TagList — sometimes with the same object occurring twice in a child list."""
from __future__ import annotations

from wire import es
from srctie import S, H, rstr, scalar
import srctie_c08 as c8


# ------------------------------------------------------------------ by value
def pv_list(kids) -> str:
    return "O TagList [ data L [ " + "".join(pv(c) + " " for c in kids) + "] ]"


def pv_attrs(attrs) -> str:
    return "M [ " + "".join(es(a) + " " + ("H " if v[0] == "h" else "S ") + es(v[1]) + " " for a, v in attrs) + "]"


def pv(n) -> str:
    k = n[0]
    if k == "tag":
        return (f"O Tag [ name {S(n[1])} add_ws {'T' if n[2] else 'F'} attrs {pv_attrs(n[3])} children {pv_list(n[4])} "
                f"prev_displayhook N ]")
    if k == "text":
        return S(n[1])
    if k == "html":
        return H(n[1])
    if k == "robj":
        return f"O ReprObj [ _repr_html_ {S(n[1])} ]"
    if k == "meta":
        return f"O MetadataNode [ n I {n[1]} ]"
    if k == "dep":
        d = n[1]
        return (f"O HTMLDependency [ name {S(d['name'])} version {c8.pv_version(d['version'])} source {c8.pv_source(d['source'])} "
                f"script {c8.pv_kvs(d['script'])} stylesheet {c8.pv_kvs(d['stylesheet'])} meta {c8.pv_kvs(d['metas'])} "
                f"all_files {'T' if d['all_files'] else 'F'} head {pv_list(n[3]) if n[2] else 'N'} ]")
    if k == "tobj":
        return rng_free_tobj(n[1])
    raise ValueError(k)


def rng_free_tobj(rh):
    return "O TagifiableObj [ tagify N " + (f"_repr_html_ {S(rh)} " if rh is not None else "") + "]"


def rand_t(rng, depth):
    t = c8.rand_t(rng, depth)
    return t


def with_tobj(rng, kids):
    if rng.random() < 0.2:
        kids = list(kids)
        kids.insert(rng.randint(0, len(kids)), ("tobj", rng.choice([None, "<r>"])))
    return kids


def _html_init(rng):
    r = rng.random()
    me = "O HTML [ ]" if r < 0.85 else H(rstr(rng)) if r < 0.95 else scalar(rng)
    return f"[ {me} {scalar(rng)} ]"


def _html_view(rng):
    r = rng.random()
    return f"[ {H(rstr(rng)) if r < 0.85 else scalar(rng)} ]"


def _dep_repr(rng):
    r = rng.random()
    if r < 0.8:
        return f"[ {pv(c8.rand_dep(rng, 1))} ]"
    if r < 0.87:
        # other `name` / `version` values: whatever `str()` makes of them
        return (f"[ O HTMLDependency [ name {scalar(rng)} version {scalar(rng)} ] ]")
    if r < 0.94:
        return f"[ {pv(c8.rand_tag(rng, 1))} ]"
    return f"[ {scalar(rng)} ]"


def _dep_str(rng):
    """`str(dep)`: dependencies in the shape of the C12 area (file-system answers recorded for the Lean side), whose head holds
    nodes `str()` can render"""
    import srctie_c12
    r = rng.random()
    if r < 0.9:
        while True:
            d = srctie_c12._dep(rng, head_leaves=('text', 'html', 'robj'))
            if "TagifiableObj" not in d:      # `str()` expands the head: what a test object's `tagify()` returns is another area's convention
                return f"[ {d} ]"
    if r < 0.95:
        return f"[ {pv(c8.rand_tag(rng, 1))} ]"
    return f"[ {scalar(rng)} ]"


def _tag_copy(rng):
    r = rng.random()
    if r < 0.7:
        t = c8.rand_tag(rng, rng.randint(1, 3))
        t = (t[0], t[1], t[2], t[3], with_tobj(rng, t[4]))
        return f"[ {pv(t)} ]"
    if r < 0.78:
        # a Tag that is being used as a context manager, extra attributes set by the user
        t = c8.rand_tag(rng, 1)
        extra = rng.choice(["", f"extra {scalar(rng)} ", f"note {S('n')} more U [ I 1 {S('x')} ] "])
        return (f"[ O Tag [ name {S(t[1])} add_ws {'T' if t[2] else 'F'} attrs {pv_attrs(t[3])} children {pv_list(t[4])} "
                f"prev_displayhook N {extra}] ]")
    if r < 0.84:
        return f"[ {pv_list([rand_t(rng, 1) for _ in range(rng.randint(0, 3))])} ]"
    if r < 0.88:
        return f"[ O MetadataNode [ n I {rng.randint(0, 3)} ] ]"
    if r < 0.92:
        return f"[ {pv(c8.rand_dep(rng, 1))} ]"
    if r < 0.96:
        # a field holding an object with a `__copy__` of its own (not covered by the by-value primitive: no verdict)
        return f"[ O Tag [ name {S('a')} inner {pv(c8.rand_tag(rng, 1))} ] ]"
    return f"[ {scalar(rng)} ]"


def _doc(rng) -> str:
    kids = [rand_t(rng, rng.randint(0, 2)) for _ in range(rng.randint(0, 3))]
    args = "M [ " + "".join(es(k) + " " + scalar(rng) + " " for k in rng.sample(["lang", "class_", "data_x"], rng.randint(0, 2))) + "]"
    return f"O HTMLDocument [ _content {pv_list(kids)} _html_attr_args {args} ]"


def _doc_copy(rng):
    r = rng.random()
    if r < 0.8:
        return f"[ {_doc(rng)} ]"
    if r < 0.9:
        return f"[ {pv(c8.rand_tag(rng, 2))} ]"
    return f"[ {scalar(rng)} ]"


def _nodes_copy(rng):
    r = rng.random()
    kids = with_tobj(rng, [rand_t(rng, rng.randint(0, 3)) for _ in range(rng.randint(0, 4))])
    if r < 0.85:
        return f"[ {pv_list(kids)} ]"
    if r < 0.92:
        return "[ L [ " + "".join(pv(c) + " " for c in kids) + "] ]"
    if r < 0.96:
        return f"[ {pv(c8.rand_tag(rng, 1))} ]"
    return f"[ {scalar(rng)} ]"


def _dep_copy(rng):
    r = rng.random()
    if r < 0.85:
        return f"[ {pv(c8.rand_dep(rng, 2))} ]"
    if r < 0.93:
        return f"[ {pv(c8.rand_tag(rng, 1))} ]"
    return f"[ {scalar(rng)} ]"


def register(GENS):
    GENS["HTML_initC08b"] = _html_init
    for f in ("HTML_strC08b", "HTML_reprC08b", "HTML_repr_htmlC08b"):
        GENS[f] = _html_view
    GENS["HTMLDependency_reprC08b"] = _dep_repr
    GENS["HTMLDependency_strC08b"] = _dep_str
    GENS["Tag_copyC08b"] = _tag_copy
    GENS["HTMLDocument_copyC08b"] = _doc_copy
    GENS["copy_tag_nodesC08b"] = _nodes_copy
    GENS["HTMLDependency_copyC08b"] = _dep_copy


# ------------------------------------------------------------------ with identity
def ref(cls: str, n: int) -> str:
    return f"O {cls} [ __id__ I {n} ]"


def heapify(rng, n, heap: list) -> str:
    """lay the node out in `heap` (a list of object terms); returns the value that refers to it"""
    k = n[0]
    if k == "tag":
        i, a, c = len(heap), len(heap) + 1, len(heap) + 2
        heap += [None, None, None]
        heap[a] = pv_attrs(n[3])
        kids = [heapify(rng, ch, heap) for ch in n[4]]
        if kids and rng.random() < 0.12:
            kids.insert(rng.randint(0, len(kids)), rng.choice(kids))       # the same object twice
        heap[c] = "O TagList [ data L [ " + "".join(x + " " for x in kids) + "] ]"
        heap[i] = (f"O Tag [ name {S(n[1])} add_ws {'T' if n[2] else 'F'} attrs {ref('TagAttrDict', a)} "
                   f"children {ref('TagList', c)} prev_displayhook N ]")
        return ref("Tag", i)
    if k == "text":
        return S(n[1])
    if k == "html":
        return H(n[1])
    if k == "robj":
        return f"O ReprObj [ _repr_html_ {S(n[1])} ]"
    if k == "tobj":
        return rng_free_tobj(n[1])
    if k == "meta":
        heap.append(f"O MetadataNode [ n I {n[1]} ]")
        return ref("MetadataNode", len(heap) - 1)
    if k == "dep":
        d = n[1]
        i = len(heap)
        heap.append(None)

        def dict_obj(kvs):
            heap.append("M [ " + "".join(es(a) + " " + S(b) + " " for a, b in kvs) + "]")
            return ref("dict", len(heap) - 1)

        def list_obj(ds):
            j = len(heap)
            heap.append(None)
            items = [dict_obj(x) for x in ds]
            heap[j] = "L [ " + "".join(x + " " for x in items) + "]"
            return ref("list", j)
        src = d["source"]
        if src is None:
            source = "N"
        elif src[0] == "href":
            source = dict_obj([("href", src[1])])
        else:
            source = dict_obj([("subdir", src[2])] + ([("package", src[1])] if src[1] is not None else []))
        script, sheet, meta = list_obj(d["script"]), list_obj(d["stylesheet"]), list_obj(d["metas"])
        head = "N"
        if n[2]:
            c = len(heap)
            heap.append(None)
            kids = [heapify(rng, ch, heap) for ch in n[3]]
            heap[c] = "O TagList [ data L [ " + "".join(x + " " for x in kids) + "] ]"
            head = ref("TagList", c)
        heap[i] = (f"O HTMLDependency [ name {S(d['name'])} version {c8.pv_version(d['version'])} source {source} "
                   f"script {script} stylesheet {sheet} meta {meta} all_files {'T' if d['all_files'] else 'F'} head {head} ]")
        return ref("HTMLDependency", i)
    raise ValueError(k)


def _heap_line(heap, arg) -> str:
    return "L [ " + "".join(x + " " for x in heap) + f"] [ {arg} ]"


def _h_tag_copy(rng):
    heap: list = []
    if rng.random() < 0.3:       # other objects before it
        heapify(rng, rand_t(rng, 1), heap)
    t = c8.rand_tag(rng, rng.randint(1, 2))
    t = (t[0], t[1], t[2], t[3], with_tobj(rng, t[4]))
    r = heapify(rng, t, heap)
    q = rng.random()
    if q < 0.85:
        return _heap_line(heap, r)
    if q < 0.9:
        # a Tag with extra attributes, one of them a tuple / a number
        i = int(r.split()[-2])
        heap[i] = heap[i][:-1] + f"extra {rng.choice(['I 3', 'U [ I 1 ]', S('x'), H('y'), 'D ' + es('1.5')])} ]"
        return _heap_line(heap, r)
    if q < 0.95:
        return _heap_line(heap, rng.choice([x for x in [ref('TagList', int(r.split()[-2]) + 2)]]))
    return _heap_line(heap, scalar(rng))


def _h_doc_copy(rng):
    heap: list = []
    kids = [heapify(rng, rand_t(rng, rng.randint(0, 1)), heap) for _ in range(rng.randint(0, 3))]
    c = len(heap)
    heap.append("O TagList [ data L [ " + "".join(x + " " for x in kids) + "] ]")
    a = len(heap)
    heap.append("M [ " + "".join(es(k) + " " + S("v") + " " for k in rng.sample(["lang", "class_"], rng.randint(0, 2))) + "]")
    d = len(heap)
    heap.append(f"O HTMLDocument [ _content {ref('TagList', c)} _html_attr_args {ref('dict', a)} ]")
    return _heap_line(heap, ref("HTMLDocument", d))


def _h_nodes_copy(rng):
    heap: list = []
    kids = [heapify(rng, ch, heap) for ch in with_tobj(rng, [rand_t(rng, rng.randint(0, 2)) for _ in range(rng.randint(0, 4))])]
    if kids and rng.random() < 0.15:
        kids.append(rng.choice(kids))
    c = len(heap)
    heap.append("O TagList [ data L [ " + "".join(x + " " for x in kids) + "] ]")
    return _heap_line(heap, ref("TagList", c))


def _h_dep_copy(rng):
    heap: list = []
    r = heapify(rng, c8.rand_dep(rng, 2), heap)
    return _heap_line(heap, r)


C08B_GENS = {
    "Tag_copyHC08b": _h_tag_copy,
    "HTMLDocument_copyHC08b": _h_doc_copy,
    "copy_tag_nodesHC08b": _h_nodes_copy,
    "HTMLDependency_copyHC08b": _h_dep_copy,
}


def lines_c08b(rng, funcs: list[str], n: int) -> list[str]:
    out = []
    for f in funcs:
        seen = set()
        for _ in range(n):
            l = f"srcc08b {f} {C08B_GENS[f](rng)}"
            if l not in seen:
                seen.add(l)
                out.append(l)
    return out


def add_src_c08b(ck, funcs: list[str], quick: int = 200, thorough: int = 2000):
    """`Check.add_src` for the translations over the heap (op `srcc08b`)"""
    import core
    ls = lines_c08b(ck.rng, funcs, thorough if ck.tier == "thorough" else quick)
    ck.src_lines += list(zip(ls, core.impl_many(ls)))
