/-
C14 — Child lists hold only normalised nodes after any sequence of operations.

Model: Model/Children.lean (the code's flatten-then-convert, the TagList/Tag operations over
`Stored = node n | raw a`).  Specification: Spec/Children.lean (`flatSpec`, `specStep`).
`+=` and `is_tag_child(int)` are modelled as the property demands (F-C14a, F-C14b); the behaviour the
pinned tree inherits from `UserList` is `TL.iaddInherited`, shown below to break the invariant.
-/
import HtmlVerif.Lemmas.Children

namespace HtmlVerif.C14
open HtmlVerif

/-! ### 1. flatten-then-convert (the code) is the one-pass flattening (the statement) -/

/-- `_tagchilds_to_tagnodes`'s two phases — `flatten`, then the number/type loop — compute exactly the
    depth-first, left-to-right specification; in particular every element produced is a `node` -/
theorem C14_toNodes_is_spec (items : Args) :
    convertLoop (flatten items) = mapOk (List.map Stored.node) items.spec :=
  Args.convert_flatten items

/-- `_tagchilds_to_tagnodes(x)` for any operand `x` (str kept whole, other iterables iterated) -/
theorem C14_tagnodes_is_spec (x : Arg) :
    chTagchildsToTagnodes x = mapOk (List.map Stored.node) (operandSpec x) := by
  unfold chTagchildsToTagnodes operandSpec childrenOf
  by_cases hs : x.isStr = true
  · cases x with
    | node n =>
      cases n <;> simp [Arg.isStr] at hs
      simp [Arg.isStr, Stored.ofArg, flatSpec, Args.ofList, Args.spec, Arg.spec, mapOk]
    | _ => simp [Arg.isStr] at hs
  · simp only [hs]
    cases hi : x.iter with
    | error e => simp [mapOk]
    | ok items => simpa [flatSpec, flatten] using Args.convert_flatten items

/-- `TagList(*args)` -/
theorem C14_init_is_spec (args : List Arg) :
    TL.init args = mapOk (List.map Stored.node) (flatSpec args) := by
  rw [TL.init, C14_tagnodes_is_spec]
  simp [operandSpec, childrenOf, Arg.isStr, Arg.iter]

/-! the specification really is the flattening the statement describes -/

/-- None is dropped -/
theorem C14_flatSpec_none (r : List Arg) : flatSpec (.none :: r) = flatSpec r := by
  simp only [flatSpec, Args.ofList, Args.spec_cons, Arg.spec]
  cases (Args.ofList r).spec <;> simp [both]

/-- a number contributes its `str()` text, in place -/
theorem C14_flatSpec_num (k : NumKind) (t : Str) (r : List Arg) :
    flatSpec (.num k t :: r) = mapOk (Node.text t :: ·) (flatSpec r) := by
  simp only [flatSpec, Args.ofList, Args.spec_cons, Arg.spec]
  cases (Args.ofList r).spec <;> simp [both, mapOk]

/-- a string (or any other node) is kept whole, in place -/
theorem C14_flatSpec_node (n : Node) (r : List Arg) :
    flatSpec (.node n :: r) = mapOk (n :: ·) (flatSpec r) := by
  simp only [flatSpec, Args.ofList, Args.spec_cons, Arg.spec]
  cases (Args.ofList r).spec <;> simp [both, mapOk]

/-- nested lists, tuples and TagLists are spliced -/
theorem C14_flatSpec_splice (xs : Args) (r : List Arg) :
    flatSpec (.list xs :: r) = flatSpec (xs.toList ++ r)
    ∧ flatSpec (.tuple xs :: r) = flatSpec (xs.toList ++ r)
    ∧ flatSpec (.taglist xs :: r) = flatSpec (xs.toList ++ r) := by
  simp [flatSpec, Args.ofList, Args.spec_cons, Arg.spec, Args.spec_append]

/-- success is exactly "every supplied value has a supported type, at every depth" -/
theorem C14_flatSpec_ok_iff (args : List Arg) :
    (∃ ns, flatSpec args = .ok ns) ↔ ∀ a ∈ args, a.supported = true := by
  rw [← Args.supported_ofList]
  constructor
  · intro ⟨ns, h⟩
    cases hs : (Args.ofList args).supported with
    | true => rfl
    | false => simp [flatSpec, Args.spec_of_unsupported _ hs] at h
  · intro h
    exact Args.spec_of_supported _ h

/-- and the only failure is TypeError -/
theorem C14_flatSpec_error (args : List Arg) (e : Err) (h : flatSpec args = .error e) : e = .typeError := by
  cases hs : (Args.ofList args).supported with
  | true =>
    obtain ⟨ns, hn⟩ := Args.spec_of_supported _ hs
    simp [flatSpec, hn] at h
  | false =>
    simp only [flatSpec, Args.spec_of_unsupported _ hs] at h
    cases h; rfl

/-! ### 2. every operation refines its specification -/

/-- one operation on a list that holds the nodes `s`: the outcome is the specified one (and on an error
    the list is what it was) -/
theorem C14_step_refines (s : List Node) (op : Op) :
    step (s.map Stored.node) op = StepOut.ofSpec s (specStep s op) := by
  cases op with
  | init args =>
    simp only [step, specStep, C14_init_is_spec]
    cases flatSpec args <;> simp [mapOk, rebind, StepOut.ofSpec]
  | extend a =>
    simp only [step, specStep, TL.extend, resolve_nodes, C14_tagnodes_is_spec]
    cases operandSpec (a.resolveSpec s) <;> simp [mapOk, StepOut.ofSpec]
  | append args =>
    cases args with
    | nil => simp [step, specStep, TL.append, StepOut.ofSpec]
    | cons a r =>
      simp only [step, specStep, List.map_cons, TL.append, TL.extend, resolve_nodes, C14_tagnodes_is_spec]
      simp only [operandSpec, childrenOf, Arg.isStr, Arg.iter, Args.toList_ofList, Bool.false_eq_true, if_false]
      cases flatSpec (a.resolveSpec s :: List.map (fun x => x.resolveSpec s) r) <;> simp [mapOk, StepOut.ofSpec]
  | insert i a =>
    simp only [step, specStep, TL.insert, resolve_nodes, C14_tagnodes_is_spec, List.length_map]
    simp only [operandSpec, childrenOf, Arg.isStr, Arg.iter, Args.toList, Bool.false_eq_true, if_false]
    cases flatSpec [a.resolveSpec s] <;> simp [mapOk, StepOut.ofSpec, List.map_take, List.map_drop]
  | add a =>
    simp only [step, specStep, TL.add, resolve_nodes, toArg_nodes, C14_init_is_spec]
    by_cases hs : (a.resolveSpec s).isStr = true
    · simp only [hs, if_true, flatSpec_self_cons, operandSpec, childrenOf]
      cases flatSpec [a.resolveSpec s] <;> simp [mapOk, rebind, StepOut.ofSpec]
    · simp only [hs, operandSpec, childrenOf]
      cases (a.resolveSpec s).iter with
      | error e => simp [mapOk, rebind, StepOut.ofSpec]
      | ok items =>
        simp only [flatSpec_self_cons]
        cases hf : flatSpec items.toList <;> simp [hf, mapOk, rebind, StepOut.ofSpec]
  | radd a =>
    simp only [step, specStep, TL.radd, resolve_nodes, toArg_nodes, C14_init_is_spec]
    by_cases hs : (a.resolveSpec s).isStr = true
    · simp only [hs, if_true, operandSpec, childrenOf]
      have := flatSpec_snoc_self s [a.resolveSpec s]
      simp only [List.cons_append, List.nil_append] at this
      rw [this]
      cases flatSpec [a.resolveSpec s] <;> simp [mapOk, rebind, StepOut.ofSpec]
    · simp only [hs, operandSpec, childrenOf]
      cases (a.resolveSpec s).iter with
      | error e => simp [mapOk, rebind, StepOut.ofSpec]
      | ok items =>
        simp only [flatSpec_snoc_self]
        cases hf : flatSpec items.toList <;> simp [hf, mapOk, rebind, StepOut.ofSpec]
  | iadd a =>
    simp only [step, specStep, TL.iadd, TL.extend, resolve_nodes, C14_tagnodes_is_spec]
    cases operandSpec (a.resolveSpec s) <;> simp [mapOk, StepOut.ofSpec]
  | slice lo hi st =>
    simp only [step, specStep, TL.slice]
    by_cases h0 : st = some 0
    · simp [h0, rebind, StepOut.ofSpec]
    · simp [h0, C14_init_is_spec, pySlice_map, toArgs_nodes, flatSpec_list_nodes, mapOk, rebind, StepOut.ofSpec]
  | mul n =>
    simp [step, specStep, TL.mul, C14_init_is_spec, rep_map, toArgs_nodes, flatSpec_list_nodes, mapOk, rebind,
      StepOut.ofSpec]
  | rmul n =>
    simp [step, specStep, TL.mul, C14_init_is_spec, rep_map, toArgs_nodes, flatSpec_list_nodes, mapOk, rebind,
      StepOut.ofSpec]
  | imul n => simp [step, specStep, TL.imul, rep_map, StepOut.ofSpec]

/-- any history, started on a list of nodes, leaves exactly what the specification says -/
theorem C14_ops_refine (ops : List Op) (s : List Node) :
    runOps (s.map Stored.node) ops = (specOps s ops).map Stored.node := by
  induction ops generalizing s with
  | nil => rfl
  | cons op r ih =>
    simp only [runOps, specOps, C14_step_refines]
    cases specStep s op <;> simp [StepOut.ofSpec, ih]

/-- … and every intermediate outcome (value or exception, and the list after it) is the specified one -/
theorem C14_trace_refines (ops : List Op) (s : List Node) :
    trace (s.map Stored.node) ops = specTrace s ops := by
  induction ops generalizing s with
  | nil => rfl
  | cons op r ih =>
    simp only [trace, specTrace, C14_step_refines]
    cases specStep s op <;> simp [StepOut.ofSpec, ih]

/-- where `insert` writes (Python's `self[i:i] = …`): inside the list, at `i` for `0 ≤ i ≤ len`, at `len - k` for
    `i = -k`; and a slice or a repetition of a list only contains elements of that list -/
theorem C14_positions (len : Nat) :
    (∀ i : Int, clampIdx len i ≤ len)
    ∧ (∀ i : Nat, i ≤ len → clampIdx len (i : Int) = i)
    ∧ (∀ k : Nat, 0 < k → clampIdx len (-(k : Int)) = len - k)
    ∧ (∀ (s : List Node) lo hi st, ∀ x ∈ pySlice s lo hi st, x ∈ s)
    ∧ (∀ (s : List Node) n, ∀ x ∈ rep n s, x ∈ s) :=
  ⟨clampIdx_le len, clampIdx_nonneg len, clampIdx_neg len,
    fun s lo hi st x h => mem_pySlice s lo hi st x h, fun s n x h => mem_rep n s x h⟩

/-! ### 3. the invariant, over arbitrary histories -/

/-- whatever `_tagchilds_to_tagnodes` returns consists of nodes only — for *any* operand, including a
    TagList whose own data is not normalised -/
theorem C14_normalise_inv (x : Arg) (r : TL) (h : chTagchildsToTagnodes x = .ok r) : Inv r := by
  rw [C14_tagnodes_is_spec] at h
  cases hs : operandSpec x with
  | error e => simp [hs, mapOk] at h
  | ok ns =>
    simp only [hs, mapOk, Except.ok.injEq] at h
    subst h
    exact inv_nodes ns

/-- the operations that build a new list establish the invariant from *any* receiver state -/
theorem C14_new_lists_inv (s : TL) (r : TL) :
    (∀ args, TL.init args = .ok r → Inv r)
    ∧ (∀ a, s.add a = .ok r → Inv r)
    ∧ (∀ a, s.radd a = .ok r → Inv r)
    ∧ (∀ lo hi st, s.slice lo hi st = .ok r → Inv r)
    ∧ (∀ n, s.mul n = .ok r → Inv r) := by
  have hinit : ∀ args, TL.init args = .ok r → Inv r := fun args h => C14_normalise_inv _ r h
  refine ⟨hinit, ?_, ?_, ?_, ?_⟩
  · intro a h
    unfold TL.add at h
    split at h
    · exact hinit _ h
    · split at h
      · cases h
      · exact hinit _ h
  · intro a h
    unfold TL.radd at h
    split at h
    · exact hinit _ h
    · split at h
      · cases h
      · exact hinit _ h
  · intro lo hi st h
    unfold TL.slice at h
    split at h
    · cases h
    · exact hinit _ h
  · intro n h
    exact hinit _ h

/-- every operation preserves the invariant -/
theorem C14_step_inv (s : TL) (op : Op) (h : Inv s) : Inv (step s op).state := by
  rw [h.eq_nodes, C14_step_refines]
  cases specStep (TL.nodes s) op <;> exact inv_nodes _

/-- induction over the operation list: the invariant holds after any history -/
theorem C14_history_inv (ops : List Op) (s : TL) (h : Inv s) : Inv (runOps s ops) := by
  induction ops generalizing s with
  | nil => exact h
  | cons op r ih => exact ih _ (C14_step_inv s op h)

/-- in particular from the empty list (`TagList()`, or a fresh `Tag`'s children) -/
theorem C14_history_inv_from_empty (ops : List Op) : Inv (runOps [] ops) :=
  C14_history_inv ops [] (fun _ h => by cases h)

/-- `is_tag_node` holds for every stored element of a list satisfying the invariant … -/
theorem C14_stored_are_nodes (s : TL) (h : Inv s) : ∀ x ∈ s, x.isTagNode = true := by
  intro x hx
  have := h x hx
  cases x with
  | node n => simp [Stored.isTagNode, Stored.toArg, Arg.isTagNode, Node.isTagNode_true]
  | raw a => simp [Stored.isNode] at this

/-- … hence after any history -/
theorem C14_history_stored_are_nodes (ops : List Op) (s : TL) (h : Inv s) :
    ∀ x ∈ runOps s ops, x.isTagNode = true :=
  C14_stored_are_nodes _ (C14_history_inv ops s h)

/-! ### 4. failure: TypeError, and the list is left unchanged -/

/-- atomicity, for every receiver state (normalised or not): an operation that raises leaves the list as it was -/
theorem C14_step_atomic (s : TL) (op : Op) (e : Err) (h : (step s op).result = .error e) :
    (step s op).state = s := by
  have hre : ∀ r : Except Err TL, (rebind s r).result = .error e → (rebind s r).state = s := by
    intro r hr
    cases r with
    | ok v => simp [rebind] at hr
    | error e' => rfl
  have hex : ∀ a, (s.extend a).result = .error e → (s.extend a).state = s := by
    intro a ha
    unfold TL.extend at ha ⊢
    split
    · rfl
    · rename_i ns hn
      simp [hn] at ha
  cases op with
  | init args => exact hre _ h
  | extend a => exact hex _ h
  | append args =>
    cases args with
    | nil => rfl
    | cons a r => exact hex _ h
  | insert i a =>
    simp only [step] at h ⊢
    unfold TL.insert at h ⊢
    split
    · rfl
    · rename_i ns hn
      simp [hn] at h
  | add a => exact hre _ h
  | radd a => exact hre _ h
  | iadd a => exact hex _ h
  | slice lo hi st => exact hre _ h
  | mul n => exact hre _ h
  | rmul n => exact hre _ h
  | imul n => simp [step, TL.imul] at h

/-- the only exception a child operation raises on a normalised list is TypeError (a zero slice step, which is
    not a child argument, is Python's ValueError) -/
theorem C14_step_error_kind (s : TL) (op : Op) (e : Err) (hs : Inv s) (h : (step s op).result = .error e) :
    e = .typeError ∨ (e = .valueError ∧ ∃ lo hi, op = .slice lo hi (some 0)) := by
  rw [hs.eq_nodes, C14_step_refines] at h
  generalize TL.nodes s = ns at h
  have hop : ∀ a, operandSpec a = .error e → e = .typeError := by
    intro a ha
    unfold operandSpec at ha
    cases hc : childrenOf a with
    | ok cs => simp only [hc] at ha; exact C14_flatSpec_error _ e ha
    | error e' =>
      simp only [hc, Except.error.injEq] at ha
      subst ha
      unfold childrenOf at hc
      split at hc
      · cases hc
      · cases hi : a.iter with
        | ok items => simp [hi] at hc
        | error e'' =>
          simp only [hi, Except.error.injEq] at hc
          subst hc
          exact Arg.iter_error a _ hi
  have hm : ∀ (f : List Node → List Node) (r : Except Err (List Node)),
      (StepOut.ofSpec ns (mapOk f r)).result = .error e → r = .error e := by
    intro f r hr
    cases r <;> simp_all [mapOk, StepOut.ofSpec]
  cases op with
  | init args =>
    left
    cases hf : flatSpec args with
    | ok v => simp [specStep, hf, StepOut.ofSpec] at h
    | error e' =>
      simp only [specStep, hf, StepOut.ofSpec, Except.error.injEq] at h
      subst h
      exact C14_flatSpec_error _ _ hf
  | extend a => exact .inl (hop _ (hm _ _ h))
  | append args =>
    left
    cases args with
    | nil => simp [specStep, StepOut.ofSpec] at h; exact h.symm
    | cons a r => exact C14_flatSpec_error _ _ (hm _ _ h)
  | insert i a => exact .inl (C14_flatSpec_error _ _ (hm _ _ h))
  | add a => exact .inl (hop _ (hm _ _ h))
  | radd a => exact .inl (hop _ (hm _ _ h))
  | iadd a => exact .inl (hop _ (hm _ _ h))
  | slice lo hi st =>
    right
    by_cases h0 : st = some 0
    · subst h0
      simp [specStep, StepOut.ofSpec] at h
      exact ⟨h.symm, lo, hi, rfl⟩
    · simp [specStep, h0, StepOut.ofSpec] at h
  | mul n => simp [specStep, StepOut.ofSpec] at h
  | rmul n => simp [specStep, StepOut.ofSpec] at h
  | imul n => simp [specStep, StepOut.ofSpec] at h

/-- a child of unsupported type, at any depth of the supplied arguments, makes construction, `append` and
    `insert` raise TypeError and leaves the receiver — whatever it holds — unchanged -/
theorem C14_unsupported_rejected (s : TL) (args : List Arg) (h : ∃ a ∈ args, a.supported = false) :
    TL.init args = .error .typeError
    ∧ (s.append args).result = .error .typeError ∧ (s.append args).state = s
    ∧ (∀ i a, a.supported = false →
        (s.insert i a).result = .error .typeError ∧ (s.insert i a).state = s) := by
  have hu : (Args.ofList args).supported = false := by
    cases hs : (Args.ofList args).supported with
    | false => rfl
    | true =>
      obtain ⟨a, ha, hf⟩ := h
      have := (Args.supported_ofList args).1 hs a ha
      simp [hf] at this
  have hf : flatSpec args = .error .typeError := Args.spec_of_unsupported _ hu
  refine ⟨by simp [C14_init_is_spec, hf, mapOk], ?_, ?_, ?_⟩
  · cases args with
    | nil => rfl
    | cons a r =>
      simp only [TL.append, TL.extend, C14_tagnodes_is_spec, operandSpec, childrenOf, Arg.isStr, Arg.iter,
        Args.toList_ofList, Bool.false_eq_true, if_false, hf, mapOk]
  · cases args with
    | nil => rfl
    | cons a r =>
      simp only [TL.append, TL.extend, C14_tagnodes_is_spec, operandSpec, childrenOf, Arg.isStr, Arg.iter,
        Args.toList_ofList, Bool.false_eq_true, if_false, hf, mapOk]
  · intro i a ha
    have hfa : flatSpec [a] = .error .typeError := by
      apply Args.spec_of_unsupported
      simp [Args.ofList, Args.supported, ha]
    simp only [TL.insert, C14_tagnodes_is_spec, operandSpec, childrenOf, Arg.isStr, Arg.iter, Args.toList,
      Bool.false_eq_true, if_false, hfa, mapOk, and_self]

/-! ### 5. is_tag_child accepts every value the operations accept -/

/-- every value of supported type is a TagChild (`int` and `bool` included: F-C14b) -/
theorem C14_tagchild_complete (a : Arg) (h : a.supported = true) : a.isTagChild = true := by
  cases a with
  | node n => simp [Arg.isTagChild, Node.isTagNode_true]
  | seqLike k xs => simp [Arg.supported] at h
  | bad k => simp [Arg.supported] at h
  | _ => rfl

/-- stated on the operations themselves: whatever `TagList(...)`, `append` or `insert` accept as a child,
    `is_tag_child` accepts -/
theorem C14_accepted_is_tagchild (s : TL) (a : Arg) :
    ((∃ pre post r, TL.init (pre ++ a :: post) = .ok r) → a.isTagChild = true)
    ∧ ((∃ pre post, (s.append (pre ++ a :: post)).result = .ok ()) → a.isTagChild = true)
    ∧ ((∃ i, (s.insert i a).result = .ok ()) → a.isTagChild = true) := by
  have key : ∀ pre post, (∃ ns, flatSpec (pre ++ a :: post) = .ok ns) → a.isTagChild = true := by
    intro pre post hns
    exact C14_tagchild_complete a ((C14_flatSpec_ok_iff _).1 hns a (by simp))
  refine ⟨?_, ?_, ?_⟩
  · intro ⟨pre, post, r, h⟩
    rw [C14_init_is_spec] at h
    cases hf : flatSpec (pre ++ a :: post) with
    | ok ns => exact key pre post ⟨ns, hf⟩
    | error e => simp [hf, mapOk] at h
  · intro ⟨pre, post, h⟩
    cases hf : flatSpec (pre ++ a :: post) with
    | ok ns => exact key pre post ⟨ns, hf⟩
    | error e =>
      exfalso
      cases hl : pre ++ a :: post with
      | nil => simp at hl
      | cons x r =>
        rw [hl] at h hf
        simp [TL.append, TL.extend, C14_tagnodes_is_spec, operandSpec, childrenOf, Arg.isStr, Arg.iter,
          hf, mapOk] at h
  · intro ⟨i, h⟩
    cases hf : flatSpec ([] ++ a :: []) with
    | ok ns => exact key [] [] ⟨ns, hf⟩
    | error e =>
      exfalso
      simp only [List.nil_append] at hf
      simp [TL.insert, C14_tagnodes_is_spec, operandSpec, childrenOf, Arg.isStr, Arg.iter, Args.toList,
        hf, mapOk] at h

/-! ### 6. Tag.insert / extend / append delegate to the children -/

/-- on a Tag, every operation other than construction acts on `children` by the same functions and touches
    nothing else -/
theorem C14_tag_delegates (t : TagM) (op : Op) (h : ∀ args, op ≠ .init args) :
    (tagStep t op).1 = (step t.children op).result
    ∧ (tagStep t op).2.children = (step t.children op).state
    ∧ (tagStep t op).2.name = t.name ∧ (tagStep t op).2.ws = t.ws ∧ (tagStep t op).2.attrs = t.attrs := by
  cases op with
  | init args => exact absurd rfl (h args)
  | _ => simp [tagStep, step, TagM.extend, TagM.append, TagM.insert, TagM.withChildren]

/-- `Tag(name, *args)` gives its non-dict arguments to `TagList(*kids)` -/
theorem C14_tag_init (name : Str) (args : List Arg) (h : ∀ a ∈ args, a.isDict = false) :
    TagM.init name args = mapOk (fun c => (⟨name, true, [], c⟩ : TagM)) (TL.init args) := by
  have : args.filter (fun a => !a.isDict) = args := by
    rw [List.filter_eq_self]
    intro a ha
    simp [h a ha]
  simp only [TagM.init, this]
  cases TL.init args <;> rfl

/-- one step on a Tag is the same step on its children (construction included, unless a dict — an attribute — is passed) -/
theorem C14_tag_step_eq (t : TagM) (op : Op) (h : op.noDictInit = true) :
    (tagStep t op).1 = (step t.children op).result ∧ (tagStep t op).2.children = (step t.children op).state := by
  cases op with
  | init args =>
    have hd : ∀ a ∈ args, a.isDict = false := by
      intro a ha
      have := List.all_eq_true.1 h a ha
      simpa using this
    simp only [tagStep, step, C14_tag_init t.name args hd]
    cases TL.init args <;> simp [mapOk, rebind]
  | _ => exact ⟨(C14_tag_delegates t _ (by intro args; simp)).1, (C14_tag_delegates t _ (by intro args; simp)).2.1⟩

/-- hence a whole history on a Tag has the outcomes and child lists of the same history on a TagList, and
    `C14_trace_refines` applies to `tag.children` as well -/
theorem C14_tag_trace_eq (ops : List Op) (t : TagM) (h : ∀ op ∈ ops, op.noDictInit = true) :
    tagTrace t ops = trace t.children ops := by
  induction ops generalizing t with
  | nil => rfl
  | cons op r ih =>
    have hs := C14_tag_step_eq t op (h op (by simp))
    have hr := ih (tagStep t op).2 (fun o ho => h o (by simp [ho]))
    simp only [tagTrace, trace, hr, hs.2]
    congr 1
    cases hstep : step t.children op
    simp_all

/-- so the children of a Tag obey the invariant after any history of Tag-level operations -/
theorem C14_tag_history_inv (ops : List Op) (t : TagM) (h : Inv t.children) :
    ∀ o ∈ tagTrace t ops, Inv o.state := by
  induction ops generalizing t with
  | nil => intro o ho; cases ho
  | cons op r ih =>
    have hstep : Inv (tagStep t op).2.children := by
      cases op with
      | init args =>
        simp only [tagStep]
        cases hi : TagM.init t.name args with
        | error e => exact h
        | ok t' =>
          simp only [TagM.init] at hi
          split at hi
          · rename_i c hc
            cases hi
            exact C14_normalise_inv _ c hc
          · cases hi
      | _ =>
        rw [(C14_tag_delegates t _ (by intro args; simp)).2.1]
        exact C14_step_inv _ _ h
    intro o ho
    simp only [tagTrace, List.mem_cons] at ho
    rcases ho with rfl | ho
    · exact hstep
    · exact ih _ hstep o ho

/-! ### 7. the behaviour inherited on the pinned tree is not the property's (F-C14a), `int` (F-C14b) -/

/-- `x = TagList("a"); x += [1, [2, None]]` with `UserList.__iadd__`: the list then holds an `int` and a `list` -/
theorem C14_inherited_iadd_breaks_inv :
    ∃ (s : TL) (a : Arg), Inv s ∧ (TL.iaddInherited s a).result = .ok () ∧ ¬ Inv (TL.iaddInherited s a).state := by
  refine ⟨[.node (.text ['a'])],
    .list (.cons (.num .int ['1']) (.cons (.list (.cons (.num .int ['2']) (.cons .none .nil))) .nil)), ?_, rfl, ?_⟩
  · rw [← invB_iff]; rfl
  · rw [← invB_iff]; simp [invB, TL.iaddInherited, Arg.iter, Args.toList, Stored.ofArg, Stored.isNode]

/-- `x += "cd"`: inherited, the string is split; as the property demands (and as `+`/`extend` do), kept whole -/
theorem C14_inherited_iadd_splits_str :
    (TL.iaddInherited [.node (.text ['a'])] (.node (.text ['c', 'd']))).state.map Stored.toArg
      = [.node (.text ['a']), .node (.text ['c']), .node (.text ['d'])]
    ∧ (step [.node (.text ['a'])] (.iadd (.val (.node (.text ['c', 'd']))))).state.map Stored.toArg
      = [.node (.text ['a']), .node (.text ['c', 'd'])] := by
  constructor <;> rfl

/-! ### non-vacuity -/

/-- the F-C14a history under the property's `+=`: `x = TagList("a"); x += [1, [2, None]]; x += "cd"` gives
    `['a', '1', '2', 'cd']` -/
example :
    specOps [] [.init [.node (.text ['a'])],
      .iadd (.val (.list (.cons (.num .int ['1']) (.cons (.list (.cons (.num .int ['2']) (.cons .none .nil))) .nil)))),
      .iadd (.val (.node (.text ['c', 'd'])))]
    = [.text ['a'], .text ['1'], .text ['2'], .text ['c', 'd']] := by
  simp [specOps, specStep, flatSpec, operandSpec, childrenOf, Arg.isStr, Arg.iter, Args.ofList, Args.toList,
    Args.spec, Arg.spec, OArg.resolveSpec, mapOk]

/-- an unsupported value two levels down is rejected, and the receiver keeps its elements -/
example :
    let s : TL := [.node (.text ['a'])]
    let a : Arg := .list (.cons (.tuple (.cons (.bad 0) .nil)) .nil)
    (∃ x ∈ [Arg.none, a], x.supported = false) ∧ (step s (.append [.val .none, .val a])).state = s := by
  refine ⟨⟨Arg.list (.cons (.tuple (.cons (.bad 0) .nil)) .nil), by simp, rfl⟩, ?_⟩
  exact C14_step_atomic _ _ .typeError rfl

/-- the Tag-level history `t = Tag("div", None, [1]); t.extend(t.children); t.insert(-1, (2.5, "s"))` meets the
    hypothesis of `C14_tag_trace_eq`; it leaves `['1', '2.5', 's', '1']` (index -1 inserts before the last element) -/
example :
    let ops : List Op := [.init [.none, .list (.cons (.num .int ['1']) .nil)], .extend .self,
      .insert (-1) (.val (.tuple (.cons (.num .float ['2', '.', '5']) (.cons (.node (.text ['s'])) .nil))))]
    (∀ op ∈ ops, op.noDictInit = true)
    ∧ specOps [] ops = [.text ['1'], .text ['2', '.', '5'], .text ['s'], .text ['1']] := by
  refine ⟨by simp [Op.noDictInit, Arg.isDict], ?_⟩
  simp [specOps, specStep, flatSpec, operandSpec, childrenOf, Arg.isStr, Arg.iter, Args.ofList, Args.toList,
    Args.spec, Arg.spec, OArg.resolveSpec, selfArg, mapOk, clampIdx]

/-- `is_tag_child` over-accepts (bytes is a Sequence but is rejected as a child); C14 claims only the other direction -/
example : (Arg.seqLike .bytes .nil).isTagChild = true ∧ (Arg.seqLike .bytes .nil).supported = false := ⟨rfl, rfl⟩

/-- negative indices count from the end and out-of-range ones clamp, as `self[i:i] = …` does -/
example : clampIdx 3 (-1) = 2 ∧ clampIdx 3 (-7) = 0 ∧ clampIdx 3 7 = 3 ∧ clampIdx 3 2 = 2 := by decide

end HtmlVerif.C14
