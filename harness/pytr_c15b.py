"""Translator plug-in for the Tag constructor and the helpers around it (C15 `init_is_merge` / `consolidate_*`, C14
`tag_delegates`, C19 `C19_addws`; DESIGN §14): `TagAttrDict.__init__`, `Tag.__init__`, `Tag.insert`, `Tag.extend`,
`Tag.append` and `consolidate_attrs` (htmltools/_core.py).  Loaded after pytr_c14.py (file-name order), whose translations
of `TagList.__init__ / insert / extend / append` are the callees and whose hooks translate `TagList(*kids)` and `cast(T, e)`.

New syntax (through hooks, for the functions of this area only):

  * **star arguments at a call of a translated function** — `f(a, *b, k=v, **c)` (`_call_star`).  Python binds the
    positional values (`a`, then the items of `b`) to the positional parameters from the left and hands the rest to `*args`;
    a key of `c` that names a parameter binds it (TypeError if it is already bound), the other keys go to `**kwargs`.
      - when the plain arguments before the first starred one fill every positional parameter, the binding is static:
        `*args` receives `PVal.tuple (rest ++ pyIter b)` (TypeError if `b` is not iterable);
      - otherwise (`self.children.append(*args)`: `item` comes out of `args`) the positional values are collected in a
        list at run time and parameter `i` is `pyPosArgC15b pos i` (TypeError when there are too few), `*args` the rest —
        only for a callee with `*args` whose positional parameters have no defaults, and only in a call statement;
      - `**c` (with `c` a plain name): every parameter that is not bound otherwise and has a constant default becomes
        `pyKwTakeC15b c "<name>" <default>`; `**kwargs` receives `pyKwRestC15b c [bound names] [taken names]`.
    Arguments are pure in this fragment, so the order in which the pieces are evaluated cannot change a result other than
    which TypeError is raised first.
  * **constructor calls** `TagAttrDict(…)` / `Tag(…)`: the translated `__init__` on a new, empty instance (`PVal.dict []`:
    an instance of a `dict` subclass is carried as a dict in this universe; `PVal.obj "Tag" []`), under the syntactic
    conditions that make `C(…)` be `C.__init__` on `object.__new__(C)`: the class is the one of this module whose
    `__init__` was translated, it defines no `__new__` / `__init_subclass__`, has no metaclass, and its bases are `()`
    (Tag) or `Dict[…]` / `dict` (TagAttrDict).
  * `super().__init__()` without arguments in a `dict` subclass: `pyDictInit0C15b` (nothing changes).
  * `dict(e)`: `pyDictCopyC15b`.
  * `self.<method>(*a, **k)` / `self.<field>.<method>(*a)` statements whose method is a translated self-mutating method:
    as in the base translator, with the star binding above.
"""
from __future__ import annotations

import ast

_T = None

#: Lean names of this area's translations
MINE = ("TagAttrDict_initC15b", "Tag_initC15b", "Tag_insertC15b", "Tag_extendC15b", "Tag_appendC15b", "consolidate_attrsC15b")

#: Python class name -> (Lean name of its translated `__init__`, the new empty instance, admissible bases)
CONSTRUCTORS = {
    "TagAttrDict": ("TagAttrDict_initC15b", "(PVal.dict [])", "dict"),
    "Tag": ("Tag_initC15b", '(PVal.obj "Tag" [])', "object"),
}


def _module(fn):
    import pytr_c14
    return pytr_c14._module(fn)


def _seq_elts(fn, elts):
    import pytr_c14
    return pytr_c14.seq_elts(fn, elts)


def _shadowed(fn, name: str) -> bool:
    return name in fn.all_params or name in fn.locals


def _const_default(fn, info, p):
    d = info.defaults.get(p)
    if d is None or not isinstance(d, ast.Constant):
        return None
    return fn.const(d.value)


def _call_star(fn, info, args, kws, recv=None, ind=None) -> str:
    """a call of the translated function `info` whose arguments may be starred (see the module docstring)"""
    T = _T
    if not info.available:
        raise T.Untranslatable(f"calls {info.spec.qual}, which is not translated")
    if info.spec.recursive and not (fn.spec.recursive or fn.spec.group):
        raise T.Untranslatable(f"calls {info.spec.qual}, which takes fuel, from a function that has none")
    params = list(info.params)
    vals: dict[str, str] = {}
    if recv is not None:
        vals[params[0]] = recv
        rest = params[1:]
    else:
        rest = params
    star_kw = [k for k in kws if k.arg is None]
    named_kw = [k for k in kws if k.arg is not None]
    if len(star_kw) > 1:
        raise T.Untranslatable("more than one ** argument")
    # positional
    n_plain = 0
    while n_plain < len(args) and not isinstance(args[n_plain], ast.Starred):
        n_plain += 1
    starred = n_plain < len(args)
    if not starred or n_plain >= len(rest):
        if len(args) > len(rest) and info.vararg is None:
            if starred:
                raise T.Untranslatable("star arguments to a function without *args")
            raise T.ArityMismatch("too many arguments")
        for p, a in zip(rest, args[:len(rest)]):
            vals[p] = fn.V(a)
        if info.vararg is not None:
            vals[info.vararg] = f"(PVal.tuple {_seq_elts(fn, args[len(rest):])})"
    else:
        # some positional parameters are bound from the starred values: decided at run time
        if ind is None:
            raise T.Untranslatable("star arguments that bind positional parameters, outside a call statement")
        if info.vararg is None or any(p in info.defaults for p in rest) or named_kw or star_kw:
            raise T.Untranslatable("star arguments that bind positional parameters of a callee with defaults / without *args / "
                                   "together with keywords")
        pos = fn.fresh("pos")
        fn.emit(ind, f"let {pos} : List PVal := {_seq_elts(fn, args)}")
        for j, p in enumerate(rest):
            vals[p] = f"(← pyPosArgC15b {pos} {j})"
        vals[info.vararg] = f"(PVal.tuple ({pos}.drop {len(rest)}))"
    # keywords given by name
    kwextra = []
    for k in named_kw:
        if k.arg in vals:
            raise T.ArityMismatch("duplicate argument")
        if k.arg in info.params or k.arg in info.kwonly:
            vals[k.arg] = fn.V(k.value)
        elif info.kwarg is not None:
            kwextra.append(f"({T.lstr(k.arg)}, {fn.V(k.value)})")
        else:
            raise T.ArityMismatch(f"unknown keyword {k.arg}")
    # **c
    if star_kw:
        e = star_kw[0].value
        if info.kwarg is None:
            raise T.Untranslatable("** argument to a function without **kwargs")
        if kwextra:
            raise T.Untranslatable("** argument together with keywords that go to **kwargs")
        if not isinstance(e, ast.Name):
            raise T.Untranslatable("** argument that is not a plain name")
        ev = fn.name(e.id)
        bound = [p for p in params + info.kwonly if p in vals]
        taken = []
        for p in rest + info.kwonly:
            if p in vals:
                continue
            d = _const_default(fn, info, p)
            if d is None:
                raise T.Untranslatable(f"parameter {p} (no constant default) may be bound by the ** argument")
            vals[p] = f"(← pyKwTakeC15b {ev} {T.lstr(p)} {d})"
            taken.append(p)
        lst = lambda ns: "[" + ", ".join(T.lstr(n) for n in ns) + "]"  # noqa: E731
        vals[info.kwarg] = f"(← pyKwRestC15b {ev} {lst(bound)} {lst(taken)})"
    elif info.kwarg is not None:
        vals[info.kwarg] = "(PVal.dict [" + ", ".join(kwextra) + "])"
    out = []
    for p in info.all_params:
        if p in vals:
            out.append(vals[p])
        else:
            d = _const_default(fn, info, p)
            if d is None:
                if p in info.defaults:
                    raise T.Untranslatable("non-constant default")
                raise T.ArityMismatch(f"missing argument {p}")
            out.append(d)
    fuel = " fuel" if info.spec.recursive else ""
    return f"(← {info.spec.lean} G{fuel} " + " ".join(out) + ")"


def _has_star(c: ast.Call) -> bool:
    return any(isinstance(a, ast.Starred) for a in c.args) or any(k.arg is None for k in c.keywords)


def _class_ok(fn, cname: str, info, bases_kind: str) -> bool:
    """`C(…)` is `C.__init__` on a new empty instance"""
    import pytr_c14
    cdef = next((n for n in _module(fn).body if isinstance(n, ast.ClassDef) and n.name == cname), None)
    if cdef is None or info.spec.file != fn.spec.file or info.spec.qual != f"{cname}.__init__" or cdef.keywords:
        return False
    if pytr_c14.defines(cdef, "__new__") or pytr_c14.defines(cdef, "__init_subclass__") or cdef.decorator_list:
        return False
    # the name is bound once at module level
    if sum(1 for n in _module(fn).body if isinstance(n, (ast.ClassDef, ast.FunctionDef)) and n.name == cname) != 1:
        return False
    if bases_kind == "object":
        return not cdef.bases
    if len(cdef.bases) != 1:
        return False
    b = cdef.bases[0]
    n = b.value if isinstance(b, ast.Subscript) else b
    if not isinstance(n, ast.Name):
        return False
    return n.id == "dict" or (n.id == "Dict" and pytr_c14._imported_from(fn, "Dict", ("typing",)))


def _expr_hook(fn, e):
    T = _T
    if fn.spec.lean not in MINE or not isinstance(e, ast.Call) or not isinstance(e.func, ast.Name):
        return None
    f = e.func
    if f.id == "dict" and len(e.args) == 1 and not e.keywords and not isinstance(e.args[0], ast.Starred) \
            and not _shadowed(fn, "dict"):
        return f"(← pyDictCopyC15b {fn.V(e.args[0])})"
    if f.id in CONSTRUCTORS and not _shadowed(fn, f.id):
        lean, empty, bases = CONSTRUCTORS[f.id]
        info = fn.known.get(lean)
        if info is None or not info.available:
            raise T.Untranslatable(f"{f.id}.__init__ is not translated")
        if not _class_ok(fn, f.id, info, bases):
            raise T.Untranslatable(f"constructor call of {f.id}: not the plain class of this module")
        if not info.spec.returns_self:
            raise T.Untranslatable(f"{f.id}.__init__ is not translated as returning the new instance")
        return _call_star(fn, info, e.args, e.keywords, recv=empty)
    return None


def _dict_subclass(fn) -> bool:
    c = fn.cls
    if c is None:
        return False
    for b in c.bases:
        n = b.value if isinstance(b, ast.Subscript) else b
        if isinstance(n, ast.Name) and n.id in ("dict", "Dict"):
            return True
    return False


def _stmt_hook(fn, ind, s):
    T = _T
    if fn.spec.lean not in MINE or not (isinstance(s, ast.Expr) and isinstance(s.value, ast.Call)):
        return False
    c = s.value
    f = c.func
    if not isinstance(f, ast.Attribute):
        return False
    # super().__init__() in a dict subclass
    if (isinstance(f.value, ast.Call) and isinstance(f.value.func, ast.Name) and f.value.func.id == "super"
            and not f.value.args and not f.value.keywords and f.attr == "__init__" and _dict_subclass(fn)
            and "self" in fn.all_params and len(fn.cls.bases) == 1):
        if c.args or c.keywords:
            raise T.Untranslatable("super().__init__(…) with arguments in a dict subclass")
        me = fn.name("self")
        fn.mutates_self = True
        fn.emit(ind, f"{me} := (← pyDictInit0C15b {me})")
        return True
    if not _has_star(c):
        return False
    # self.method(*a, **k): the method's effect is on self
    if isinstance(f.value, ast.Name) and f.value.id == "self" and fn.cls is not None and "self" in fn.all_params:
        q = f"{fn.cls.name}.{f.attr}"
        info = fn.pick(q, lambda i: i.spec.returns_self)
        if info is not None:
            me = fn.name("self")
            fn.mutates_self = True
            fn.emit(ind, f"{me} := " + _call_star(fn, info, c.args, c.keywords, recv=me, ind=ind))
            return True
        return False
    # self.<field>.<method>(*a): the field holds an instance whose translated method mutates it
    if (isinstance(f.value, ast.Attribute) and isinstance(f.value.value, ast.Name) and f.value.value.id == "self"
            and fn.cls is not None and (fn.cls.name, f.value.attr) in T.FIELD_CLASS and "self" in fn.all_params):
        owner = T.FIELD_CLASS[(fn.cls.name, f.value.attr)]
        info = fn.pick(f"{owner}.{f.attr}", lambda i: i.spec.returns_self)
        if info is None:
            return False
        me = fn.name("self")
        fld = f.value.attr
        fn.mutates_self = True
        recv = fn.fresh("recv")
        fn.emit(ind, f"let {recv} ← pyGetAttr {me} \"{fld}\"")          # Python evaluates the receiver first
        new = _call_star(fn, info, c.args, c.keywords, recv=recv, ind=ind)
        fn.emit(ind, f"{me} := (← pySetAttr {me} \"{fld}\" {new})")
        return True
    return False


def register(T):
    global _T
    _T = T
    core = "htmltools/_core.py"
    F = T.FnSpec
    T.SPECS += [
        F(core, "TagAttrDict.__init__", "TagAttrDict_initC15b", returns_self=True),
        F(core, "Tag.__init__", "Tag_initC15b", returns_self=True, group="c15b_tag_init"),
        F(core, "Tag.insert", "Tag_insertC15b", returns_self=True, group="c15b_tag_insert"),
        F(core, "Tag.extend", "Tag_extendC15b", returns_self=True, group="c15b_tag_extend"),
        F(core, "Tag.append", "Tag_appendC15b", returns_self=True, group="c15b_tag_append"),
        F(core, "consolidate_attrs", "consolidate_attrsC15b", group="c15b_consolidate"),
    ]
    T.ARITY.update({"TagAttrDict_initC15b": 3, "Tag_initC15b": 5, "Tag_insertC15b": 3, "Tag_extendC15b": 2,
                    "Tag_appendC15b": 2, "consolidate_attrsC15b": 2})
    if "HtmlVerif.Py.PrimC15b" not in T.IMPORTS:
        T.IMPORTS.append("HtmlVerif.Py.PrimC15b")
    T.EXPR_HOOKS.append(_expr_hook)
    T.STMT_HOOKS.append(_stmt_hook)
