"""Implementation side of the source tie for the file-system half of C12 (DESIGN §14): the real `HTMLDependency.copy_to`,
`HTMLDocument.save_html`, `Tag.save_html`, `TagList.save_html` on real objects and a REAL temporary directory.

  srcc12b <function> <cwd : str> <fs> [ <argument : pval>… ]
      -> ok <pval> ;; <fs>  |  err <kind> ;; <fs>  |  unsupported

`<fs>` is the wire term of ops_paths.py: files under the virtual root `/V`.  For the real run `/V` is a fresh
`tempfile.mkdtemp()` directory (outside /repo and /verif; `ops_paths.Sandbox`), removed in a `finally:` after the line; every
path string of the line that lies under `/V` — the `subdir` of a dependency's source, the `path` / `file` argument — is mapped
into it, and the answer is mapped back.  The file system is read back completely — also after an exception — and compared
with the model's (`ops_paths.efs_canon`: every file with its content; directories are implicit on both sides).

`HTMLDocument.render` is not translated in this area: the Lean side answers `self.render(…)` with the value recorded in the
object (`__render__`, for a Tag / TagList receiver `__doc_render__`; Py/PrimC12b.lean).  The same record is what the real
`save_html` gets here: `HTMLDocument.render` is replaced, for the duration of the call, by a function that returns (or
raises) the recorded outcome — so the two sides run the *text of `save_html`* on the same rendering.  A record made for
other arguments than the call's is `unsupported` on both sides.
"""
from __future__ import annotations

import os
from pathlib import Path

import ops_src
import ops_paths
from ops import op
from ops_paths import Sandbox, efs_canon, p_fs, HarnessError
from wire import Toks, ds, es, p_str

EXC = ops_src.EXC
DEP_FIELDS = ("name", "version", "source", "script", "stylesheet", "meta", "all_files", "head")


class Unsupported(Exception):
    pass


# ------------------------------------------------------------------ terms
def parse(t: Toks):
    k = t.next()
    if k in ("N", "T", "F"):
        return (k,)
    if k == "I":
        return ("I", int(t.next()))
    if k in ("D", "S", "H"):
        return (k, ds(t.next()))
    if k in ("L", "U"):
        assert t.next() == "["
        xs = []
        while t.peek() != "]":
            xs.append(parse(t))
        t.next()
        return (k, xs)
    if k == "M":
        assert t.next() == "["
        kvs = []
        while t.peek() != "]":
            key = ds(t.next())
            kvs.append((key, parse(t)))
        t.next()
        return ("M", kvs)
    if k == "O":
        cls = t.next()
        assert t.next() == "["
        fs = []
        while t.peek() != "]":
            f = t.next()
            fs.append((f, parse(t)))
        t.next()
        return ("O", cls, fs)
    raise ValueError(f"bad pval {k}")


class Record:
    """what `render(lib_prefix=lp, include_version=iv)` answers: a dict, or an exception class to raise"""

    def __init__(self, lp, iv, outcome):
        self.lp, self.iv, self.outcome = lp, iv, outcome


def _same_arg(a, b) -> bool:
    return type(a) is type(b) and type(a) in (type(None), str, bool, int) and a == b


class Env:
    def __init__(self, sb: Sandbox):
        self.sb = sb

    def val(self, x):
        import htmltools
        k = x[0]
        if k == "N":
            return None
        if k == "T":
            return True
        if k == "F":
            return False
        if k == "I":
            return x[1]
        if k == "D":
            return float(x[1])
        if k == "S":
            return x[1]
        if k == "H":
            return htmltools.HTML(x[1])
        if k == "L":
            return [self.val(v) for v in x[1]]
        if k == "U":
            return tuple(self.val(v) for v in x[1])
        if k == "M":
            return {key: self.val(v) for key, v in x[1]}
        cls, fs = x[1], dict(x[2])
        if cls == "HTMLDependency":
            d = htmltools.HTMLDependency.__new__(htmltools.HTMLDependency)
            for f in DEP_FIELDS:
                if f in fs:
                    setattr(d, f, self.val(fs[f]))
            src = getattr(d, "source", None)
            if isinstance(src, dict) and isinstance(src.get("subdir"), str) and src.get("package") is None:
                src["subdir"] = self.sb.real(src["subdir"])
            return d
        if cls == "Version":
            from packaging.version import Version
            v = Version(self.val(fs["__str__"]))
            if str(v) != self.val(fs["__str__"]):
                raise Unsupported("the recorded str() of a Version must be its normalised text")
            return v
        if cls == "Tag":
            tg = htmltools.Tag(self.val(fs["name"]), _add_ws=self.val(fs["add_ws"]))
            dict.update(tg.attrs, self.val(fs["attrs"]))
            tg.children = self.val(fs["children"])
            if "__doc_render__" in fs:
                tg._c12b_record = self.val(fs["__doc_render__"])
            return tg
        if cls == "TagList":
            tl = htmltools.TagList()
            tl.data = list(self.val(fs["data"]))
            if "__doc_render__" in fs:
                tl._c12b_record = self.val(fs["__doc_render__"])
            return tl
        if cls == "HTMLDocument":
            doc = htmltools.HTMLDocument.__new__(htmltools.HTMLDocument)
            if "_content" in fs:
                doc._content = self.val(fs["_content"])
            if "_html_attr_args" in fs:
                doc._html_attr_args = self.val(fs["_html_attr_args"])
            if "__render__" in fs:
                doc._c12b_record = self.val(fs["__render__"])
            return doc
        if cls == "RenderRecord":
            if [f for f, _ in x[2]] != ["lib_prefix", "include_version", "outcome"]:
                raise Unsupported("render record")
            return Record(self.val(fs["lib_prefix"]), self.val(fs["include_version"]), self.val(fs["outcome"]))
        if cls == "Raises":
            name = self.val(fs["kind"])
            table = {"TypeError": TypeError, "ValueError": ValueError, "KeyError": KeyError, "RuntimeError": RuntimeError,
                     "NotImplementedError": NotImplementedError, "Exception": Exception}
            if name not in table:
                raise Unsupported("raises " + str(name))
            return table[name]
        if cls == "PosixPath":
            return Path(self.sb.real(self.val(fs["__str__"])))
        if cls == "ReprObj":
            return ops_src._Repr(self.val(fs["_repr_html_"]))
        if cls == "MetadataNode":
            return htmltools.MetadataNode()
        if cls == "Other":
            return ops_src._Other(self.val(fs["__str__"]) if "__str__" in fs else None)
        raise Unsupported(f"cannot realise an instance of {cls}")

    def enc(self, v) -> str:
        if v is None:
            return "N"
        if v is True:
            return "T"
        if v is False:
            return "F"
        if type(v) is int:
            return f"I {v}"
        if type(v) is str:
            return "S " + es(self.sb.virt(v))
        if isinstance(v, Path):
            return "O PosixPath [ __str__ S " + es(self.sb.virt(str(v))) + " ]"
        raise Unsupported(f"result of type {type(v).__name__}")


def _mapped(env: Env, p):
    return env.sb.real(p) if type(p) is str else p


def _with_record(env, rec, thunk):
    """run `thunk()` with `HTMLDocument.render` answering the record"""
    from htmltools import _core

    def render(self, *, lib_prefix="lib", include_version=True):
        if not isinstance(rec, Record):
            raise Unsupported("no render record")
        lp = env.sb.virt(lib_prefix) if type(lib_prefix) is str else lib_prefix
        if not (_same_arg(rec.lp, lp) and _same_arg(rec.iv, include_version)):
            raise Unsupported("the render record was made for other arguments")
        if isinstance(rec.outcome, type) and issubclass(rec.outcome, BaseException):
            raise rec.outcome("recorded")
        if not isinstance(rec.outcome, dict):
            raise Unsupported("render record outcome")
        return dict(rec.outcome)

    saved = _core.HTMLDocument.render
    _core.HTMLDocument.render = render
    try:
        return thunk()
    finally:
        _core.HTMLDocument.render = saved


def _call(env: Env, f: str, a: list):
    from htmltools import _core
    if f == "HTMLDependency_copy_toC12b":
        return _core.HTMLDependency.copy_to(a[0], _mapped(env, a[1]), a[2])
    if f == "HTMLDocument_save_htmlC12b":
        return _with_record(env, getattr(a[0], "_c12b_record", None),
                            lambda: _core.HTMLDocument.save_html(a[0], _mapped(env, a[1]), _mapped(env, a[2]), a[3]))
    if f == "Tag_save_htmlC12b":
        return _with_record(env, getattr(a[0], "_c12b_record", None),
                            lambda: _core.Tag.save_html(a[0], _mapped(env, a[1]), libdir=_mapped(env, a[2]), include_version=a[3]))
    if f == "TagList_save_htmlC12b":
        return _with_record(env, getattr(a[0], "_c12b_record", None),
                            lambda: _core.TagList.save_html(a[0], _mapped(env, a[1]), libdir=_mapped(env, a[2]), include_version=a[3]))
    raise LookupError(f)


@op("srcc12b")
@ops_paths.guarded
def _srcc12b(t: Toks) -> str:
    f = t.next()
    cwd = p_str(t)
    fs = p_fs(t)
    assert t.next() == "["
    terms = []
    while t.peek() != "]":
        terms.append(parse(t))
    t.next()
    with Sandbox() as sb:
        sb.materialise(fs)
        sb.chdir(cwd)
        env = Env(sb)
        try:
            a = [env.val(x) for x in terms]
        except (Unsupported, ImportError, AttributeError, KeyError):
            return "unsupported"
        try:
            r = _call(env, f, a)
            out = "ok " + env.enc(r)
        except (Unsupported, LookupError, ImportError) as e:
            if isinstance(e, KeyError):
                out = "err KeyError"
            elif isinstance(e, IndexError):
                out = "err IndexError"
            else:
                return "unsupported"
        except RecursionError:
            return "unsupported"
        except Exception as e:  # noqa: BLE001
            out = "err Exception"
            for cls in type(e).__mro__:
                if cls.__name__ in EXC:
                    out = "err " + cls.__name__
                    break
        try:
            os.chdir(sb.cwd0)
            snap = sb.snapshot()
        except Exception as e:  # noqa: BLE001
            raise HarnessError(f"snapshot: {type(e).__name__}: {e}")
        return out + " ;; " + efs_canon(snap)
