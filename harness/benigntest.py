#!/usr/bin/env python3
"""Run every registered quick check against behaviour-preserving refactorings (false-alarm measurement).
usage: benigntest.py <dir-with-patch.diff> ...   -> prints one JSON line per refactoring; writes <dir>/result.json"""
import json
import os
import subprocess
import sys
from concurrent.futures import ThreadPoolExecutor

VERIF = os.path.dirname(os.path.dirname(os.path.abspath(__file__)))
WT = os.environ.get("BENIGN_WT", "/tmp/w/benign-wt")


def sh(cmd, **kw):
    p = subprocess.run(cmd, shell=True, capture_output=True, text=True, **kw)
    return p.returncode, p.stdout + p.stderr


def main():
    man = json.load(open(os.path.join(VERIF, "MANIFEST.json")))
    props = [c["property_id"] for c in man["checks"]]
    if not os.path.isdir(WT):
        rc, out = sh(f"git -C /repo worktree add -q --detach {WT}")
        assert rc == 0, out
    for d in sys.argv[1:]:
        d = os.path.abspath(d)
        sh(f"git -C {WT} checkout -- . ; git -C {WT} clean -fdq ; git -C {WT} checkout -q --detach $(git -C /repo rev-parse HEAD)")
        rc, out = sh(f"git -C {WT} apply {d}/patch.diff")
        if rc != 0:
            print(json.dumps({"refactoring": os.path.basename(d), "error": "patch does not apply"}))
            continue
        rc, out = sh(f"cd {WT} && PYTHONPATH={WT} /venv/bin/python -m pytest -q -p no:cacheprovider 2>&1 | tail -1")
        suite = out.strip()

        def one(p):
            rc, out = sh(f"VERIF_REPO={WT} VERIF_EVIDENCE_DIR=/tmp/benign-evidence-{os.path.basename(WT)} timeout 1500 ./check {p} --tier quick", cwd=VERIF)
            v = [l for l in out.splitlines() if l.startswith("VIOLATION")]
            kind = "-"
            detail = ""
            if rc == 1 and v:
                kind = "no-failing-input-found" if v[0].endswith("no-failing-input-found") else "failing-input"
                try:
                    body = json.load(open(os.path.join(VERIF, v[0].split("replay=")[1].split()[0])))
                    detail = (str(body.get("python") or body.get("line") or "")[:300] + " | " + str(body.get("detail") or list((body.get("broken_obligations") or {}).items())[:1])[:400])
                except Exception:  # noqa: BLE001
                    pass
            elif rc not in (0, 1):
                detail = out[-300:]
            return p, {"rc": rc, "kind": kind, "detail": detail}
        with ThreadPoolExecutor(6) as ex:
            res = dict(ex.map(one, props))
        alarms = {p: r for p, r in res.items() if r["rc"] != 0}
        json.dump({"suite": suite, "checks": res}, open(os.path.join(d, "result.json"), "w"), indent=1)
        print(json.dumps({"refactoring": os.path.basename(d), "suite": suite, "alarms": {p: r["kind"] for p, r in alarms.items()}}), flush=True)
    sh(f"git -C {WT} checkout -- .")
    sh("./check C19 --tier quick", cwd=VERIF)


if __name__ == "__main__":
    main()
