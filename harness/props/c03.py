"""C03 — Attribute values are inert, single-line, and decode to the original."""
from __future__ import annotations

import itertools

import core
import gen
import subst
from wire import es

PID = "C03"
MANIFEST = dict(
    text="Lean theorems: html_escape(attr=True) as written equals the seven-character map (C03_esc_attr_as_written, table shape by decide "
         "+kernel); what is written between the quotes decodes to the stored value (C03_decode), contains none of \" ' < > CR LF (C03_inert), "
         "every & starts one of the seven references (C03_amps); the writer emits one name=\"value\" per stored attribute in order (C03_writer); "
         "True/None/False/number normalisation (C03_norm); several values for one name — including HTML() ones — emit the operands' emissions "
         "joined by single spaces (C03_merge*, over mergeVal). Tie: html_escape(attr=True) per code point; marker substitution on attribute "
         "values in the real renderer; every way of supplying and merging values (keyword, positional dicts, update, item assignment, add_class, "
         "add_style) checked literally against the statement on the real code.",
    design="DESIGN.md §6 C03",
    note="Modelled, not verified: dict insertion order; f-string formatting of UserString in the attribute writer.",
    technique="Lean 4 proof (list induction; decide +kernel table side conditions) + differential correspondence",
)
PROP_FILES = ["HtmlVerif/Props/C03.lean", "HtmlVerif/Props/SrcEscape.lean", "HtmlVerif/Props/SrcAttrs.lean"]
ALPHA = "\"'&<>\r\na"


def emitted_value(html: str, key: str) -> str | None:
    """text between the quotes of the single attribute `key` of `<div …></div>`"""
    pre = f'<div {key}="'
    suf = '"></div>'
    if html.startswith(pre) and html.endswith(suf):
        return html[len(pre):-len(suf)]
    if html == "<div></div>":
        return None
    return "\0unparsable\0" + html


class StrSub(str):
    """a str subclass instance (plain text as far as the library is concerned)"""


def merged_ok(combo, got) -> bool:
    """property-level reading of a merged value: the operands' renderings joined by single spaces, where a plain
    operand may be written with ANY character references that decode to its special characters"""
    if got is None or not isinstance(got, str) or got.startswith("\0"):
        return False
    ops_ = [o for o in combo if o[0] not in ("none", "f")]
    if not ops_:
        return False
    pos = 0
    for n, o in enumerate(ops_):
        if n:
            if not got.startswith(" ", pos):
                return False
            pos += 1
        if o[0] in ("p", "s"):
            pos = subst.consume_escape(o[1], got, pos, subst.ATTR_SPECIALS)
            if pos is None:
                return False
        else:
            lit = {"h": lambda: o[1], "t": lambda: "", "n": lambda: str(o[1])}[o[0]]()
            if not got.startswith(lit, pos):
                return False
            pos += len(lit)
    return pos == len(got)


def helper_inert_oracle(ck, rng) -> int:
    """whatever sequence of add_class / remove_class / add_style / attrs.update produced an attribute, what is written is
    inert: an HTML parser sees exactly the tag's own attribute names (nothing injected, nothing swallowed), on one line"""
    from html.parser import HTMLParser
    from htmltools import HTML, Tag
    n = 0
    hostile = ['x"onmouseover="alert(1)', "a'b", "p>q", "r<s", "t&u", "v&quot;w", 'y" z="1', "k\nl", "m=n"]
    bases = [("HTML class", lambda: Tag("div", class_=HTML("base"))), ("plain class", lambda: Tag("div", class_="base")),
             ("merged class", lambda: Tag("div", {"class": "p1"}, class_=HTML("h1"))), ("no class", lambda: Tag("div", id="i"))]

    class P(HTMLParser):
        def __init__(self):
            super().__init__(convert_charrefs=True)
            self.starts = []

        def handle_starttag(self, tag, attrs):
            self.starts.append((tag, attrs))

        def handle_startendtag(self, tag, attrs):
            self.starts.append((tag, attrs))

    for bl, mk in bases:
        for tok in hostile:
            if any(c.isspace() for c in tok) and tok != "k\nl":
                pass
            for seq in range(6):
                n += 1
                ck.holds_checked += 1
                t = mk()
                steps = []
                try:
                    if seq == 0:
                        t.add_class(tok); steps.append(f"add_class({tok!r})")
                    elif seq == 1:
                        t.add_class(tok); t.add_class("tmp"); t.remove_class("tmp"); steps += [f"add_class({tok!r})", "add_class('tmp')", "remove_class('tmp')"]
                    elif seq == 2:
                        t.add_class(tok, prepend=True); t.remove_class("base"); steps += [f"add_class({tok!r}, prepend=True)", "remove_class('base')"]
                    elif seq == 3:
                        t.add_class("keep"); t.add_class(tok); t.remove_class(tok); t.add_class(tok); steps += ["add_class('keep')", f"add_class({tok!r})", f"remove_class({tok!r})", f"add_class({tok!r})"]
                    elif seq == 4:
                        t.add_style(tok.replace("\n", " ") + ";"); t.add_class(tok); t.remove_class("zz"); steps += [f"add_style({tok!r} + ';')", f"add_class({tok!r})", "remove_class('zz')"]
                    else:
                        t.attrs.update({"class": tok}); t.add_class(HTML("hh")); t.remove_class("hh"); steps += [f"attrs.update(class={tok!r})", "add_class(HTML('hh'))", "remove_class('hh')"]
                    out = t.get_html_string()
                except Exception as e:  # noqa: BLE001
                    ck.py_violation(f"helper_inert {bl} {tok!r} seq{seq}", f"raised {type(e).__name__}: {e}", f"{steps} raised", py="; ".join(steps))
                    continue
                p = P()
                p.feed(out)
                names = [k for k, _ in p.starts[0][1]] if p.starts else None
                if len(p.starts) != 1 or p.starts[0][0] != "div" or names != list(t.attrs.keys()) or "\n" in out or "\r" in out:
                    ck.py_violation(f"helper_inert {bl} {tok!r} seq{seq}", out[:400],
                                    f"after {steps} on a tag with {bl} the opening tag is {out!r}: a parser sees elements {[s[0] for s in p.starts]} with attribute names {names}; "
                                    f"the tag has exactly the attributes {list(t.attrs.keys())}",
                                    py=f"t = <div with {bl}>; " + "; ".join("t." + x for x in steps) + "; t.get_html_string()")
    ck.exhaustive_scopes.append({"scope": "attribute values stay inert through the class / style helpers: 4 starting tags x 9 hostile tokens x 6 helper sequences, read back with html.parser",
                                 "n": n, "exhaustive": True})
    return n


def run(tier: str) -> int:
    from htmltools import HTML, Tag
    ck = core.Check(PID, tier, PROP_FILES)
    ck.prepare()
    rng = ck.rng
    ck.rule = ("function level: one case per input string of html_escape(attr=True) — non-trivial = contains one of the seven characters; "
               "value level: one case per (entry point, operand list) — non-trivial = some plain operand contains one of the seven characters; distinct by input")
    lines = []
    if tier == "thorough":
        cps = [c for c in range(0x110000) if not (0xD800 <= c <= 0xDFFF)]
        ck.exhaustive_scopes.append({"scope": "html_escape(chr(c), attr=True) for every Unicode scalar value", "n": len(cps), "exhaustive": True})
    else:
        cps = [c for c in list(range(0x3000)) + [rng.randrange(0x3000, 0x110000) for _ in range(20000)] if not (0xD800 <= c <= 0xDFFF)]
        ck.exhaustive_scopes.append({"scope": "html_escape(chr(c), attr=True) for every code point < U+3000 (+20000 sampled above)", "n": 0x3000, "exhaustive": True})
    for c in cps:
        lines.append(f"escape T {format(c, 'x')}")
    L = 5 if tier == "thorough" else 4
    n_short = 0
    for k in range(0, L + 1):
        for tup in itertools.product(ALPHA + ";#", repeat=k):
            lines.append("escape T " + es("".join(tup)))
            n_short += 1
    ck.exhaustive_scopes.append({"scope": f"all strings of length <= {L} over the seven characters plus ; # a", "n": n_short, "exhaustive": True})
    for _ in range(ck.budget(5000, 100000)):
        lines.append("escape T " + es(gen.rand_text(rng, 40)))
    impl = core.impl_many(lines)
    special = {"26", "3c", "3e", "22", "27", "d", "a"}
    for l, im in zip(lines, impl):
        ck.add(l, im, nontrivial=bool(special & set(l.split(" ", 2)[2].split("."))), tag="escape")
    ck.add_src(['html_escape', 'normalize_attr_value', 'TagAttrDict_update', 'TagAttrDict_setitem', 'add'])
    ck.extra_cov["helper_inert_cases"] = helper_inert_oracle(ck, ck.rng)
    ck.correspond(holds=True)
    # stored attribute values in every tag position: marker substitution
    fns = gen.fn_catalogue(ck.proof.translate_info)
    cases = []
    for _ in range(ck.budget(2500, 40000)):
        t = gen.rand_tag(rng, rng.randint(1, 5), all_names=fns)
        cases.append(("tag", t, rng.choice([0, 1, 3]), rng.choice(["\n", "", "<!>"])))
    for t in gen.alias_trees(rng, ck.budget(300, 4000)):
        cases.append(("tag", t, rng.choice([0, 1]), "\n"))
    ck.exhaustive_scopes.append({"scope": "aliasing stream: one string as HTML(), text, _repr_html_ and attribute values in one tree, lengths " + str(gen.ALIAS_LENGTHS), "exhaustive": False})
    cases += gen.boundary_cases(rng)
    ck.exhaustive_scopes.append({"scope": "width stream: fan-out / attribute count in " + str(gen.WIDTHS) + " x 5 child kinds x 3 parents; text lengths "
                                          + str(gen.ALIAS_LENGTHS) + "; case variants / near misses of void and no-escape names", "exhaustive": True})
    subst.check_cases(ck, cases, {"a", "h"}, "an attribute value must be emitted as its per-character escape (HTML() verbatim)")
    # merging: the statement evaluated literally on the real code, for every entry point
    if ck.driver is not None:
        vals = ["a", 'a"b', "x'y", "&", "<>", "l\r\nm", "", "&amp;", "é ;"]
        # ("s", v): an instance of a str SUBCLASS (user token classes, markupsafe-style strings): plain text like any str
        ops_pool = ([("p", v) for v in vals] + [("h", v) for v in ("x", "<b>", 'q"', "", 'a"b', "&")] + [("t",), ("n", 7), ("n", 1.5), ("none",), ("f",)]
                    + [("s", v) for v in ("tok", 'a"b', "x'y", "l\nm", "&<")])
        maxk = 3 if tier == "quick" else 4
        combos = []
        for k in range(1, maxk + 1):
            if k <= 2:
                combos += list(itertools.product(ops_pool, repeat=k))
            else:
                combos += [tuple(rng.choice(ops_pool) for _ in range(k)) for _ in range(ck.budget(1500, 20000))]
        ck.exhaustive_scopes.append({"scope": "merge shapes: all operand lists of length <= 2 over 20 operand values (plain/HTML/True/number/None/False; four texts both plain and HTML()-marked) x 5 entry points, forwards and then backwards in one process",
                                     "n": len(ops_pool) + len(ops_pool) ** 2, "exhaustive": True})
        # process history: the same operand lists again in reverse order, so that for every pair of operand lists that
        # differ only in whether a value is HTML()-marked, each of the two is evaluated after the other once
        combos += [c for c in reversed(combos) if len(c) <= 2]
        esc_need = sorted({o[1] for c in combos for o in c if o[0] in ("p", "s")})
        esc = dict(zip(esc_need, [subst.ds_(x) for x in ck.driver.run(["spec_escape T " + es(s) for s in esc_need])]))

        def real(o):
            return {"p": lambda: o[1], "s": lambda: StrSub(o[1]), "h": lambda: HTML(o[1]), "t": lambda: True, "n": lambda: o[1], "none": lambda: None, "f": lambda: False}[o[0]]()

        def emission(o):
            return {"p": lambda: esc[o[1]], "s": lambda: esc[o[1]], "h": lambda: o[1], "t": lambda: "", "n": lambda: str(o[1])}.get(o[0], lambda: None)()

        n_merge = 0
        for combo in combos:
            ems = [emission(o) for o in combo]
            ems = [e for e in ems if e is not None]
            want = " ".join(ems) if ems else None
            for entry in ("dicts", "dict+kw", "update", "add_class", "add_style"):
                key = "class" if entry == "add_class" else "style" if entry == "add_style" else "title"
                try:
                    if entry == "dicts":
                        t = Tag("div", *[{key: real(o)} for o in combo])
                    elif entry == "dict+kw":
                        t = Tag("div", *[{key: real(o)} for o in combo[:-1]], **{key: real(combo[-1])})
                    elif entry == "update":
                        t = Tag("div")
                        t.attrs.update(*[{key: real(o)} for o in combo])
                    elif entry == "add_class":
                        if any(o[0] not in ("p", "h", "s") for o in combo):
                            continue
                        t = Tag("div")
                        for o in combo:
                            t.add_class(real(o))
                    else:
                        if any(o[0] not in ("p", "h", "s") or not o[1].endswith(";") for o in combo):
                            continue
                        t = Tag("div")
                        for o in combo:
                            t.add_style(real(o))
                    got = emitted_value(t.get_html_string(), key)
                except Exception as e:  # noqa: BLE001
                    got = f"\0raised {type(e).__name__}: {e}"
                n_merge += 1
                ck.holds_checked += 1
                nt = any(o[0] in ("p", "s") and set(o[1]) & set(ALPHA[:-1]) for o in combo)
                if nt:
                    ck.distinct_nontrivial += 1
                if got != want and not merged_ok(combo, got):
                    line = f"merge {entry} {combo!r}"
                    ck.py_violation(line, repr(got), f"merged attribute value written as {got!r}; the statement requires {want!r} "
                                    f"(each plain operand through the seven-character map, HTML() verbatim, joined by single spaces)",
                                    py=f"entry point {entry}; operands {combo!r}; key {key!r}")
        # add_style has its own operand domain (every value ends with ';') and a `prepend` flag: the final value is
        # the operands' emissions in the order the calls put them, joined by single spaces
        sty_vals = ["a:b;", 'a"b;', "x'y;", "&;", "<>;", "l\r\nm;", ";", "&amp;;", "é ;", "u:url('x');"]
        sty_pool = ([("p", v) for v in sty_vals] + [("h", v) for v in ("x;", "<b>;", 'q";', ";")]
                    + [("s", v) for v in ("c:d;", 'a"b;', "&<;")])
        sty_need = sorted({o[1] for o in sty_pool if o[0] in ("p", "s")} - set(esc))
        esc.update(zip(sty_need, [subst.ds_(x) for x in ck.driver.run(["spec_escape T " + es(s2) for s2 in sty_need])]))
        sty_combos = [(o,) for o in sty_pool] + list(itertools.product(sty_pool, repeat=2))
        sty_combos += [tuple(rng.choice(sty_pool) for _ in range(3)) for _ in range(ck.budget(600, 6000))]
        n_style = 0
        for combo in sty_combos:
            for flags in itertools.product((False, True), repeat=len(combo)) if len(combo) <= 2 else [tuple(rng.random() < 0.5 for _ in combo)]:
                order = []
                for o, pre in zip(combo, flags):
                    order = [o] + order if pre else order + [o]
                want = " ".join(emission(o) for o in order)
                for init in ("add_style", "kw+add_style"):
                    try:
                        if init == "add_style":
                            t = Tag("div")
                            for o, pre in zip(combo, flags):
                                t.add_style(real(o), prepend=pre)
                        else:
                            t = Tag("div", style=real(combo[0]))
                            for o, pre in zip(combo[1:], flags[1:]):
                                t.add_style(real(o), prepend=pre)
                            order2 = [combo[0]]
                            for o, pre in zip(combo[1:], flags[1:]):
                                order2 = [o] + order2 if pre else order2 + [o]
                            want = " ".join(emission(o) for o in order2)
                        got = emitted_value(t.get_html_string(), "style")
                    except Exception as e:  # noqa: BLE001
                        got = f"\0raised {type(e).__name__}: {e}"
                    n_style += 1
                    ck.holds_checked += 1
                    if any(o[0] in ("p", "s") and set(o[1]) & set(ALPHA[:-1]) for o in combo):
                        ck.distinct_nontrivial += 1
                    if got != want and not merged_ok(tuple(order if init == "add_style" else order2), got):
                        ck.py_violation(f"merge {init} {combo!r} prepend={flags!r}", repr(got),
                                        f"style value written as {got!r}; the statement requires {want!r} (each plain operand through the "
                                        f"seven-character map, HTML() verbatim, joined by single spaces in call order / prepend order)",
                                        py=f"entry point {init}; operands {combo!r}; prepend flags {flags!r}")
        ck.extra_cov["add_style_cases"] = n_style
        ck.exhaustive_scopes.append({"scope": "add_style: all operand lists of length <= 2 over 17 ';'-terminated values (plain / HTML() / str subclass, "
                                              "with quotes, &, <, >, CR LF) x every prepend pattern x 2 starting states", "n": n_style, "exhaustive": True})
        ck.extra_cov["merge_cases"] = n_merge + n_style
        # item assignment replaces and escapes
        for v in vals:
            t = Tag("div", title="old")
            t.attrs["title"] = v
            ck.holds_checked += 1
            got = emitted_value(t.get_html_string(), "title")
            if v in esc and got != esc[v] and not merged_ok((("p", v),), got):
                ck.py_violation(f"setitem {v!r}", t.get_html_string(), "item assignment: value not written through the seven-character map")
    ck.extra_cov["extra_evaluations"] = len(cases) + ck.extra_cov.get("merge_cases", 0)
    return ck.finish(matchers=MATCHERS)


MATCHERS = {}
