/-
C10 — Dependencies are validated, then resolve one per name to the highest version.

The resolution laws are stated for `resolveBy gt name` with an arbitrary "strictly greater" test
`gt` (hypothesis `StrictWeak gt`: the strict part of a total preorder, where a law needs any
order property at all) and then instantiated for the order `packaging` reports (`depGt`, read off
`DepInfo.vrank`) and for the concrete release order (`cmpkeyGt`).
-/
import HtmlVerif.Lemmas.Deps
import HtmlVerif.Lemmas.Release
import HtmlVerif.Lemmas.DepInit
import HtmlVerif.Lemmas.NodeBeq
import HtmlVerif.Holds.C10

namespace HtmlVerif.C10
open HtmlVerif

/-! ### collection: every nesting level, document order -/

mutual
  theorem C10_collect_preorder_tag (n : Node) :
      n.collect = if n.isTag then n.preorder.filter Node.isDep else [] := by
    cases n with
    | tag name ws attrs kids =>
      have hk := C10_collect_preorder kids
      have e : Node.isDep (.tag name ws attrs kids) = false := rfl
      simp only [Node.collect, Node.preorder, Node.isTag, if_true, List.filter_cons, e, hk, Nodes.depsOf]
      simp
    | _ => simp [Node.collect, Node.isTag]
  /-- the collected list is exactly the dependency nodes of the tree in document order -/
  theorem C10_collect_preorder (ks : Nodes) : ks.collect = ks.depsOf := by
    cases ks with
    | nil => rfl
    | cons h t =>
      have ht := C10_collect_preorder t
      simp only [Nodes.depsOf] at ht ⊢
      cases h with
      | tag n w a k =>
        have hh := C10_collect_preorder_tag (.tag n w a k)
        simp only [Nodes.collect, Nodes.preorder, List.filter_append, hh, ht]
        simp [Node.isTag]
      | dep d hh hd =>
        have e : Node.isDep (.dep d hh hd) = true := rfl
        simp only [Nodes.collect, Nodes.preorder, Node.preorder, List.filter_append, List.filter_cons, e, ht]
        simp
      | text s =>
        have e : Node.isDep (.text s) = false := rfl
        simp [Nodes.collect, Nodes.preorder, Node.preorder, e, ht]
      | html s =>
        have e : Node.isDep (.html s) = false := rfl
        simp [Nodes.collect, Nodes.preorder, Node.preorder, e, ht]
      | robj s =>
        have e : Node.isDep (.robj s) = false := rfl
        simp [Nodes.collect, Nodes.preorder, Node.preorder, e, ht]
      | mnode s =>
        have e : Node.isDep (.mnode s) = false := rfl
        simp [Nodes.collect, Nodes.preorder, Node.preorder, e, ht]
      | tobjL r c =>
        have e : Node.isDep (.tobjL r c) = false := rfl
        simp [Nodes.collect, Nodes.preorder, Node.preorder, e, ht]
      | tobj1 r c =>
        have e : Node.isDep (.tobj1 r c) = false := rfl
        simp [Nodes.collect, Nodes.preorder, Node.preorder, e, ht]
end

/-- `Tag.get_dependencies(dedup=False)` is the same walk started at the tag's children -/
theorem C10_collect_tag (n : Str) (w : Bool) (a : Attrs) (k : Nodes) :
    (Node.tag n w a k).collect = k.depsOf := by
  simp [Node.collect, C10_collect_preorder]

theorem C10_collect_append (a b : Nodes) : (a ++ b).collect = a.collect ++ b.collect := by
  induction a using Nodes.rec (motive_1 := fun _ => True) with
  | nil => rfl
  | cons h t _ ih =>
    have e : (Nodes.cons h t ++ b) = Nodes.cons h (t ++ b) := rfl
    rw [e]
    cases h <;> simp_all [Nodes.collect]
  | _ => trivial

/-- wrapping a run of siblings into a tag (any name, any attributes) does not change what is collected -/
theorem C10_collect_wrap (n : Str) (w : Bool) (a : Attrs) (k rest : Nodes) :
    (Nodes.cons (.tag n w a k) rest).collect = (k ++ rest).collect := by
  simp [Nodes.collect, Node.collect, C10_collect_append]

mutual
  theorem C10_collect_reach_tag (n : Node) (d : Node) (h : d ∈ n.collect) :
      d.isDep = true ∧ ∃ nm w a k, n = .tag nm w a k ∧ k.Reach d := by
    cases n with
    | tag nm w a k =>
      have := C10_collect_reach k d h
      exact ⟨this.1, nm, w, a, k, rfl, this.2⟩
    | _ => simp [Node.collect] at h
  theorem C10_collect_reach (ks : Nodes) (d : Node) (h : d ∈ ks.collect) :
      d.isDep = true ∧ ks.Reach d := by
    cases ks with
    | nil => simp [Nodes.collect] at h
    | cons hd t =>
      have iht := C10_collect_reach t d
      cases hd with
      | tag nm w a k =>
        simp only [Nodes.collect, List.mem_append] at h
        rcases h with h | h
        · obtain ⟨h1, nm', w', a', k', e, hr⟩ := C10_collect_reach_tag (.tag nm w a k) d h
          cases e
          exact ⟨h1, .inside nm w a k t d hr⟩
        · have := iht h
          exact ⟨this.1, .later _ t d this.2⟩
      | dep di hh hdd =>
        simp only [Nodes.collect, List.mem_cons] at h
        rcases h with h | h
        · subst h; exact ⟨rfl, .here _ t⟩
        · have := iht h
          exact ⟨this.1, .later _ t d this.2⟩
      | _ =>
        simp only [Nodes.collect] at h
        have := iht h
        exact ⟨this.1, .later _ t d this.2⟩
end

/-- a dependency is collected iff it is reachable through tags, at whatever depth -/
theorem C10_collect_mem (ks : Nodes) (d : Node) : d ∈ ks.collect ↔ (d.isDep = true ∧ ks.Reach d) := by
  constructor
  · exact C10_collect_reach ks d
  · rintro ⟨hd, hr⟩
    induction hr with
    | here h t =>
      cases h <;> simp_all [Nodes.collect, Node.isDep]
    | later h t d _ ih =>
      have := ih hd
      cases h <;> simp_all [Nodes.collect]
    | inside n w a k t d _ ih =>
      have := ih hd
      simp [Nodes.collect, Node.collect, this]

/-! ### resolution, for any comparison -/

section generic
variable {κ α : Type} [DecidableEq κ] (gt : α → α → Bool) (name : α → κ)

/-- each name once, names ordered by first occurrence — whatever `gt` is -/
theorem C10_resolve_names (ds : List α) :
    (resolveBy gt name ds).map name = dedupKeepFirst (ds.map name) :=
  resolveBy_names_aux gt name ds.length ds (Nat.le_refl _)

theorem C10_resolve_names_nodup (ds : List α) : ((resolveBy gt name ds).map name).Nodup := by
  rw [C10_resolve_names]; exact dedupKeepFirst_nodup _

/-- every name that occurs is represented -/
theorem C10_resolve_covers (ds : List α) (d : α) (h : d ∈ ds) :
    ∃ r ∈ resolveBy gt name ds, name r = name d := by
  have : name d ∈ (resolveBy gt name ds).map name := by
    rw [C10_resolve_names, mem_dedupKeepFirst]; exact List.mem_map_of_mem h
  obtain ⟨r, hr, e⟩ := List.mem_map.mp this
  exact ⟨r, hr, e⟩

/-- the representative of a name is the first object, among those of that name, that none exceeds:
    highest version, earliest on ties -/
theorem C10_resolve_rep (hs : StrictWeak gt) (ds : List α) (d : α) (h : d ∈ resolveBy gt name ds) :
    firstMaxBy gt (ds.filter (fun x => name x = name d)) = some d :=
  (resolveBy_rep_aux gt name hs ds.length ds (Nat.le_refl _) d h).firstMaxBy_eq hs

/-- positional form: everything of that name before the representative is strictly lower,
    nothing of that name after it is strictly higher -/
theorem C10_resolve_rep_pos (hs : StrictWeak gt) (ds : List α) (d : α) (h : d ∈ resolveBy gt name ds) :
    IsFirstMax gt (ds.filter (fun x => name x = name d)) d :=
  resolveBy_rep_aux gt name hs ds.length ds (Nat.le_refl _) d h

/-- the position singled out by `IsFirstMax` is unique -/
theorem C10_firstMax_unique (pre pre' post post' : List α) (d d' : α)
    (e : pre ++ d :: post = pre' ++ d' :: post')
    (h1 : ∀ y ∈ pre, gt d y = true) (h2 : ∀ y ∈ post, gt y d = false)
    (h1' : ∀ y ∈ pre', gt d' y = true) (h2' : ∀ y ∈ post', gt y d' = false) : pre = pre' :=
  IsFirstMax.pos_unique pre pre' post post' d d' e h1 h2 h1' h2'

/-- nothing is invented: a representative is one of the inputs -/
theorem C10_resolve_sub (hs : StrictWeak gt) (ds : List α) (d : α) (h : d ∈ resolveBy gt name ds) : d ∈ ds :=
  (List.mem_filter.mp (IsFirstMax.mem gt (C10_resolve_rep_pos gt name hs ds d h))).1

/-- resolution is idempotent — whatever `gt` is -/
theorem C10_resolve_idem (ds : List α) :
    resolveBy gt name (resolveBy gt name ds) = resolveBy gt name ds :=
  resolveBy_of_nodup gt name _ (C10_resolve_names_nodup gt name ds)

/-- a list that already has one object per name is returned unchanged -/
theorem C10_resolve_fixed (ds : List α) (h : (ds.map name).Nodup) : resolveBy gt name ds = ds :=
  resolveBy_of_nodup gt name ds h

/-- the strict part of any total preorder qualifies -/
theorem C10_strictWeak_of_totalPreorder (le : α → α → Bool) (h : TotalPreorder le) :
    StrictWeak (fun a b => !le a b) := by
  constructor
  · intro a b hab
    rcases h.total a b with t | t
    · simp [t] at hab
    · simp [t]
  · intro a b c hab hcb
    simp only [Bool.not_eq_true', Bool.not_eq_false'] at hab hcb ⊢
    cases hac : le a c with
    | false => rfl
    | true => rw [h.trans a c b hac hcb] at hab; exact Bool.noConfusion hab

end generic

/-! ### resolution, for the order `packaging` reports -/

theorem C10_depGt_strictWeak : StrictWeak depGt := by
  constructor
  · intro a b h; simp only [depGt, decide_eq_true_eq, decide_eq_false_iff_not] at h ⊢; omega
  · intro a b c h1 h2; simp only [depGt, decide_eq_true_eq, decide_eq_false_iff_not] at h1 h2 ⊢; omega

theorem C10_deps_names (ds : List Node) :
    (resolve ds).map Node.depName = dedupKeepFirst (ds.map Node.depName) :=
  C10_resolve_names depGt Node.depName ds

theorem C10_deps_rep (ds : List Node) (d : Node) (h : d ∈ resolve ds) :
    firstMaxBy depGt (ds.filter (fun x => x.depName = d.depName)) = some d :=
  C10_resolve_rep depGt Node.depName C10_depGt_strictWeak ds d h

theorem C10_deps_rep_pos (ds : List Node) (d : Node) (h : d ∈ resolve ds) :
    ∃ pre post, ds.filter (fun x => x.depName = d.depName) = pre ++ d :: post
      ∧ (∀ y ∈ pre, y.vrank < d.vrank) ∧ (∀ y ∈ post, y.vrank ≤ d.vrank) := by
  obtain ⟨pre, post, e, h1, h2⟩ := C10_resolve_rep_pos depGt Node.depName C10_depGt_strictWeak ds d h
  refine ⟨pre, post, e, ?_, ?_⟩
  · intro y hy; have := h1 y hy; simp only [depGt, decide_eq_true_eq] at this; omega
  · intro y hy; have := h2 y hy; simp only [depGt, decide_eq_false_iff_not] at this; omega

theorem C10_deps_idem (ds : List Node) : resolve (resolve ds) = resolve ds :=
  C10_resolve_idem depGt Node.depName ds

/-- what is reported depends only on the sequence of dependencies in document order, not on where
    in the tree (how deep, under which tags, between which other nodes) they sit -/
theorem C10_resolve_placement (t t' : Nodes) (h : t.collect = t'.collect) (dedup : Bool) :
    t.getDeps dedup = t'.getDeps dedup := by
  simp [Nodes.getDeps, h]

theorem C10_resolve_placement_tag (n n' : Str) (w w' : Bool) (a a' : Attrs) (k k' : Nodes)
    (h : k.depsOf = k'.depsOf) (dedup : Bool) :
    (Node.tag n w a k).getDeps dedup = (Node.tag n' w' a' k').getDeps dedup := by
  rw [← C10_collect_preorder, ← C10_collect_preorder] at h
  simp [Node.getDeps, Nodes.getDeps, h]

/-- with dedup disabled nothing is dropped or reordered -/
theorem C10_nodedup_is_collect (t : Nodes) : t.getDeps false = t.depsOf := by
  simp [Nodes.getDeps, C10_collect_preorder]

theorem C10_nodedup_is_collect_tag (n : Str) (w : Bool) (a : Attrs) (k : Nodes) :
    (Node.tag n w a k).getDeps false = k.depsOf := by
  simp [Node.getDeps, Nodes.getDeps, C10_collect_preorder]

/-- with dedup enabled the report is the resolution of the document-order list; a tag and its
    child list report the same -/
theorem C10_dedup_is_resolve (t : Nodes) : t.getDeps true = resolve t.depsOf := by
  simp [Nodes.getDeps, C10_collect_preorder]

theorem C10_dedup_is_resolve_tag (n : Str) (w : Bool) (a : Attrs) (k : Nodes) :
    (Node.tag n w a k).getDeps true = resolve k.depsOf := by
  simp [Node.getDeps, Nodes.getDeps, C10_collect_preorder]

/-! ### version-number (not lexical) order on releases -/

/-- packaging's comparison (strip trailing zeros, compare tuples) is the numeric, zero-padded
    component-wise order -/
theorem C10_release_order (a : List Nat) : ∀ b : List Nat,
    vle a b = lexLe (stripTrailingZeros a) (stripTrailingZeros b) := by
  induction a with
  | nil => intro b; simp [vle, lexLe]
  | cons x a ih =>
    intro b
    cases b with
    | nil =>
      have := ih []
      simp only [stripTrailingZeros_nil] at this
      rw [vle, this, stripTrailingZeros_cons]
      by_cases hx : x = 0
      · by_cases hs : stripTrailingZeros a = []
        · simp [hx, hs, lexLe]
        · cases hh : stripTrailingZeros a with
          | nil => exact absurd hh hs
          | cons _ _ => simp [hx, lexLe]
      · simp [hx, lexLe]
    | cons y b =>
      rw [vle, ih b, stripTrailingZeros_cons, stripTrailingZeros_cons]
      by_cases h1 : x = 0 ∧ stripTrailingZeros a = []
      · by_cases h2 : y = 0 ∧ stripTrailingZeros b = []
        · simp [h1, h2, lexLe]
        · simp only [h1, h2, and_self, if_true, if_false, lexLe]
          by_cases hy : y = 0
          · have : stripTrailingZeros b ≠ [] := fun e => h2 ⟨hy, e⟩
            simp [hy]
          · have : 0 < y := Nat.pos_of_ne_zero hy
            simp [this]
      · by_cases h2 : y = 0 ∧ stripTrailingZeros b = []
        · simp only [h1, h2, and_self, if_true, if_false, lexLe]
          by_cases hx : x = 0
          · have hne : stripTrailingZeros a ≠ [] := fun e => h1 ⟨hx, e⟩
            cases hh : stripTrailingZeros a with
            | nil => exact absurd hh hne
            | cons _ _ => simp [hx, lexLe]
          · simp [hx]
        · simp [h1, h2, lexLe]

theorem C10_release_order_cmpkey (a b : List Nat) : cmpkeyLe a b = vle a b := by
  rw [cmpkeyLe, C10_release_order]

theorem C10_vle_totalPreorder : TotalPreorder vle := by
  constructor
  · intro a b; rw [C10_release_order a b, C10_release_order b a]; exact lexLe_total _ _
  · intro a b c; rw [C10_release_order a b, C10_release_order b c, C10_release_order a c]
    exact lexLe_trans _ _ _

/-- so the resolution laws hold with the concrete release comparison in the role of `gt` -/
theorem C10_cmpkeyGt_strictWeak : StrictWeak cmpkeyGt := by
  have h := C10_strictWeak_of_totalPreorder vle C10_vle_totalPreorder
  have e : cmpkeyGt = fun a b => !vle a b := by
    funext a b; simp [cmpkeyGt, C10_release_order_cmpkey]
  rw [e]; exact h

/-- appending zero components does not change a version -/
theorem C10_release_trailing_zero (a : List Nat) : vle a (a ++ [0]) = true ∧ vle (a ++ [0]) a = true := by
  induction a with
  | nil => simp [vle]
  | cons x a ih => simp [vle, ih.1, ih.2]

/-- 1.9 < 1.10 (numeric, not lexical) -/
theorem C10_ex_1_9_lt_1_10 : vle [1, 9] [1, 10] = true ∧ vle [1, 10] [1, 9] = false ∧
    cmpkeyGt [1, 10] [1, 9] = true := by decide
/-- 1.10 ≈ 1.10.0 -/
theorem C10_ex_1_10_eq_1_10_0 : vle [1, 10] [1, 10, 0] = true ∧ vle [1, 10, 0] [1, 10] = true ∧
    cmpkeyGt [1, 10] [1, 10, 0] = false ∧ cmpkeyGt [1, 10, 0] [1, 10] = false := by decide
/-- 2 < 10 -/
theorem C10_ex_2_lt_10 : vle [2] [10] = true ∧ vle [10] [2] = false ∧ cmpkeyGt [10] [2] = true := by decide
/-- the version strings parse to these releases -/
theorem C10_ex_parse : parseRelease ['1','.','1','0','.','0'] = some [1, 10, 0]
    ∧ parseRelease ['1','.','9'] = some [1, 9] ∧ parseRelease ['1','0'] = some [10]
    ∧ parseRelease ['1','.','x'] = none := by decide

/-! ### constructor validation -/

/-- the constructor fails exactly when something is wrong, and the error is the one belonging to
    the first thing wrong in the order version, source, script, stylesheet, meta (items left to
    right, a non-dict item → TypeError, a missing key → KeyError) -/
theorem C10_depInit_rejects (a : DepArg) (e : Err) :
    depInit a = .error e ↔ a.violations.head? = some e := by
  unfold depInit DepArg.violations
  by_cases hv : a.verOk = true
  · simp only [hv, Bool.not_true, Bool.false_eq_true, if_false, if_true, List.nil_append]
    obtain ⟨hse, hso⟩ := checkSource_spec a.source
    cases hcs : checkSource a.source with
    | error e' =>
      have := (hse e').mp hcs
      cases hsv : sourceViolations a.source with
      | nil => simp [hsv] at this
      | cons x xs => simp [hsv] at this ⊢; subst this; exact Iff.rfl
    | ok src =>
      have hsv : sourceViolations a.source = [] := hso.mp ⟨src, hcs⟩
      simp only [hsv, List.nil_append]
      rw [normItems_spec reqScript a.script]
      cases h1 : itemsViolations reqScript a.script with
      | cons x xs => simp
      | nil =>
        simp only [List.head?_nil, List.nil_append]
        rw [normItems_spec reqStylesheet a.stylesheet]
        cases h2 : itemsViolations reqStylesheet a.stylesheet with
        | cons x xs => simp
        | nil =>
          simp only [List.head?_nil, List.nil_append]
          rw [normItems_spec reqMeta a.metas]
          cases h3 : itemsViolations reqMeta a.metas with
          | cons x xs => simp
          | nil => simp
  · have hv' : a.verOk = false := by simpa using hv
    simp [hv']

/-- it succeeds exactly when nothing is wrong, and then stores every item list as a list of dicts -/
theorem C10_depInit_accepts (a : DepArg) :
    (∃ d, depInit a = .ok d) ↔ a.violations = [] := by
  constructor
  · rintro ⟨d, hd⟩
    cases hv : a.violations with
    | nil => rfl
    | cons x xs =>
      have := (C10_depInit_rejects a x).mpr (by simp [hv])
      rw [this] at hd; cases hd
  · intro hv
    cases hd : depInit a with
    | ok d => exact ⟨d, rfl⟩
    | error e =>
      have := (C10_depInit_rejects a e).mp hd
      simp [hv] at this

/-- rejection in the property's own words: a non-dict source, a source with neither `href` nor
    `subdir`, a non-dict item, or an item missing its required key (or a version `packaging` refuses) -/
theorem C10_depInit_rejects_iff_malformed (a : DepArg) :
    (∃ e, depInit a = .error e) ↔ a.Malformed := by
  have hacc := C10_depInit_accepts a
  have hdich : (∃ e, depInit a = .error e) ↔ ¬ (∃ d, depInit a = .ok d) := by
    cases depInit a <;> simp
  rw [hdich, hacc]
  unfold DepArg.violations DepArg.Malformed
  simp only [List.append_eq_nil_iff, itemsViolations_nil_iff]
  have hsrc : sourceViolations a.source = [] ↔
      ¬ (a.source = .other ∨ ∃ d, a.source = .dict d ∧ hasKey ['h','r','e','f'] d = false
          ∧ hasKey ['s','u','b','d','i','r'] d = false) := by
    cases hs : a.source with
    | none => simp [sourceViolations]
    | other => simp [sourceViolations]
    | dict d =>
      by_cases h1 : hasKey ['h','r','e','f'] d = true
      · simp [sourceViolations, h1]
      · by_cases h2 : hasKey ['s','u','b','d','i','r'] d = true
        · simp [sourceViolations, h2]
        · simp [sourceViolations, h1, h2]
  rw [hsrc]
  cases a.verOk <;> simp <;> grind

/-- the kind of error: KeyError only for a missing key; TypeError for a non-dict source/item or a
    source without `href`/`subdir` -/
theorem C10_depInit_keyError (a : DepArg) (h : depInit a = .error .keyError) :
    a.script.lacksKey reqScript = true ∨ a.stylesheet.lacksKey reqStylesheet = true
      ∨ a.metas.lacksKey reqMeta = true := by
  have hm : ∀ req x, Err.keyError ∈ itemsViolations req x → x.lacksKey req = true := by
    intro req x hx
    simp only [itemsViolations, List.mem_flatMap] at hx
    obtain ⟨i, hi, hx⟩ := hx
    cases i with
    | other => simp [itemViolations] at hx
    | dict d =>
      simp only [itemViolations, List.mem_map, List.mem_filter] at hx
      obtain ⟨k, ⟨hk, hk'⟩, _⟩ := hx
      simp only [ItemsArg.lacksKey, List.any_eq_true]
      exact ⟨_, hi, by simp only [List.any_eq_true]; exact ⟨k, hk, hk'⟩⟩
  have := (C10_depInit_rejects a .keyError).mp h
  have hmem : Err.keyError ∈ a.violations := List.mem_of_mem_head? this
  simp only [DepArg.violations, List.mem_append] at hmem
  rcases hmem with (((h0 | h0) | h0) | h0) | h0
  · cases a.verOk <;> simp at h0
  · cases hs : a.source with
    | none => simp [hs, sourceViolations] at h0
    | other => simp [hs, sourceViolations] at h0
    | dict d => simp only [hs, sourceViolations] at h0; split at h0 <;> simp at h0
  · exact .inl (hm _ _ h0)
  · exact .inr (.inl (hm _ _ h0))
  · exact .inr (.inr (hm _ _ h0))

/-- a single item and the one-element list give identical results (accepted or rejected alike) -/
theorem C10_depInit_single_script (a : DepArg) (x : List (Str × Str)) :
    depInit { a with script := .one x } = depInit { a with script := .many [.dict x] } := by
  simp [depInit, normItems]

theorem C10_depInit_single_stylesheet (a : DepArg) (x : List (Str × Str)) :
    depInit { a with stylesheet := .one x } = depInit { a with stylesheet := .many [.dict x] } := by
  simp [depInit, normItems]

theorem C10_depInit_single_meta (a : DepArg) (x : List (Str × Str)) :
    depInit { a with metas := .one x } = depInit { a with metas := .many [.dict x] } := by
  simp [depInit, normItems]

/-- `None` and the empty list are the same, too -/
theorem C10_depInit_none_empty (a : DepArg) :
    depInit { a with script := .none, stylesheet := .none, metas := .none }
      = depInit { a with script := .many [], stylesheet := .many [], metas := .many [] } := by
  simp [depInit, normItems, validateDicts]

/-! ### the executable statement the check evaluates on real answers is what the theorems prove -/

theorem C10_nodesEq_refl (l : List Node) : Holds.nodesEq l l = true := by
  simp only [Holds.nodesEq, beq_self_eq_true, Bool.true_and, List.all_eq_true]
  intro p hp
  have : p.1 = p.2 := by
    induction l with
    | nil => simp at hp
    | cons x l ih =>
      simp only [List.zip_cons_cons, List.mem_cons] at hp
      rcases hp with rfl | hp
      · rfl
      · exact ih hp
  rw [this]; exact Node.beq_refl _

/-- on the model's own answer no clause of the executable statement fails (so a reported failing
    clause always comes from the implementation's answer) -/
theorem C10_statement_holds_of_model (ks : Nodes) (dedup : Bool) :
    Holds.failsC10List ks dedup (ks.getDeps dedup) = [] := by
  cases dedup with
  | false =>
    simp [Holds.failsC10List, Holds.failsDeps, Holds.clause, C10_nodedup_is_collect, C10_nodesEq_refl]
  | true =>
    rw [C10_dedup_is_resolve]
    simp only [Holds.failsC10List, Holds.failsDeps, Bool.not_true, Bool.false_eq_true, if_false]
    have h1 : ((resolve ks.depsOf).map Node.depName == dedupKeepFirst (ks.depsOf.map Node.depName)) = true := by
      rw [C10_deps_names]; simp
    have h2 : (resolve ks.depsOf).all (Holds.repOk ks.depsOf) = true := by
      rw [List.all_eq_true]
      intro d hd
      have := C10_deps_rep ks.depsOf d hd
      simp only [Holds.repOk, this]
      exact Node.beq_refl d
    have h3 : Holds.nodesEq (resolve (resolve ks.depsOf)) (resolve ks.depsOf) = true := by
      rw [C10_deps_idem]; exact C10_nodesEq_refl _
    rw [h1, h2, h3]; rfl

theorem C10_statement_holds_of_model_init (a : DepArg) : Holds.failsDepInit a (depInit a) = [] := by
  cases h : depInit a with
  | error e =>
    have := (C10_depInit_rejects a e).mp h
    cases hv : a.violations with
    | nil => simp [hv] at this
    | cons x xs => simp [hv] at this; simp [Holds.failsDepInit, Holds.clause, hv, this]
  | ok d =>
    have hv : a.violations = [] := (C10_depInit_accepts a).mp ⟨d, h⟩
    have hs := hv
    simp only [DepArg.violations, List.append_eq_nil_iff] at hs
    obtain ⟨⟨⟨⟨h0, h1⟩, h2⟩, h3⟩, h4⟩ := hs
    have hver : a.verOk = true := by cases hh : a.verOk <;> simp [hh] at h0 ⊢
    obtain ⟨src, hsrc⟩ := (checkSource_spec a.source).2.mpr h1
    simp only [depInit, hver, Bool.not_true, Bool.false_eq_true, if_false, hsrc, normItems_spec, h2, h3, h4,
      List.head?_nil, Except.ok.injEq] at h
    subst h
    simp [Holds.failsDepInit, Holds.clause, hv, Holds.sourceOk, hsrc]

/-! ### non-vacuity -/

private def dA (nm : Str) (r : Nat) (tag : Nat) : Node :=
  .dep { name := nm, version := [], vrank := r, source := .none, script := [], stylesheet := [],
         metas := [[(['i'], [Char.ofNat (48 + tag)])]], allFiles := false } false .nil

/-- two names, a tie and a strictly greater later version, at three nesting depths -/
example :
    (Nodes.cons (dA ['a'] 1 0) (.cons (.tag ['d'] true [] (.cons (dA ['b'] 0 1)
      (.cons (.tag ['s'] false [] (.cons (dA ['a'] 1 2) (.cons (dA ['a'] 2 3) .nil))) .nil)))
      (.cons (dA ['a'] 2 4) .nil))).getDeps true
    = [dA ['a'] 2 3, dA ['b'] 0 1] := by
  simp [Nodes.getDeps, Nodes.collect, Node.collect, resolve, resolveBy, resolveMap, resolveStep, amapGet?,
    amapSet, depGt, Node.vrank, Node.depName, dA]

private def argOf (src : SourceArg) (sc st me : ItemsArg) : DepArg :=
  { name := ['a'], version := ['1'], verOk := true, vrank := 0, source := src,
    script := sc, stylesheet := st, metas := me, allFiles := false }

/-- placement: the same three objects flat, and spread over two nesting levels between other nodes -/
example :
    (Nodes.cons (dA ['a'] 1 0) (.cons (dA ['b'] 0 1) (.cons (dA ['a'] 2 2) .nil))).collect
    = (Nodes.cons (.text ['t']) (.cons (.tag ['d'] true [] (.cons (dA ['a'] 1 0)
        (.cons (.tag ['s'] false [] (.cons (dA ['b'] 0 1) .nil)) (.cons (.mnode 3) .nil))))
        (.cons (dA ['a'] 2 2) .nil))).collect := by
  simp [Nodes.collect, Node.collect, dA]

/-- the order hypotheses are satisfiable: numeric `>` is a strict weak order, and a tie goes to the earliest -/
example : StrictWeak (fun a b : Nat × Char => decide (a.1 > b.1)) := by
  constructor
  · intro a b h; simp only [decide_eq_true_eq, decide_eq_false_iff_not] at h ⊢; omega
  · intro a b c h1 h2; simp only [decide_eq_true_eq, decide_eq_false_iff_not] at h1 h2 ⊢; omega

example : firstMaxBy (fun a b : Nat × Char => decide (a.1 > b.1)) [(1, 'x'), (3, 'y'), (2, 'z'), (3, 'w')] = some (3, 'y') := by
  decide

example : resolveBy (fun a b : Nat × Char => decide (a.1 > b.1)) (fun p => p.2.isUpper)
    [(1, 'x'), (3, 'Y'), (2, 'z'), (3, 'W'), (2, 'v')] = [(2, 'z'), (3, 'Y')] := by decide

/-- malformed argument records (which error depends on what comes first) and a well-formed one -/
example : depInit (argOf (.dict []) (.many [.dict [(['s','r','c'], ['x'])], .other]) .none .none)
    = .error .typeError := rfl

example : depInit (argOf (.dict [(['h','r','e','f'], ['u'])])
    (.many [.dict [(['s','r','c'], ['x'])], .dict []]) (.one []) .scalar) = .error .keyError := rfl

example : depInit (argOf (.dict [(['h','r','e','f'], ['u'])])
    (.many [.dict [(['s','r','c'], ['x'])], .other, .dict []]) (.one []) .scalar) = .error .typeError := rfl

example : ∃ d, depInit (argOf (.dict [(['h','r','e','f'], ['u'])]) (.one [(['s','r','c'], ['x'])])
    (.one [(['h','r','e','f'], ['y'])])
    (.many [.dict [(['n','a','m','e'], ['n']), (['c','o','n','t','e','n','t'], ['c'])]])) = .ok d := ⟨_, rfl⟩

end HtmlVerif.C10
