/-
Source tie (DESIGN §14) for C13 — serialised dependencies round-trip through HTML text.  The Lean functions regenerated
from the text of

  HTMLTextDocument._static_extract_serialized_html_deps, ._extract_serialized_html_deps, .__init__, .render,
  TagList.render, HTMLDependency.serialize_to_script_json                       (htmltools/_core.py; harness/pytr_c13.py)

compute what the model computes (`scan` / `tdDedupKeepFirst` / `recover` / `extract` / `textDocInit` / `textDocRender` /
`serNode`; Model/TextDoc.lean, Model/Json.lean).

What is stated through a primitive *defined from the model's own function* (Py/PrimC13.lean; checked against the running
interpreter by the `srcc13 … prim_*` lines of every run, and by the scan / JSON theorems of Props/C13.lean): the two `re`
calls on the one extraction pattern (`scan`), `json.loads` (`jsonParse`), `json.dumps` (`jsonPrint`).  What is tied here is
the code around them.

  * extraction (`src_static_extractC13`, all texts, no hypothesis): bodies and remaining text from the two `re` calls, the
    `seen_deps` loop = keep the first occurrence of every distinct body, in order (`tdDedupKeepFirst`), each kept body
    rebuilt by `HTMLDependency(**json.loads(body))` (`rebuildC13`: the keyword call binds the dict to the signature of the
    *translated* `HTMLDependency.__init__`), first failure decides, answer `(text, deps)`.
  * one body (`src_rebuild_*C13`): a serialised body gives back the dependency — through `src_init` (Props/SrcC10b.lean), i.e.
    through the source text of the constructor —; a text that is not JSON raises ValueError; JSON that is not an object,
    an object with a key that is no parameter of the constructor or without `name` / `version`: TypeError.  The model's `depOfJson` is a model of the constructor *on records* (it keeps the version text as written
    and types the fields); on JSON objects that are not records (a `name` that is not a string, a version `packaging` refuses
    or normalises, items that are not dicts …) the Python constructor and `depOfJson` differ, and no theorem is stated.
  * `src_static_extract_modelC13` / `src_extract_roundtripC13`: = `extract`, for texts whose bodies are of the kinds above; in
    particular for every interleaving of text chunks (without the OPEN marker) and serialised copies of well-formed
    dependencies — `C13_extract_spec` said about the source text.
  * `_extract_serialized_html_deps`, `__init__` (`src_extractC13`, `src_textdoc_initC13`, `…_modelC13` = `textDocInit`,
    `src_textdoc_init_roundtripC13` = `C13_init` said about the source text).
  * `render` (`src_textdoc_renderC13` = `textDocRender`): see the theorem.  `HTMLDependency.as_html_tags` and `Tag.__init__`
    are not translated (`pyAsHtmlTagsC13`: a recorded parameter; `pyMkTagC13`: stated semantics on the shapes used).
  * `serialize_to_script_json` (`src_serializeC13` = `serNode`).

Dependencies are compared attribute by attribute (`projDepC10b`, `normDocC13`): the order of the assignments in the two
constructors is not part of any statement.  No loop body is spelled out: the `seen_deps` loop and the two comprehensions
are taken from the regenerated definitions by unification (`extract_loop_kC13`, `collect_loop_kC13`).
-/
import HtmlVerif.Generated.Src
import HtmlVerif.Lemmas.SrcC13
import HtmlVerif.Props.SrcC10b
import HtmlVerif.Lemmas.SrcRenderC13
import HtmlVerif.Props.SrcC09
import HtmlVerif.Props.SrcC10
import HtmlVerif.Props.SrcC14
import HtmlVerif.Props.SrcRender
import HtmlVerif.Props.C09
import HtmlVerif.Lemmas.SrcC08

set_option linter.unusedVariables false
set_option linter.unusedSimpArgs false

namespace HtmlVerif.SrcTie
open HtmlVerif HtmlVerif.Py HtmlVerif.Generated.Src

/-- `_static_extract_serialized_html_deps(html)` as the source has it, for **every** text: the text that remains and the
    bodies are the model's `scan` (the two `re` calls are stated through it: Py/PrimC13.lean); the loop rebuilds exactly the
    bodies `tdDedupKeepFirst` keeps (first occurrence of each distinct text), in order, each with
    `HTMLDependency(**json.loads(body))` (`rebuildC13`), the first failure deciding; the answer is the pair
    `(remaining text, list of dependencies)`. -/
theorem src_static_extractC13 (h : HTMLTextDocument_static_extract_available = true) (G : Globals) (html : Str) :
    HTMLTextDocument_static_extract G (.str html)
      = (rebuildAllC13 (rebuildC13 G) (tdDedupKeepFirst (scan html.length html).2) >>= fun ds =>
          .ok (.tuple [.str (scan html.length html).1, .list ds])) := by
  first
  | exact absurd h (by decide)
  | skip
  all_goals (
    unfold HTMLTextDocument_static_extract
    simp only [ok_bind, pure_eq_ok, truthy_bool, reFindallC13_str _ _ rfl, reSubC13_str _ _ rfl, pyIter_list, pySetNewC13_eq]
    refine (extract_loop_kC13 (fun s => s.1) (fun s => s.2.1) (rebuildC13 G) _ _ ?step _ (fun ds => .ok (.tuple [.str (scan html.length html).1, .list ds])) ?k _ [] [] rfl rfl).trans ?_
    case k =>
      intro s ds hs
      obtain ⟨s1, s2, s3⟩ := s
      simp only at hs
      simp only [hs]
    case step =>
      intro b s seen acc hs hd
      obtain ⟨s1, s2, s3⟩ := s
      simp only at hs hd
      subst hs hd
      constructor
      · intro hc
        simp only [pyInC13_set, hc, ok_bind, truthy_bool, if_true]
        exact ⟨_, rfl, rfl, rfl⟩
      · intro hc
        simp only [pyInC13_set, hc, ok_bind, truthy_bool, Bool.false_eq_true, if_false, pyListAppendC13_list, pySetAddC13_set _ _ hc]
        constructor
        · intro e he
          exact bind2_errorC13 he
        · intro d hd
          exact bind2_okC13 hd (fun a => ⟨_, rfl, rfl, rfl⟩)
    simp only [List.nil_append]
    rfl)


/-- one serialised body, through `json.loads` (`jsonParse`), the keyword call and the constructor **as the source has it**
    (`src_init`, Props/SrcC10b.lean): `HTMLDependency(**json.loads(serBody indent d))` is the dependency `d` again — name,
    version (what `packaging` makes of the text: `hver`), source, script, stylesheet, meta, all_files, and head as
    `TagList(HTML(markup))` — for every well-formed record whose dicts have pairwise distinct keys, and any indent -/
theorem src_rebuild_serBodyC13 (h : HTMLDependency_init_available = true) (h1 : HTMLDependency_validate_dicts_available = true)
    (h2 : HTMLDependency_validate_dict_available = true) (G : Globals) (ind : Option Nat) (d : SDep) (rk : Nat)
    (hw : d.wellFormed = true) (hnd : SDepNodupC13 d)
    (hver : G.mkVersion d.info.version = some (versionObjC10b rk d.info.version)) :
    projDepC10b <$> rebuildC13 G (serBody ind d) = .ok (embSDepC13 rk d) := by
  first
  | exact absurd h (by decide)
  | skip
  all_goals (
    have hi := src_init h h1 h2 G "HTMLDependency" (depArgVC13 rk d) (.str d.info.version)
      (.inl ⟨d.info.version, rfl, by simpa [depArgVC13] using hver⟩) (headVC13 d.head)
    rw [depInit_recordC13 rk d hw] at hi
    simp only [rebuildC13, pyJsonLoadsC13, jsonParse_serBody, pure_eq_ok, ok_bind, embJson_depToJsonC13 d hnd, callKw_recordC13,
      newDepC13]
    refine hi.trans ?_
    cases hh : d.head <;> simp [headVC13, HeadV.res, embSDepC13, depArgVC13, hh, embDepObjC10b])


/-- a body that is not JSON (and cannot be JSON outside the model's fragment either): `json.loads` raises JSONDecodeError,
    a ValueError — what `recover` says -/
theorem src_rebuild_notjsonC13 (G : Globals) (e : SDep → PVal) (b : Str) (hp : jsonParse b = none)
    (ho : jsonOutsideC13 b = false) :
    projDepC10b <$> rebuildC13 G b = embRes e (recover b) := by
  simp [rebuildC13, pyJsonLoadsC13, hp, ho, recover, embRes, embErr]

/-- a body that is JSON but not an object (`null`, `true`, a string, an array): `HTMLDependency(**x)` raises TypeError
    ("argument after ** must be a mapping") — what `recover` says -/
theorem src_rebuild_nonobjC13 (G : Globals) (e : SDep → PVal) (b : Str) (j : Json) (hp : jsonParse b = some j)
    (hj : ∀ ms, j ≠ .obj ms) :
    projDepC10b <$> rebuildC13 G b = embRes e (recover b) := by
  cases j with
  | obj ms => exact absurd rfl (hj ms)
  | null => simp [rebuildC13, pyJsonLoadsC13, hp, recover, embRes, embErr, embJsonC13, pyCallKwC13, depOfJson]
  | bool v => simp [rebuildC13, pyJsonLoadsC13, hp, recover, embRes, embErr, embJsonC13, pyCallKwC13, depOfJson]
  | str v => simp [rebuildC13, pyJsonLoadsC13, hp, recover, embRes, embErr, embJsonC13, pyCallKwC13, depOfJson]
  | arr v => simp [rebuildC13, pyJsonLoadsC13, hp, recover, embRes, embErr, embJsonC13, pyCallKwC13, depOfJson]


/-- a JSON object with a key that is no parameter of the constructor, or without `name` / `version`: TypeError from the
    keyword call ("unexpected keyword argument" / "missing required argument") — what `recover` says -/
theorem src_rebuild_badkeysC13 (G : Globals) (e : SDep → PVal) (b : Str) (ms : JMems) (hp : jsonParse b = some (.obj ms))
    (hk : (ms.keys.all fun k => depKeys.contains k) = false ∨ ms.get? kName = none ∨ ms.get? kVersion = none) :
    projDepC10b <$> rebuildC13 G b = embRes e (recover b) := by
  have hrec : recover b = .error .typeError := by
    simp only [recover, hp, depOfJson]
    by_cases hall : (ms.keys.all fun k => depKeys.contains k) = true
    · have hm : ms.get? kName = none ∨ ms.get? kVersion = none := by
        rcases hk with h | h | h
        · rw [hall] at h; cases h
        · exact .inl h
        · exact .inr h
      simp only [hall, Bool.not_true, Bool.false_eq_true, if_false]
      rcases hm with h | h
      · rw [h]
      · rw [h]
        cases ms.get? kName with
        | none => rfl
        | some j => cases j <;> rfl
    · simp only [Bool.not_eq_true] at hall
      simp only [hall, Bool.not_false, if_true]
  have hpy : pyCallKwC13 (newDepC13 G) depReqC13 depOptC13 (embJsonC13 (.obj ms)) = .error .typeError := by
    simp only [embJsonC13, pyCallKwC13]
    by_cases hbad : ((embJMemsC13 ms []).any fun kv => !(depReqC13.contains kv.1 || depOptC13.any fun p => p.1 == kv.1)) = true
    · simp only [hbad, if_true]; rfl
    · simp only [hbad, Bool.false_eq_true, if_false]
      have hall : (ms.keys.all fun k => depKeys.contains k) = true := by
        rw [List.all_eq_true]
        intro k hk'
        have hm : k ∈ (embJMemsC13 ms []).map Prod.fst := (mem_keys_embJMemsC13 ms [] k).mpr (.inr hk')
        obtain ⟨kv, hkv, rfl⟩ := List.mem_map.mp hm
        rw [← okKey_depKeysC13]
        cases hc : (depReqC13.contains kv.1 || depOptC13.any fun p => p.1 == kv.1) with
        | true => rfl
        | false => exact absurd (List.any_eq_true.mpr ⟨kv, hkv, by rw [hc]; rfl⟩) hbad
      have hmiss : ms.get? kName = none ∨ ms.get? kVersion = none := by
        rcases hk with h | h | h
        · rw [hall] at h; cases h
        · exact .inl h
        · exact .inr h
      have : (depReqC13.any fun k => (Py.dictGet? k (embJMemsC13 ms [])).isNone) = true := by
        simp only [depReqC13, List.any_cons, List.any_nil, Bool.or_false, Bool.or_eq_true]
        rcases hmiss with h | h
        · left
          have hn := (get?_none_iffC13 ms kName).mp h
          have : ¬ ((Py.dictGet? kName (embJMemsC13 ms [])).isSome = true) := fun hs =>
            hn (by simpa using (mem_keys_embJMemsC13 ms [] kName).mp ((dictGet?_isSome_memC13 _ _).mp hs))
          cases hd : Py.dictGet? kName (embJMemsC13 ms []) <;> simp_all [kName]
        · right
          have hn := (get?_none_iffC13 ms kVersion).mp h
          have : ¬ ((Py.dictGet? kVersion (embJMemsC13 ms [])).isSome = true) := fun hs =>
            hn (by simpa using (mem_keys_embJMemsC13 ms [] kVersion).mp ((dictGet?_isSome_memC13 _ _).mp hs))
          cases hd : Py.dictGet? kVersion (embJMemsC13 ms []) <;> simp_all [kVersion]
      simp [this]
  simp only [rebuildC13, pyJsonLoadsC13, hp, pure_eq_ok, ok_bind, hpy, hrec, embRes, embErr, map_error]
/-- … against the model: if rebuilding each body that is kept does what the model's `recover` says (`hrec`: discharged for
    serialised bodies by `src_rebuild_serBodyC13`, for texts that are not JSON / not a record by `src_rebuild_*C13` below),
    the function computes the model's `extract` — remaining text, one dependency per distinct body in order of first
    appearance, or the error of the first body that fails.  `rk`: the rank `packaging` gives a version text. -/
theorem src_static_extract_modelC13 (h : HTMLTextDocument_static_extract_available = true) (G : Globals) (html : Str)
    (rk : Str → Nat)
    (hrec : ∀ b ∈ tdDedupKeepFirst (scan html.length html).2,
      projDepC10b <$> rebuildC13 G b = embRes (fun d => embSDepC13 (rk d.info.version) d) (recover b)) :
    projExtractC13 <$> HTMLTextDocument_static_extract G (.str html)
      = embRes (embExtractC13 fun d => embSDepC13 (rk d.info.version) d) (extract html) := by
  have hA := rebuildAll_recoverAllC13 (rebuildC13 G) (fun d => embSDepC13 (rk d.info.version) d) _ hrec
  rw [src_static_extractC13 h G html, extract]
  cases hr : recoverAll (tdDedupKeepFirst (scan html.length html).2) with
  | error er =>
    rw [hr] at hA
    cases hB : rebuildAllC13 (rebuildC13 G) (tdDedupKeepFirst (scan html.length html).2) with
    | error e' => rw [hB] at hA; simp only [map_error, Except.error.injEq] at hA; simp [embRes, hA]
    | ok vs => rw [hB] at hA; simp at hA
  | ok ds =>
    rw [hr] at hA
    cases hB : rebuildAllC13 (rebuildC13 G) (tdDedupKeepFirst (scan html.length html).2) with
    | error e' => rw [hB] at hA; simp at hA
    | ok vs =>
      rw [hB] at hA
      simp only [map_ok, Except.ok.injEq] at hA
      simp [embRes, embExtractC13, projExtractC13, hA]

/-- every body of an interleaving of text chunks (without the OPEN marker) and serialised copies of well-formed
    dependencies is rebuilt as the model's `recover` says (the hypothesis of the `…_modelC13` theorems) -/
theorem src_rebuild_interleaveC13 (hi0 : HTMLDependency_init_available = true) (h1 : HTMLDependency_validate_dicts_available = true)
    (h2 : HTMLDependency_validate_dict_available = true) (G : Globals) (t0 : Str) (items : List Item) (rk : Str → Nat)
    (h0 : ¬ openMarker <:+: t0) (hi : ∀ it ∈ items, ¬ openMarker <:+: it.2.2)
    (hw : ∀ it ∈ items, it.2.1.wellFormed = true) (hnd : ∀ it ∈ items, SDepNodupC13 it.2.1)
    (hver : ∀ it ∈ items, G.mkVersion it.2.1.info.version
      = some (versionObjC10b (rk it.2.1.info.version) it.2.1.info.version)) :
    ∀ b ∈ tdDedupKeepFirst (scan (interleave t0 items).length (interleave t0 items)).2,
      projDepC10b <$> rebuildC13 G b = embRes (fun d => embSDepC13 (rk d.info.version) d) (recover b) := by
  have hlen : items.length ≤ (interleave t0 items).length := by
    rw [interleave_eq]; simpa using length_interleaveB t0 (items.map fun it => (it.body, it.2.2))
  have hs := scan_interleave t0 items _ hlen h0 hi
  intro b hb
  rw [hs] at hb
  have hb' := mem_dedupGoC13 _ _ _ hb
  simp only [List.mem_map] at hb'
  obtain ⟨it, hit, rfl⟩ := hb'
  rw [show it.body = serBody it.1 it.2.1 from rfl, recover_serBody _ _ (hw it hit),
    src_rebuild_serBodyC13 hi0 h1 h2 G it.1 it.2.1 _ (hw it hit) (hnd it hit) (hver it hit)]
  simp only [embRes, norm_versionC13, embSDep_normC13]

/-- **round trip through text, as the source has it**: for text chunks without the OPEN marker around serialised copies
    (any indents) of well-formed dependencies, `_static_extract_serialized_html_deps` returns the text with exactly the
    serialised elements removed and, once per distinct serialisation in order of first appearance, the dependency that
    was serialised (every field; head as `TagList(HTML(markup))`) — this is `C13_extract_spec` said about the source
    text of the extraction *and* of `HTMLDependency.__init__` -/
theorem src_extract_roundtripC13 (h : HTMLTextDocument_static_extract_available = true)
    (hi0 : HTMLDependency_init_available = true) (h1 : HTMLDependency_validate_dicts_available = true)
    (h2 : HTMLDependency_validate_dict_available = true) (G : Globals) (t0 : Str) (items : List Item) (rk : Str → Nat)
    (h0 : ¬ openMarker <:+: t0) (hi : ∀ it ∈ items, ¬ openMarker <:+: it.2.2)
    (hw : ∀ it ∈ items, it.2.1.wellFormed = true) (hnd : ∀ it ∈ items, SDepNodupC13 it.2.1)
    (hver : ∀ it ∈ items, G.mkVersion it.2.1.info.version
      = some (versionObjC10b (rk it.2.1.info.version) it.2.1.info.version)) :
    projExtractC13 <$> HTMLTextDocument_static_extract G (.str (interleave t0 items))
      = .ok (.tuple [.str (remText t0 items),
          .list ((dedupOn Item.body items).map fun it => embSDepC13 (rk it.2.1.info.version) it.2.1)]) := by
  rw [src_static_extract_modelC13 h G _ rk (src_rebuild_interleaveC13 hi0 h1 h2 G t0 items rk h0 hi hw hnd hver),
    extract_interleave t0 items h0 hi hw]
  simp only [embRes, embExtractC13, List.map_map, Function.comp_def, norm_versionC13, embSDep_normC13]

/-- `_extract_serialized_html_deps()` as the source has it, on any instance whose `_html` is a `str` and whose `_deps` is a
    list (of anything): `_html` becomes the remaining text, the rebuilt dependencies are appended to `_deps`; a failing
    body leaves an exception (the instance is not returned) -/
theorem src_extractC13 (h : HTMLTextDocument_extract_available = true) (h' : HTMLTextDocument_static_extract_available = true)
    (G : Globals) (cls : String) (fs : List (String × PVal)) (html : Str) (given : List PVal)
    (hh : fieldGet? "_html" fs = some (.str html)) (hd : fieldGet? "_deps" fs = some (.list given)) :
    HTMLTextDocument_extract G (.obj cls fs)
      = (rebuildAllC13 (rebuildC13 G) (tdDedupKeepFirst (scan html.length html).2) >>= fun ds =>
          .ok (.obj cls (fieldSet "_deps" (.list (given ++ ds)) (fieldSet "_html" (.str (scan html.length html).1) fs)))) := by
  first
  | exact absurd h (by decide)
  | skip
  all_goals (
    unfold HTMLTextDocument_extract
    simp only [pyGetAttr_objC10b _ _ _ _ hh, ok_bind, src_static_extractC13 h' G html]
    cases rebuildAllC13 (rebuildC13 G) (tdDedupKeepFirst (scan html.length html).2) with
    | error e => rfl
    | ok ds =>
      have hd' : fieldGet? "_deps" (fieldSet "_html" (PVal.str (scan html.length html).1) fs) = some (.list given) := by
        rw [fieldGet?_fieldSet_otherC13 _ _ _ _ (by decide)]; exact hd
      simp only [ok_bind, pyUnpack2_tuple, pySetAttr_objC10b, pyGetAttr_objC10b _ _ _ _ hd', pyListExtendC13_list, pure_eq_ok])

/-- `HTMLTextDocument.__init__` as the source has it, for every text, `deps=` None or a list (of anything) and any
    `deps_replace_pattern=`: ValueError when a list is given without a placeholder; otherwise the instance holds the
    remaining text, the given list followed by the rebuilt dependencies, and the placeholder (compared attribute by
    attribute, `normDocC13`: the order of the assignments is not part of the statement) -/
theorem src_textdoc_initC13 (h : HTMLTextDocument_init_available = true) (h' : HTMLTextDocument_extract_available = true)
    (h'' : HTMLTextDocument_static_extract_available = true) (G : Globals) (cls : String) (html : Str)
    (given : Option (List PVal)) (ph : PVal) :
    normDocC13 <$> HTMLTextDocument_init G (.obj cls []) (.str html) (optListC13 given) ph
      = if isNone ph && given.isSome then .error .valueError else
        (rebuildAllC13 (rebuildC13 G) (tdDedupKeepFirst (scan html.length html).2) >>= fun ds =>
          .ok (textDocObjC13 cls (scan html.length html).1 (given.getD [] ++ ds) ph)) := by
  first
  | exact absurd h (by decide)
  | skip
  all_goals (
    unfold HTMLTextDocument_init
    have hex := fun fs given hh hd => src_extractC13 h' h'' G cls fs html given hh hd
    have hand : ∀ b c : Bool, pyAnd (Except.ok (PVal.bool b)) (Except.ok (PVal.bool c)) = .ok (.bool (b && c)) := by
      intro b c; cases b <;> rfl
    cases given with
    | none =>
      simp only [optListC13, isNone_noneC10b, Bool.not_true, hand, pure_eq_ok, ok_bind, truthy_bool, Bool.and_false,
        Bool.false_eq_true, if_false, if_true, pySetAttr_objC10b, fieldSet, Option.isSome_none, Option.getD_none]
      rw [hex _ [] (by simp [fieldGet?, fieldSet]) (by simp [fieldGet?, fieldSet])]
      cases rebuildAllC13 (rebuildC13 G) (tdDedupKeepFirst (scan html.length html).2) <;> rfl
    | some l =>
      simp only [optListC13, isNone_listC10b, Bool.not_false, hand, pure_eq_ok, ok_bind, truthy_bool, Bool.and_true,
        Option.isSome_some, Option.getD_some]
      cases hn : isNone ph
      · simp only [Bool.false_eq_true, if_false, ok_bind, pure_eq_ok, pySetAttr_objC10b, fieldSet]
        rw [hex _ l (by simp [fieldGet?, fieldSet]) (by simp [fieldGet?, fieldSet])]
        cases rebuildAllC13 (rebuildC13 G) (tdDedupKeepFirst (scan html.length html).2) <;> rfl
      · simp only [if_true]
        rfl)

/-- … against the model (`textDocInit`), under the same hypothesis about the bodies as `src_static_extract_modelC13`:
    given dependencies `gs` (embedded like the rebuilt ones), placeholder None or a `str` -/
theorem src_textdoc_init_modelC13 (h : HTMLTextDocument_init_available = true) (h' : HTMLTextDocument_extract_available = true)
    (h'' : HTMLTextDocument_static_extract_available = true) (G : Globals) (cls : String) (html : Str)
    (gs : Option (List SDep)) (ph : Option Str) (rk : Str → Nat)
    (hrec : ∀ b ∈ tdDedupKeepFirst (scan html.length html).2,
      projDepC10b <$> rebuildC13 G b = embRes (fun d => embSDepC13 (rk d.info.version) d) (recover b)) :
    projDocC13 <$> HTMLTextDocument_init G (.obj cls []) (.str html)
        (optListC13 (gs.map fun l => l.map fun d => embSDepC13 (rk d.info.version) d)) (optStrC13 ph)
      = embRes (fun p => textDocObjC13 cls p.1 (p.2.map fun d => embSDepC13 (rk d.info.version) d) (optStrC13 ph))
          (textDocInit html gs ph) := by
  have hA := rebuildAll_recoverAllC13 (rebuildC13 G) (fun d => embSDepC13 (rk d.info.version) d) _ hrec
  have hn : isNone (optStrC13 ph) = ph.isNone := by cases ph <;> rfl
  rw [projDoc_mapC13, src_textdoc_initC13 h h' h'' G cls html, textDocInit, hn, extract]
  cases hc : (ph.isNone && gs.isSome)
  · have hc' : (ph.isNone && (Option.map (fun l => List.map (fun d => embSDepC13 (rk d.info.version) d) l) gs).isSome) = false := by
      simpa using hc
    simp only [hc', Bool.false_eq_true, if_false]
    cases hr : recoverAll (tdDedupKeepFirst (scan html.length html).2) with
    | error er =>
      rw [hr] at hA
      cases hB : rebuildAllC13 (rebuildC13 G) (tdDedupKeepFirst (scan html.length html).2) with
      | error e' => rw [hB] at hA; simp only [map_error, Except.error.injEq] at hA; simp [embRes, hA]
      | ok vs => rw [hB] at hA; simp at hA
    | ok ds =>
      rw [hr] at hA
      cases hB : rebuildAllC13 (rebuildC13 G) (tdDedupKeepFirst (scan html.length html).2) with
      | error e' => rw [hB] at hA; simp at hA
      | ok vs =>
        rw [hB] at hA
        simp only [map_ok, Except.ok.injEq] at hA
        cases gs <;>
          simp [embRes, textDocObjC13, projDocCoreC13, hA, projDep_embSDepC13, Function.comp_def]
  · have hc' : (ph.isNone && (Option.map (fun l => List.map (fun d => embSDepC13 (rk d.info.version) d) l) gs).isSome) = true := by
      simpa using hc
    simp only [hc', if_true, map_error, embRes, embErr]


/-- **the constructor on such a text** (`C13_init` said about the source text): `HTMLTextDocument(text, deps, placeholder)`
    holds the text without the serialised elements and the given dependencies followed by the extracted ones -/
theorem src_textdoc_init_roundtripC13 (h : HTMLTextDocument_init_available = true) (h' : HTMLTextDocument_extract_available = true)
    (h'' : HTMLTextDocument_static_extract_available = true)
    (hi0 : HTMLDependency_init_available = true) (h1 : HTMLDependency_validate_dicts_available = true)
    (h2 : HTMLDependency_validate_dict_available = true) (G : Globals) (cls : String) (t0 : Str) (items : List Item)
    (gs : List SDep) (ph : Str) (rk : Str → Nat)
    (h0 : ¬ openMarker <:+: t0) (hi : ∀ it ∈ items, ¬ openMarker <:+: it.2.2)
    (hw : ∀ it ∈ items, it.2.1.wellFormed = true) (hnd : ∀ it ∈ items, SDepNodupC13 it.2.1)
    (hver : ∀ it ∈ items, G.mkVersion it.2.1.info.version
      = some (versionObjC10b (rk it.2.1.info.version) it.2.1.info.version)) :
    projDocC13 <$> HTMLTextDocument_init G (.obj cls []) (.str (interleave t0 items))
        (.list (gs.map fun d => embSDepC13 (rk d.info.version) d)) (.str ph)
      = .ok (textDocObjC13 cls (remText t0 items)
          ((gs ++ (dedupOn Item.body items).map fun it => it.2.1.norm).map fun d => embSDepC13 (rk d.info.version) d)
          (.str ph)) := by
  have := src_textdoc_init_modelC13 h h' h'' G cls (interleave t0 items) (some gs) (some ph) rk
    (src_rebuild_interleaveC13 hi0 h1 h2 G t0 items rk h0 hi hw hnd hver)
  have hm : textDocInit (interleave t0 items) (some gs) (some ph)
      = .ok (remText t0 items, gs ++ (dedupOn Item.body items).map fun it => it.2.1.norm) := by
    simp [textDocInit, extract_interleave t0 items h0 hi hw]
  rw [hm] at this
  exact this

/-- `TagList.render()` as the source has it, on a list of *plain* nodes (tags, text, `HTML`, self-rendering objects, metadata
    nodes; no dependency object, no un-expanded tagifiable object — Lemmas/SrcRenderC13.lean): `tagify()` gives the list
    back (`src_tagify_list`), `get_dependencies()` finds nothing (`src_get_dependencies_list`), and the markup is
    `renderList` (`src_render_list`) — the three ties of C09 / C10 / C05 composed through the source text of `render` -/
theorem src_taglist_render_plainC13 (h : TagList_render_available = true)
    (ht1 : Tag_tagify_available = true) (ht2 : TagList_tagify_available = true)
    (hd1 : Tag_get_dependencies_available = true) (hd2 : TagList_get_dependencies_available = true)
    (hr : resolve_dependencies_available = true)
    (hg1 : Tag_get_html_string_available = true) (hg2 : TagList_get_html_string_available = true)
    (hn : normalize_text_available = true) (he : html_escape_available = true) (hs : HTML_as_string_available = true)
    (cfg : Cfg) (ht : keysPlain cfg.textTbl = true) (ha : keysPlain cfg.attrTbl = true)
    (ks : Nodes) (hp : plainKidsC13 ks = true) (fuel : Nat) (hf : 2 * kidsDepth ks + 2 ≤ fuel) :
    TagList_render (globalsOf cfg) fuel (tagListOf (embNodes ks))
      = .ok (.dict [(['d', 'e', 'p', 'e', 'n', 'd', 'e', 'n', 'c', 'i', 'e', 's'], .list []),
                    (['h', 't', 'm', 'l'], .str (renderList cfg ks 0 ['\n'] true true))]) := by
  first
  | exact absurd h (by decide)
  | skip
  all_goals (
    obtain ⟨f, rfl⟩ : ∃ f, fuel = f + 1 := ⟨fuel - 1, by omega⟩
    rw [TagList_render]
    have htag := plainKids_tagifiedC13 ks hp
    have e1 : embNodes ks = embTs tvSpec ks := (embTs_plainC13 tvSpec ks hp).symm
    have e2 : tagifyNodes ks = ks := by rw [C09.C09_tagify_is_spec, C09.C09_tagified_fixed ks htag]
    have hcls : ∀ l, pyClassOf (tagListOf l) = "TagList" := fun _ => rfl
    have s1 := src_tagify_list ht1 ht2 (globalsOf cfg) tvSpec tvSpec_ok ks f (by omega)
    have s2 := src_get_dependencies_list hd1 hd2 hr (globalsOf cfg) tvSpec ks f (by omega) true
    have s3 : TagList_get_html_string (globalsOf cfg) f (tagListOf (embNodes ks)) (PVal.int 0) (PVal.str [Char.ofNat 10])
        (PVal.bool true) (PVal.bool true)
        = if ks.hasTobjKids then .error .runtimeError else .ok (.str (renderList cfg ks 0 ['\n'] true true)) :=
      src_render_list hg1 hg2 hn he hs cfg ht ha ks f (by omega) 0 ['\n'] true true
    rw [e2] at s1
    simp only [Nodes.getDeps, collectKids_plainC13 ks hp, if_true] at s2
    rw [C09.C09_tagified_no_tobj ks htag] at s3
    simp only [e1] at s3 ⊢
    simp only [tagListOf] at s1 s2 s3 hcls ⊢
    simp only [ok_bind, pure_eq_ok, s1, hcls, s2, s3, Bool.false_eq_true, if_false]
    rfl)

/-- `HTMLTextDocument.render(lib_prefix=, include_version=)` as the source has it = `textDocRender`, for every text, every
    placeholder (None: TypeError from `str.replace`, after everything else has run) and every list of dependency objects
    `e d` of which only this is assumed: `d.name` is the name, `str(d.version)` the version text, and
    `d.as_html_tags(lib_prefix=, include_version=)` returns a TagList of plain nodes `asTags d` (`HTMLDependency.as_html_tags`
    is not translated: Py/PrimC13.lean `pyAsHtmlTagsC13`).  What is tied: the listing script (only when there are
    dependencies; `name[version]` joined by `;`; `Tag("script", …, type=…)` through `pyMkTagC13`), the tags of every
    dependency in order, appended through the translated `TagList.append` / `extend` (`src_TagList_append` /
    `src_TagList_extend`), rendered by the translated `TagList.render`, put in place of the **first** occurrence of the
    placeholder (`pyReplaceFirstC13` = `replaceFirst`), and the answer `{"dependencies": …, "html": …}`. -/
theorem src_textdoc_renderC13 (h : HTMLTextDocument_render_available = true) (hR : TagList_render_available = true)
    (hi : TagList_init_available = true) (hap : TagList_append_available = true) (hex : TagList_extend_available = true)
    (htc : tagchilds_to_tagnodes_available = true) (hfl : util_flatten_available = true)
    (hfr : util_flatten_recurse_available = true) (hitn : is_tag_node_available = true)
    (ht1 : Tag_tagify_available = true) (ht2 : TagList_tagify_available = true)
    (hd1 : Tag_get_dependencies_available = true) (hd2 : TagList_get_dependencies_available = true)
    (hr : resolve_dependencies_available = true)
    (hg1 : Tag_get_html_string_available = true) (hg2 : TagList_get_html_string_available = true)
    (hn : normalize_text_available = true) (he : html_escape_available = true) (hs : HTML_as_string_available = true)
    (cfg : Cfg) (ht : keysPlain cfg.textTbl = true) (ha : keysPlain cfg.attrTbl = true)
    (cls : String) (html : Str) (ds : List SDep) (e : SDep → PVal) (asTags : SDep → Nodes) (lp iv : PVal) (ph : Option Str)
    (hname : ∀ d ∈ ds, pyGetAttr (e d) "name" = .ok (.str d.info.name))
    (hver : ∀ d ∈ ds, ∃ v, pyGetAttr (e d) "version" = .ok v ∧ pyStrC13 v = .ok (.str d.info.version))
    (htags : ∀ d ∈ ds, pyAsHtmlTagsC13 (e d) lp iv = .ok (tagListOf (embNodes (asTags d))))
    (hplain : ∀ d ∈ ds, plainKidsC13 (asTags d) = true)
    (fuel : Nat) (hf : 2 * kidsDepth (headNodes asTags ds) + 7 ≤ fuel) :
    HTMLTextDocument_render (globalsOf cfg) fuel (textDocObjC13 cls html (ds.map e) (optStrC13 ph)) lp iv
      = embRes (fun r => .dict [(['d', 'e', 'p', 'e', 'n', 'd', 'e', 'n', 'c', 'i', 'e', 's'], .list (ds.map e)),
                                (['h', 't', 'm', 'l'], .str r)])
          (textDocRender cfg asTags html ds ph) := by
  first
  | exact absurd h (by decide)
  | skip
  all_goals (
    obtain ⟨f, rfl⟩ : ∃ f, fuel = f + 1 := ⟨fuel - 1, by omega⟩
    rw [HTMLTextDocument_render]
    have g1 : pyGetAttr (textDocObjC13 cls html (ds.map e) (optStrC13 ph)) "_deps" = .ok (.list (ds.map e)) := rfl
    have g2 : pyGetAttr (textDocObjC13 cls html (ds.map e) (optStrC13 ph)) "_html" = .ok (.str html) := rfl
    have g3 : pyGetAttr (textDocObjC13 cls html (ds.map e) (optStrC13 ph)) "_deps_replace_pattern" = .ok (optStrC13 ph) := rfl
    have i0 : TagList_init (globalsOf cfg) f (PVal.obj "TagList" []) (PVal.tuple []) = .ok (tagListOf []) := by
      have := src_TagList_init hi htc hfl hfr hitn (globalsOf cfg) [] rfl f (by simp [Args.ofList, argsFdepth]; omega)
      simpa [init_emptyC13, embRes, embTL_tlOfC13] using this
    -- the child-list operations on the values that occur
    have happ : ∀ n : Node, TagList_append (globalsOf cfg) f (tagListOf []) (embNode n) (PVal.tuple [])
        = .ok (tagListOf [embNode n]) := by
      intro n
      have := src_TagList_append hap hex htc hfl hfr hitn (globalsOf cfg) (tlOfC13 []) (.node n) [] rfl f
        (by simp [Args.ofList, argsFdepth, argFdepth]; omega)
      simpa [append_nodeC13, embOut, embTL_tlOfC13, embA] using this
    have hext : ∀ ns : List Node, TagList_extend (globalsOf cfg) f (tagListOf (ns.map embNode))
          (.list (ds.map fun d => tagListOf (embNodes (asTags d))))
        = .ok (tagListOf ((ns ++ (ds.map asTags).flatMap Nodes.toList).map embNode)) := by
      intro ns
      have := src_TagList_extend hex htc hfl hfr hitn (globalsOf cfg) (tlOfC13 ns) (tlsArgC13 (ds.map asTags))
        (argRep_tlsArgC13 _) f (by have := iterDepth_tlsArgC13 (ds.map asTags); omega)
      simpa [extend_tlsArgC13, embOut, embTL_tlOfC13, embA_tlsArgC13, List.map_map, Function.comp_def] using this
    have hhead : ((if ds.isEmpty then [] else [listingNode ds]) ++ (ds.map asTags).flatMap Nodes.toList).map embNode
        = embNodes (headNodes asTags ds) := by
      rw [embNodes_toList, toList_headNodesC13]
    have hrender := src_taglist_render_plainC13 hR ht1 ht2 hd1 hd2 hr hg1 hg2 hn he hs cfg ht ha (headNodes asTags ds)
      (plainKids_headNodesC13 asTags ds hplain) f (by omega)
    have hlen : pyLen (PVal.list (ds.map e)) = .ok (.int (ds.length : Nat)) := by simp [pyLen]
    have hgt : pyGt (PVal.int (ds.length : Nat)) (PVal.int 0) = .ok (.bool (!ds.isEmpty)) := by
      cases ds <;> simp [pyGt]
    -- the model's answer
    have hmodel : embRes (fun r => PVal.dict [(['d', 'e', 'p', 'e', 'n', 'd', 'e', 'n', 'c', 'i', 'e', 's'], .list (ds.map e)),
          (['h', 't', 'm', 'l'], .str r)]) (textDocRender cfg asTags html ds ph)
        = (pyReplaceFirstC13 (.str html) (optStrC13 ph) (.str (renderList cfg (headNodes asTags ds) 0 ['\n'] true true))
            >>= fun x => .ok (PVal.dict [(['d', 'e', 'p', 'e', 'n', 'd', 'e', 'n', 'c', 'i', 'e', 's'], .list (ds.map e)),
              (['h', 't', 'm', 'l'], x)])) := by
      cases ph <;> rfl
    -- everything after the listing script: the second comprehension, `extend`, `render()`, the replacement, the answer
    have tail : ∀ (ns : List Node) (F : PVal → List PVal → PyM (ForInStep (List PVal))) (K : List PVal → PyM PVal),
        ns = (if ds.isEmpty then [] else [listingNode ds]) →
        (∀ d ∈ ds, ∀ s, F (e d) s = .ok (.yield (s ++ [tagListOf (embNodes (asTags d))]))) →
        (∀ s, K s = (TagList_extend (globalsOf cfg) f (tagListOf (ns.map embNode)) (.list s) >>= fun t =>
                      TagList_render (globalsOf cfg) f t >>= fun r => pyGetItem r (.str ['h', 't', 'm', 'l']) >>= fun x =>
                      pyReplaceFirstC13 (.str html) (optStrC13 ph) x >>= fun y =>
                      .ok (PVal.dict [(['d', 'e', 'p', 'e', 'n', 'd', 'e', 'n', 'c', 'i', 'e', 's'], .list (ds.map e)),
                        (['h', 't', 'm', 'l'], y)]))) →
        (forIn (ds.map e) [] F >>= K)
          = embRes (fun r => PVal.dict [(['d', 'e', 'p', 'e', 'n', 'd', 'e', 'n', 'c', 'i', 'e', 's'], .list (ds.map e)),
              (['h', 't', 'm', 'l'], .str r)]) (textDocRender cfg asTags html ds ph) := by
      intro ns F K hns hF hK
      refine collect_loop_kC13 (fun s => s) e (fun d => tagListOf (embNodes (asTags d))) ds F
        (fun d hd s => ⟨_, hF d hd s, rfl⟩) K _ [] (fun s hs => ?_)
      simp only [List.nil_append] at hs
      subst hs
      rw [hK, hext, hns, hhead, hmodel]
      simp only [ok_bind, hrender]
      rfl
    simp only [g1, g2, g3, i0, ok_bind, pure_eq_ok, pyIter_list, hlen, hgt, truthy_bool]
    cases hemp : ds.isEmpty
    · -- some dependencies: the listing script first
      simp only [Bool.not_false, if_true]
      refine collect_loop_kC13 (fun s => s) e (fun d => PVal.str (d.info.name ++ '[' :: d.info.version ++ [']'])) ds _
        ?step _ _ [] (fun s hs => ?k)
      case step =>
        intro d hd s
        obtain ⟨v, hv1, hv2⟩ := hver d hd
        exact ⟨_, by simp only [hname d hd, hv1, hv2, ok_bind, pyAdd_strC13, List.append_assoc, List.singleton_append], rfl⟩
      case k =>
        simp only [List.nil_append] at hs
        subst hs
        have hj := pyJoin_strsC13 [';'] (ds.map fun d => d.info.name ++ '[' :: d.info.version ++ [']'])
        simp only [List.map_map, Function.comp_def] at hj
        simp only [hj, ok_bind, pyMkTag_listingC13, happ]
        exact tail [listingNode ds] _ _ (by simp [hemp]) (fun d hd s => by simp only [htags d hd, ok_bind]) (fun s => rfl)
    · -- no dependency: nothing is listed
      simp only [Bool.not_true, Bool.false_eq_true, if_false]
      exact tail [] _ _ (by simp [hemp]) (fun d hd s => by simp only [htags d hd, ok_bind]) (fun s => rfl))

/-- a dependency object that carries what `render` reads: its name, its version, and the record of `as_html_tags` for the
    argument pair (the hypotheses of `src_textdoc_renderC13` are met by such objects, whatever other attributes they have) -/
def embDepTagsC13 (asTags : SDep → Nodes) (lp iv : PVal) (rk : Nat) (d : SDep) : PVal :=
  .obj "HTMLDependency" [("name", .str d.info.name), ("version", versionObjC10b rk d.info.version),
    ("as_html_tags", .list [.tuple [lp, iv, tagListOf (embNodes (asTags d))]])]

/-- … for these objects, `lib_prefix` None or a `str`, `include_version` a `bool` -/
theorem src_textdoc_render_objC13 (h : HTMLTextDocument_render_available = true) (hR : TagList_render_available = true)
    (hi : TagList_init_available = true) (hap : TagList_append_available = true) (hex : TagList_extend_available = true)
    (htc : tagchilds_to_tagnodes_available = true) (hfl : util_flatten_available = true)
    (hfr : util_flatten_recurse_available = true) (hitn : is_tag_node_available = true)
    (ht1 : Tag_tagify_available = true) (ht2 : TagList_tagify_available = true)
    (hd1 : Tag_get_dependencies_available = true) (hd2 : TagList_get_dependencies_available = true)
    (hr : resolve_dependencies_available = true)
    (hg1 : Tag_get_html_string_available = true) (hg2 : TagList_get_html_string_available = true)
    (hn : normalize_text_available = true) (he : html_escape_available = true) (hs : HTML_as_string_available = true)
    (cfg : Cfg) (ht : keysPlain cfg.textTbl = true) (ha : keysPlain cfg.attrTbl = true)
    (cls : String) (html : Str) (ds : List SDep) (asTags : SDep → Nodes) (lp : Option Str) (iv : Bool) (ph : Option Str)
    (rk : SDep → Nat) (hplain : ∀ d ∈ ds, plainKidsC13 (asTags d) = true)
    (fuel : Nat) (hf : 2 * kidsDepth (headNodes asTags ds) + 7 ≤ fuel) :
    HTMLTextDocument_render (globalsOf cfg) fuel
        (textDocObjC13 cls html (ds.map fun d => embDepTagsC13 asTags (optStrC13 lp) (.bool iv) (rk d) d) (optStrC13 ph))
        (optStrC13 lp) (.bool iv)
      = embRes (fun r => .dict [(['d', 'e', 'p', 'e', 'n', 'd', 'e', 'n', 'c', 'i', 'e', 's'],
                                  .list (ds.map fun d => embDepTagsC13 asTags (optStrC13 lp) (.bool iv) (rk d) d)),
                                (['h', 't', 'm', 'l'], .str r)])
          (textDocRender cfg asTags html ds ph) := by
  refine src_textdoc_renderC13 h hR hi hap hex htc hfl hfr hitn ht1 ht2 hd1 hd2 hr hg1 hg2 hn he hs cfg ht ha cls html ds _
    asTags _ _ ph (fun d _ => rfl) (fun d _ => ⟨_, rfl, rfl⟩) (fun d _ => ?_) hplain fuel hf
  cases lp <;> cases iv <;> simp [pyAsHtmlTagsC13, embDepTagsC13, fieldGet?, lookupTagsC13, sameArgC13, optStrC13]

/-- `text.replace("</", "<\\/")` = `neutralise text` (Props/SrcNeutralise.lean `src_neutralise`, restated here so that this file does
    not depend on that file's `_now` obligation about the operands in the source) -/
theorem neutraliseC13 (s : Str) :
    pyReplaceAll (.str s) (.str ['<', '/']) (.str ['<', '\\', '/']) = .ok (.str (neutralise s)) := by
  simp only [pyReplaceAll, List.isEmpty_cons, Bool.false_eq_true, if_false, pure_eq_ok, neutralise]
  rw [replaceGo_neut_len s.length s (Nat.le_refl _)]

/-- `TagList(x)` for a TagList `x` of nodes: a TagList with the same nodes (through the translated `TagList.__init__`) -/
theorem init_taglist1C13 (hi : TagList_init_available = true) (htc : tagchilds_to_tagnodes_available = true)
    (hfl : util_flatten_available = true) (hfr : util_flatten_recurse_available = true) (hitn : is_tag_node_available = true)
    (G : Globals) (ks : Nodes) (f : Nat) (hf : 4 < f) :
    TagList_init G f (PVal.obj "TagList" []) (PVal.tuple [tagListOf (embNodes ks)]) = .ok (tagListOf (embNodes ks)) := by
  have := src_TagList_init hi htc hfl hfr hitn G [.taglist (nodeArgsC13 ks)] (by simp [argRep, argsRep_nodeArgsC13]) f
    (by simp [Args.ofList, argsFdepth, argFdepth, argsFdepth_nodeArgsC13]; omega)
  have e : TL.init [.taglist (nodeArgsC13 ks)] = .ok (tlOfC13 ks.toList) := by
    simp [TL.init, chTagchildsToTagnodes, Arg.isStr, Arg.iter, flatten, Args.ofList, Args.flattenInto, Arg.flattenItem,
      flattenInto_nodeArgsC13, convertLoop_nodesC13, tlOfC13]
  simpa [e, embRes, embTL_tlOfC13, embA, embAs_nodeArgsC13, tagListOf, embNodes_toList] using this

/-- `HTMLDependency.serialize_to_script_json(indent)` as the source has it = `serNode` — the `<script type="application/json"
    data-html-dependency="">` element whose text is the neutralised JSON of the record — for every dependency object with the
    attributes `__init__` leaves (`embDepObjC10b`; `head` None or a TagList of any nodes), `indent` None or a natural number:
    the `res` dict in source order, `str(version)`, `head` rendered by the translated `TagList.__init__` +
    `get_html_string` (RuntimeError iff an un-expanded tagifiable object is reached), `json.dumps` (= `jsonPrint`:
    Py/PrimC13.lean), `.replace("</", "<\\/")` (= `neutralise`: `src_neutralise`), `Tag("script", …, type=…,
    data_html_dependency=True)` (`pyMkTagC13`: `Tag.__init__` is not translated). -/
theorem src_serializeC13 (h : HTMLDependency_serialize_available = true)
    (hi : TagList_init_available = true) (htc : tagchilds_to_tagnodes_available = true)
    (hfl : util_flatten_available = true) (hfr : util_flatten_recurse_available = true) (hitn : is_tag_node_available = true)
    (hg1 : Tag_get_html_string_available = true) (hg2 : TagList_get_html_string_available = true)
    (hn : normalize_text_available = true) (he : html_escape_available = true) (hs : HTML_as_string_available = true)
    (cfg : Cfg) (ht : keysPlain cfg.textTbl = true) (ha : keysPlain cfg.attrTbl = true)
    (cls : String) (info : DepInfo) (hasHead : Bool) (head : Nodes) (ind : Option Nat)
    (fuel : Nat) (hf : 2 * kidsDepth head + 6 ≤ fuel) :
    HTMLDependency_serialize (globalsOf cfg) fuel
        (embDepObjC10b cls (sourceVC13 info.source).emb info (if hasHead then tagListOf (embNodes head) else PVal.none))
        (optNatC13 ind)
      = if hasHead && head.hasTobjKids then .error .runtimeError
        else .ok (embNode (serNode ind (sdepOfNode cfg info hasHead head))) := by
  first
  | exact absurd h (by decide)
  | skip
  all_goals (
    obtain ⟨f, rfl⟩ : ∃ f, fuel = f + 1 := ⟨fuel - 1, by omega⟩
    rw [HTMLDependency_serialize]
    have g : ∀ (k : String) (v : PVal) (src hd : PVal),
        fieldGet? k [("name", PVal.str info.name), ("version", versionObjC10b info.vrank info.version), ("source", src),
          ("script", embDictsC10b info.script), ("stylesheet", embDictsC10b info.stylesheet), ("meta", embDictsC10b info.metas),
          ("all_files", PVal.bool info.allFiles), ("head", hd)] = some v →
        pyGetAttr (embDepObjC10b cls src info hd) k = .ok v := fun k v src hd hk => pyGetAttr_objC10b _ _ _ _ hk
    have hcls : ∀ l, pyClassOf (tagListOf l) = "TagList" := fun _ => rfl
    simp only [g "name" _ _ _ rfl, g "version" _ _ _ rfl, g "source" _ _ _ rfl, g "script" _ _ _ rfl, g "stylesheet" _ _ _ rfl,
      g "meta" _ _ _ rfl, g "all_files" _ _ _ rfl, g "head" _ _ _ rfl, ok_bind, pure_eq_ok, truthy_bool]
    have hv : pyStrC13 (versionObjC10b info.vrank info.version) = .ok (.str info.version) := rfl
    -- `json.dumps`, the neutralisation and the `Tag(…)` construction, for either kind of head
    have fin : ∀ hd : Option Str,
        (pyJsonDumpsC13
            (PVal.dict
              [(['n', 'a', 'm', 'e'], PVal.str info.name), (['v', 'e', 'r', 's', 'i', 'o', 'n'], PVal.str info.version),
                (['s', 'o', 'u', 'r', 'c', 'e'], (sourceVC13 info.source).emb),
                (['s', 'c', 'r', 'i', 'p', 't'], embDictsC10b info.script),
                (['s', 't', 'y', 'l', 'e', 's', 'h', 'e', 'e', 't'], embDictsC10b info.stylesheet),
                (['m', 'e', 't', 'a'], embDictsC10b info.metas),
                (['a', 'l', 'l', '_', 'f', 'i', 'l', 'e', 's'], PVal.bool info.allFiles),
                (['h', 'e', 'a', 'd'], optStrC13 hd)])
            (optNatC13 ind) >>= fun j =>
          pyReplaceAll j (PVal.str ['<', '/']) (PVal.str ['<', Char.ofNat 92, '/']) >>= fun b =>
          pyMkTagC13 (PVal.str ['s', 'c', 'r', 'i', 'p', 't']) (PVal.tuple [b])
            (PVal.dict
              [(['t', 'y', 'p', 'e'],
                  PVal.str ['a', 'p', 'p', 'l', 'i', 'c', 'a', 't', 'i', 'o', 'n', '/', 'j', 's', 'o', 'n']),
                (['d', 'a', 't', 'a', '_', 'h', 't', 'm', 'l', '_', 'd', 'e', 'p', 'e', 'n', 'd', 'e', 'n', 'c', 'y'],
                  PVal.bool true)]))
          = .ok (embNode (serNode ind { info := info, head := hd })) := by
      intro hd
      have jd := jsonDumps_recordC13 info hd ind
      simp only [kName, kVersion, kSource, kScript, kStylesheet, kMeta, kAllFiles, kHead] at jd
      have hn' := neutraliseC13 (jsonPrint ind (depToJson { info := info, head := hd }))
      rw [jd]
      simp only [ok_bind]
      rw [show (PVal.str ['<', Char.ofNat 92, '/']) = PVal.str ['<', '\\', '/'] from rfl, hn']
      rfl
    cases hasHead
    · simp only [Bool.false_eq_true, if_false, isNone, Bool.not_true, hv, ok_bind, Bool.false_and]
      exact fin none
    · have hini := init_taglist1C13 hi htc hfl hfr hitn (globalsOf cfg) head f (by omega)
      have hrl : TagList_get_html_string (globalsOf cfg) f (tagListOf (embNodes head)) (PVal.int 0) (PVal.str [Char.ofNat 10])
          (PVal.bool true) (PVal.bool true)
          = if head.hasTobjKids then .error .runtimeError else .ok (.str (renderList cfg head 0 ['\n'] true true)) :=
        src_render_list hg1 hg2 hn he hs cfg ht ha head f (by omega) 0 ['\n'] true true
      have hnn : isNone (tagListOf (embNodes head)) = false := rfl
      simp only [if_true, hnn, Bool.not_false, hv, ok_bind, hini, hcls, hrl, Bool.true_and]
      cases head.hasTobjKids
      · simp only [Bool.false_eq_true, if_false, ok_bind]
        exact fin (some (renderList cfg head 0 ['\n'] true true))
      · simp only [if_true, error_bind])
end HtmlVerif.SrcTie
