#!/usr/bin/env python3
"""Run every registered quick check against every seeded change (one seed at a time; the checks of one seed in
parallel) and write seeded/MATRIX.json + seeded/README.md.   usage: seedmatrix.py [seed-name ...]"""
import json
import os
import subprocess
import sys
import time
from concurrent.futures import ThreadPoolExecutor

VERIF = os.path.dirname(os.path.dirname(os.path.abspath(__file__)))
WT = "/tmp/w/matrix-wt"


def sh(cmd, **kw):
    p = subprocess.run(cmd, shell=True, capture_output=True, text=True, **kw)
    return p.returncode, p.stdout + p.stderr


def main():
    man = json.load(open(os.path.join(VERIF, "MANIFEST.json")))
    props = [c["property_id"] for c in man["checks"]]
    seeds = sys.argv[1:] or sorted(d for d in os.listdir(os.path.join(VERIF, "seeded")) if os.path.isdir(os.path.join(VERIF, "seeded", d)))
    mpath = os.path.join(VERIF, "seeded", "MATRIX.json")
    matrix = json.load(open(mpath)) if os.path.exists(mpath) else {}
    if not os.path.isdir(WT):
        rc, out = sh(f"git -C /repo worktree add -q --detach {WT}")
        assert rc == 0, out
    for s in seeds:
        sd = os.path.join(VERIF, "seeded", s)
        sh(f"git -C {WT} checkout -- . ; git -C {WT} clean -fdq ; git -C {WT} checkout -q --detach $(git -C /repo rev-parse HEAD)")
        rc, out = sh(f"git -C {WT} apply {sd}/patch.diff")
        if rc != 0:
            matrix[s] = {"error": "patch does not apply: " + out[-200:]}
            continue
        t0 = time.time()

        def one(p):
            rc, out = sh(f"VERIF_REPO={WT} VERIF_EVIDENCE_DIR=/tmp/matrix-evidence timeout 1500 ./check {p} --tier quick", cwd=VERIF)
            v = [l for l in out.splitlines() if l.startswith("VIOLATION")]
            kind = "-"
            if rc == 1 and v:
                kind = "no-failing-input-found" if v[0].endswith("no-failing-input-found") else "failing-input"
            return p, {"rc": rc, "kind": kind}
        with ThreadPoolExecutor(8) as ex:
            res = dict(ex.map(one, props))
        matrix[s] = {"checks": res, "wall_s": round(time.time() - t0, 1)}
        print(s, {p: r["kind"] for p, r in res.items() if r["rc"] != 0}, flush=True)
        json.dump(matrix, open(mpath, "w"), indent=1)
    sh(f"git -C {WT} checkout -- . && git -C /repo worktree remove --force {WT}")
    # regenerate tables for the clean tree
    sh("./check C19 --tier quick", cwd=VERIF)
    write_readme(matrix)


def write_readme(matrix):
    lines = ["# Seeded changes", "",
             "Each directory holds `patch.diff` (a change to posit-dev/py-htmltools that keeps the pinned suite green), `demo.py` (fails with the",
             "change, passes without), `meta.json` (what it breaks and what it needs to manifest) and `confirm.json` (what was run to confirm it).",
             "They were written by independent agents that saw only the property text. None is ever committed to /repo.", "",
             "`MATRIX.json`: every registered quick check against every seeded change (`failing-input` = VIOLATION with a concrete replay,",
             "`no-failing-input-found` = VIOLATION naming the broken theorem/correspondence, `-` = silent).", "",
             "| seed | breaks | needs | caught by (kind) |", "|---|---|---|---|"]
    for s in sorted(matrix):
        sd = os.path.join(VERIF, "seeded", s)
        try:
            m = json.load(open(os.path.join(sd, "meta.json")))
        except Exception:
            m = {}
        ch = matrix[s].get("checks", {})
        caught = ", ".join(f"{p} ({r['kind']})" for p, r in sorted(ch.items()) if r["rc"] == 1)
        infra = ", ".join(p for p, r in sorted(ch.items()) if r["rc"] not in (0, 1))
        lines.append(f"| {s} | {str(m.get('summary', ''))[:160].replace('|', '/')} | {str(m.get('needs', ''))[:160].replace('|', '/')} | {caught or 'MISSED'}{(' ; exit 2: ' + infra) if infra else ''} |")
    open(os.path.join(VERIF, "seeded", "README.md"), "w").write("\n".join(lines) + "\n")


if __name__ == "__main__":
    main()
