/-
C06 — Block layout follows the documented line and indentation rules.
The renderer's two-variable state machine (first_child, prev_was_add_ws) is shown to refine the
declarative line layout of Spec/Layout.lean, for every validly nested tree, every indent and every eol.
-/
import HtmlVerif.Lemmas.Layout
import HtmlVerif.Props.C05

namespace HtmlVerif.C06
open HtmlVerif

/-- tags that take an early exit (no visible child / a single text child) are written on one line -/
theorem render_oneLine (cfg : Cfg) (name : Str) (ws : Bool) (attrs : Attrs) (kids : Nodes) (i : Nat) (e : Str)
    (h : (kids.visible.isEmpty || (inlineChild? kids.visible).isSome) = true) :
    (Node.tag name ws attrs kids).render cfg i e = indentStr i ++ (Node.tag name ws attrs kids).flat cfg := by
  have hvis := C05.flatKids_eq_visible cfg kids (!cfg.noesc.contains name)
  simp only [Node.render, Node.flat]
  by_cases h0 : kids.visible.isEmpty = true
  · by_cases hv : name ∈ cfg.void <;> simp [h0, hv]
  · simp only [h0, Bool.false_or] at h
    simp only [h0]
    cases h1 : inlineChild? kids.visible with
    | none => simp [h1] at h
    | some c =>
      rw [hvis]
      rcases inlineChild?_some h1 with ⟨hc, hvv⟩ | ⟨hc, hvv⟩ <;>
        by_cases hn : name ∈ cfg.noesc <;>
        simp [hvv, Node.flatIn, inlineText, hn, hc]

mutual
  /-- a validly nested tag renders as its layout lines, joined by `eol`, two spaces per level -/
  theorem C06_tag (cfg : Cfg) (t : Node) (i : Nat) (e : Str) (htag : t.isTag = true) (hv : t.valid = true) :
      t.render cfg i e = joinLines e (t.layout cfg i) := by
    match t, htag, hv with
    | .tag name ws attrs kids, _, hv =>
      cases ws with
      | false =>
        have hn : (Node.tag name false attrs kids).noWs = true := by
          simp only [Node.valid] at hv; simpa [Node.noWs] using hv
        rw [C05.C05_flat cfg name false attrs kids i e hn]
        simp [Node.layout, joinLines]
      | true =>
        simp only [Node.valid, if_true] at hv
        by_cases h1 : (kids.visible.isEmpty || (inlineChild? kids.visible).isSome) = true
        · rw [render_oneLine cfg name true attrs kids i e h1]
          simp only [Node.layout, Bool.not_true, Bool.false_or, h1, if_true, joinLines]
        · have h1' : (kids.visible.isEmpty || (inlineChild? kids.visible).isSome) = false := by simpa using h1
          simp only [Bool.or_eq_false_iff] at h1'
          obtain ⟨h0, hi⟩ := h1'
          have hnone : inlineChild? kids.visible = none := by
            cases hh : inlineChild? kids.visible with
            | none => rfl
            | some c => simp [hh] at hi
          have hk := C06_kids_line cfg kids (i + 1) e true (!cfg.noesc.contains name) hv
          have hne := groupLines_none_ne_nil cfg kids (i + 1) (!cfg.noesc.contains name) h0
          simp only [Node.render, h0, hnone, Node.layout, Bool.not_true, Bool.false_or, Bool.or_self,
            Option.isSome_none, Bool.false_eq_true, if_false, if_true]
          rw [hk, List.cons_append, joinLines_cons, pjoin_append, pjoin_eq_eol_join e _ hne]
          simp [pjoin]
  /-- child loop at the start of a line (`prev_was_add_ws = True`): the remaining children are the
      remaining lines; each line is preceded by `eol` except the very first child's -/
  theorem C06_kids_line (cfg : Cfg) (ks : Nodes) (lvl : Nat) (e : Str) (first esc : Bool)
      (hv : ks.validKids = true) :
      ks.renderKids cfg lvl e first true esc
        = if first then joinLines e (ks.groupLines cfg lvl esc none) else pjoin e (ks.groupLines cfg lvl esc none) := by
    cases ks with
    | nil => cases first <;> simp [Nodes.renderKids, Nodes.groupLines, joinLines]
    | cons h t =>
      simp only [Nodes.validKids, Bool.and_eq_true] at hv
      obtain ⟨hh, ht⟩ := hv
      cases h with
      | mnode _ => simpa [Nodes.renderKids, Nodes.groupLines, Node.isMeta] using C06_kids_line cfg t lvl e first esc ht
      | dep _ _ _ => simpa [Nodes.renderKids, Nodes.groupLines, Node.isMeta] using C06_kids_line cfg t lvl e first esc ht
      | tag n w a k =>
        cases w with
        | true =>
          have hT := C06_tag cfg (.tag n true a k) lvl e rfl hh
          have hK := C06_kids_line cfg t lvl e false esc ht
          have hne := layout_ne_nil cfg n true a k lvl
          simp only [Nodes.renderKids, Nodes.groupLines, Node.isMeta, Node.isBlock, Bool.false_eq_true,
            if_false, if_true, Bool.or_true, Bool.and_true, List.nil_append, hT, hK]
          cases first
          · simp [pjoin_append, pjoin_eq_eol_join e _ hne]
          · simp [joinLines_append e _ _ hne]
        | false =>
          have hn : (Node.tag n false a k).noWs = true := by
            simp only [Node.valid] at hh; simpa [Node.noWs] using hh
          have hF := C05.C05_flat cfg n false a k lvl e hn
          have hK := C06_kids_run cfg t lvl e esc ht
          simp only [Nodes.renderKids, Nodes.groupLines, Node.isMeta, Node.isBlock, Bool.false_eq_true,
            if_false, Bool.or_false, if_true, hF, hK, groupLines_some, Option.getD_none, List.nil_append]
          cases first <;> simp [joinLines_cons, pjoin_cons, Node.flatIn]
      | text s =>
        have hK := C06_kids_run cfg t lvl e esc ht
        simp only [Nodes.renderKids, Nodes.groupLines, Node.isMeta, Node.isBlock, Bool.false_eq_true,
          if_false, if_true, hK, groupLines_some, Option.getD_none, List.nil_append]
        cases first <;> simp [joinLines_cons, pjoin_cons, Node.flatIn]
      | html s =>
        have hK := C06_kids_run cfg t lvl e esc ht
        simp only [Nodes.renderKids, Nodes.groupLines, Node.isMeta, Node.isBlock, Bool.false_eq_true,
          if_false, if_true, hK, groupLines_some, Option.getD_none, List.nil_append]
        cases first <;> simp [joinLines_cons, pjoin_cons, Node.flatIn]
      | robj s =>
        have hK := C06_kids_run cfg t lvl e esc ht
        simp only [Nodes.renderKids, Nodes.groupLines, Node.isMeta, Node.isBlock, Bool.false_eq_true,
          if_false, if_true, hK, groupLines_some, Option.getD_none, List.nil_append]
        cases first <;> simp [joinLines_cons, pjoin_cons, Node.flatIn]
      | tobjL rh c =>
        have hK := C06_kids_run cfg t lvl e esc ht
        simp only [Nodes.renderKids, Nodes.groupLines, Node.isMeta, Node.isBlock, Bool.false_eq_true,
          if_false, if_true, hK, groupLines_some, Option.getD_none, List.nil_append]
        cases first <;> simp [joinLines_cons, pjoin_cons, Node.flatIn]
      | tobj1 rh c =>
        have hK := C06_kids_run cfg t lvl e esc ht
        simp only [Nodes.renderKids, Nodes.groupLines, Node.isMeta, Node.isBlock, Bool.false_eq_true,
          if_false, if_true, hK, groupLines_some, Option.getD_none, List.nil_append]
        cases first <;> simp [joinLines_cons, pjoin_cons, Node.flatIn]
  /-- child loop in the middle of a line (`prev_was_add_ws = False`, not first): following non-block
      children continue the line with nothing in between; the next block child starts a new line -/
  theorem C06_kids_run (cfg : Cfg) (ks : Nodes) (lvl : Nat) (e : Str) (esc : Bool)
      (hv : ks.validKids = true) :
      ks.renderKids cfg lvl e false false esc = ks.runCont cfg esc ++ pjoin e (ks.afterRun cfg lvl esc) := by
    cases ks with
    | nil => simp [Nodes.renderKids, Nodes.runCont, Nodes.afterRun]
    | cons h t =>
      simp only [Nodes.validKids, Bool.and_eq_true] at hv
      obtain ⟨hh, ht⟩ := hv
      cases h with
      | mnode _ => simpa [Nodes.renderKids, Nodes.runCont, Nodes.afterRun, Node.isMeta] using C06_kids_run cfg t lvl e esc ht
      | dep _ _ _ => simpa [Nodes.renderKids, Nodes.runCont, Nodes.afterRun, Node.isMeta] using C06_kids_run cfg t lvl e esc ht
      | tag n w a k =>
        cases w with
        | true =>
          have hT := C06_tag cfg (.tag n true a k) lvl e rfl hh
          have hK := C06_kids_line cfg t lvl e false esc ht
          have hne := layout_ne_nil cfg n true a k lvl
          simp only [Nodes.renderKids, Nodes.runCont, Nodes.afterRun, Node.isMeta, Node.isBlock,
            Bool.false_eq_true, if_false, if_true, Bool.or_true, Bool.not_false, Bool.and_true, hT, hK]
          simp [pjoin_append, pjoin_eq_eol_join e _ hne]
        | false =>
          have hn : (Node.tag n false a k).noWs = true := by
            simp only [Node.valid] at hh; simpa [Node.noWs] using hh
          have hF := C05.C05_flat cfg n false a k 0 [] hn
          have hK := C06_kids_run cfg t lvl e esc ht
          simp only [Nodes.renderKids, Nodes.runCont, Nodes.afterRun, Node.isMeta, Node.isBlock,
            Bool.false_eq_true, if_false, Bool.or_false, hF, hK]
          simp [Node.flatIn]
      | text s =>
        have hK := C06_kids_run cfg t lvl e esc ht
        simp only [Nodes.renderKids, Nodes.runCont, Nodes.afterRun, Node.isMeta, Node.isBlock,
          Bool.false_eq_true, if_false, hK]
        simp [Node.flatIn]
      | html s =>
        have hK := C06_kids_run cfg t lvl e esc ht
        simp only [Nodes.renderKids, Nodes.runCont, Nodes.afterRun, Node.isMeta, Node.isBlock,
          Bool.false_eq_true, if_false, hK]
        simp [Node.flatIn]
      | robj s =>
        have hK := C06_kids_run cfg t lvl e esc ht
        simp only [Nodes.renderKids, Nodes.runCont, Nodes.afterRun, Node.isMeta, Node.isBlock,
          Bool.false_eq_true, if_false, hK]
        simp [Node.flatIn]
      | tobjL rh c =>
        have hK := C06_kids_run cfg t lvl e esc ht
        simp only [Nodes.renderKids, Nodes.runCont, Nodes.afterRun, Node.isMeta, Node.isBlock,
          Bool.false_eq_true, if_false, hK]
        simp [Node.flatIn]
      | tobj1 rh c =>
        have hK := C06_kids_run cfg t lvl e esc ht
        simp only [Nodes.renderKids, Nodes.runCont, Nodes.afterRun, Node.isMeta, Node.isBlock,
          Bool.false_eq_true, if_false, hK]
        simp [Node.flatIn]
end

/-- a top-level list lays out its items by the same sibling rule -/
theorem C06_list (cfg : Cfg) (ks : Nodes) (i : Nat) (e : Str) (esc : Bool) (hv : ks.validKids = true) :
    renderList cfg ks i e true esc = joinLines e (ks.groupLines cfg i esc none) := by
  have := C06_kids_line cfg ks i e true esc hv
  simpa [renderList] using this

end HtmlVerif.C06

namespace HtmlVerif.C06
open HtmlVerif

def shift (k : Nat) (l : Line) : Line := (l.1 + k, l.2)

mutual
  /-- `indent = k` shifts every layout line by k levels (2k spaces) and changes nothing else -/
  theorem C06_shift (cfg : Cfg) (t : Node) (i k : Nat) :
      t.layout cfg (i + k) = (t.layout cfg i).map (shift k) := by
    cases t with
    | tag name ws attrs kids =>
      have hk := C06_shift_kids cfg kids (i + 1) k (!cfg.noesc.contains name) none
      have e1 : i + k + 1 = i + 1 + k := by omega
      simp only [Node.layout]
      split
      · simp [shift]
      · simp only [List.contains_eq_mem] at hk
        simp [shift, e1, hk]
    | _ => simp [Node.layout]
  theorem C06_shift_kids (cfg : Cfg) (ks : Nodes) (lvl k : Nat) (esc : Bool) (cur : Option Str) :
      ks.groupLines cfg (lvl + k) esc cur = (ks.groupLines cfg lvl esc cur).map (shift k) := by
    cases ks with
    | nil => cases cur <;> simp [Nodes.groupLines, shift]
    | cons h t =>
      have ht := C06_shift_kids cfg t lvl k esc
      have hh := C06_shift cfg h lvl k
      simp only [Nodes.groupLines]
      by_cases hm : h.isMeta = true
      · simp [hm, ht]
      · by_cases hb : h.isBlock = true
        · cases cur <;> simp [hm, hb, ht, hh, shift]
        · simp [hm, hb, ht]
end

/-- non-vacuity: a block tag with an inline run and a nested block child is validly nested and has
    a four-line layout -/
example : (Node.tag ['d'] true [] (.cons (.text ['a']) (.cons (.tag ['s'] false [] .nil)
      (.cons (.tag ['p'] true [] .nil) .nil)))).valid = true
    ∧ ((Node.tag ['d'] true [] (.cons (.text ['a']) (.cons (.tag ['s'] false [] .nil)
      (.cons (.tag ['p'] true [] .nil) .nil)))).layout ⟨[], [], [], []⟩ 0).length = 4 := by
  simp [Node.valid, Nodes.validKids, Nodes.noWsKids, Node.layout, Nodes.groupLines, Nodes.visible, Node.isMeta,
    Node.isBlock, inlineChild?, Node.flatIn]

end HtmlVerif.C06
