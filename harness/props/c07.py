"""C07 — Metadata nodes leave no trace in the markup."""
from __future__ import annotations

import itertools

import core
import gen
import ops
from wire import enode, enodes, es, eb, Toks, p_node, p_list

PID = "C07"
MANIFEST = dict(
    text="Lean theorems C07_tag/C07_kids/C07_list/C07_insert_remove: for every tree, indent and eol the model renderer's "
         "output is invariant under deleting (hence inserting) metadata nodes at any positions; model tied to /repo by "
         "exhaustive small-scope + random differential runs of get_html_string, and the statement itself is evaluated on the "
         "real code (impl(t) == impl(stripMeta t), stripMeta being the Lean definition).",
    design="DESIGN.md §6 C07",
    note="Modelled, not verified: Python isinstance dispatch order in the child loop.",
    technique="Lean 4 proof by mutual structural induction over the tag tree + differential correspondence check",
)
PROP_FILES = ["HtmlVerif/Props/C07.lean", "HtmlVerif/Props/SrcRender.lean"]
EOLS = ["\n", "", "<!>"]


def has_meta(n) -> bool:
    if n[0] == "meta" or n[0] == "dep":
        return True
    if n[0] == "tag":
        return any(has_meta(c) for c in n[4])
    return False


def insert_meta(n, rng, p=0.4, counter=[0]):
    """insert metadata nodes at a random subset of child positions, at every level"""
    if n[0] != "tag":
        return n
    kids = []
    for c in n[4]:
        while rng.random() < p:
            kids.append(("meta", rng.randint(0, 9)))
        kids.append(insert_meta(c, rng, p))
    while rng.random() < p:
        kids.append(("meta", rng.randint(0, 9)))
    return ("tag", n[1], n[2], n[3], kids)


def run(tier: str) -> int:
    ck = core.Check(PID, tier, PROP_FILES)
    ck.prepare()
    rng = ck.rng
    ck.rule = ("a case is one (tree, indent, eol) rendering; non-trivial = the tree contains at least one "
               "metadata node; distinct by wire term")
    lines, nontriv = [], []
    # 1. exhaustive small scope
    bound = 4 if tier == "quick" else 5
    n_ex = 0
    for t in gen.trees_upto(bound):
        if t[0] != "tag":
            continue
        hm = has_meta(t)
        cfgs = [(0, "\n"), (2, "<!>")] if tier == "quick" else [(0, "\n"), (1, ""), (3, "<!>"), (2, "\r\n")]
        for (i, e) in cfgs:
            lines.append(f"render_tag {enode(t)} {i} {es(e)}")
            nontriv.append(hm)
        n_ex += 1
    ck.exhaustive_scopes.append({"scope": f"all tag-rooted trees with <= {bound} nodes over 6 tag kinds x 7 leaf kinds (incl. metadata)",
                                 "trees": n_ex, "exhaustive": True})
    # 2. random large trees with metadata sprinkled at random subsets of positions
    for _ in range(ck.budget(1500, 40000)):
        base = gen.rand_tag(rng, rng.randint(1, 7), leaves=("text", "html", "robj"))
        t = insert_meta(base, rng, p=rng.choice([0.2, 0.5, 0.8]))
        i = rng.choice([0, 0, 1, 2, 5])
        e = rng.choice(["\n", "\n", "", "\r\n", "<!>", " "])
        lines.append(f"render_tag {enode(t)} {i} {es(e)}")
        nontriv.append(has_meta(t))
    # 3. top-level lists
    for _ in range(ck.budget(500, 10000)):
        ks = [insert_meta(gen.rand_node(rng, rng.randint(0, 4), leaves=("text", "html", "robj", "meta")), rng) for _ in range(rng.randint(0, 5))]
        i = rng.choice([0, 1, 3])
        e = rng.choice(["\n", "", "<!>"])
        lines.append(f"render_list {enodes(ks)} {i} {es(e)} {eb(rng.random() < 0.7)} {eb(rng.random() < 0.8)}")
        nontriv.append(any(has_meta(k) for k in ks))
    impl = core.impl_many(lines)
    for l, im, nt in zip(lines, impl, nontriv):
        ck.add(l, im, nontrivial=nt, tag=l.split(" ", 1)[0])
    ck.add_src(['Tag_get_html_string', 'TagList_get_html_string'], quick=250, thorough=2500)
    ck.correspond(holds=False)
    # executable statement on the implementation: impl(t) == impl(stripMeta t), stripMeta computed by the Lean definition
    if ck.driver is not None:
        idx = [k for k, nt in enumerate(nontriv) if nt]
        strip_lines = []
        for k in idx:
            l = lines[k]
            opn, rest = l.split(" ", 1)
            if opn == "render_tag":
                strip_lines.append("strip_meta " + _first_term(rest))
            else:
                strip_lines.append("strip_meta_list " + _first_term(rest))
        stripped = ck.driver.run(strip_lines)
        l2 = []
        for k, s in zip(idx, stripped):
            l = lines[k]
            opn, rest = l.split(" ", 1)
            ft = _first_term(rest)
            l2.append(opn + " " + s + rest[len(ft):])
        impl2 = core.impl_many(l2)
        for k, a, b in zip(idx, impl2, l2):
            ck.holds_checked += 1
            if a != impl[k]:
                ck.py_violation(lines[k], impl[k], f"rendering without the metadata nodes differs: {a}",
                                py=f"stripped case: {b}")
    # 4. the same statement on the render() / str() path, with objects that expand under tagify() among the siblings
    #    (an expansion to 0 or several nodes moves every later sibling: a metadata node after it must still leave no trace)
    import props.c09 as c09
    from ops_tagify import rank_terms

    def strip(n):
        k = n[0]
        if k == "tag":
            return ("tag", n[1], n[2], n[3], [strip(c) for c in n[4] if not is_meta(c)])
        if k == "tobjL":
            return ("tobjL", n[1], [strip(c) for c in n[2] if not is_meta(c)])
        if k == "tobj1":
            return ("tobj1", n[1], strip(n[2]))
        return n

    def is_meta(n):
        return n[0] in ("meta", "dep")

    def sprinkle(n, p):
        k = n[0]
        if k == "tag":
            return ("tag", n[1], n[2], n[3], sprinkle_list(n[4], p))
        if k == "tobjL":
            return ("tobjL", n[1], sprinkle_list(n[2], p))
        if k == "tobj1" and not is_meta(n[2]):
            return ("tobj1", n[1], sprinkle(n[2], p))
        return n

    def sprinkle_list(ks, p):
        out = []
        for c in ks:
            while rng.random() < p:
                out.append(("meta", rng.randint(0, 9)))
            out.append(sprinkle(c, p))
        while rng.random() < p:
            out.append(("meta", rng.randint(0, 9)))
        return out

    def no_meta_result(n):
        """a tobj1 whose single result is itself a metadata node is replaced by it: not a position of the sibling list"""
        k = n[0]
        if k == "tobj1":
            return not is_meta(n[2]) and no_meta_result(n[2])
        if k == "tag":
            return all(no_meta_result(c) for c in n[4])
        if k == "tobjL":
            return all(no_meta_result(c) for c in n[2])
        return True

    full, pairs = [], []
    for _ in range(ck.budget(700, 12000)):
        base = [c09.rand_t(rng, rng.randint(1, 4)) for _ in range(rng.randint(1, 4))]
        base = [b for b in base if no_meta_result(b)]
        with_m = sprinkle_list(base, rng.choice([0.2, 0.5]))
        if not any(is_meta(c) for c in with_m) and not any(has_meta(c) for c in with_m if c[0] == "tag"):
            with_m = with_m + [("meta", 1)]
        without = [strip(c) for c in with_m if not is_meta(c)]
        a = f"render_full_list {enodes(rank_terms(list(with_m)))}"
        b = f"render_full_list {enodes(rank_terms(list(without)))}"
        pairs.append((len(full), a, b))
        full += [a, b]
    res = core.impl_many(full)
    for k, a, b in pairs:
        ra, rb = res[k], res[k + 1]
        ck.holds_checked += 1
        ha = ra.split(" ")[1] if ra.startswith("ok ") else ra
        hb = rb.split(" ")[1] if rb.startswith("ok ") else rb
        if ha != hb:
            ck.py_violation(a, ra[:600], f"render() of a list with metadata nodes differs from render() of the same list without them: {rb[:300]}",
                            py=f"with metadata: {a}\nwithout: {b}")
    ck.tagc("render_full_list(meta vs stripped)", len(pairs))
    ck.extra_cov["render_mode_cases"] = __import__("modeoracle").oracle(ck, "C07 (dependencies leave no trace in the rendered HTML string)")
    return ck.finish()


def _first_term(rest: str) -> str:
    """the leading node / node-list term of an argument string (by bracket matching on tokens)"""
    toks = rest.split(" ")
    t = Toks(rest)
    if toks[0] == "[":
        p_list(t, p_node)
    else:
        p_node(t)
    return " ".join(toks[: t.i])
