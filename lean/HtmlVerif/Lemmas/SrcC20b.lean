/-
Source tie for the rest of htmltools/_jsx.py (harness/pytr_c20b.py): embeddings of keyword dicts / allow-lists, the
model-level reading of `JSXTagAttrDict._update` / `update` (`propsMergeC20b`, `propsUpdateC20b`) and its relation to the
model's `mkProps` / `foldProps` (Model/Jsx.lean, Lemmas/Jsx.lean), facts about the primitives of Py/PrimC20b.lean on the
embedded shapes, the loop lemmas (quantified over the loop body) used by Props/SrcC20b.lean, and what the translated
`TagList` constructor / mutators of `_core.py` do on a list of *plain nodes* (`plainNodeC20b`: the items
`_tagchilds_to_tagnodes` keeps as they are — which every child of the component model is, a `jsx` string excepted).
The embeddings `embJNode` / `embJVal` / `embJProps` are those of Lemmas/SrcC20.lean.
-/
import HtmlVerif.Lemmas.SrcC20
import HtmlVerif.Lemmas.SrcC15b
import HtmlVerif.Lemmas.Jsx
import HtmlVerif.Py.PrimC20b
import HtmlVerif.Generated.Src

set_option linter.unusedVariables false
set_option linter.unusedSimpArgs false

namespace HtmlVerif.SrcTie
open HtmlVerif HtmlVerif.Py HtmlVerif.Generated.Src HtmlVerif.JsxL

/-! ### embeddings -/

/-- a keyword dict / a mapping argument as the Python value -/
def embKwC20b (ι : Str → Option Int) (kw : List (Str × JVal)) : PVal := .dict (kw.map fun kv => (kv.1, embJVal ι kv.2))

/-- no keyword is called like one of `names` (parameters of the callee: Python binds such a keyword to the parameter, or
    raises "multiple values", instead of handing it to `**kwargs`; the model does not have that binding) -/
def kwFreeC20b (names : List Str) (kw : List (Str × JVal)) : Bool := kw.all fun kv => !names.contains kv.1

/-- the value given for `allowedProps`: None, or a list of names -/
def embAllowedC20b : Option (List Str) → PVal
  | none => .none
  | some ps => .list (ps.map .str)

/-! ### `_update` / `update` at the model level -/

/-- `dict.update(cur, **new)`: the items of `new` set one after the other -/
def propsMergeC20b (cur new : JProps) : JProps := new.toList.foldl (fun acc kv => acc.set kv.1 kv.2) cur

/-- `update(*args, **kwargs)`: every mapping in turn, its names normalised into the receiver -/
def propsUpdateC20b (cur : JProps) (maps : List (List (Str × JVal))) : JProps := maps.foldl foldProps cur

theorem set_set_sameC20b (k : Str) (a b : JVal) : (p : JProps) → (p.set k a).set k b = p.set k b
  | .nil => by simp [JProps.set]
  | .cons k0 v0 t => by
    by_cases h : k0 = k
    · simp [JProps.set, h]
    · simp [JProps.set, h, set_set_sameC20b k a b t]

theorem set_comm_memC20b (k k' : Str) (v v' : JVal) (hne : k ≠ k') : (p : JProps) → k ∈ p.keys →
    (p.set k' v').set k v = (p.set k v).set k' v'
  | .nil, h => by simp [JProps.keys] at h
  | .cons k0 v0 t, h => by
    by_cases h0 : k0 = k
    · subst h0
      have : ¬ k0 = k' := hne
      simp [JProps.set, this]
    · have hk : k ∈ t.keys := by
        simp only [JProps.keys, List.mem_cons] at h
        rcases h with h | h
        · exact absurd h.symm h0
        · exact h
      by_cases h1 : k0 = k'
      · subst h1
        simp [JProps.set, h0]
      · simp [JProps.set, h0, h1, set_comm_memC20b k k' v v' hne t hk]

theorem merge_consC20b (cur : JProps) (k : Str) (v : JVal) (t : JProps) :
    propsMergeC20b cur (.cons k v t) = propsMergeC20b (cur.set k v) t := rfl

theorem merge_set_freshC20b (k : Str) (v : JVal) : (t Q : JProps) → k ∉ t.keys → k ∈ Q.keys →
    (propsMergeC20b Q t).set k v = propsMergeC20b (Q.set k v) t
  | .nil, Q, _, _ => rfl
  | .cons k1 v1 t', Q, hk, hQ => by
    simp only [JProps.keys, List.mem_cons, not_or] at hk
    rw [merge_consC20b, merge_consC20b]
    have hmem : k ∈ (Q.set k1 v1).keys := by
      rw [set_keys]; split
      · exact hQ
      · exact List.mem_append_left _ hQ
    rw [merge_set_freshC20b k v t' (Q.set k1 v1) hk.2 hmem, set_comm_memC20b k k1 v v1 hk.1 Q hQ]

theorem mem_keys_set_selfC20b (k : Str) (v : JVal) (p : JProps) : k ∈ (p.set k v).keys := by
  rw [set_keys]; split
  · assumption
  · simp

theorem merge_setC20b (k : Str) (v : JVal) : (acc cur : JProps) → acc.keys.Nodup →
    propsMergeC20b cur (acc.set k v) = (propsMergeC20b cur acc).set k v
  | .nil, cur, _ => rfl
  | .cons k0 v0 t, cur, hn => by
    simp only [JProps.keys, List.nodup_cons] at hn
    by_cases h0 : k0 = k
    · subst h0
      simp only [JProps.set, if_true, merge_consC20b]
      rw [merge_set_freshC20b k0 v t (cur.set k0 v0) hn.1 (mem_keys_set_selfC20b _ _ _), set_set_sameC20b]
    · simp only [JProps.set, h0, if_false, merge_consC20b]
      exact merge_setC20b k v t (cur.set k0 v0) hn.2

theorem merge_foldPropsC20b (cur : JProps) : (kw : List (Str × JVal)) → (acc : JProps) → acc.keys.Nodup →
    propsMergeC20b cur (foldProps acc kw) = foldProps (propsMergeC20b cur acc) kw
  | [], acc, _ => rfl
  | kv :: t, acc, hn => by
    have : foldProps acc (kv :: t) = foldProps (acc.set (normAttrName kv.1) kv.2) t := rfl
    rw [this, merge_foldPropsC20b cur t _ (set_nodup _ _ _ hn), merge_setC20b _ _ acc cur hn]
    rfl

/-- what `_update` does in two steps — the names of the mapping normalised one after the other into a *fresh* dict
    (`mkProps`), whose items are then set in the receiver — is normalising them one after the other into the receiver: of two
    keywords with the same normalised name the later decides the value, the first the place -/
theorem merge_mkPropsC20b (cur : JProps) (kw : List (Str × JVal)) :
    propsMergeC20b cur (mkProps kw) = foldProps cur kw :=
  merge_foldPropsC20b cur kw .nil (by simp [JProps.keys])

/-! ### facts about the primitives on the embedded shapes -/

theorem dictSet_embJPropsC20b (ι : Str → Option Int) (k : Str) (v : JVal) : (ps : JProps) →
    Py.dictSet k (embJVal ι v) (embJProps ι ps) = embJProps ι (ps.set k v)
  | .nil => rfl
  | .cons k' v' t => by
    simp only [embJProps, Py.dictSet, JProps.set]
    split
    · simp [embJProps]
    · simp [embJProps, dictSet_embJPropsC20b ι k v t]

theorem dictUpdate_embJPropsC20b (ι : Str → Option Int) : (new cur : JProps) →
    (embJProps ι new).foldl (fun c kv => Py.dictSet kv.1 kv.2 c) (embJProps ι cur) = embJProps ι (propsMergeC20b cur new)
  | .nil, cur => rfl
  | .cons k v t, cur => by
    simp only [embJProps, List.foldl_cons, dictSet_embJPropsC20b, propsMergeC20b, JProps.toList]
    exact dictUpdate_embJPropsC20b ι t (cur.set k v)

theorem pyIterJ_listC20b (xs : List PVal) : pyIterJ (.list xs) = .ok xs := pyIterJ_list xs
theorem pyIterJ_tupleC20b (xs : List PVal) : pyIterJ (.tuple xs) = .ok xs := pyIterJ_tuple xs

theorem pyKeys_embKwC20b (ι : Str → Option Int) (kw : List (Str × JVal)) :
    pyKeys (embKwC20b ι kw) = .ok (.list (kw.map fun kv => PVal.str kv.1)) := by
  simp [embKwC20b, pyKeys, Function.comp_def]

/-- `f(**kwargs)` with keywords free of the callee's parameter names: they reach `**kwargs` unchanged -/
theorem pyKwRest_embKwC20b (ι : Str → Option Int) (kw : List (Str × JVal)) (bound : List Str)
    (h : kwFreeC20b bound kw = true) : pyKwRestC15b (embKwC20b ι kw) bound [] = .ok (embKwC20b ι kw) := by
  have h1 : (kw.map fun kv => (kv.1, embJVal ι kv.2)).any (fun kv => bound.contains kv.1) = false := by
    rw [List.any_eq_false]
    intro x hx
    obtain ⟨kv, hkv, rfl⟩ := List.mem_map.1 hx
    have := (List.all_eq_true.mp h) kv hkv
    simpa using this
  simp only [embKwC20b, pyKwRestC15b, h1, Bool.false_eq_true, if_false, pure_eq_ok]
  congr 2
  simp

theorem foldlM_okC20b {α β : Type} (g : β → α → β) (l : List α) (b0 : β) :
    l.foldlM (fun b c => (Except.ok (g b c) : Except Err β)) b0 = .ok (l.foldl g b0) := by
  induction l generalizing b0 with
  | nil => rfl
  | cons a t ih => simp only [List.foldlM_cons, List.foldl_cons]; exact ih _

theorem splitOn_ne_nilC20b (c : Char) (s : Str) : splitOn c s ≠ [] := by
  induction s with
  | nil => simp [splitOn]
  | cons x xs ih =>
    rw [splitOn]
    split
    · simp
    · cases h : splitOn c xs <;> simp

/-- `pieces[-1]` -/
theorem getItem_lastC20b (l : List Str) (hne : l ≠ []) :
    pyGetItem (.list (l.map PVal.str)) (.int (-1)) = .ok (.str (l.getLast hne)) := by
  have hlen : 0 < l.length := List.length_pos_iff.mpr hne
  have h1 : ((-1 : Int) + ((l.map PVal.str).length : Int)).toNat = l.length - 1 := by simp; omega
  have h2 : ¬ ((-1 : Int) + ((l.map PVal.str).length : Int) < 0) := by simp; omega
  simp only [pyGetItem, show ((-1 : Int) < 0) from by decide, if_true, h2, if_false, h1]
  rw [List.getLast_eq_getElem]
  have h3 : (l.map PVal.str)[l.length - 1]? = some (PVal.str (l[l.length - 1]'(by omega))) := by
    simp [List.getElem?_eq_getElem (show l.length - 1 < l.length by omega)]
  rw [h3]
  rfl

/-- `x[:1]` -/
theorem slice_take1C20b (p : Str) : Py.pySlice (PVal.str p) none (some 1) = Except.ok (PVal.str (p.take 1)) := by
  simp only [Py.pySlice, sliceList, Py.clampIdx, pure_eq_ok]
  congr 2
  cases p <;> simp

/-- `pieces[-1][:1]` is the model's `nameInitial` -/
theorem nameInitial_eqC20b (name : Str) :
    nameInitial name = ((splitOn '.' name).getLast (splitOn_ne_nilC20b '.' name)).take 1 := by
  unfold nameInitial
  rw [List.getLast?_eq_some_getLast (splitOn_ne_nilC20b '.' name)]

theorem pyIn_strsC20b (ps : List Str) (k : Str) : pyIn (.str k) (.list (ps.map PVal.str)) = .ok (.bool (ps.contains k)) := by
  simp only [pyIn, pure_eq_ok]
  congr 2
  induction ps with
  | nil => rfl
  | cons a t ih => simp only [List.map_cons, List.any_cons, ih, List.contains_cons]; rw [Bool.beq_comm]

/-! ### loop lemmas (the body `f` is whatever the translator emitted; `hstep` is about one pass) -/

/-- the loop of `_update`: if one pass sets the normalised key in the dict held in the first component of the state, the loop
    computes `foldProps` -/
theorem kw_loop_kC20b {β τ : Type} (ι : Str → Option Int) (kw : List (Str × JVal)) (acc : JProps) (L : List PVal)
    (hL : L = kw.map fun kv => PVal.tuple [.str kv.1, embJVal ι kv.2]) (t0 : τ)
    (f : PVal → PVal × τ → PyM (ForInStep (PVal × τ)))
    (hstep : ∀ kv ∈ kw, ∀ (s : PVal × τ) (b : JProps), s.1 = .dict (embJProps ι b) →
      ∃ s', f (.tuple [.str kv.1, embJVal ι kv.2]) s = .ok (.yield s')
        ∧ s'.1 = .dict (embJProps ι (b.set (normAttrName kv.1) kv.2)))
    (k : PVal × τ → PyM β) (r : PyM β)
    (hk : ∀ s, s.1 = .dict (embJProps ι (foldProps acc kw)) → k s = r) :
    (forIn L (PVal.dict (embJProps ι acc), t0) f >>= k) = r := by
  have sim := forIn_sim (fun (s : PVal × τ) (b : JProps) => s.1 = .dict (embJProps ι b)) embErr
    (fun kv : Str × JVal => PVal.tuple [.str kv.1, embJVal ι kv.2]) kw f
    (fun kv b => .ok (b.set (normAttrName kv.1) kv.2)) (PVal.dict (embJProps ι acc), t0) acc rfl
    (by
      intro c hc s b hR
      obtain ⟨s', h1, h2⟩ := hstep c hc s b hR
      exact ⟨_, h1, s', rfl, h2⟩)
  rw [foldlM_okC20b (fun (b : JProps) (kv : Str × JVal) => b.set (normAttrName kv.1) kv.2)] at sim
  obtain ⟨s, hs, h1⟩ := sim
  rw [hL, hs, ok_bind]
  exact hk s h1

/-- the loop of `update`: if one pass does `_update(arg)` on the dict held in the first component of the state, the loop
    computes `propsUpdateC20b` -/
theorem maps_loop_kC20b {β τ : Type} (ι : Str → Option Int) (maps : List (List (Str × JVal))) (cur : JProps) (L : List PVal)
    (hL : L = maps.map (embKwC20b ι)) (t0 : τ)
    (f : PVal → PVal × τ → PyM (ForInStep (PVal × τ)))
    (hstep : ∀ m ∈ maps, ∀ (s : PVal × τ) (b : JProps), s.1 = .dict (embJProps ι b) →
      ∃ s', f (embKwC20b ι m) s = .ok (.yield s') ∧ s'.1 = .dict (embJProps ι (foldProps b m)))
    (k : PVal × τ → PyM β) (r : PyM β)
    (hk : ∀ s, s.1 = .dict (embJProps ι (propsUpdateC20b cur maps)) → k s = r) :
    (forIn L (PVal.dict (embJProps ι cur), t0) f >>= k) = r := by
  have sim := forIn_sim (fun (s : PVal × τ) (b : JProps) => s.1 = .dict (embJProps ι b)) embErr
    (embKwC20b ι) maps f
    (fun m b => .ok (foldProps b m)) (PVal.dict (embJProps ι cur), t0) cur rfl
    (by
      intro c hc s b hR
      obtain ⟨s', h1, h2⟩ := hstep c hc s b hR
      exact ⟨_, h1, s', rfl, h2⟩)
  rw [foldlM_okC20b (fun (b : JProps) (m : List (Str × JVal)) => foldProps b m)] at sim
  obtain ⟨s, hs, h1⟩ := sim
  rw [hL, hs, ok_bind]
  exact hk s h1

/-- the loop of the `allowedProps` check, whatever its body and its state: if one pass raises NotImplementedError exactly for
    a keyword that is not listed (and otherwise goes on), the loop raises iff some keyword is not listed -/
theorem allowed_loop_kC20b {α β σ : Type} (ps : List Str) (kw : List (Str × α)) (L : List PVal)
    (hL : L = kw.map fun kv => PVal.str kv.1) (init : σ)
    (f : PVal → σ → PyM (ForInStep σ))
    (hstep : ∀ kv ∈ kw, ∀ s : σ, if ps.contains kv.1 = true then ∃ s', f (.str kv.1) s = .ok (.yield s')
      else f (.str kv.1) s = .error .notImplemented)
    (k : σ → PyM β) (r : PyM β)
    (hk : if (kw.all fun kv => ps.contains kv.1) = true then ∀ s, k s = r else r = .error .notImplemented) :
    (forIn L init f >>= k) = r := by
  subst hL
  induction kw generalizing init with
  | nil => simp only [List.map_nil, List.forIn_nil, pure_eq_ok, ok_bind]; simpa using hk init
  | cons a t ih =>
    have h1 := hstep a (by simp) init
    simp only [List.map_cons, List.forIn_cons]
    by_cases ha : ps.contains a.1 = true
    · simp only [ha, if_true] at h1
      obtain ⟨s', hs'⟩ := h1
      rw [hs', ok_bind]
      refine ih s' (fun kv hkv s => hstep kv (by simp [hkv]) s) ?_
      simp only [List.all_cons, ha, Bool.true_and] at hk
      exact hk
    · simp only [ha, Bool.false_eq_true, if_false] at h1
      rw [h1]
      have : (List.all (a :: t) fun kv => ps.contains kv.1) = false := by
        rw [List.all_cons]; simp only [Bool.and_eq_false_imp]; intro h; exact absurd h ha
      simp only [this, Bool.false_eq_true, if_false] at hk
      rw [hk]; rfl

/-- a loop every pass of which keeps an invariant of the state -/
theorem inv_loop_kC20b {α β σ : Type} (P : σ → Prop) (L : List α) (f : α → σ → PyM (ForInStep σ))
    (hstep : ∀ a ∈ L, ∀ s, P s → ∃ s', f a s = .ok (.yield s') ∧ P s')
    (init : σ) (h0 : P init) (k : σ → PyM β) (r : PyM β) (hk : ∀ s, P s → k s = r) :
    (forIn L init f >>= k) = r := by
  induction L generalizing init with
  | nil => exact hk init h0
  | cons a t ih =>
    obtain ⟨s', h1, h2⟩ := hstep a (by simp) init h0
    simp only [List.forIn_cons, h1, ok_bind]
    exact ih (fun b hb s hs => hstep b (by simp [hb]) s hs) s' h2

/-- a loop every pass of which appends its item to the list held in the first component of the state -/
theorem append_loop_kC20b {β τ : Type} (L : List PVal) (acc : List PVal) (t0 : τ)
    (f : PVal → PVal × τ → PyM (ForInStep (PVal × τ)))
    (hstep : ∀ a ∈ L, ∀ (s : PVal × τ) (b : List PVal), s.1 = .list b → ∃ s', f a s = .ok (.yield s') ∧ s'.1 = .list (b ++ [a]))
    (k : PVal × τ → PyM β) (r : PyM β) (hk : ∀ s, s.1 = .list (acc ++ L) → k s = r) :
    (forIn L (PVal.list acc, t0) f >>= k) = r := by
  induction L generalizing acc t0 with
  | nil => exact hk _ (by simp)
  | cons a t ih =>
    obtain ⟨s', h1, h2⟩ := hstep a (by simp) (PVal.list acc, t0) acc rfl
    obtain ⟨s1, s2⟩ := s'
    simp only at h2
    subst h2
    simp only [List.forIn_cons, h1, ok_bind]
    exact ih (acc ++ [a]) s2 (fun b hb s c hs => hstep b (by simp [hb]) s c hs) (fun s hs => hk s (by simpa using hs))

/-! ### the `TagList` translations of `_core.py` on plain nodes -/

/-- an item `_tagchilds_to_tagnodes` keeps as it is: a tag node (`is_tag_node`) that `flatten` neither unnests (a list, a
    tuple, a TagList) nor drops (None) and that is not a number — stated as exactly the tests the code makes -/
def plainNodeC20b (v : PVal) : Bool :=
  isInstance v ["Tagifiable", "MetadataNode", "ReprHtml", "str", "HTML"] && !isInstance v ["list", "tuple", "TagList"]
    && !isNone v && !isInstance v ["int", "float"]

/-- the children of the component model that are not `jsx` strings -/
def noJsxKidsC20b : JNodes → Bool
  | .nil => true
  | .cons (.str .jsx _) _ => false
  | .cons _ t => noJsxKidsC20b t

theorem plain_embJNodeC20b (ι : Str → Option Int) (n : JNode) (h : ∀ s, n ≠ .str .jsx s) :
    plainNodeC20b (embJNode ι n) = true ∧ hasJsxArgC20b (embJNode ι n) = false := by
  cases n with
  | str k s =>
    cases k with
    | jsx => exact absurd rfl (h s)
    | plain => simp [embJNode, plainNodeC20b, isInstance, builtinClasses, isNone, hasJsxArgC20b]
    | html => simp [embJNode, plainNodeC20b, isInstance, builtinClasses, isNone, hasJsxArgC20b]
  | md m => cases m <;> simp [embJNode, plainNodeC20b, isInstance, classBases, isNone, hasJsxArgC20b, hasJsxDataC20b]
  | _ => simp [embJNode, plainNodeC20b, isInstance, classBases, isNone, hasJsxArgC20b, hasJsxDataC20b]

theorem plain_embJNodesC20b (ι : Str → Option Int) : (ks : JNodes) → noJsxKidsC20b ks = true →
    (∀ v ∈ embJNodes ι ks, plainNodeC20b v = true) ∧ hasJsxArgsC20b (embJNodes ι ks) = false
  | .nil, _ => by simp [embJNodes, hasJsxArgsC20b]
  | .cons n t, h => by
    have hn : ∀ s, n ≠ .str .jsx s := by
      intro s e; subst e; simp [noJsxKidsC20b] at h
    have ht : noJsxKidsC20b t = true := by
      cases n with
      | str k s => cases k <;> first | exact absurd rfl (hn s) | simpa [noJsxKidsC20b] using h
      | _ => simpa [noJsxKidsC20b] using h
    obtain ⟨h1, h2⟩ := plain_embJNodeC20b ι n hn
    obtain ⟨h3, h4⟩ := plain_embJNodesC20b ι t ht
    refine ⟨?_, by simp [embJNodes, hasJsxArgsC20b, h2, h4]⟩
    intro v hv
    simp only [embJNodes, List.mem_cons] at hv
    rcases hv with rfl | hv
    · exact h1
    · exact h3 v hv

theorem noJsxKids_appendC20b : (a b : JNodes) → noJsxKidsC20b a = true → noJsxKidsC20b b = true →
    noJsxKidsC20b (JNodes.ofList (a.toList ++ b.toList)) = true
  | .nil, b, _, hb => by
    have : ∀ b : JNodes, JNodes.ofList b.toList = b := by
      intro b
      induction b using JNodes.rec (motive_1 := fun _ => True) (motive_3 := fun _ => True) (motive_4 := fun _ => True)
        (motive_5 := fun _ => True) <;> simp_all [JNodes.toList, JNodes.ofList]
    simpa [JNodes.toList, this] using hb
  | .cons n t, b, ha, hb => by
    have ih := noJsxKids_appendC20b t b
    cases n with
    | str k s =>
      cases k <;> first | (simp [noJsxKidsC20b] at ha; done) | (simp only [noJsxKidsC20b] at ha; simpa [JNodes.toList, JNodes.ofList, noJsxKidsC20b] using ih ha hb)
    | _ => simp only [noJsxKidsC20b] at ha; simpa [JNodes.toList, JNodes.ofList, noJsxKidsC20b] using ih ha hb

theorem embJNodes_ofList_appendC20b (ι : Str → Option Int) (a b : JNodes) :
    embJNodes ι (JNodes.ofList (a.toList ++ b.toList)) = embJNodes ι a ++ embJNodes ι b := by
  rw [embJNodes_toList, embJNodes_toList, embJNodes_toList]
  have : ∀ l : List JNode, (JNodes.ofList l).toList = l := by
    intro l; induction l with
    | nil => rfl
    | cons x r ih => simp [JNodes.ofList, JNodes.toList, ih]
  rw [this, List.map_append]

end HtmlVerif.SrcTie
