/-
C02 — Plain-text children are inert data.
Character level: html_escape as written is the per-character map & ↦ &amp;  < ↦ &lt;  > ↦ &gt; (others unchanged);
its output decodes to the original, contains no '<' / '>' and every '&' in it starts one of the three references.
Tree level: every plain-text leaf whose parent is not script/style is emitted exactly once, in document order,
through that map, and nothing else in the output depends on text content.
-/
import HtmlVerif.Lemmas.Refs
import HtmlVerif.Lemmas.Decode
import HtmlVerif.Lemmas.Leaves

namespace HtmlVerif.C02
open HtmlVerif

/-- the renderer's tables as regenerated from the source on this run -/
def cfg : Cfg :=
  { void := Generated.voidNames, noesc := Generated.noescNames,
    textTbl := Generated.textTbl, attrTbl := Generated.attrTbl }

/-- the table has the shape that makes sequential `str.replace` passes a per-character map
    (`&` handled before any replacement text containing `&` is produced) -/
theorem C02_textTbl_ok : TblOk Generated.textTbl = true := textTbl_ok

/-- `html_escape(s)` — guard, then sequential replace in table order — is the per-character map -/
theorem C02_esc_text_as_written (s : Str) : htmlEscapeT Generated.textTbl s = s.flatMap escTextChar :=
  escapeText_eq s

/-- what the renderer writes for a text leaf is that map -/
theorem C02_escText (s : Str) : escText cfg s = s.flatMap escTextChar := escapeText_eq s

/-- every character other than & < > is unchanged -/
theorem C02_esc_text_rest (c : Char) (h : c ≠ '&' ∧ c ≠ '<' ∧ c ≠ '>') : escTextChar c = [c] := by
  simp [escTextChar, h.1, h.2.1, h.2.2]

/-- decodes to exactly the original characters -/
theorem C02_esc_text_decode (s : Str) : decodeCharRefs (escText cfg s) = s := by
  rw [C02_escText]; exact decode_escText s

/-- can never open or close a tag, start a comment or a declaration: no '<' and no '>' survive -/
theorem C02_esc_text_inert (s : Str) : '<' ∉ escText cfg s ∧ '>' ∉ escText cfg s := by
  rw [C02_escText]; exact ⟨escText_inert s '<' (Or.inl rfl), escText_inert s '>' (Or.inr rfl)⟩

/-- can never forge a character reference: every '&' in the output begins `&amp;`, `&lt;` or `&gt;` -/
theorem C02_esc_text_amps (s : Str) : ampsOk textRefs (escText cfg s) = true := by
  rw [C02_escText]; exact escText_ampsOk s

/-- the mapping distributes over concatenation: splitting a text into several adjacent leaves changes nothing -/
theorem C02_esc_text_append (a b : Str) : escText cfg (a ++ b) = escText cfg a ++ escText cfg b :=
  htmlEscapeT_append _ a b

/-! ### tree level -/

mutual
  /-- every plain-text leaf in an escaping context is emitted exactly once, in document order, as an
      escaped-text piece — on every path (single-child exit and general loop), for every indent/eol -/
  theorem C02_every_position (cfg : Cfg) (n : Node) (i : Nat) (e : Str) :
      (n.pieces cfg i e).filterMap Piece.txt? = n.txtLeaves cfg := by
    cases n with
    | tag name ws attrs kids =>
      have hk := C02_every_position_kids cfg kids (i + 1) e true ws (!cfg.noesc.contains name)
      have hvis := txtLeavesKids_eq_visible cfg kids (!cfg.noesc.contains name)
      simp only [List.contains_eq_mem] at hk
      simp only [Node.pieces, Node.txtLeaves]
      by_cases h0 : kids.visible.isEmpty = true
      · have hnil : kids.visible = [] := by simpa using h0
        rw [hvis, hnil]
        by_cases hv : name ∈ cfg.void <;> simp [h0, hv, List.filterMap_cons]
      · simp only [h0]
        cases h1 : inlineChild? kids.visible with
        | some c =>
          rw [hvis]
          rcases inlineChild?_some h1 with ⟨hc, hvv⟩ | ⟨hc, hvv⟩ <;>
            by_cases hn : name ∈ cfg.noesc <;>
            simp [hvv, hc, hn, Node.txtIn, textP, List.filterMap_cons]
        | none =>
          cases ws <;> simp [hk, List.filterMap_cons]
    | _ => simp [Node.pieces, Node.txtLeaves]
  theorem C02_every_position_kids (cfg : Cfg) (ks : Nodes) (i : Nat) (e : Str) (first prevWs esc : Bool) :
      (ks.piecesKids cfg i e first prevWs esc).filterMap Piece.txt? = ks.txtLeavesKids cfg esc := by
    cases ks with
    | nil => simp [Nodes.piecesKids, Nodes.txtLeavesKids]
    | cons h t =>
      have ht := C02_every_position_kids cfg t
      cases h with
      | tag n w a k =>
        have hh := C02_every_position cfg (.tag n w a k)
        simp only [Nodes.piecesKids, Nodes.txtLeavesKids]
        cases first <;> cases prevWs <;> cases w <;> simp [ht, hh, List.filterMap_cons]
      | text s =>
        simp only [Nodes.piecesKids, Nodes.txtLeavesKids]
        cases first <;> cases prevWs <;> cases esc <;> simp [ht, textP, List.filterMap_cons]
      | _ =>
        simp only [Nodes.piecesKids, Nodes.txtLeavesKids]
        cases first <;> cases prevWs <;> simp [ht, List.filterMap_cons]
end

/-- the escaped-text pieces realise to the escaped leaf, all other pieces do not look at text at all -/
theorem C02_txt_realize (cfg : Cfg) (s : Str) : (Piece.txt s).realize cfg = escText cfg s := rfl

mutual
  /-- nothing else in the output depends on the text: replacing the content of every text leaf by an
      arbitrary function of it leaves the sequence of markup, layout and content *slots* unchanged -/
  theorem C02_skeleton (cfg : Cfg) (g : Str → Str) (n : Node) (i : Nat) (e : Str) :
      ((n.mapText g).pieces cfg i e).map Piece.skel = (n.pieces cfg i e).map Piece.skel := by
    cases n with
    | tag name ws attrs kids =>
      have hk := C02_skeleton_kids cfg g kids (i + 1) e true ws (!cfg.noesc.contains name)
      simp only [List.contains_eq_mem] at hk
      simp only [Node.mapText, Node.pieces, visible_mapText, inlineChild?_mapText, List.isEmpty_map]
      by_cases h0 : kids.visible.isEmpty = true
      · simp [h0]
      · simp only [h0]
        cases h1 : inlineChild? kids.visible with
        | some c =>
          by_cases hn : name ∈ cfg.noesc <;> cases hc : c.2 <;> simp [hn, hc, textP]
        | none => cases ws <;> simp [hk]
    | text s => simp [Node.mapText, Node.pieces]
    | _ => simp [Node.mapText]
  theorem C02_skeleton_kids (cfg : Cfg) (g : Str → Str) (ks : Nodes) (i : Nat) (e : Str)
      (first prevWs esc : Bool) :
      ((ks.mapTextKids g).piecesKids cfg i e first prevWs esc).map Piece.skel
        = (ks.piecesKids cfg i e first prevWs esc).map Piece.skel := by
    cases ks with
    | nil => simp [Nodes.mapTextKids]
    | cons h t =>
      have ht := C02_skeleton_kids cfg g t
      cases h with
      | tag n w a k =>
        have hh := C02_skeleton cfg g (.tag n w a k)
        simp only [Node.mapText] at hh
        simp only [Nodes.mapTextKids, Node.mapText, Nodes.piecesKids]
        cases first <;> cases prevWs <;> cases w <;> simp [ht, hh]
      | text s =>
        simp only [Nodes.mapTextKids, Node.mapText, Nodes.piecesKids]
        cases first <;> cases prevWs <;> cases esc <;> simp [ht, textP]
      | _ =>
        simp only [Nodes.mapTextKids, Node.mapText, Nodes.piecesKids]
        cases first <;> cases prevWs <;> simp [ht]
end

/-- non-vacuity: a text leaf with metacharacters under a block tag with a sibling -/
example : (Node.tag ['p'] true [] (.cons (.text ['<', '&']) (.cons (.html ['x']) .nil))).txtLeaves
    ⟨[], [], [], []⟩ = [['<', '&']] := by
  simp [Node.txtLeaves, Nodes.txtLeavesKids]

end HtmlVerif.C02

namespace HtmlVerif.C02
open HtmlVerif

/-- the statement in its own words: reading input and output in parallel, each of & < > appears as a character
    reference that decodes to it and every other character appears unchanged (this is the predicate the check
    evaluates on the real `html_escape` output; it does not prescribe *which* reference is used) -/
theorem C02_statement (s : Str) : validEscape textSpecials s (escText cfg s) = true := by
  rw [C02_escText]; exact validEscape_text s

end HtmlVerif.C02
