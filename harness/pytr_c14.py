"""Translator plug-in for C14 (child lists hold only normalised nodes): `is_tag_node`, `is_tag_child`, `flatten`,
`_flatten_recurse`, `_tagchilds_to_tagnodes` and the `TagList` mutators / constructors.

New syntax handled here (hooks of harness/pytranslate.py), each with the syntactic condition under which the functional
reading is what Python does:

* **mutation through a list parameter** (`FnSpec.out_param`): `def f(…, P)` that only ever *appends* to `P` or hands `P` on to
  another such function becomes a function that returns the new `P`; `return` / falling off the end returns `P`.  Condition
  (checked on the callee): `P` is never rebound, read, stored, returned or captured — its only occurrences are the receiver
  of `P.append(e)` statements and the out-argument of call statements of out-param functions, and `e` / the other arguments
  do not mention `P`.  A *call statement* `f(a, N)` then becomes `N := f(a, N)`; condition (checked on the caller): `N` is
  the caller's own out-parameter or a *fresh list local* (below), and the other arguments do not mention `N`.  Such a call in
  expression position is refused.
* **fresh list locals**: a local bound exactly once, to `[]` or to the result of a translated function that returns a fresh
  list (one whose every `return` gives back a fresh list local of its own — computed here, e.g. `flatten`), and whose other
  occurrences are only: `N.append(e)`, `N[k] = e`, out-argument of an out-param call statement, `return N` /
  `return cast(T, N)`, `enumerate(N)` / `N` as the iterable of a `for`.  Its in-place updates are functional updates of the
  name.  A `for i, item in enumerate(N)` loop whose body mutates `N` is accepted only if every mutation is `N[i] = e` with
  the loop's own (never reassigned) index variable: the element written has already been yielded, so iterating over a
  snapshot — what the translation does — visits the same items.
* `from ._core import TagList` inside a function body: skipped (the name is used only as a class name in `isinstance`).
* `cast(T, e)` (imported from `typing`): `e`.
* `isinstance(x, (…, Sequence))`: `isInstanceSeq` of Py/PrimC14.lean (the base `isInstance` does not know the ABC).
* list / tuple displays with starred elements: concatenation with `pyIter` of the starred operand (TypeError if not iterable).
* `TagList(a, *b)`: the translated `TagList.__init__` on a new, empty instance.
* in a `UserList` subclass: `super().__init__(e)`, `super().extend(e)`, `self[i:i] = e` (primitives `userListInit`,
  `userListExtend`, `userListSliceInsert`), and `return self` in a method whose translation returns the new `self`.
"""
from __future__ import annotations

import ast
import os

T = None  # the pytranslate module (set by register)

#: Python class name -> Lean name of its translated `__init__`
CONSTRUCTORS = {"TagList": "TagList_init"}
#: names that may be imported inside a function body and are used as class names only
LOCAL_IMPORT_CLASSES = {"TagList"}
#: Python names of translated functions every `return` of which gives back a fresh list (filled in while translating)
RETURNS_FRESH: set[str] = set()

_mod_cache: dict[str, ast.Module] = {}


def _module(fn) -> ast.Module:
    path = os.path.join(T.repo(), fn.spec.file)
    if path not in _mod_cache:
        with open(path, encoding="utf-8") as f:
            _mod_cache[path] = ast.parse(f.read())
    return _mod_cache[path]


def _imported_from(fn, name: str, modules: tuple[str, ...]) -> bool:
    """`name` is bound at module level by `from <one of modules> import name` (and by nothing else we can see)"""
    ok = False
    for n in _module(fn).body:
        if isinstance(n, ast.ImportFrom) and any(a.name == name and a.asname is None for a in n.names):
            if n.module in modules and n.level == 0:
                ok = True
            else:
                return False
        if isinstance(n, (ast.FunctionDef, ast.ClassDef)) and n.name == name:
            return False
        if isinstance(n, ast.Assign) and any(isinstance(t, ast.Name) and t.id == name for t in n.targets):
            return False
    return ok


def _mentions(e: ast.AST, name: str) -> bool:
    return any(isinstance(n, ast.Name) and n.id == name for n in ast.walk(e))


def _out_info(fn, call: ast.Call):
    """(FnInfo, index of the out-argument among call.args) if `call` is a positional call of a translated out-param function"""
    f = call.func
    if not isinstance(f, ast.Name):
        return None
    info = fn.known_by_pyname().get(f.id)
    if info is None or not info.spec.out_param:
        return None
    if not info.available:
        raise T.Untranslatable(f"calls {info.spec.qual}, which is not translated")
    if call.keywords or any(isinstance(a, ast.Starred) for a in call.args):
        raise T.Untranslatable(f"call of {f.id} (which mutates its parameter {info.spec.out_param}) with keyword / star arguments")
    if info.spec.out_param not in info.params:
        raise T.Untranslatable("out-parameter is not a positional parameter")
    k = info.params.index(info.spec.out_param)
    if len(call.args) != len(info.params):
        raise T.Untranslatable(f"call of {f.id} does not pass every parameter positionally")
    return info, k


class Analysis:
    """per-function facts, computed once from the AST"""

    def __init__(self, fn):
        self.fn = fn
        node = fn.node
        self.out = fn.spec.out_param
        self.fresh: set[str] = set()
        self.loop_index: dict[int, tuple[str, str]] = {}     # id(For node) -> (list name, index variable)
        self.problem: str | None = None
        for n in ast.walk(node):
            if n is not node and isinstance(n, (ast.FunctionDef, ast.Lambda, ast.AsyncFunctionDef, ast.ClassDef)):
                self.nested = True
                break
        else:
            self.nested = False
        self.parents: dict[int, ast.AST] = {}
        for p in ast.walk(node):
            for c in ast.iter_child_nodes(p):
                self.parents[id(c)] = p
        if self.out is not None:
            self.problem = self.check_out_param()
        self.find_fresh()
        # does every `return` give back a fresh list local?
        rets = [n for n in ast.walk(node) if isinstance(n, ast.Return)]
        if rets and all(r.value is not None and self.returned_name(r.value) in self.fresh for r in rets) and not self.nested:
            RETURNS_FRESH.add(node.name)
        else:
            RETURNS_FRESH.discard(node.name)

    # -- occurrences
    def occurrences(self, name: str):
        return [n for n in ast.walk(self.fn.node) if isinstance(n, ast.Name) and n.id == name]

    def is_append_receiver(self, occ: ast.Name) -> bool:
        a = self.parents.get(id(occ))
        if not (isinstance(a, ast.Attribute) and a.attr == "append" and a.value is occ):
            return False
        c = self.parents.get(id(a))
        if not (isinstance(c, ast.Call) and c.func is a and len(c.args) == 1 and not c.keywords
                and not isinstance(c.args[0], ast.Starred)):
            return False
        s = self.parents.get(id(c))
        return isinstance(s, ast.Expr) and not _mentions(c.args[0], occ.id)

    def is_out_argument(self, occ: ast.Name) -> bool:
        c = self.parents.get(id(occ))
        if not isinstance(c, ast.Call) or not isinstance(self.parents.get(id(c)), ast.Expr):
            return False
        try:
            oi = _out_info(self.fn, c)
        except T.Untranslatable:
            return False
        if oi is None:
            return False
        _, k = oi
        return c.args[k] is occ and not any(_mentions(a, occ.id) for i, a in enumerate(c.args) if i != k)

    def check_out_param(self) -> str | None:
        p = self.out
        if p not in self.fn.params:
            return f"out-parameter {p} is not a parameter"
        if p in self.fn.assigned_names(self.fn.node):
            return f"the mutated parameter {p} is rebound"
        if self.nested:
            return "nested function / lambda in a function that mutates a parameter"
        for occ in self.occurrences(p):
            if not (self.is_append_receiver(occ) or self.is_out_argument(occ)):
                return (f"the mutated parameter {p} is used other than as the receiver of .append() or as the out-argument of a "
                        f"call statement (line {occ.lineno}): no functional reading")
        return None

    # -- fresh list locals
    def returned_name(self, e: ast.expr) -> str | None:
        if isinstance(e, ast.Name):
            return e.id
        if is_cast(self.fn, e) and isinstance(e.args[1], ast.Name):
            return e.args[1].id
        return None

    def binds_fresh(self, v: ast.expr) -> bool:
        if isinstance(v, ast.List) and not v.elts:
            return True
        return (isinstance(v, ast.Call) and isinstance(v.func, ast.Name) and v.func.id in RETURNS_FRESH
                and v.func.id in self.fn.known_by_pyname() and self.fn.known_by_pyname()[v.func.id].available)

    def find_fresh(self):
        fn = self.fn
        if self.nested:
            return
        bindings: dict[str, list] = {}
        for n in ast.walk(fn.node):
            if isinstance(n, ast.Assign):
                for t in n.targets:
                    for x in ast.walk(t):
                        if isinstance(x, ast.Name) and isinstance(x.ctx, ast.Store):
                            bindings.setdefault(x.id, []).append((n, t))
            elif isinstance(n, (ast.AnnAssign, ast.AugAssign)):
                if isinstance(n.target, ast.Name):
                    bindings.setdefault(n.target.id, []).append((n, n.target))
            elif isinstance(n, (ast.For, ast.comprehension)):
                for x in ast.walk(n.target):
                    if isinstance(x, ast.Name):
                        bindings.setdefault(x.id, []).append((n, n.target))
            elif isinstance(n, (ast.With, ast.ExceptHandler, ast.NamedExpr, ast.Import, ast.ImportFrom, ast.Global, ast.Nonlocal,
                                ast.Delete)):
                self.exotic = True
        for name, bs in bindings.items():
            if name in fn.all_params or len(bs) != 1:
                continue
            st, tgt = bs[0]
            if not (isinstance(st, (ast.Assign, ast.AnnAssign)) and isinstance(tgt, ast.Name) and st.value is not None
                    and self.binds_fresh(st.value)):
                continue
            if isinstance(st, ast.Assign) and len(st.targets) != 1:
                continue
            if self.parents.get(id(st)) is not fn.node:
                continue        # bound inside a loop / branch: one name, several lists
            ok = True
            for occ in self.occurrences(name):
                if occ is tgt:
                    continue
                if not self.allowed_fresh_use(occ):
                    ok = False
                    break
            if ok and self.loops_ok(name):
                self.fresh.add(name)

    def allowed_fresh_use(self, occ: ast.Name) -> bool:
        p = self.parents.get(id(occ))
        if self.is_append_receiver(occ) or self.is_out_argument(occ):
            return True
        # N[k] = e
        if isinstance(p, ast.Subscript) and p.value is occ and isinstance(p.ctx, ast.Store) and not isinstance(p.slice, ast.Slice):
            s = self.parents.get(id(p))
            return isinstance(s, ast.Assign) and len(s.targets) == 1 and s.targets[0] is p and not _mentions(s.value, occ.id) \
                and not _mentions(p.slice, occ.id)
        # return N / return cast(T, N)
        if isinstance(p, ast.Return):
            return True
        if isinstance(p, ast.Call) and is_cast(self.fn, p) and p.args[1] is occ and isinstance(self.parents.get(id(p)), ast.Return):
            return True
        # for … in N / for … in enumerate(N)
        if isinstance(p, ast.For) and p.iter is occ:
            return True
        if (isinstance(p, ast.Call) and isinstance(p.func, ast.Name) and p.func.id == "enumerate" and len(p.args) == 1
                and not p.keywords and isinstance(self.parents.get(id(p)), ast.For) and self.parents[id(p)].iter is p
                and "enumerate" not in self.fn.all_params and "enumerate" not in self.fn.locals):
            return True
        return False

    def loops_ok(self, name: str) -> bool:
        """loops over `name` whose body mutates `name`: only `name[i] = e` with the loop's own index variable"""
        for loop in [n for n in ast.walk(self.fn.node) if isinstance(n, ast.For)]:
            if not _mentions(loop.iter, name):
                continue
            muts = []
            for s in loop.body + loop.orelse:
                for occ in [x for x in ast.walk(s) if isinstance(x, ast.Name) and x.id == name]:
                    muts.append(occ)
            if not muts:
                continue
            it = loop.iter
            if not (isinstance(it, ast.Call) and isinstance(it.func, ast.Name) and it.func.id == "enumerate"
                    and isinstance(loop.target, ast.Tuple) and len(loop.target.elts) == 2
                    and all(isinstance(x, ast.Name) for x in loop.target.elts)):
                return False
            idx = loop.target.elts[0].id
            # the index variable is bound by this loop only
            if sum(1 for n in ast.walk(self.fn.node) if isinstance(n, ast.Name) and n.id == idx and isinstance(n.ctx, ast.Store)) != 1:
                return False
            for occ in muts:
                p = self.parents.get(id(occ))
                if not (isinstance(p, ast.Subscript) and p.value is occ and isinstance(p.ctx, ast.Store)
                        and isinstance(p.slice, ast.Name) and p.slice.id == idx):
                    return False
        return True


def analysis(fn) -> Analysis:
    a = getattr(fn, "_c14", None)
    if a is None:
        try:
            a = Analysis(fn)
        except T.Untranslatable:
            raise
        except Exception as e:  # noqa: BLE001  an AST shape this analysis does not expect: claim nothing about the function
            a = Analysis.__new__(Analysis)
            a.fn, a.out, a.fresh, a.parents, a.nested = fn, fn.spec.out_param, set(), {}, True
            a.problem = f"pytr_c14 analysis failed ({type(e).__name__}: {e})" if fn.spec.out_param else None
            RETURNS_FRESH.discard(fn.node.name)
        fn._c14 = a
        if a.problem:
            raise T.Untranslatable(a.problem)
        # the base translator's item assignment `N[k] = e` is admitted for these names too
        if hasattr(fn, "fresh_containers"):
            fn.fresh_containers |= a.fresh
    if a.problem:
        raise T.Untranslatable(a.problem)
    return a


def is_cast(fn, e: ast.AST) -> bool:
    return (isinstance(e, ast.Call) and isinstance(e.func, ast.Name) and e.func.id == "cast" and len(e.args) == 2
            and not e.keywords and not any(isinstance(a, ast.Starred) for a in e.args)
            and "cast" not in fn.all_params and "cast" not in fn.locals
            and _imported_from(fn, "cast", ("typing", "typing_extensions")))


def userlist_class(fn, cls: ast.ClassDef | None = None) -> bool:
    """the class has `collections.UserList` as its only base (so `super()` is UserList) and no metaclass"""
    cls = cls or fn.cls
    if cls is None or len(cls.bases) != 1 or cls.keywords:
        return False
    b = cls.bases[0]
    n = b.value if isinstance(b, ast.Subscript) else b
    return isinstance(n, ast.Name) and n.id == "UserList" and _imported_from(fn, "UserList", ("collections",))


def defines(cls: ast.ClassDef, name: str) -> bool:
    """the class body binds `name` (a method or an attribute)"""
    for n in cls.body:
        if isinstance(n, (ast.FunctionDef, ast.AsyncFunctionDef, ast.ClassDef)) and n.name == name:
            return True
        if isinstance(n, ast.Assign) and any(isinstance(t, ast.Name) and t.id == name for t in n.targets):
            return True
        if isinstance(n, ast.AnnAssign) and isinstance(n.target, ast.Name) and n.target.id == name:
            return True
    return False


def is_super_call(c: ast.Call, attr: str) -> bool:
    f = c.func
    return (isinstance(f, ast.Attribute) and f.attr == attr and isinstance(f.value, ast.Call)
            and isinstance(f.value.func, ast.Name) and f.value.func.id == "super" and not f.value.args and not f.value.keywords)


def seq_elts(fn, elts: list[ast.expr]) -> str:
    """the Lean `List PVal` of a display with starred elements"""
    parts = []
    run: list[str] = []
    for x in elts:
        if isinstance(x, ast.Starred):
            if run:
                parts.append("[" + ", ".join(run) + "]")
                run = []
            parts.append(f"(← pyIter {fn.V(x.value)})")
        else:
            run.append(fn.V(x))
    if run or not parts:
        parts.append("[" + ", ".join(run) + "]")
    return "(" + " ++ ".join(parts) + ")"


# ------------------------------------------------------------------ hooks
def expr_hook(fn, e: ast.expr):
    analysis(fn)
    if isinstance(e, (ast.List, ast.Tuple)) and any(isinstance(x, ast.Starred) for x in e.elts):
        k = "list" if isinstance(e, ast.List) else "tuple"
        return f"(PVal.{k} {seq_elts(fn, e.elts)})"
    if not isinstance(e, ast.Call):
        return None
    f = e.func
    if is_cast(fn, e):
        return fn.V(e.args[1])
    if isinstance(f, ast.Name):
        if f.id == "isinstance" and len(e.args) == 2 and not e.keywords:
            try:
                cs = fn.class_names(e.args[1])
            except T.Untranslatable:
                return None
            if "Sequence" in cs:
                if not _imported_from(fn, "Sequence", ("typing", "collections.abc")):
                    raise T.Untranslatable("`Sequence` is not collections.abc.Sequence here")
                lst = ", ".join(f'"{c}"' for c in cs)
                return f"(PVal.bool (isInstanceSeq {fn.V(e.args[0])} [{lst}]))"
            return None
        info = fn.known_by_pyname().get(f.id)
        if info is not None and info.spec.out_param:
            raise T.Untranslatable(f"{f.id} mutates its parameter {info.spec.out_param}: a call is translatable only as a statement")
        if f.id in CONSTRUCTORS and f.id not in fn.all_params and f.id not in fn.locals:
            info = fn.known.get(CONSTRUCTORS[f.id])
            if info is None or not info.available:
                raise T.Untranslatable(f"{f.id}.__init__ is not translated")
            # `C(…)` is `C.__init__` on a new instance: C is the class of this module whose __init__ was translated, it has no
            # `__new__` / metaclass of its own and its only base is UserList
            cdef = next((n for n in _module(fn).body if isinstance(n, ast.ClassDef) and n.name == f.id), None)
            if (info.spec.file != fn.spec.file or info.spec.qual != f"{f.id}.__init__" or cdef is None
                    or not userlist_class(fn, cdef) or defines(cdef, "__new__") or defines(cdef, "__init_subclass__")):
                raise T.Untranslatable(f"constructor call of {f.id}: not the plain UserList subclass of this module")
            if e.keywords or info.vararg is None or len(info.params) != 1 or info.kwonly or info.kwarg:
                raise T.Untranslatable(f"constructor call of {f.id} outside the fragment")
            fuel = " fuel" if info.spec.recursive else ""
            return f'(← {info.spec.lean} G{fuel} (PVal.obj "{f.id}" []) (PVal.tuple {seq_elts(fn, e.args)}))'
    return None


def stmt_hook(fn, ind: int, s: ast.stmt):
    a = analysis(fn)
    # from ._core import TagList   (function-local import of a class used in isinstance only)
    if isinstance(s, ast.ImportFrom):
        names = [x.name for x in s.names]
        if all(x.asname is None and x.name in LOCAL_IMPORT_CLASSES for x in s.names) and s.level == 1 and s.module == "_core":
            for n in names:
                for occ in a.occurrences(n):
                    p = a.parents.get(id(occ))
                    pp = a.parents.get(id(p)) if p is not None else None
                    in_isinstance = lambda c: (isinstance(c, ast.Call) and isinstance(c.func, ast.Name) and c.func.id == "isinstance"  # noqa: E731
                                               and len(c.args) == 2)
                    if not ((in_isinstance(p) and p.args[1] is occ) or (isinstance(p, ast.Tuple) and in_isinstance(pp) and pp.args[1] is p)):
                        raise T.Untranslatable(f"locally imported {n} is used other than as a class in isinstance")
            return True
        raise T.Untranslatable("import statement in a function body")
    out = a.out
    # P.append(e) on the out-parameter or a fresh list
    if isinstance(s, ast.Expr) and isinstance(s.value, ast.Call):
        c = s.value
        f = c.func
        if (isinstance(f, ast.Attribute) and f.attr == "append" and isinstance(f.value, ast.Name)
                and (f.value.id == out or f.value.id in a.fresh) and a.is_append_receiver(f.value)):
            nm = fn.name(f.value.id)
            fn.emit(ind, f"{nm} := (← pyListAppendA {nm} {fn.V(c.args[0])})")
            return True
        oi = _out_info(fn, c)
        if oi is not None:
            info, k = oi
            arg = c.args[k]
            if not (isinstance(arg, ast.Name) and (arg.id == out or arg.id in a.fresh) and a.is_out_argument(arg)):
                raise T.Untranslatable(f"{f.id} mutates its argument {info.spec.out_param}: the actual argument must be a fresh list "
                                       "local or the caller's own out-parameter, not mentioned in the other arguments")
            if not info.available:
                raise T.Untranslatable(f"calls {info.spec.qual}, which is not translated")
            nm = fn.name(arg.id)
            fuel = " fuel" if info.spec.recursive else ""
            args = " ".join(nm if i == k else fn.V(x) for i, x in enumerate(c.args))
            fn.emit(ind, f"{nm} := (← {info.spec.lean} G{fuel} {args})")
            return True
        # super().__init__(e) / super().extend(e) in a UserList subclass
        if userlist_class(fn) and (is_super_call(c, "__init__") or is_super_call(c, "extend")) and "self" in fn.all_params:
            if len(c.args) != 1 or c.keywords or isinstance(c.args[0], ast.Starred):
                raise T.Untranslatable(f"super().{f.attr}() with other than one argument")
            me = fn.name("self")
            fn.mutates_self = True
            prim = "userListInit" if f.attr == "__init__" else "userListExtend"
            fn.emit(ind, f"{me} := (← {prim} {me} {fn.V(c.args[0])})")
            return True
    # return in a function that mutates a parameter
    if isinstance(s, ast.Return) and out is not None:
        if s.value is not None and not (isinstance(s.value, ast.Constant) and s.value.value is None):
            raise T.Untranslatable("a function that mutates its parameter returns a value")
        fn.emit(ind, f"return {fn.name(out)}")
        return True
    # return self in a method whose translation returns the new self
    if isinstance(s, ast.Return) and fn.spec.returns_self and isinstance(s.value, ast.Name) and s.value.id == "self" \
            and "self" in fn.all_params and "self" not in fn.assigned_names(fn.node):
        fn.emit(ind, f"return {fn.name('self')}")
        return True
    # self[i:i] = e  in a UserList subclass
    if (isinstance(s, ast.Assign) and len(s.targets) == 1 and isinstance(s.targets[0], ast.Subscript)
            and isinstance(s.targets[0].value, ast.Name) and s.targets[0].value.id == "self"
            and isinstance(s.targets[0].slice, ast.Slice) and userlist_class(fn) and "self" in fn.all_params):
        sl = s.targets[0].slice
        if not (sl.step is None and isinstance(sl.lower, ast.Name) and isinstance(sl.upper, ast.Name) and sl.lower.id == sl.upper.id):
            raise T.Untranslatable("slice assignment other than self[i:i] = …")
        if defines(fn.cls, "__setitem__"):
            raise T.Untranslatable("the class has its own __setitem__: self[i:i] = … is not UserList's slice assignment")
        me = fn.name("self")
        fn.mutates_self = True
        val = fn.V(s.value)
        fn.emit(ind, f"{me} := (← userListSliceInsert {me} {fn.name(sl.lower.id)} {val})")
        return True
    return False


def register(pytranslate):
    global T
    T = pytranslate
    F = T.FnSpec
    core, util = "htmltools/_core.py", "htmltools/_util.py"
    T.SPECS += [
        F(core, "is_tag_node", "is_tag_node"),
        F(core, "is_tag_child", "is_tag_child"),
        F(util, "_flatten_recurse", "util_flatten_recurse", out_param="result", group="c14_flatten_recurse"),
        F(util, "flatten", "util_flatten", group="c14_flatten"),
        F(core, "_tagchilds_to_tagnodes", "tagchilds_to_tagnodes", group="c14_tagchilds"),
        F(core, "TagList._should_not_expand", "TagList_should_not_expand"),
        F(core, "TagList.__init__", "TagList_init", returns_self=True, group="c14_tl_init"),
        F(core, "TagList.extend", "TagList_extend", returns_self=True, group="c14_tl_extend"),
        F(core, "TagList.append", "TagList_append", returns_self=True, group="c14_tl_append"),
        F(core, "TagList.insert", "TagList_insert", returns_self=True, group="c14_tl_insert"),
        F(core, "TagList.__add__", "TagList_add", group="c14_tl_add"),
        F(core, "TagList.__radd__", "TagList_radd", group="c14_tl_radd"),
        F(core, "TagList.__iadd__", "TagList_iadd", returns_self=True, group="c14_tl_iadd"),
    ]
    T.ARITY.update({"is_tag_node": 1, "is_tag_child": 1, "util_flatten_recurse": 2, "util_flatten": 1, "tagchilds_to_tagnodes": 1,
                    "TagList_should_not_expand": 2, "TagList_init": 2, "TagList_extend": 2, "TagList_append": 3,
                    "TagList_insert": 3, "TagList_add": 2, "TagList_radd": 2, "TagList_iadd": 2})
    T.IMPORTS.append("HtmlVerif.Py.PrimC14")
    T.EXPR_HOOKS.append(expr_hook)
    T.STMT_HOOKS.append(stmt_hook)
