/-
Source tie (DESIGN §14) for C08b: the Lean functions that `harness/pytranslate.py` (plug-ins harness/pytr_c08b.py,
pytr_z08b.py) regenerates from the *text* of

  HTML.__init__ / __str__ / __repr__ / _repr_html_, HTMLDependency.__repr__ / __str__,
  Tag.__copy__, HTMLDocument.__copy__, _copy_tag_nodes, HTMLDependency.__copy__

compute what the model says (Model/Ident.lean: `icopyShallow`, `icopy`, `icopyAll`; the HTML value `Node.html s`).

**By value.**  `HTML(x)` is `UserString(str(x))` (`src_HTML_init_C08b` = the primitive `mkHTML` every other translation uses for the
constructor call); `str(h)`, `repr(h)`, `h._repr_html_()` are the text (`src_HTML_views_C08b` = the primitives `pyStr` / `pyReprHtml`
on an `HTML`); `repr(dep)` is `depReprTextC08b` (a specification function of Lemmas/SrcC08b.lean — the model has none).
The copy functions return an object of the same class with the same fields in the same order and the same values
(`src_Tag_copy_obj_C08b`, for *any* instance; `src_copy_tag_nodes_C08b`, `src_HTMLDependency_copy_C08b` for every tree) — this is all a
universe of values without identity can say: the structural half of C08 (`C08_tagify_refines`, `icopy_erase`).

**With identity.**  The same source text translated over a heap of objects (Py/PrimC08b.lean).  `src_Tag_copy_heap_C08b`: on a heap
that holds a tag (its Tag, TagAttrDict and TagList objects, `TagAtC08b`), `Tag.__copy__` appends exactly three objects — the
new Tag, a new TagAttrDict with the same entries, a new TagList holding the same items — leaves every existing object as it
is, and returns the reference to the first; the ids are those of the model's `ITree.icopyShallow` at the counter `heap.length`
(`src_Tag_copy_ident_C08b`), so they are new, pairwise distinct, and not ids of the original (`src_Tag_copy_fresh_C08b`).
`src_HTMLDocument_copy_heap_C08b`: the same for a document.  `src_copy_tag_nodes_heap_C08b_partial` / `src_copy_tag_nodes_fresh_C08b_partial`:
`_copy_tag_nodes` over the heap is the model's `icopyAll` — every Tag below with its new TagAttrDict and TagList, every bare
metadata node, at exactly the model's ids, all new, the original untouched — for trees without dependencies and without
un-expanded tagifiable objects (what is missing for those is said at the theorem).  `HTMLDependency.__copy__` over the heap is
translated and validated against the interpreter (op `srcc08b`: the object graphs agree) but tied by value only.

Every theorem about a regenerated function takes `<fn>_available = true` and is vacuous (and still compiles) when the function
has left the translatable fragment.
-/
import HtmlVerif.Generated.Src
import HtmlVerif.Lemmas.SrcC08b
import HtmlVerif.Lemmas.Ident
import HtmlVerif.Model.ReadOps

set_option linter.unusedSimpArgs false
set_option linter.unusedVariables false

namespace HtmlVerif.SrcTie
open HtmlVerif HtmlVerif.Py HtmlVerif.Generated.Src HtmlVerif.Ident

/-! ## `HTML` -/

/-- `HTML.__init__(self, html)` on a new instance (`HTML.__new__(HTML)`) as the source has it is `UserString(str(html))`: the
    primitive `mkHTML` the other translations use for `HTML(x)` — every `x`, errors of `str(x)` included -/
theorem src_HTML_init_C08b (h : HTML_initC08b_available = true) (G : Globals) (x : PVal) :
    HTML_initC08b G (.obj "HTML" []) x = mkHTML x := by
  first
  | exact absurd h (by decide)
  | (unfold HTML_initC08b mkHTML
     cases hx : pyStr x with
     | error e => rfl
     | ok v =>
       obtain ⟨s, rfl⟩ := pyStr_ok_str_C08b x v hx
       rfl)

/-- calling `__init__` again on an existing `HTML` replaces its text -/
theorem src_HTML_init_again_C08b (h : HTML_initC08b_available = true) (G : Globals) (t : Str) (x : PVal) :
    HTML_initC08b G (.html t) x = mkHTML x := by
  first
  | exact absurd h (by decide)
  | (unfold HTML_initC08b mkHTML
     cases hx : pyStr x with
     | error e => rfl
     | ok v =>
       obtain ⟨s, rfl⟩ := pyStr_ok_str_C08b x v hx
       rfl)

/-- the text of an operand of the model (Model/Html.lean) -/
def hvalTextC08b : HVal → Str
  | .plain s => s
  | .html s => s
  | .ob s => s

/-- `HTML(v)` for the model's values (a `str`, an `HTML`, an object whose `str()` is `s`): the HTML value with that text,
    verbatim — no escaping happens at construction (C04) -/
theorem src_HTML_init_model_C08b (h : HTML_initC08b_available = true) (G : Globals) (v : HVal) :
    HTML_initC08b G (.obj "HTML" []) (embH v) = .ok (embH (.html (hvalTextC08b v))) := by
  first
  | exact absurd h (by decide)
  | (rw [src_HTML_init_C08b h]
     cases v <;> rfl)

/-- `HTML.__str__` as the source has it: the text, as a plain `str` (what `pyStr` states for an `HTML`) -/
theorem src_HTML_str_C08b (h : HTML_strC08b_available = true) (h2 : HTML_as_string_available = true) (G : Globals) (s : Str) :
    HTML_strC08b G (.html s) = .ok (.str s) := by
  first
  | exact absurd h (by decide)
  | exact absurd h2 (by decide)
  | (unfold HTML_strC08b
     simp [HTML_as_string])

/-- `HTML.__repr__` as the source has it: the text -/
theorem src_HTML_repr_C08b (h : HTML_reprC08b_available = true) (h2 : HTML_as_string_available = true) (G : Globals) (s : Str) :
    HTML_reprC08b G (.html s) = .ok (.str s) := by
  first
  | exact absurd h (by decide)
  | exact absurd h2 (by decide)
  | (unfold HTML_reprC08b
     simp [HTML_as_string])

/-- `HTML._repr_html_` as the source has it: the text (what `pyReprHtml` states for an `HTML`) -/
theorem src_HTML_repr_html_C08b (h : HTML_repr_htmlC08b_available = true) (h2 : HTML_as_string_available = true) (G : Globals)
    (s : Str) : HTML_repr_htmlC08b G (.html s) = .ok (.str s) := by
  first
  | exact absurd h (by decide)
  | exact absurd h2 (by decide)
  | (unfold HTML_repr_htmlC08b
     simp [HTML_as_string])

/-- the three views of an `HTML` as the source has them are the stated semantics of `str(x)` and `x._repr_html_()` on an
    `HTML` (Py/Prim.lean), i.e. the primitives the renderer's translation calls are what the methods do -/
theorem src_HTML_views_C08b (h1 : HTML_strC08b_available = true) (h2 : HTML_reprC08b_available = true)
    (h3 : HTML_repr_htmlC08b_available = true) (h4 : HTML_as_string_available = true) (G : Globals) (s : Str) :
    HTML_strC08b G (.html s) = pyStr (.html s) ∧ HTML_reprC08b G (.html s) = pyStr (.html s)
    ∧ HTML_repr_htmlC08b G (.html s) = pyReprHtml (.html s) :=
  ⟨src_HTML_str_C08b h1 h4 G s, src_HTML_repr_C08b h2 h4 G s, src_HTML_repr_html_C08b h3 h4 G s⟩

/-- a receiver that is not an `HTML` (no `data`): AttributeError, for each of the three -/
theorem src_HTML_views_other_C08b (h1 : HTML_strC08b_available = true) (h2 : HTML_reprC08b_available = true)
    (h3 : HTML_repr_htmlC08b_available = true) (h4 : HTML_as_string_available = true) (G : Globals) (s : Str) :
    HTML_strC08b G (.str s) = .error .attributeError ∧ HTML_reprC08b G (.str s) = .error .attributeError
    ∧ HTML_repr_htmlC08b G (.str s) = .error .attributeError := by
  first
  | exact absurd h1 (by decide)
  | exact absurd h2 (by decide)
  | exact absurd h3 (by decide)
  | exact absurd h4 (by decide)
  | (unfold HTML_strC08b HTML_reprC08b HTML_repr_htmlC08b
     simp [HTML_as_string, pyGetAttr])

/-! ## `HTMLDependency.__repr__` -/

/-- `repr(dep)` as the source has it, for any instance whose `name` is a string and whose `version` is a `Version`:
    `<HTMLDependency "name-version">` -/
theorem src_HTMLDependency_repr_obj_C08b (h : HTMLDependency_reprC08b_available = true) (G : Globals) (c : String)
    (fs : List (String × PVal)) (nm : Str) (d : DepInfo) (hn : fieldGet? "name" fs = some (.str nm))
    (hv : fieldGet? "version" fs = some (embEVersion d)) :
    HTMLDependency_reprC08b G (.obj c fs) = .ok (.str (depReprTextC08b nm d.version)) := by
  first
  | exact absurd h (by decide)
  | (unfold HTMLDependency_reprC08b
     simp only [pyGetAttr_obj_C08b c fs _ _ hn, pyGetAttr_obj_C08b c fs _ _ hv, ok_bind, pure_eq_ok, pyStr_str, pyStr_embEVersion_C08b,
       pyConcat5_C08b, pyAddBase_str, depReprTextC08b, List.append_assoc, List.append_nil, List.cons_append, List.nil_append])

/-- `repr(dep)` for the dependencies of the model -/
theorem src_HTMLDependency_repr_C08b (h : HTMLDependency_reprC08b_available = true) (G : Globals) (d : DepInfo) (hh : Bool)
    (head : Nodes) :
    HTMLDependency_reprC08b G (embC08b (.dep d hh head)) = .ok (.str (depReprTextC08b d.name d.version))
    ∧ HTMLDependency_reprC08b G (embE (.dep d hh head)) = .ok (.str (depReprTextC08b d.name d.version)) := by
  constructor
  · exact src_HTMLDependency_repr_obj_C08b h G _ _ d.name d (by simp [fieldGet?]) (by simp [fieldGet?])
  · exact src_HTMLDependency_repr_obj_C08b h G _ _ d.name d (by simp [fieldGet?]) (by simp [fieldGet?])

/-! ## `HTMLDependency.__str__` -/

/-- `str(dep)` as the source has it is `str()` of what `self.as_html_tags()` returns with its default arguments
    (`lib_prefix="lib"`, `include_version=True`) — `str()` decided by the class of that value over the translated
    `Tag.__str__` / `TagList.__str__`; an error of `as_html_tags` is the error of `str(dep)`.  (The two callees are tied to the
    model by `src_as_html_tags`, Props/SrcC12.lean, and `src_TagList_str`, Props/SrcC18.lean; their embeddings of a dependency
    differ — recorded file-system answers in the one, the serialised form in the other — and are not composed here.) -/
theorem src_HTMLDependency_str_def_C08b (h : HTMLDependency_strC08b_available = true)
    (h1 : HTMLDependency_as_html_tags_available = true) (h2 : Tag_str_available = true) (h3 : TagList_str_available = true)
    (G : Globals) (fuel : Nat) (x : PVal) :
    HTMLDependency_strC08b G (fuel + 1) x
      = (HTMLDependency_as_html_tags G fuel x (.str ['l', 'i', 'b']) (.bool true)
          >>= pyStrDispC08b (Tag_str G fuel) (TagList_str G fuel)) := by
  first
  | exact absurd h (by decide)
  | exact absurd h1 (by decide)
  | exact absurd h2 (by decide)
  | exact absurd h3 (by decide)
  | (rw [HTMLDependency_strC08b]
     all_goals (
       generalize HTMLDependency_as_html_tags G fuel x (.str ['l', 'i', 'b']) (.bool true) = r
       cases r with
       | error e => rfl
       | ok t =>
         simp only [ok_bind, pure_eq_ok]
         cases pyStrDispC08b (Tag_str G fuel) (TagList_str G fuel) t <;> rfl))

/-- when `as_html_tags()` returns a TagList (it always does: `TagList(*metas, *links, *scripts, self.head)`), `str(dep)` is
    `TagList.__str__` of it -/
theorem src_HTMLDependency_str_list_C08b (h : HTMLDependency_strC08b_available = true)
    (h1 : HTMLDependency_as_html_tags_available = true) (h2 : Tag_str_available = true) (h3 : TagList_str_available = true)
    (G : Globals) (fuel : Nat) (x : PVal) (fs : List (String × PVal))
    (ht : HTMLDependency_as_html_tags G fuel x (.str ['l', 'i', 'b']) (.bool true) = .ok (.obj "TagList" fs)) :
    HTMLDependency_strC08b G (fuel + 1) x = TagList_str G fuel (.obj "TagList" fs) := by
  rw [src_HTMLDependency_str_def_C08b h h1 h2 h3, ht]
  rfl

/-! ## `Tag.__copy__`, `HTMLDocument.__copy__` by value -/

/-- `Tag.__copy__` as the source has it, on ANY instance `self` of a class with the default `__new__` whose `__dict__` has
    distinct attribute names and holds values that `copy()` returns by value as they are (`copyPlainC08b`: everything except
    an object with a `__copy__` of its own): a new instance of the same class with the same attributes in the same order
    and the same values.  The loop of the dict comprehension is never spelled out (`dictcomp_loop_C08b`: one pass examined). -/
theorem src_Tag_copy_obj_C08b (h : Tag_copyC08b_available = true) (G : Globals) (c : String) (fs : List (String × PVal))
    (hc : plainNewC08b c = true) (hp : (fs.any fun f => pseudoField f.1) = false)
    (hv : ∀ kv ∈ fs, copyPlainC08b kv.2 = true) (hk : (fs.map (·.1)).Nodup) :
    Tag_copyC08b G (.obj c fs) = .ok (.obj c fs) := by
  first
  | exact absurd h (by decide)
  | skip
  all_goals (
    have hct := plainNew_ne_type_C08b c hc
    unfold Tag_copyC08b
    simp only [pyClassAttrC08b, hct, hp, Bool.or_self, Bool.false_eq_true, if_false, pure_eq_ok, ok_bind, pyNewC08b_mk c hc,
      pyObjDict_obj_C08b c fs hp, pyItems_dict, pyIter_list, List.map_map]
    rw [show ((fun kv : Str × PVal => PVal.tuple [PVal.str kv.1, kv.2]) ∘ fun kv : String × PVal => (kv.1.toList, kv.2))
        = fun kv : String × PVal => PVal.tuple [PVal.str kv.1.toList, kv.2] from rfl]
    rw [dictcomp_loop_C08b id fs [] _ (by
      intro kv hkv a
      simp only [pyUnpack2_tuple, ok_bind, pyCopyFieldC08b_plain kv.2 (hv kv hkv), pySetItem, pure_eq_ok, id])]
    simp only [ok_bind, id, dictcomp_fold_C08b fs [] hk (by simp), List.nil_append,
      pyObjDictUpdateC08b_obj c [] _ hct (by simp), fieldfold_rebuild_C08b fs [] hk (by simp)])

/-- `HTMLDocument.__copy__` as the source has it (the same text as `Tag.__copy__`), on any instance -/
theorem src_HTMLDocument_copy_obj_C08b (h : HTMLDocument_copyC08b_available = true) (G : Globals) (c : String) (fs : List (String × PVal))
    (hc : plainNewC08b c = true) (hp : (fs.any fun f => pseudoField f.1) = false)
    (hv : ∀ kv ∈ fs, copyPlainC08b kv.2 = true) (hk : (fs.map (·.1)).Nodup) :
    HTMLDocument_copyC08b G (.obj c fs) = .ok (.obj c fs) := by
  first
  | exact absurd h (by decide)
  | skip
  all_goals (
    have hct := plainNew_ne_type_C08b c hc
    unfold HTMLDocument_copyC08b
    simp only [pyClassAttrC08b, hct, hp, Bool.or_self, Bool.false_eq_true, if_false, pure_eq_ok, ok_bind, pyNewC08b_mk c hc,
      pyObjDict_obj_C08b c fs hp, pyItems_dict, pyIter_list, List.map_map]
    rw [show ((fun kv : Str × PVal => PVal.tuple [PVal.str kv.1, kv.2]) ∘ fun kv : String × PVal => (kv.1.toList, kv.2))
        = fun kv : String × PVal => PVal.tuple [PVal.str kv.1.toList, kv.2] from rfl]
    rw [dictcomp_loop_C08b id fs [] _ (by
      intro kv hkv a
      simp only [pyUnpack2_tuple, ok_bind, pyCopyFieldC08b_plain kv.2 (hv kv hkv), pySetItem, pure_eq_ok, id])]
    simp only [ok_bind, id, dictcomp_fold_C08b fs [] hk (by simp), List.nil_append,
      pyObjDictUpdateC08b_obj c [] _ hct (by simp), fieldfold_rebuild_C08b fs [] hk (by simp)])

theorem copyPlain_attrs_C08b (a : Attrs) : copyPlainC08b (embAttrs a) = true := rfl
theorem copyPlain_taglist_C08b (l : List PVal) : copyPlainC08b (eqTagList l) = true := rfl

/-- `copy.copy(tag)` by value -/
theorem src_Tag_copy_C08b (h : Tag_copyC08b_available = true) (G : Globals) (nm : Str) (ws : Bool) (a : Attrs) (kids : Nodes) :
    Tag_copyC08b G (embC08b (.tag nm ws a kids)) = .ok (embC08b (.tag nm ws a kids)) := by
  rw [embC08b]
  refine src_Tag_copy_obj_C08b h G _ _ rfl (by simp [pseudoField]) ?_ (by simp)
  intro kv hkv
  simp only [List.mem_cons, List.not_mem_nil, or_false] at hkv
  rcases hkv with rfl | rfl | rfl | rfl | rfl <;> rfl

theorem icopyShallow_erase_C08b (x : ITree) (n : Nat) : (x.icopyShallow n).1.erase = x.erase := by
  cases x <;> rfl

theorem src_Tag_copy_refines_C08b (h : Tag_copyC08b_available = true) (G : Globals) (i a k : Nat) (nm : Str) (ws : Bool)
    (at' : Attrs) (kids : ITrees) (n : Nat) :
    Tag_copyC08b G (embC08b (ITree.tag i a k nm ws at' kids).erase)
      = .ok (embC08b ((ITree.tag i a k nm ws at' kids).icopyShallow n).1.erase) := by
  rw [icopyShallow_erase_C08b, ITree.erase]
  exact src_Tag_copy_C08b h G nm ws at' kids.eraseAll

/-- an `HTMLDocument` as the object `__copy__` sees: `_content` (a TagList) and `_html_attr_args` (the keyword arguments) -/
def embDocC08b (content : Nodes) (args : List (Str × AttrArg)) : PVal :=
  .obj "HTMLDocument" [("_content", eqTagList (embsC08b content)), ("_html_attr_args", embArgDict args)]

/-- `copy.copy(doc)` by value: the same document -/
theorem src_HTMLDocument_copy_C08b (h : HTMLDocument_copyC08b_available = true) (G : Globals) (content : Nodes)
    (args : List (Str × AttrArg)) :
    HTMLDocument_copyC08b G (embDocC08b content args) = .ok (embDocC08b content args) := by
  rw [embDocC08b]
  refine src_HTMLDocument_copy_obj_C08b h G _ _ rfl (by simp [pseudoField]) ?_ (by simp)
  intro kv hkv
  simp only [List.mem_cons, List.not_mem_nil, or_false] at hkv
  rcases hkv with rfl | rfl <;> rfl

/-! ## `_copy_tag_nodes`, `HTMLDependency.__copy__` by value -/

/-- `HTMLDependency.__copy__` by value on any instance with distinct attribute names whose `source` / `script` / `stylesheet` /
    `meta` are plain data and whose `head` is None or a value `_copy_tag_nodes` (one level of fuel down) returns as it is -/
theorem src_HTMLDependency_copy_obj_C08b (a2 : HTMLDependency_copyC08b_available = true) (G : Globals) (n : Nat) (c : String)
    (fs : List (String × PVal)) (src scr sty met hd : PVal)
    (hc : plainNewC08b c = true) (hp : (fs.any fun f => pseudoField f.1) = false) (hk : (fs.map (·.1)).Nodup)
    (h1 : fieldGet? "source" fs = some src) (h2 : fieldGet? "script" fs = some scr)
    (h3 : fieldGet? "stylesheet" fs = some sty) (h4 : fieldGet? "meta" fs = some met) (h5 : fieldGet? "head" fs = some hd)
    (p1 : plainDataC08b src = true) (p2 : plainDataC08b scr = true) (p3 : plainDataC08b sty = true)
    (p4 : plainDataC08b met = true) (p5 : isNone hd = false → copy_tag_nodesC08b G n hd = .ok hd) :
    HTMLDependency_copyC08b G (n + 1) (.obj c fs) = .ok (.obj c fs) := by
  first
  | exact absurd a2 (by decide)
  | skip
  all_goals (
    have hct := plainNew_ne_type_C08b c hc
    rw [HTMLDependency_copyC08b]
    simp only [pyClassAttrC08b, hct, hp, Bool.or_self, Bool.false_eq_true, if_false, pure_eq_ok, ok_bind, pyNewC08b_mk c hc,
      pyObjDict_obj_C08b c fs hp, pyObjDictUpdateC08b_obj c [] _ hct (by simp), fieldfold_rebuild_C08b fs [] hk (by simp),
      List.nil_append, pyGetAttr_obj_C08b c fs _ _ h1, pyGetAttr_obj_C08b c fs _ _ h2, pyGetAttr_obj_C08b c fs _ _ h3,
      pyGetAttr_obj_C08b c fs _ _ h4, pyGetAttr_obj_C08b c fs _ _ h5, pyDeepcopyC08b_plain _ p1, pyDeepcopyC08b_plain _ p2,
      pyDeepcopyC08b_plain _ p3, pyDeepcopyC08b_plain _ p4, pySetAttr_same_C08b c fs _ _ h1, pySetAttr_same_C08b c fs _ _ h2,
      pySetAttr_same_C08b c fs _ _ h3, pySetAttr_same_C08b c fs _ _ h4, truthy_bool]
    cases hn : isNone hd with
    | true => simp only [Bool.not_true, Bool.false_eq_true, if_false]
    | false => simp only [Bool.not_false, if_true, p5 hn, ok_bind, pySetAttr_same_C08b c fs _ _ h5])


/-- the two functions together, by induction on the fuel: a child list needs one level per Tag nesting and two per
    dependency nesting.  The `enumerate` loop is obtained by unification (`forIn_enum_keep_k_C08b`: the invariant is "what the code
    after the loop reads is the original list"); one pass is examined per kind of child. -/
theorem src_copy_group_C08b (a1 : copy_tag_nodesC08b_available = true) (a2 : HTMLDependency_copyC08b_available = true)
    (a3 : Tag_copyC08b_available = true) (G : Globals) (n : Nat) :
    (∀ ks, cpFuelKidsC08b ks + 1 ≤ n → copy_tag_nodesC08b G n (eqTagList (embsC08b ks)) = .ok (eqTagList (embsC08b ks)))
    ∧ (∀ d hh k, cpFuelKidsC08b k + 2 ≤ n →
        HTMLDependency_copyC08b G n (embC08b (.dep d hh k)) = .ok (embC08b (.dep d hh k))) := by
  first
  | exact absurd a1 (by decide)
  | exact absurd a2 (by decide)
  | skip
  all_goals (
    induction n with
    | zero => exact ⟨fun ks h => by omega, fun d hh k h => by omega⟩
    | succ n ih =>
      refine ⟨?_, ?_⟩
      · intro ks hf
        rw [copy_tag_nodesC08b]
        simp only [pyCopyDispC08b_taglist, ok_bind, pure_eq_ok, pyEnumerate_taglist_C08b, pyIter_list]
        refine forIn_enum_keep_k_C08b _ _ _ _ _ rfl ?_
        intro i x hix s hs
        have hs' : s.1 = eqTagList (embsC08b ks) := by injection hs
        have hx : x ∈ ks.toList.map embC08b := by rw [← embsC08b_toList]; exact List.mem_of_getElem? hix
        obtain ⟨c, hc, rfl⟩ := List.mem_map.mp hx
        have hfc := cpFuel_le_kids_C08b ks c hc
        rcases embC08b_cases c with ⟨nm, ws, a, k, rfl⟩ | ⟨d, hh, k, rfl⟩ | ⟨m, rfl⟩ | hk
        · have hk : cpFuelKidsC08b k + 1 ≤ n := by simp only [cpFuelC08b] at hfc; omega
          exact keep_step_C08b _ (by simp only [pyUnpack2_tuple, ok_bind, embTag_isTag_C08b, truthy_bool, if_true, embTag_disp_C08b, src_Tag_copy_C08b a3,
              embTag_children_C08b, ih.1 k hk, embTag_setChildren_C08b, hs', pySetItemU_same_C08b _ _ _ hix]; rfl) (by rfl)
        · have hk : cpFuelKidsC08b k + 2 ≤ n := by simp only [cpFuelC08b] at hfc; omega
          exact keep_step_C08b _ (by simp only [pyUnpack2_tuple, ok_bind, embDep_isTag_C08b, embDep_isMeta_C08b, truthy_bool, if_true, Bool.false_eq_true,
              if_false, embDep_disp_C08b, ih.2 d hh k hk, hs', pySetItemU_same_C08b _ _ _ hix]; rfl) (by rfl)
        · exact keep_step_C08b _ (by simp only [pyUnpack2_tuple, ok_bind, embMeta_isTag_C08b, embMeta_isMeta_C08b, truthy_bool, if_true, Bool.false_eq_true,
              if_false, embMeta_disp_C08b, hs', pySetItemU_same_C08b _ _ _ hix]; rfl) (by rfl)
        · simp only [keptC08b, Bool.and_eq_true, Bool.not_eq_true'] at hk
          exact keep_step_C08b _ (by simp only [pyUnpack2_tuple, ok_bind, hk.1, hk.2, truthy_bool, Bool.false_eq_true, if_false]; rfl) (by exact hs)
      · intro d hh k hf
        have hk : cpFuelKidsC08b k + 1 ≤ n := by omega
        rw [embC08b]
        refine src_HTMLDependency_copy_obj_C08b a2 G n _ _ (embESource d.source) (embEKvs d.script) (embEKvs d.stylesheet) (embEKvs d.metas)
          (if hh then eqTagList (embsC08b k) else .none) rfl (by simp [pseudoField]) (by simp) (by simp [fieldGet?])
          (by simp [fieldGet?]) (by simp [fieldGet?]) (by simp [fieldGet?]) (by simp [fieldGet?]) (plainData_source_C08b _)
          (plainData_ekvs_C08b _) (plainData_ekvs_C08b _) (plainData_ekvs_C08b _) ?_
        cases hh with
        | false => intro h; cases h
        | true => intro _; exact ih.1 k hk)

/-- `_copy_tag_nodes(x)` as the source has it, by value, on the child list of any tree: an equal list (new TagList, new Tags
    with new attrs and children, new metadata nodes and dependencies — by value, the same) -/
theorem src_copy_tag_nodes_C08b (a1 : copy_tag_nodesC08b_available = true) (a2 : HTMLDependency_copyC08b_available = true)
    (a3 : Tag_copyC08b_available = true) (G : Globals) (ks : Nodes) (fuel : Nat) (hf : cpFuelKidsC08b ks + 1 ≤ fuel) :
    copy_tag_nodesC08b G fuel (eqTagList (embsC08b ks)) = .ok (eqTagList (embsC08b ks)) :=
  (src_copy_group_C08b a1 a2 a3 G fuel).1 ks hf

/-- `copy.copy(dep)` (`HTMLDependency.__copy__`) as the source has it, by value: an equal dependency -/
theorem src_HTMLDependency_copy_C08b (a1 : copy_tag_nodesC08b_available = true) (a2 : HTMLDependency_copyC08b_available = true)
    (a3 : Tag_copyC08b_available = true) (G : Globals) (d : DepInfo) (hh : Bool) (k : Nodes) (fuel : Nat)
    (hf : cpFuelKidsC08b k + 2 ≤ fuel) :
    HTMLDependency_copyC08b G fuel (embC08b (.dep d hh k)) = .ok (embC08b (.dep d hh k)) :=
  (src_copy_group_C08b a1 a2 a3 G fuel).2 d hh k hf

/-- the structural half of C08 (`icopyAll_erase`, `C08_tagify_refines`) for the source text: what `_copy_tag_nodes` returns on
    the value of a child list is the value of the model's `icopyAll` of it, at any counter -/
theorem src_copy_tag_nodes_refines_C08b (a1 : copy_tag_nodesC08b_available = true) (a2 : HTMLDependency_copyC08b_available = true)
    (a3 : Tag_copyC08b_available = true) (G : Globals) (ks : ITrees) (n fuel : Nat)
    (hf : cpFuelKidsC08b ks.eraseAll + 1 ≤ fuel) :
    copy_tag_nodesC08b G fuel (eqTagList (embsC08b ks.eraseAll)) = .ok (eqTagList (embsC08b (ks.icopyAll n).1.eraseAll)) := by
  rw [ITrees.icopyAll_erase]
  exact src_copy_tag_nodes_C08b a1 a2 a3 G _ fuel hf

/-- … and `copy(dep)` is the value of the model's `icopy` of the dependency -/
theorem src_HTMLDependency_copy_refines_C08b (a1 : copy_tag_nodesC08b_available = true)
    (a2 : HTMLDependency_copyC08b_available = true) (a3 : Tag_copyC08b_available = true) (G : Globals) (i : Nat) (d : IDep)
    (hh : Bool) (hid : Nat) (hd : ITrees) (n fuel : Nat) (hf : cpFuelKidsC08b hd.eraseAll + 2 ≤ fuel) :
    HTMLDependency_copyC08b G fuel (embC08b (ITree.dep i d hh hid hd).erase)
      = .ok (embC08b ((ITree.dep i d hh hid hd).icopy n).1.erase) := by
  rw [ITree.icopy_erase, ITree.erase]
  exact src_HTMLDependency_copy_C08b a1 a2 a3 G _ hh _ fuel hf

/-! ## with identity: `Tag.__copy__`, `HTMLDocument.__copy__` over the heap -/

/-- `Tag.__copy__` over the heap, on a reference to ANY instance: the new instance is allocated first, the attribute values
    are copied in `__dict__` order, the copies become the attributes of the new instance -/
theorem src_Tag_copy_heap_obj_C08b (h : Tag_copyHC08b_available = true) (G : Globals) (H : List PVal) (c : String) (i : Nat)
    (fs : List (String × PVal)) (hi : H[i]? = some (.obj c fs)) (hc : plainNewC08b c = true)
    (hp : (fs.any fun f => pseudoField f.1) = false) :
    Tag_copyHC08b G (mkRefC08b c i) H
      = (do let kvs ← copyFieldsHC08b fs []
            hObjDictUpdateC08b (mkRefC08b c H.length) (.dict kvs)
            pure (mkRefC08b c H.length)) (H ++ [PVal.obj c []]) := by
  first
  | exact absurd h (by decide)
  | skip
  all_goals (
    have hct := plainNew_ne_type_C08b c hc
    unfold Tag_copyHC08b
    have h1 : pyClassAttrC08b (mkRefC08b c i) = .ok (mkClassC08b c) := by
      simp [pyClassAttrC08b, mkRefC08b, hct, pseudoField]
    have h2 : hNewC08b (mkClassC08b c) (mkClassC08b c) H = .ok (mkRefC08b c H.length, H ++ [.obj c []]) := by
      unfold hNewC08b
      simp only [pyNewC08b_mk c hc]
      rfl
    simp only [h1, HMC08b.lift_ok, pure_bind]
    rw [HMC08b.run_bind_ok h2]
    have hi' : (H ++ [PVal.obj c []])[i]? = some (.obj c fs) := by
      have : i < H.length := by
        rcases Nat.lt_or_ge i H.length with h' | h'
        · exact h'
        · rw [List.getElem?_eq_none h'] at hi; cases hi
      rw [List.getElem?_append_left this]; exact hi
    rw [HMC08b.run_bind_ok (hObjDict_ok_C08b _ c c i fs hi' hp)]
    simp only [pyItems_dict, pyIter_list, HMC08b.lift_ok, pure_bind, List.map_map]
    rw [show ((fun kv : Str × PVal => PVal.tuple [PVal.str kv.1, kv.2]) ∘ fun kv : String × PVal => (kv.1.toList, kv.2))
        = fun kv : String × PVal => PVal.tuple [PVal.str kv.1.toList, kv.2] from rfl]
    rw [dictcomp_loopH_C08b fs [] _ (by
      intro kv hkv a
      simp only [pyUnpack2_tuple, HMC08b.lift_ok, pure_bind, pySetItem, pure_eq_ok])]
    simp only [bind_assoc, pure_bind])

/-- `HTMLDocument.__copy__` over the heap (the same text), on a reference to ANY instance: the new instance is allocated first, the attribute values
    are copied in `__dict__` order, the copies become the attributes of the new instance -/
theorem src_HTMLDocument_copy_heap_obj_C08b (h : HTMLDocument_copyHC08b_available = true) (G : Globals) (H : List PVal) (c : String) (i : Nat)
    (fs : List (String × PVal)) (hi : H[i]? = some (.obj c fs)) (hc : plainNewC08b c = true)
    (hp : (fs.any fun f => pseudoField f.1) = false) :
    HTMLDocument_copyHC08b G (mkRefC08b c i) H
      = (do let kvs ← copyFieldsHC08b fs []
            hObjDictUpdateC08b (mkRefC08b c H.length) (.dict kvs)
            pure (mkRefC08b c H.length)) (H ++ [PVal.obj c []]) := by
  first
  | exact absurd h (by decide)
  | skip
  all_goals (
    have hct := plainNew_ne_type_C08b c hc
    unfold HTMLDocument_copyHC08b
    have h1 : pyClassAttrC08b (mkRefC08b c i) = .ok (mkClassC08b c) := by
      simp [pyClassAttrC08b, mkRefC08b, hct, pseudoField]
    have h2 : hNewC08b (mkClassC08b c) (mkClassC08b c) H = .ok (mkRefC08b c H.length, H ++ [.obj c []]) := by
      unfold hNewC08b
      simp only [pyNewC08b_mk c hc]
      rfl
    simp only [h1, HMC08b.lift_ok, pure_bind]
    rw [HMC08b.run_bind_ok h2]
    have hi' : (H ++ [PVal.obj c []])[i]? = some (.obj c fs) := by
      have : i < H.length := by
        rcases Nat.lt_or_ge i H.length with h' | h'
        · exact h'
        · rw [List.getElem?_eq_none h'] at hi; cases hi
      rw [List.getElem?_append_left this]; exact hi
    rw [HMC08b.run_bind_ok (hObjDict_ok_C08b _ c c i fs hi' hp)]
    simp only [pyItems_dict, pyIter_list, HMC08b.lift_ok, pure_bind, List.map_map]
    rw [show ((fun kv : Str × PVal => PVal.tuple [PVal.str kv.1, kv.2]) ∘ fun kv : String × PVal => (kv.1.toList, kv.2))
        = fun kv : String × PVal => PVal.tuple [PVal.str kv.1.toList, kv.2] from rfl]
    rw [dictcomp_loopH_C08b fs [] _ (by
      intro kv hkv a
      simp only [pyUnpack2_tuple, HMC08b.lift_ok, pure_bind, pySetItem, pure_eq_ok])]
    simp only [bind_assoc, pure_bind])

/-- **`Tag.__copy__` on a heap that holds the tag** (`TagAtC08b`: the Tag object `i`, its TagAttrDict `a`, its TagList `k`):
    exactly three objects are appended — the new Tag (whose `attrs` / `children` are the next two), a new TagAttrDict with the
    same entries, a new TagList with the same items — nothing else changes, and the reference to the first is returned -/
theorem src_Tag_copy_heap_C08b (h : Tag_copyHC08b_available = true) (G : Globals) (H : List PVal) (i a k : Nat) (nm : Str)
    (ws : Bool) (attrs : List (Str × PVal)) (kids : List PVal) (ht : TagAtC08b H i a k nm ws attrs kids) :
    Tag_copyHC08b G (mkRefC08b "Tag" i) H
      = .ok (mkRefC08b "Tag" H.length,
             H ++ [tagObjC08b nm ws (H.length + 1) (H.length + 2), .dict attrs, .obj "TagList" [("data", .list kids)]]) := by
  rw [src_Tag_copy_heap_obj_C08b h G H "Tag" i _ ht.tag rfl (by simp [pseudoField])]
  have ha : (H ++ [PVal.obj "Tag" []])[a]? = some (.dict attrs) := by
    rw [List.getElem?_append_left (getElem?_lt_C08b ht.attrs)]; exact ht.attrs
  have hk : (H ++ [PVal.obj "Tag" []] ++ [PVal.dict attrs])[k]? = some (.obj "TagList" [("data", .list kids)]) := by
    rw [List.append_assoc, List.getElem?_append_left (getElem?_lt_C08b ht.kids)]; exact ht.kids
  simp only [copyFieldsHC08b, hCopyField_str_C08b, hCopyField_bool_C08b, hCopyField_none_C08b, pure_bind, bind_assoc]
  rw [HMC08b.run_bind_ok (hCopyObj_attrs_C08b _ a attrs ha), HMC08b.run_bind_ok (hCopyObj_taglist_C08b _ k kids hk)]
  have hn : (H ++ [PVal.obj "Tag" []] ++ [PVal.dict attrs] ++ [PVal.obj "TagList" [("data", PVal.list kids)]])[H.length]?
      = some (PVal.obj "Tag" []) := by simp
  rw [HMC08b.run_bind_ok (hObjDictUpdate_ok_C08b _ "Tag" H.length _ _ _ hn
    (pyObjDictUpdateC08b_obj "Tag" [] _ (by decide) (by simp)))]
  rw [show (Py.dictSet "prev_displayhook".toList PVal.none
              (Py.dictSet "children".toList (mkRefC08b "TagList" (H ++ [PVal.obj "Tag" []] ++ [PVal.dict attrs]).length)
                (Py.dictSet "attrs".toList (mkRefC08b "TagAttrDict" (H ++ [PVal.obj "Tag" []]).length)
                  (Py.dictSet "add_ws".toList (PVal.bool ws) (Py.dictSet "name".toList (PVal.str nm) [])))))
        = List.foldl (fun a (kv : String × PVal) => Py.dictSet kv.1.toList kv.2 a) []
            [("name", PVal.str nm), ("add_ws", PVal.bool ws),
             ("attrs", mkRefC08b "TagAttrDict" (H ++ [PVal.obj "Tag" []]).length),
             ("children", mkRefC08b "TagList" (H ++ [PVal.obj "Tag" []] ++ [PVal.dict attrs]).length),
             ("prev_displayhook", PVal.none)] from by simp only [List.foldl_cons, List.foldl_nil],
    dictcomp_fold_C08b _ [] (by simp) (by simp), List.nil_append, fieldfold_rebuild_C08b _ [] (by simp) (by simp)]
  simp [HMC08b.run_pure, tagObjC08b, List.set_append]

/-- **`Tag.__copy__` ↔ `ITree.icopyShallow`.**  Let the model tag `x = .tag i a k nm ws at kids` be held by the heap `H` (its
    three objects at the ids the model gives them; `vs` are the values of its children, whatever they are).  With the
    model's fresh-id counter at `H.length`, the source's `Tag.__copy__` returns the reference to the Tag the model's
    `icopyShallow` creates, the heap afterwards holds that copy — same name, same `add_ws`, same attribute entries, the *same*
    child values — at exactly the model's ids, the counter afterwards is the new heap's length, and every object that was in
    the heap is still there unchanged (in particular the original tag). -/
theorem src_Tag_copy_ident_C08b (h : Tag_copyHC08b_available = true) (G : Globals) (H : List PVal) (i a k : Nat) (nm : Str)
    (ws : Bool) (at' : Attrs) (kids : ITrees) (vs : List PVal)
    (ht : TagAtC08b H i a k nm ws (attrKvsC08b at') vs) :
    ∃ H', Tag_copyHC08b G (mkRefC08b "Tag" i) H = .ok (mkRefC08b "Tag" H.length, H')
      ∧ ((ITree.tag i a k nm ws at' kids).icopyShallow H.length).1
          = .tag H.length (H.length + 1) (H.length + 2) nm ws at' kids
      ∧ TagAtC08b H' H.length (H.length + 1) (H.length + 2) nm ws (attrKvsC08b at') vs
      ∧ ((ITree.tag i a k nm ws at' kids).icopyShallow H.length).2 = H'.length
      ∧ (∀ (j : Nat) (o : PVal), H[j]? = some o → H'[j]? = some o)
      ∧ TagAtC08b H' i a k nm ws (attrKvsC08b at') vs := by
  refine ⟨_, src_Tag_copy_heap_C08b h G H i a k nm ws _ vs ht, rfl, ⟨by simp, by simp, by simp⟩, by simp [ITree.icopyShallow],
    fun j o hj => getElem?_append_some_C08b hj, ⟨getElem?_append_some_C08b ht.tag, getElem?_append_some_C08b ht.attrs,
      getElem?_append_some_C08b ht.kids⟩⟩

/-- **Freshness of `Tag.__copy__`** (the independence half for the shallow copy): the three objects of the copy are new —
    their ids are the three consecutive ids from the old heap length on, pairwise distinct, and none of them is an id of
    an object that existed before the call; in particular none is an id of the original tag or of anything below it
    (`x.ids`, all of which are ids of objects in the heap).  What the copy *shares* with the original is exactly the child
    values (`kids`, unchanged in the model's `icopyShallow` too): a shallow copy. -/
theorem src_Tag_copy_fresh_C08b (h : Tag_copyHC08b_available = true) (G : Globals) (H : List PVal) (i a k : Nat) (nm : Str)
    (ws : Bool) (at' : Attrs) (kids : ITrees) (vs : List PVal)
    (ht : TagAtC08b H i a k nm ws (attrKvsC08b at') vs)
    (hx : ∀ j ∈ (ITree.tag i a k nm ws at' kids).ids, j < H.length) :
    ∃ n H', Tag_copyHC08b G (mkRefC08b "Tag" i) H = .ok (mkRefC08b "Tag" n, H')
      ∧ TagAtC08b H' n (n + 1) (n + 2) nm ws (attrKvsC08b at') vs
      ∧ [n, n + 1, n + 2].Nodup
      ∧ (∀ j ∈ [n, n + 1, n + 2], H.length ≤ j ∧ j < H'.length ∧ j ∉ (ITree.tag i a k nm ws at' kids).ids) := by
  obtain ⟨H', h1, _, h3, h4, _, _⟩ := src_Tag_copy_ident_C08b h G H i a k nm ws at' kids vs ht
  refine ⟨H.length, H', h1, h3, by simp, ?_⟩
  have hl : H'.length = H.length + 3 := by rw [← h4]; rfl
  intro j hj
  simp only [List.mem_cons, List.not_mem_nil, or_false] at hj
  refine ⟨by omega, by omega, fun hm => ?_⟩
  have := hx j hm
  omega

/-- the heap holds an HTMLDocument: the document object `d`, its `_content` TagList `c` with the items `kids`, its
    `_html_attr_args` dict `a` with the entries `args` -/
structure DocAtC08b (H : List PVal) (d c a : Nat) (kids : List PVal) (args : List (Str × PVal)) : Prop where
  doc : H[d]? = some (.obj "HTMLDocument" [("_content", mkRefC08b "TagList" c), ("_html_attr_args", mkRefC08b "dict" a)])
  content : H[c]? = some (.obj "TagList" [("data", .list kids)])
  args : H[a]? = some (.dict args)

/-- **`HTMLDocument.__copy__` on a heap that holds the document**: three objects are appended — the new document, a new
    TagList with the same items, a new dict with the same entries — and nothing else changes -/
theorem src_HTMLDocument_copy_heap_C08b (h : HTMLDocument_copyHC08b_available = true) (G : Globals) (H : List PVal) (d c a : Nat)
    (kids : List PVal) (args : List (Str × PVal)) (hd : DocAtC08b H d c a kids args) :
    HTMLDocument_copyHC08b G (mkRefC08b "HTMLDocument" d) H
      = .ok (mkRefC08b "HTMLDocument" H.length,
             H ++ [.obj "HTMLDocument" [("_content", mkRefC08b "TagList" (H.length + 1)),
                                        ("_html_attr_args", mkRefC08b "dict" (H.length + 2))],
                   .obj "TagList" [("data", .list kids)], .dict args]) := by
  rw [src_HTMLDocument_copy_heap_obj_C08b h G H "HTMLDocument" d _ hd.doc rfl (by simp [pseudoField])]
  have hc : (H ++ [PVal.obj "HTMLDocument" []])[c]? = some (.obj "TagList" [("data", .list kids)]) :=
    getElem?_append_some_C08b hd.content
  have ha : (H ++ [PVal.obj "HTMLDocument" []] ++ [PVal.obj "TagList" [("data", .list kids)]])[a]? = some (.dict args) := by
    rw [List.append_assoc]; exact getElem?_append_some_C08b hd.args
  simp only [copyFieldsHC08b, pure_bind, bind_assoc]
  rw [HMC08b.run_bind_ok (hCopyObj_taglist_C08b _ c kids hc), HMC08b.run_bind_ok (hCopyObj_dict_C08b _ a args ha)]
  have hn : (H ++ [PVal.obj "HTMLDocument" []] ++ [PVal.obj "TagList" [("data", PVal.list kids)]] ++ [PVal.dict args])[H.length]?
      = some (PVal.obj "HTMLDocument" []) := by simp
  rw [HMC08b.run_bind_ok (hObjDictUpdate_ok_C08b _ "HTMLDocument" H.length _ _ _ hn
    (pyObjDictUpdateC08b_obj "HTMLDocument" [] _ (by decide) (by simp)))]
  rw [show (Py.dictSet "_html_attr_args".toList
              (mkRefC08b "dict" (H ++ [PVal.obj "HTMLDocument" []] ++ [PVal.obj "TagList" [("data", PVal.list kids)]]).length)
              (Py.dictSet "_content".toList (mkRefC08b "TagList" (H ++ [PVal.obj "HTMLDocument" []]).length) []))
        = List.foldl (fun a (kv : String × PVal) => Py.dictSet kv.1.toList kv.2 a) []
            [("_content", mkRefC08b "TagList" (H ++ [PVal.obj "HTMLDocument" []]).length),
             ("_html_attr_args",
               mkRefC08b "dict" (H ++ [PVal.obj "HTMLDocument" []] ++ [PVal.obj "TagList" [("data", PVal.list kids)]]).length)]
        from by simp only [List.foldl_cons, List.foldl_nil],
    dictcomp_fold_C08b _ [] (by simp) (by simp), List.nil_append, fieldfold_rebuild_C08b _ [] (by simp) (by simp)]
  simp [HMC08b.run_pure, List.set_append]

/-! ## with identity: `_copy_tag_nodes` over the heap -/

/-- `_copy_tag_nodes` over the heap as the source has it is: `cp = copy(x)`, then one pass of `copyPassC08b` (Lemmas/SrcC08b.lean:
    what the loop body does, as a function of the position and the item) per item of the new list, in order; the result is
    `cp`.  The loop body is obtained by unification; what is examined is that each pass does to the heap what `copyPassC08b`
    does (`YieldsLikeC08b`), whatever the loop state is. -/
theorem src_copy_tag_nodes_heap_def_C08b (h : copy_tag_nodesHC08b_available = true) (G : Globals) (fuel : Nat) (x : PVal) :
    copy_tag_nodesHC08b G (fuel + 1) x = (do
      let cp ← hCopyDispC08b (Tag_copyHC08b G) (HTMLDependency_copyHC08b G fuel) x
      let vs ← hItemsC08b cp
      copyLoopC08b G fuel cp 0 vs
      pure cp) := by
  first
  | exact absurd h (by decide)
  | skip
  all_goals (
    funext H
    rw [copy_tag_nodesHC08b]
    simp only [hEnumerateC08b, bind_assoc, pyEnumerate_list_C08b, HMC08b.lift_ok, pure_bind, pyIter_list]
    refine congrFun (bind_congr fun cp => bind_congr fun vs => ?_) H
    funext H'
    refine forIn_copyLoop_C08b G fuel cp _ ?_ (pure cp) vs 0 _ H'
    intro m v s H1
    simp only [pyUnpack2_tuple, HMC08b.lift_ok, pure_bind, copyPassC08b, bind_assoc, pair_fst_C08b, pair_snd_C08b]
    cases hb1 : isInstance v ["Tag"] with
    | true =>
      rw [if_pos (show truthy (PVal.bool true) = true from rfl)]
      try rw [if_pos rfl]
      refine YieldsLikeC08b.bind _ _ _ _ fun c H2 => ?_
      refine YieldsLikeC08b.bind _ _ _ _ fun ch H3 => ?_
      refine YieldsLikeC08b.bind _ _ _ _ fun r H4 => ?_
      refine YieldsLikeC08b.bind _ _ _ _ fun _ H5 => ?_
      exact YieldsLikeC08b.last _ _ _
    | false =>
      rw [if_neg (show ¬ truthy (PVal.bool false) = true by decide)]
      try rw [if_neg (show ¬ false = true by decide)]
      cases hb2 : isInstance v ["MetadataNode"] with
      | true =>
        rw [if_pos (show truthy (PVal.bool true) = true from rfl)]
        try rw [if_pos rfl]
        refine YieldsLikeC08b.bind _ _ _ _ fun c H2 => ?_
        exact YieldsLikeC08b.last _ _ _
      | false =>
        rw [if_neg (show ¬ truthy (PVal.bool false) = true by decide)]
        try rw [if_neg (show ¬ false = true by decide)]
        exact YieldsLikeC08b.pure _ _)
/-! ### one pass, the loop, the whole function -/

/-- one pass of the loop on the child `x` at position `m` of the new list object `nl`: the child is replaced by (the value
    standing for) the model's `icopy` of it at the counter `H.length`, the counter afterwards is the new heap's length, and
    nothing else that was in the heap changes -/
def PassOKC08b (G : Globals) (x : ITree) : Prop :=
  ∀ (fuel : Nat) (H : List PVal) (nl m : Nat) (data : List PVal) (v : PVal),
    cpFuelIC08b x ≤ fuel → H[nl]? = some (tagListObjC08b data) → data[m]? = some v → ReprC08b H x v →
    (∀ j ∈ x.ids, j < nl) →
    ∃ H' v', copyPassC08b G fuel (mkRefC08b "TagList" nl) (.int (m : Nat)) v H = .ok (⟨⟩, H')
      ∧ H'[nl]? = some (tagListObjC08b (data.set m v'))
      ∧ ReprC08b H' (x.icopy H.length).1 v'
      ∧ H'.length = (x.icopy H.length).2
      ∧ (∀ j, j < H.length → j ≠ nl → H'[j]? = H[j]?)

/-- `_copy_tag_nodes` on the list object `l` holding the children `ks`: the result is a new list object (the first new id)
    whose items stand for the model's `icopyAll` of the children, the counter afterwards is the new heap's length, and
    nothing that was in the heap changes -/
def ListOKC08b (G : Globals) (ks : ITrees) : Prop :=
  ∀ (fuel : Nat) (H : List PVal) (l : Nat) (vs : List PVal),
    cpFuelKidsIC08b ks ≤ fuel → H[l]? = some (tagListObjC08b vs) → ReprsC08b H ks vs → (∀ j ∈ ks.idsAll, j < H.length) →
    ∃ H' vs', copy_tag_nodesHC08b G (fuel + 1) (mkRefC08b "TagList" l) H = .ok (mkRefC08b "TagList" H.length, H')
      ∧ H'[H.length]? = some (tagListObjC08b vs')
      ∧ ReprsC08b H' (ks.icopyAll (H.length + 1)).1 vs'
      ∧ H'.length = (ks.icopyAll (H.length + 1)).2
      ∧ (∀ j, j < H.length → H'[j]? = H[j]?)

def ITrees.toListC08b : ITrees → List ITree
  | .nil => []
  | .cons h t => h :: ITrees.toListC08b t

theorem set_same_C08b {α} (l : List α) (m : Nat) (v : α) (h : l[m]? = some v) : l.set m v = l := by
  have hm := getElem?_lt_C08b h
  have : l[m] = v := by rw [List.getElem?_eq_getElem hm] at h; exact Option.some.inj h
  rw [← this, List.set_getElem_self]

/-- a child that is neither a Tag nor a metadata node is kept -/
theorem passOK_kept_C08b (G : Globals) (x : ITree) (hx : x.icopy = fun n => (x, n)) (hi : x.ids = [])
    (hk : ∀ H v, ReprC08b H x v → isInstance v ["Tag"] = false ∧ isInstance v ["MetadataNode"] = false) :
    PassOKC08b G x := by
  intro fuel H nl m data v _ hnl hm hr _
  obtain ⟨h1, h2⟩ := hk H v hr
  refine ⟨H, v, ?_, ?_, ?_, ?_, fun j _ _ => rfl⟩
  · simp [copyPassC08b, h1, h2]; rfl
  · rw [set_same_C08b data m v hm]; exact hnl
  · rw [hx]; exact hr
  · rw [hx]

theorem passOK_text_C08b (G : Globals) (s : Str) : PassOKC08b G (.text s) :=
  passOK_kept_C08b G _ (by funext n; rfl) rfl (by intro H v hr; cases hr; simp [isInstance, builtinClasses])

theorem passOK_html_C08b (G : Globals) (s : Str) : PassOKC08b G (.html s) :=
  passOK_kept_C08b G _ (by funext n; rfl) rfl (by intro H v hr; cases hr; simp [isInstance, builtinClasses])

theorem passOK_robj_C08b (G : Globals) (s : Str) : PassOKC08b G (.robj s) :=
  passOK_kept_C08b G _ (by funext n; rfl) rfl (by intro H v hr; cases hr; simp [isInstance, classBases])

/-- a bare metadata node: a new object with the same attributes takes its place -/
theorem passOK_mnode_C08b (G : Globals) (i : Nat) (n : Nat) : PassOKC08b G (.mnode i n) := by
  intro fuel H nl m data v _ hnl hm hr hids
  obtain ⟨rfl, hi⟩ := hr
  have hnlt := getElem?_lt_C08b hnl
  have hmlt := getElem?_lt_C08b hm
  have h1 : isInstance (mkRefC08b "MetadataNode" i) ["Tag"] = false := by simp [isInstance, mkRefC08b, classBases]
  have h2 : isInstance (mkRefC08b "MetadataNode" i) ["MetadataNode"] = true := by simp [isInstance, mkRefC08b]
  have hnl' : (H ++ [PVal.obj "MetadataNode" [("n", PVal.int n)]])[nl]? = some (tagListObjC08b data) :=
    getElem?_append_some_C08b hnl
  refine ⟨(H ++ [PVal.obj "MetadataNode" [("n", PVal.int n)]]).set nl
      (tagListObjC08b (data.set m (mkRefC08b "MetadataNode" H.length))), mkRefC08b "MetadataNode" H.length, ?_, ?_, ?_, ?_, ?_⟩
  · simp only [copyPassC08b, h1, h2, Bool.false_eq_true, if_false, if_true]
    rw [HMC08b.run_bind_ok (hCopyDisp_meta_C08b _ _ H i _ hi)]
    exact hSetItemU_ok_C08b _ "TagList" nl data m _ hnl' hmlt
  · exact getElem?_set_self_C08b' _ _ _ (by simp; omega)
  · refine ⟨rfl, ?_⟩
    rw [getElem?_set_ne_C08b' _ _ _ _ (by omega)]
    simp
  · simp [ITree.icopy]
  · intro j hj hjn
    rw [getElem?_set_ne_C08b' _ _ _ _ (fun e => hjn e.symm), List.getElem?_append_left hj]

/-- the loop over the rest of the children: `pre'` is what the positions before `m` hold by now -/
theorem loopOK_C08b (G : Globals) (suf : ITrees) (hall : ∀ x ∈ ITrees.toListC08b suf, PassOKC08b G x)
    (hplain : plainTreesC08b suf = true) :
    ∀ (fuel : Nat) (H : List PVal) (nl m : Nat) (pre' sufVals : List PVal),
      cpFuelKidsIC08b suf ≤ fuel → pre'.length = m → H[nl]? = some (tagListObjC08b (pre' ++ sufVals)) →
      ReprsC08b H suf sufVals → (∀ j ∈ suf.idsAll, j < nl) →
      ∃ H' sufVals', copyLoopC08b G fuel (mkRefC08b "TagList" nl) m sufVals H = .ok (⟨⟩, H')
        ∧ H'[nl]? = some (tagListObjC08b (pre' ++ sufVals'))
        ∧ ReprsC08b H' (suf.icopyAll H.length).1 sufVals'
        ∧ H'.length = (suf.icopyAll H.length).2
        ∧ (∀ j, j < H.length → j ≠ nl → H'[j]? = H[j]?) := by
  induction suf using ITrees.rec (motive_1 := fun _ => True) with
  | nil =>
    intro fuel H nl m pre' sufVals _ _ hnl hr _
    cases hr
    exact ⟨H, [], rfl, hnl, rfl, rfl, fun j _ _ => rfl⟩
  | cons h t _ ih =>
    intro fuel H nl m pre' sufVals hf hm hnl hr hids
    obtain ⟨v, tv, rfl, hrh, hrt⟩ := hr
    simp only [plainTreesC08b, Bool.and_eq_true] at hplain
    simp only [cpFuelKidsIC08b] at hf
    have hnlt := getElem?_lt_C08b hnl
    have hdm : (pre' ++ v :: tv)[m]? = some v := by
      rw [← hm]; simp
    obtain ⟨H1, v', hp1, hp2, hp3, hp4, hp5⟩ :=
      hall h (by simp [ITrees.toListC08b]) fuel H nl m (pre' ++ v :: tv) v (by omega) hnl hdm hrh
        (fun j hj => hids j (by simp [ITrees.idsAll, hj]))
    have hle1 : H.length ≤ H1.length := by rw [hp4]; exact ITree.icopy_le h H.length
    have hset : (pre' ++ v :: tv).set m v' = (pre' ++ [v']) ++ tv := by
      rw [← hm]; simp
    rw [hset] at hp2
    have hrt1 : ReprsC08b H1 t tv := by
      refine ReprsC08b.frame H H1 t tv hrt (fun j hj => ?_)
      have := hids j (by simp [ITrees.idsAll, hj])
      exact hp5 j (by omega) (by omega)
    obtain ⟨H2, tv', hq1, hq2, hq3, hq4, hq5⟩ :=
      ih (fun x hx => hall x (by simp [ITrees.toListC08b, hx])) hplain.2 fuel H1 nl (m + 1) (pre' ++ [v']) tv (by omega)
        (by simp [hm]) hp2 hrt1 (fun j hj => hids j (by simp [ITrees.idsAll, hj]))
    have hidsh := (ITree.icopy_ids h H.length (plainTree_noTobj_C08b h hplain.1)).1
    refine ⟨H2, v' :: tv', ?_, ?_, ?_, ?_, ?_⟩
    · simp only [copyLoopC08b]
      rw [HMC08b.run_bind_ok hp1]
      exact hq1
    · rw [hq2]; simp
    · simp only [ITrees.icopyAll]
      refine ⟨v', tv', rfl, ?_, ?_⟩
      · refine ReprC08b.frame H1 H2 _ v' hp3 (fun j hj => ?_)
        have := hidsh j hj
        exact hq5 j (by omega) (by omega)
      · rw [← hp4]; exact hq3
    · simp only [ITrees.icopyAll]; rw [← hp4]; exact hq4
    · intro j hj hjn
      rw [hq5 j (by omega) hjn, hp5 j hj hjn]
  | _ => trivial

/-- the whole function from its passes -/
theorem listOK_of_pass_C08b (hav : copy_tag_nodesHC08b_available = true) (G : Globals) (ks : ITrees)
    (hall : ∀ x ∈ ITrees.toListC08b ks, PassOKC08b G x) (hplain : plainTreesC08b ks = true) : ListOKC08b G ks := by
  intro fuel H l vs hf hl hr hids
  have h0 : (H ++ [tagListObjC08b vs])[H.length]? = some (tagListObjC08b ([] ++ vs)) := by simp
  have hr0 : ReprsC08b (H ++ [tagListObjC08b vs]) ks vs :=
    ReprsC08b.frame H _ ks vs hr (fun j hj => List.getElem?_append_left (hids j hj))
  obtain ⟨H', vs', h1, h2, h3, h4, h5⟩ :=
    loopOK_C08b G ks hall hplain fuel (H ++ [tagListObjC08b vs]) H.length 0 [] vs hf rfl h0 hr0 hids
  have hlen : (H ++ [tagListObjC08b vs]).length = H.length + 1 := by simp
  rw [hlen] at h3 h4 h5
  refine ⟨H', vs', ?_, by simpa using h2, h3, h4, ?_⟩
  · rw [src_copy_tag_nodes_heap_def_C08b hav]
    rw [HMC08b.run_bind_ok (hCopyDisp_taglist_C08b _ _ H l vs hl)]
    rw [HMC08b.run_bind_ok (hItems_ok_C08b _ "TagList" H.length vs (by simp))]
    rw [HMC08b.run_bind_ok h1]
    rfl
  · intro j hj
    rw [h5 j (by omega) (by omega), List.getElem?_append_left hj]

/-- a Tag child: `copy(child)` (three new objects), `_copy_tag_nodes(child.children)` one level of fuel down (a new list and
    the copies of the children), the new list becomes the copy's `children`, the copy takes the child's place -/
theorem passOK_tag_C08b (hav : Tag_copyHC08b_available = true) (G : Globals) (i a k : Nat) (nm : Str) (ws : Bool) (at' : Attrs)
    (kids : ITrees) (hlist : ListOKC08b G kids) (hplain : plainTreesC08b kids = true) :
    PassOKC08b G (.tag i a k nm ws at' kids) := by
  intro fuel H nl m data v hf hnl hm hr hids
  obtain ⟨rfl, vs, ht, hk⟩ := hr
  simp only [cpFuelIC08b] at hf
  obtain ⟨f, rfl⟩ : ∃ f, fuel = f + 1 := ⟨fuel - 1, by omega⟩
  have hnlt := getElem?_lt_C08b hnl
  have hmlt := getElem?_lt_C08b hm
  have hilt : i < nl := hids i (by simp [ITree.ids])
  -- 1. copy(child)
  have e1 := src_Tag_copy_heap_C08b hav G H i a k nm ws _ vs ht
  generalize hH1 : H ++ [tagObjC08b nm ws (H.length + 1) (H.length + 2), PVal.dict (attrKvsC08b at'), tagListObjC08b vs] = H1
    at e1
  have hl1 : H1.length = H.length + 3 := by rw [← hH1]; simp
  have hold1 : ∀ j o, H[j]? = some o → H1[j]? = some o := fun j o hj => by rw [← hH1]; exact getElem?_append_some_C08b hj
  have hc0 : H1[H.length]? = some (tagObjC08b nm ws (H.length + 1) (H.length + 2)) := by rw [← hH1]; simp
  have hc1 : H1[H.length + 1]? = some (PVal.dict (attrKvsC08b at')) := by rw [← hH1]; simp
  -- 2. child.children
  have e2 : hGetAttrC08b (mkRefC08b "Tag" i) "children" H1 = .ok (mkRefC08b "TagList" k, H1) :=
    hGetAttr_ref_C08b H1 "Tag" i _ "children" _ (hold1 i _ ht.tag) (by simp [tagObjC08b, pyGetAttr, fieldGet?])
  -- 3. _copy_tag_nodes(child.children)
  have hk1 : ReprsC08b H1 kids vs :=
    ReprsC08b.frame H H1 kids vs hk (fun j hj => by
      have := hids j (by simp [ITree.ids, hj])
      rw [← hH1]; exact List.getElem?_append_left (by omega))
  obtain ⟨H2, vs', e3, h32, h33, h34, h35⟩ :=
    hlist f H1 k vs (by omega) (hold1 k _ ht.kids) hk1 (fun j hj => by
      have := hids j (by simp [ITree.ids, hj]); omega)
  rw [hl1] at e3 h32 h33 h34 h35
  have hle2 : H.length + 4 ≤ H2.length := by rw [h34]; exact ITrees.icopyAll_le kids (H.length + 4)
  -- 4. child_cp.children = …
  have h2c : H2[H.length]? = some (tagObjC08b nm ws (H.length + 1) (H.length + 2)) := by
    rw [h35 _ (by omega)]; exact hc0
  have e4 := hSetAttr_ok_C08b H2 "Tag" "Tag" H.length _ "children" (mkRefC08b "TagList" (H.length + 3)) h2c
  have hfs : fieldSet "children" (mkRefC08b "TagList" (H.length + 3))
      [("name", PVal.str nm), ("add_ws", PVal.bool ws), ("attrs", mkRefC08b "TagAttrDict" (H.length + 1)),
        ("children", mkRefC08b "TagList" (H.length + 2)), ("prev_displayhook", PVal.none)]
      = [("name", PVal.str nm), ("add_ws", PVal.bool ws), ("attrs", mkRefC08b "TagAttrDict" (H.length + 1)),
        ("children", mkRefC08b "TagList" (H.length + 3)), ("prev_displayhook", PVal.none)] := by
    simp [fieldSet]
  rw [hfs] at e4
  generalize hH3 : H2.set H.length (PVal.obj "Tag" [("name", PVal.str nm), ("add_ws", PVal.bool ws),
    ("attrs", mkRefC08b "TagAttrDict" (H.length + 1)), ("children", mkRefC08b "TagList" (H.length + 3)),
    ("prev_displayhook", PVal.none)]) = H3 at e4
  have h3ne : ∀ j, j ≠ H.length → H3[j]? = H2[j]? := fun j hj => by
    rw [← hH3]; exact getElem?_set_ne_C08b' _ _ _ _ (fun e => hj e.symm)
  have h3c : H3[H.length]? = some (tagObjC08b nm ws (H.length + 1) (H.length + 3)) := by
    rw [← hH3]; exact getElem?_set_self_C08b' _ _ _ (by omega)
  have hl3 : H3.length = H2.length := by rw [← hH3]; simp
  -- 5. cp[i] = child_cp
  have h3nl : H3[nl]? = some (tagListObjC08b data) := by
    rw [h3ne nl (by omega), h35 nl (by omega)]; exact hold1 nl _ hnl
  have e5 := hSetItemU_ok_C08b H3 "TagList" nl data m (mkRefC08b "Tag" H.length) h3nl hmlt
  have hinst : isInstance (mkRefC08b "Tag" i) ["Tag"] = true := by simp [isInstance, mkRefC08b]
  have hids2 := (ITrees.icopyAll_ids kids (H.length + 4) (plainTrees_noTobj_C08b kids hplain)).1
  refine ⟨H3.set nl (tagListObjC08b (data.set m (mkRefC08b "Tag" H.length))), mkRefC08b "Tag" H.length, ?_, ?_, ?_, ?_, ?_⟩
  · simp only [copyPassC08b, hinst, if_true, hCopyDisp_tag_C08b]
    rw [HMC08b.run_bind_ok e1, HMC08b.run_bind_ok e2, HMC08b.run_bind_ok e3,
      HMC08b.run_bind_ok e4]
    exact e5
  · exact getElem?_set_self_C08b' _ _ _ (by omega)
  · simp only [ITree.icopy]
    refine ⟨rfl, vs', ⟨?_, ?_, ?_⟩, ?_⟩
    · rw [getElem?_set_ne_C08b' _ _ _ _ (by omega)]; exact h3c
    · rw [getElem?_set_ne_C08b' _ _ _ _ (by omega), h3ne _ (by omega), h35 _ (by omega)]; exact hc1
    · rw [getElem?_set_ne_C08b' _ _ _ _ (by omega), h3ne _ (by omega)]; exact h32
    · refine ReprsC08b.frame H2 _ _ vs' h33 (fun j hj => ?_)
      have := hids2 j hj
      rw [getElem?_set_ne_C08b' _ _ _ _ (by omega), h3ne _ (by omega)]
  · simp only [ITree.icopy, List.length_set, hl3, h34]
  · intro j hj hjn
    rw [getElem?_set_ne_C08b' _ _ _ _ (fun e => hjn e.symm), h3ne j (by omega), h35 j (by omega), ← hH1]
    exact List.getElem?_append_left hj

mutual
  /-- every pass is as specified, by structural recursion over the tree -/
  theorem passOK_all_C08b (h1 : Tag_copyHC08b_available = true) (h2 : copy_tag_nodesHC08b_available = true) (G : Globals)
      (x : ITree) (hp : plainTreeC08b x = true) : PassOKC08b G x := by
    cases x with
    | text s => exact passOK_text_C08b G s
    | html s => exact passOK_html_C08b G s
    | robj s => exact passOK_robj_C08b G s
    | mnode i n => exact passOK_mnode_C08b G i n
    | tag i a k nm ws at' kids =>
      have hk : plainTreesC08b kids = true := by simpa [plainTreeC08b] using hp
      exact passOK_tag_C08b h1 G i a k nm ws at' kids (listOK_of_pass_C08b h2 G kids (passOK_members_C08b h1 h2 G kids hk) hk) hk
    | dep i d hh hid hd => simp [plainTreeC08b] at hp
    | tobjL rh c => simp [plainTreeC08b] at hp
    | tobj1 rh c => simp [plainTreeC08b] at hp
  theorem passOK_members_C08b (h1 : Tag_copyHC08b_available = true) (h2 : copy_tag_nodesHC08b_available = true) (G : Globals)
      (ks : ITrees) (hp : plainTreesC08b ks = true) : ∀ x ∈ ITrees.toListC08b ks, PassOKC08b G x := by
    cases ks with
    | nil => intro x hx; simp [ITrees.toListC08b] at hx
    | cons h t =>
      simp only [plainTreesC08b, Bool.and_eq_true] at hp
      intro x hx
      simp only [ITrees.toListC08b, List.mem_cons] at hx
      rcases hx with hx | hx
      · rw [hx]; exact passOK_all_C08b h1 h2 G h hp.1
      · exact passOK_members_C08b h1 h2 G t hp.2 x hx
end


/-- **`_copy_tag_nodes` over the heap ↔ `ITrees.icopyAll`** — *partial*: for trees of Tags, strings, `HTML`, self-rendering objects
    and bare metadata nodes (`plainTreesC08b`).  Let the list object `l` hold the values `vs` standing for the model's children
    `ks` in the heap `H`.  Then `_copy_tag_nodes(l)` as the source has it returns the reference to a new list object — the first
    new id, `H.length` — whose items stand, in the heap afterwards, for the model's `icopyAll` of the children at the counter
    `H.length + 1` (every Tag with its new TagAttrDict and TagList at exactly the model's ids, every bare metadata node a
    new object, every other child the same value), the counter afterwards is the new heap's length, and every object that was
    in the heap is unchanged.
    What is missing for the full statement: dependencies (`HTMLDependency.__copy__` over the heap is translated and validated
    against the interpreter — op `srcc08b` — but not tied: its `deepcopy` of the item lists is a fuel-recursive primitive with a
    memo, and the model's `IDep.fresh` consumes an id for `source` also when it is None, so the ids do not correspond one for
    one) and un-expanded tagifiable objects (kept as they are; the model's `noTobj` guard). -/
theorem src_copy_tag_nodes_heap_C08b_partial (h1 : Tag_copyHC08b_available = true) (h2 : copy_tag_nodesHC08b_available = true)
    (G : Globals) (ks : ITrees) (hp : plainTreesC08b ks = true) (fuel : Nat) (H : List PVal) (l : Nat) (vs : List PVal)
    (hf : cpFuelKidsIC08b ks + 1 ≤ fuel) (hl : H[l]? = some (tagListObjC08b vs)) (hr : ReprsC08b H ks vs)
    (hids : ∀ j ∈ ks.idsAll, j < H.length) :
    ∃ H' vs', copy_tag_nodesHC08b G fuel (mkRefC08b "TagList" l) H = .ok (mkRefC08b "TagList" H.length, H')
      ∧ H'[H.length]? = some (tagListObjC08b vs')
      ∧ ReprsC08b H' (ks.icopyAll (H.length + 1)).1 vs'
      ∧ H'.length = (ks.icopyAll (H.length + 1)).2
      ∧ (∀ j, j < H.length → H'[j]? = H[j]?) := by
  obtain ⟨f, rfl⟩ : ∃ f, fuel = f + 1 := ⟨fuel - 1, by omega⟩
  exact listOK_of_pass_C08b h2 G ks (passOK_members_C08b h1 h2 G ks hp) hp f H l vs (by omega) hl hr hids

/-- **Freshness and independence of `_copy_tag_nodes`** (partial, same trees): every mutable object of the copy — the new list
    and everything the model's `icopyAll` lists — has an id in `[H.length, H'.length)`, no id occurs twice, none is the id of
    an object of the original (`l` or an id below the original children), and replacing any object of the copy leaves every
    object that was in the heap before the call as it was -/
theorem src_copy_tag_nodes_fresh_C08b_partial (h1 : Tag_copyHC08b_available = true) (h2 : copy_tag_nodesHC08b_available = true)
    (G : Globals) (ks : ITrees) (hp : plainTreesC08b ks = true) (fuel : Nat) (H : List PVal) (l : Nat) (vs : List PVal)
    (hf : cpFuelKidsIC08b ks + 1 ≤ fuel) (hl : H[l]? = some (tagListObjC08b vs)) (hr : ReprsC08b H ks vs)
    (hids : ∀ j ∈ ks.idsAll, j < H.length) :
    ∃ H' vs', copy_tag_nodesHC08b G fuel (mkRefC08b "TagList" l) H = .ok (mkRefC08b "TagList" H.length, H')
      ∧ ReprsC08b H' (ks.icopyAll (H.length + 1)).1 vs'
      ∧ InR (H.length :: (ks.icopyAll (H.length + 1)).1.idsAll) H.length H'.length
      ∧ (∀ i ∈ H.length :: (ks.icopyAll (H.length + 1)).1.idsAll, i ∉ l :: ks.idsAll)
      ∧ (∀ i ∈ H.length :: (ks.icopyAll (H.length + 1)).1.idsAll, ∀ (o : PVal) (j : Nat), j < H.length →
          (H'.set i o)[j]? = H[j]?) := by
  obtain ⟨H', vs', e, _, hr', hlen, hfr⟩ := src_copy_tag_nodes_heap_C08b_partial h1 h2 G ks hp fuel H l vs hf hl hr hids
  have hin := ITrees.icopyAll_ids ks (H.length + 1) (plainTrees_noTobj_C08b ks hp)
  have hle := ITrees.icopyAll_le ks (H.length + 1)
  have hc : InR (H.length :: (ks.icopyAll (H.length + 1)).1.idsAll) H.length H'.length := by
    rw [hlen]; exact InR.cons hin hle
  have hlt := getElem?_lt_C08b hl
  refine ⟨H', vs', e, hr', hc, ?_, ?_⟩
  · intro i hi hm
    have := (hc.1 i hi).1
    rcases List.mem_cons.mp hm with rfl | hm
    · omega
    · have := hids i hm; omega
  · intro i hi o j hj
    have := (hc.1 i hi).1
    rw [getElem?_set_ne_C08b' _ _ _ _ (by omega)]
    exact hfr j hj

/-! ### the hypotheses are satisfiable -/

/-- `div(class="x")("t", MetadataNode())` laid out from id 0 (Tag 0, its TagAttrDict 1, its TagList 2, the metadata node 3)
    and a list object 4 holding the tag -/
def exHeapC08b : List PVal :=
  [tagObjC08b ['d'] true 1 2, .dict (attrKvsC08b [(['c'], .plain ['x'])]),
   tagListObjC08b [.str ['t'], mkRefC08b "MetadataNode" 3], .obj "MetadataNode" [("n", .int 7)],
   tagListObjC08b [mkRefC08b "Tag" 0]]

def exTreeC08b : ITree :=
  .tag 0 1 2 ['d'] true [(['c'], .plain ['x'])] (.cons (.text ['t']) (.cons (.mnode 3 7) .nil))

example : TagAtC08b exHeapC08b 0 1 2 ['d'] true (attrKvsC08b [(['c'], .plain ['x'])])
      [.str ['t'], mkRefC08b "MetadataNode" 3]
    ∧ ReprsC08b exHeapC08b (.cons exTreeC08b .nil) [mkRefC08b "Tag" 0]
    ∧ plainTreesC08b (.cons exTreeC08b .nil) = true
    ∧ (∀ j ∈ (ITrees.cons exTreeC08b .nil).idsAll, j < exHeapC08b.length)
    ∧ exHeapC08b[4]? = some (tagListObjC08b [mkRefC08b "Tag" 0]) := by
  refine ⟨⟨rfl, rfl, rfl⟩, ?_, rfl, by decide, rfl⟩
  exact ⟨_, _, rfl, ⟨rfl, _, ⟨rfl, rfl, rfl⟩, ⟨_, _, rfl, rfl, ⟨_, _, rfl, ⟨rfl, rfl⟩, rfl⟩⟩⟩, rfl⟩

end HtmlVerif.SrcTie
