/-
Embeddings and helper lemmas for the source tie of the constructor validation of `HTMLDependency`
(Props/SrcC10b.lean): `HTMLDependency._validate_dict`, `_validate_dicts`, `__init__` against `validateDict`,
`validateDicts`, `depInit` (Model/Deps.lean).

The model abstracts every value that is not a dict to `PyItem.other` / `ItemsArg.scalar` / `SourceArg.other`.  The
embeddings below go the other way with *any* Python value that has the abstracted property (`isInstance v ["dict"] =
false`, …), so the tie theorems speak about every such value, not about one chosen representative.
-/
import HtmlVerif.Generated.Src
import HtmlVerif.Lemmas.PyLoop
import HtmlVerif.Lemmas.SrcTie
import HtmlVerif.Model.Deps

set_option linter.unusedVariables false

namespace HtmlVerif.SrcTie
open HtmlVerif HtmlVerif.Py

/-! ### values -/

/-- a dict with `str` values (an item of `script=` / `stylesheet=` / `meta=`, or `source=`) -/
def embKvsC10b (d : List (Str × Str)) : PVal := .dict (d.map fun kv => (kv.1, PVal.str kv.2))

/-- a list of such dicts -/
def embDictsC10b (ds : List (List (Str × Str))) : PVal := .list (ds.map embKvsC10b)

/-- an element of the list given for `script=` / `stylesheet=` / `meta=`: a dict, or any value that is not one -/
inductive ItemV
  | dict (kvs : List (Str × Str))
  | other (v : PVal) (h : isInstance v ["dict"] = false)

def ItemV.toItem : ItemV → PyItem
  | .dict kvs => .dict kvs
  | .other _ _ => .other

def ItemV.emb : ItemV → PVal
  | .dict kvs => embKvsC10b kvs
  | .other v _ => v

/-- what reaches `_validate_dicts`: a list of items, or any value that is not None, not a dict and cannot be iterated -/
inductive LdV
  | items (l : List ItemV)
  | scalar (v : PVal) (hn : isNone v = false) (hd : isInstance v ["dict"] = false) (hi : pyIter v = .error .typeError)

def LdV.emb : LdV → PVal
  | .items l => .list (l.map ItemV.emb)
  | .scalar v _ _ _ => v

/-- the model's verdict on it (`validateDicts`; iterating a non-iterable raises TypeError, as `normItems` has it) -/
def LdV.model (req : List Str) : LdV → Except Err (List (List (Str × Str)))
  | .items l => validateDicts req (l.map ItemV.toItem)
  | .scalar _ _ _ _ => .error .typeError

/-- what is given for `script=` / `stylesheet=` / `meta=` -/
inductive ItemsV
  | none
  | one (kvs : List (Str × Str))
  | many (l : List ItemV)
  | scalar (v : PVal) (hn : isNone v = false) (hd : isInstance v ["dict"] = false) (hi : pyIter v = .error .typeError)

def ItemsV.toArg : ItemsV → ItemsArg
  | .none => .none
  | .one d => .one d
  | .many l => .many (l.map ItemV.toItem)
  | .scalar _ _ _ _ => .scalar

def ItemsV.emb : ItemsV → PVal
  | .none => PVal.none
  | .one d => embKvsC10b d
  | .many l => .list (l.map ItemV.emb)
  | .scalar v _ _ _ => v

/-- after `if x is None: x = [] elif isinstance(x, dict): x = [x]` -/
def ItemsV.toLd : ItemsV → LdV
  | .none => .items []
  | .one d => .items [.dict d]
  | .many l => .items l
  | .scalar v hn hd hi => .scalar v hn hd hi

/-- what is given for `source=`: None, a dict, or any value that is neither -/
inductive SourceV
  | none
  | dict (kvs : List (Str × Str))
  | other (v : PVal) (hn : isNone v = false) (hd : isInstance v ["dict"] = false)

def SourceV.toArg : SourceV → SourceArg
  | .none => .none
  | .dict d => .dict d
  | .other _ _ _ => .other

def SourceV.emb : SourceV → PVal
  | .none => PVal.none
  | .dict d => embKvsC10b d
  | .other v _ _ => v

/-- what is given for `head=`: None, a `str`, or any value that is neither -/
inductive HeadV
  | none
  | text (s : Str)
  | node (v : PVal) (hn : isNone v = false) (hs : isInstance v ["str"] = false)

def HeadV.emb : HeadV → PVal
  | .none => PVal.none
  | .text s => .str s
  | .node v _ _ => v

/-- the `head` field: None stays None; a `str` is trusted markup, `TagList(HTML(s))`; anything else goes through
    `TagList(v)` (Py/PrimC10b.lean: `pyTagList1`, defined on the shapes listed there) -/
def HeadV.res : HeadV → PyM PVal
  | .none => .ok PVal.none
  | .text s => .ok (tagListObjC10b [.html s])
  | .node v _ _ => pyTagList1 v

/-- the arguments of `HTMLDependency(name, version, …)` as Python values -/
structure DepArgV where
  name       : Str
  version    : Str          -- `str(Version(version))`
  verOk      : Bool         -- `packaging` accepts the version string
  vrank      : Nat
  source     : SourceV
  script     : ItemsV
  stylesheet : ItemsV
  metas      : ItemsV
  allFiles   : Bool

def DepArgV.toArg (a : DepArgV) : DepArg :=
  { name := a.name, version := a.version, verOk := a.verOk, vrank := a.vrank, source := a.source.toArg,
    script := a.script.toArg, stylesheet := a.stylesheet.toArg, metas := a.metas.toArg, allFiles := a.allFiles }

/-- the instance `__init__` leaves behind (`__dict__` in assignment order): the fields the model describes come from the
    model's `DepInfo`; `source` is stored as given (the model keeps only what `checkSource` reads from it) -/
def embDepObjC10b (cls : String) (src : PVal) (info : DepInfo) (head : PVal) : PVal :=
  .obj cls [("name", .str info.name), ("version", versionObjC10b info.vrank info.version), ("source", src),
    ("script", embDictsC10b info.script), ("stylesheet", embDictsC10b info.stylesheet),
    ("meta", embDictsC10b info.metas), ("all_files", .bool info.allFiles), ("head", head)]

/-- the attributes of an `HTMLDependency` the model describes -/
def depFieldNamesC10b : List String := ["name", "version", "source", "script", "stylesheet", "meta", "all_files", "head"]

/-- an instance restricted to these attributes, in this order: the order in which `__init__` makes its assignments (the
    order of `__dict__`) is not part of what the tie states -/
def projDepC10b : PVal → PVal
  | .obj c fs => .obj c (depFieldNamesC10b.filterMap fun k => (fieldGet? k fs).map fun v => (k, v))
  | v => v

/-- `if x is None: x = [] elif isinstance(x, dict): x = [x]` on a value -/
def normSeqC10b (v : PVal) : PVal :=
  if isNone v then .list [] else if isInstance v ["dict"] then .list [v] else v

/-! ### dicts -/

theorem dictGet?_embKvsC10b (k : Str) (d : List (Str × Str)) :
    (Py.dictGet? k (d.map fun kv => (kv.1, PVal.str kv.2))).isSome = hasKey k d := by
  induction d with
  | nil => rfl
  | cons x t ih =>
    obtain ⟨k', v⟩ := x
    simp only [List.map_cons, Py.dictGet?, hasKey, List.any_cons] at ih ⊢
    by_cases h : k' = k <;> simp [h, ih]

theorem pyIn_embKvsC10b (k : Str) (d : List (Str × Str)) :
    pyIn (.str k) (embKvsC10b d) = .ok (.bool (hasKey k d)) := by
  simp only [pyIn, embKvsC10b, dictGet?_embKvsC10b, pure_eq_ok]

theorem isInstance_embKvsC10b (d : List (Str × Str)) : isInstance (embKvsC10b d) ["dict"] = true := rfl
theorem isNone_embKvsC10b (d : List (Str × Str)) : isNone (embKvsC10b d) = false := rfl

/-- `"href" in source or "subdir" in source` -/
theorem pyOr_in_embKvsC10b (k1 k2 : Str) (d : List (Str × Str)) :
    pyOr (pyIn (.str k1) (embKvsC10b d)) (pyIn (.str k2) (embKvsC10b d))
      = .ok (.bool (hasKey k1 d || hasKey k2 d)) := by
  simp only [pyOr, pyIn_embKvsC10b, ok_bind, truthy_bool]
  cases hasKey k1 d <;> simp

theorem dictSet_absentC10b (k : Str) (v : PVal) (d : List (Str × Str)) (h : hasKey k d = false) :
    Py.dictSet k v (d.map fun kv => (kv.1, PVal.str kv.2)) = (d.map fun kv => (kv.1, PVal.str kv.2)) ++ [(k, v)] := by
  induction d with
  | nil => rfl
  | cons x t ih =>
    obtain ⟨k', v'⟩ := x
    simp only [hasKey, List.any_cons, Bool.or_eq_false_iff, beq_eq_false_iff_ne, ne_eq] at h
    simp only [List.map_cons, Py.dictSet, h.1, if_false, List.cons_append]
    rw [ih (by simpa [hasKey] using h.2)]

/-- one pass of `if "rel" not in s: s["rel"] = "stylesheet"` on a dict is the model's `addRel` -/
theorem pySetItem_addRelC10b (d : List (Str × Str)) (h : hasKey ['r','e','l'] d = false) :
    pySetItem (embKvsC10b d) (.str ['r','e','l']) (.str ['s','t','y','l','e','s','h','e','e','t'])
      = .ok (embKvsC10b (addRel d)) := by
  simp only [pySetItem, embKvsC10b, dictSet_absentC10b _ _ _ h, addRel, h, Bool.false_eq_true, if_false, List.map_append,
    List.map_cons, List.map_nil, pure_eq_ok]

theorem addRel_presentC10b (d : List (Str × Str)) (h : hasKey ['r','e','l'] d = true) : addRel d = d := by
  simp [addRel, h]

/-! ### instance attributes -/

theorem pySetAttr_objC10b (c : String) (fs : List (String × PVal)) (n : String) (v : PVal) :
    pySetAttr (.obj c fs) n v = .ok (.obj c (fieldSet n v fs)) := rfl

theorem pyGetAttr_objC10b (c : String) (fs : List (String × PVal)) (n : String) (v : PVal)
    (h : fieldGet? n fs = some v) : pyGetAttr (.obj c fs) n = .ok v := by
  simp only [pyGetAttr, h, pure_eq_ok]

theorem pyRebuildSeq_listC10b (xs elems : List PVal) : pyRebuildSeq (.list xs) elems = .ok (.list elems) := rfl

/-! ### small facts used by the `__init__` tie -/

theorem isNone_listC10b (xs : List PVal) : isNone (.list xs) = false := rfl
theorem isDict_listC10b (xs : List PVal) : isInstance (.list xs) ["dict"] = false := rfl
theorem isNone_not_dictC10b (v : PVal) (h : isNone v = true) : isInstance v ["dict"] = false := by
  cases v <;> first | rfl | cases h

theorem fieldGet?_fieldSet_sameC10b (k : String) (v : PVal) (fs : List (String × PVal)) :
    fieldGet? k (fieldSet k v fs) = some v := by
  induction fs with
  | nil => simp [fieldSet, fieldGet?]
  | cons x t ih =>
    obtain ⟨k', v'⟩ := x
    by_cases hk : k' = k <;> simp [fieldSet, fieldGet?, hk, ih]

theorem pyGetAttr_fieldSetC10b (c : String) (k : String) (v : PVal) (fs : List (String × PVal)) :
    pyGetAttr (.obj c (fieldSet k v fs)) k = .ok v := by
  simp only [pyGetAttr, fieldGet?_fieldSet_sameC10b, pure_eq_ok]

theorem pyMkVersion_strC10b (G : Globals) (raw : Str) :
    pyMkVersion G (.str raw) = match G.mkVersion raw with | some v => .ok v | none => .error .valueError := rfl

theorem isNone_noneC10b : isNone PVal.none = true := rfl
theorem isStr_strC10b (s : Str) : isInstance (.str s) ["str"] = true := rfl
theorem isStr_versionC10b (r : Nat) (t : Str) : isInstance (versionObjC10b r t) ["str"] = false := by
  simp [versionObjC10b, isInstance, classBases]

/-! ### the model's validation as folds; what a successful validation says about the embedded list -/

theorem validateDicts_ok_embC10b (req : List Str) (l : List ItemV) (ds : List (List (Str × Str)))
    (h : validateDicts req (l.map ItemV.toItem) = .ok ds) : l.map ItemV.emb = ds.map embKvsC10b := by
  induction l generalizing ds with
  | nil => simp only [List.map_nil, validateDicts, Except.ok.injEq] at h; subst h; rfl
  | cons x t ih =>
    simp only [List.map_cons, validateDicts] at h
    cases x with
    | other v hv => simp [ItemV.toItem, validateDict] at h
    | dict d =>
      simp only [ItemV.toItem, validateDict] at h
      cases hc : checkKeys d req with
      | error e => simp [hc] at h
      | ok u =>
        simp only [hc] at h
        cases ht : validateDicts req (t.map ItemV.toItem) with
        | error e => simp [ht] at h
        | ok ds' =>
          simp only [ht, Except.ok.injEq] at h
          subst h
          simp only [List.map_cons, ItemV.emb, ih ds' ht]

theorem LdV_model_ok_embC10b (req : List Str) (x : LdV) (ds : List (List (Str × Str))) (h : x.model req = .ok ds) :
    x.emb = embDictsC10b ds := by
  cases x with
  | scalar v hn hd hi => simp [LdV.model] at h
  | items l => simp only [LdV.emb, embDictsC10b, validateDicts_ok_embC10b req l ds h]

theorem isNone_LdVC10b (x : LdV) : isNone x.emb = false := by
  cases x with
  | items l => rfl
  | scalar v hn hd hi => exact hn

theorem isDict_LdVC10b (x : LdV) : isInstance x.emb ["dict"] = false := by
  cases x with
  | items l => rfl
  | scalar v hn hd hi => exact hd

theorem normItems_toLdC10b (req : List Str) (x : ItemsV) : normItems req x.toArg = x.toLd.model req := by
  cases x <;> rfl

theorem normSeq_embC10b (x : ItemsV) : normSeqC10b x.emb = x.toLd.emb := by
  cases x with
  | none => rfl
  | one d => rfl
  | many l => rfl
  | scalar v hn hd hi => simp [normSeqC10b, ItemsV.emb, ItemsV.toLd, LdV.emb, hn, hd]

/-- `depInit` with the three `normItems` verdicts as parameters -/
def depInitOfC10b (a : DepArg) (sc st me : Except Err (List (List (Str × Str)))) : Except Err DepInfo :=
  if !a.verOk then .error .valueError else
  match checkSource a.source with
  | .error e => .error e
  | .ok src =>
    match sc with
    | .error e => .error e
    | .ok sc =>
      match st with
      | .error e => .error e
      | .ok st =>
        match me with
        | .error e => .error e
        | .ok me =>
          .ok { name := a.name, version := a.version, vrank := a.vrank, source := src, script := sc,
                stylesheet := st.map addRel, metas := me, allFiles := a.allFiles }

theorem depInit_eq_ofC10b (a : DepArg) :
    depInit a = depInitOfC10b a (normItems reqScript a.script) (normItems reqStylesheet a.stylesheet)
      (normItems reqMeta a.metas) := rfl

theorem checkSource_dict_okC10b (d : List (Str × Str))
    (h : (hasKey ['h','r','e','f'] d || hasKey ['s','u','b','d','i','r'] d) = true) :
    ∃ src, checkSource (.dict d) = .ok src := by
  simp only [checkSource]
  by_cases h1 : hasKey ['h','r','e','f'] d = true
  · simp only [h1, if_true]; exact ⟨_, rfl⟩
  · have h2 : hasKey ['s','u','b','d','i','r'] d = true := by simpa [h1] using h
    simp only [h1, h2, if_true, Bool.false_eq_true, if_false]; exact ⟨_, rfl⟩

theorem checkSource_dict_badC10b (d : List (Str × Str))
    (h : (hasKey ['h','r','e','f'] d || hasKey ['s','u','b','d','i','r'] d) = false) :
    checkSource (.dict d) = .error .typeError := by
  simp only [Bool.or_eq_false_iff] at h
  simp [checkSource, h.1, h.2]

/-! ### loop rules for the three loops (bodies by unification; only the effect of one pass is stated) -/

/-- `for a in req_attr: if a not in d: raise KeyError`, for any loop state: nothing is carried from pass to pass -/
theorem keys_loop_kC10b {σ β : Type} (d : List (Str × Str)) (req : List Str) (f : PVal → σ → PyM (ForInStep σ)) (init : σ)
    (k : σ → PyM β) (r : PyM β)
    (hstep : ∀ a s, (hasKey a d = true → ∃ s', f (.str a) s = .ok (.yield s'))
                  ∧ (hasKey a d = false → f (.str a) s = .error .keyError))
    (hk : ∀ s, k s = r) :
    (forIn (req.map PVal.str) init f >>= k)
      = match checkKeys d req with | .ok () => r | .error e => .error (embErr e) := by
  induction req generalizing init with
  | nil => simp only [List.map_nil, List.forIn_nil, checkKeys, pure_eq_ok, ok_bind, hk]
  | cons a t ih =>
    simp only [List.map_cons, List.forIn_cons, checkKeys]
    by_cases ha : hasKey a d = true
    · obtain ⟨s', hs'⟩ := (hstep a init).1 ha
      simp only [hs', ok_bind, ha, if_true]
      exact ih s'
    · simp only [Bool.not_eq_true] at ha
      simp only [(hstep a init).2 ha, error_bind, ha, Bool.false_eq_true, if_false, embErr]

/-- `for d in ld: self._validate_dict(d, req_attr)`, for any loop state -/
theorem dicts_loop_kC10b {σ β : Type} (req : List Str) (l : List ItemV) (f : PVal → σ → PyM (ForInStep σ)) (init : σ)
    (k : σ → PyM β) (r : PyM β)
    (hstep : ∀ (x : ItemV) s, match validateDict req x.toItem with
      | .ok _ => ∃ s', f x.emb s = .ok (.yield s')
      | .error e => f x.emb s = .error (embErr e))
    (hk : ∀ s, k s = r) :
    (forIn (l.map ItemV.emb) init f >>= k)
      = match validateDicts req (l.map ItemV.toItem) with | .ok _ => r | .error e => .error (embErr e) := by
  induction l generalizing init with
  | nil => simp only [List.map_nil, List.forIn_nil, validateDicts, pure_eq_ok, ok_bind, hk]
  | cons x t ih =>
    simp only [List.map_cons, List.forIn_cons, validateDicts]
    have hx := hstep x init
    cases hv : validateDict req x.toItem with
    | error e =>
      rw [hv] at hx
      simp only [hx, error_bind]
    | ok d =>
      rw [hv] at hx
      obtain ⟨s', hs'⟩ := hx
      simp only [hs', ok_bind]
      rw [ih s']
      cases validateDicts req (t.map ItemV.toItem) <;> rfl

/-- the `rel` loop as the translator renders it: the state is (loop variable, elements collected so far) -/
theorem rel_loop_kC10b {β : Type} (ds : List (List (Str × Str)))
    (f : PVal → PVal × List PVal → PyM (ForInStep (PVal × List PVal))) (init : PVal × List PVal)
    (k : PVal × List PVal → PyM β) (r : PyM β)
    (hstep : ∀ (d : List (Str × Str)) (s : PVal × List PVal),
      ∃ s1, f (embKvsC10b d) s = .ok (.yield (s1, s.2 ++ [embKvsC10b (addRel d)])))
    (hk : ∀ s, s.2 = init.2 ++ (ds.map addRel).map embKvsC10b → k s = r) :
    (forIn (ds.map embKvsC10b) init f >>= k) = r := by
  induction ds generalizing init with
  | nil =>
    simp only [List.map_nil, List.forIn_nil, pure_eq_ok, ok_bind]
    exact hk init (by simp)
  | cons d t ih =>
    obtain ⟨s1, hs1⟩ := hstep d init
    simp only [List.map_cons, List.forIn_cons, hs1, ok_bind]
    refine ih _ (fun s hs => hk s ?_)
    simp only [hs, List.map_cons, List.append_assoc, List.cons_append, List.nil_append]

end HtmlVerif.SrcTie
