"""Implementation side of every driver op: parse the same wire line, run the real code,
return the canonical answer string."""
from __future__ import annotations

from adapters import *  # noqa: F401,F403
from adapters import realize, realize_list, canon, Ranks
from wire import *  # noqa: F401,F403
from wire import Toks, p_node, p_list, p_str, p_bool, es, ok_str, err_of, enode, enodes

IMPL = {}


def op(name):
    def deco(f):
        IMPL[name] = f
        return f
    return deco


def run_line(line: str) -> str:
    t = Toks(line)
    name = t.next()
    try:
        return IMPL[name](t)
    except Exception as e:  # the real code raised: canonical error kind
        return err_of(e)


@op("escape")
def _escape(t: Toks) -> str:
    import htmltools
    attr = p_bool(t)
    s = p_str(t)
    return es(htmltools.html_escape(s, attr=attr))


@op("render_tag")
def _render_tag(t: Toks) -> str:
    n = p_node(t)
    indent = int(t.next())
    eol = p_str(t)
    obj = realize(n)
    return ok_str(obj.get_html_string(indent, eol))


@op("render_list")
def _render_list(t: Toks) -> str:
    ns = p_list(t, p_node)
    indent = int(t.next())
    eol = p_str(t)
    aw = p_bool(t)
    esc = p_bool(t)
    obj = realize_list(ns)
    return ok_str(obj.get_html_string(indent, eol, add_ws=aw, _escape_strings=esc))
