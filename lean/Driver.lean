/-
Line-protocol driver: `<case-id> <op> <term>…`  →  `<case-id> <canonical result>`.
Runs the model's executable definitions (Model/*) over tables generated from the source.
-/
import HtmlVerif.Generated.Tables
import HtmlVerif.Generated.TagFns
import HtmlVerif.Wire
import HtmlVerif.Ops

open HtmlVerif HtmlVerif.Wire

partial def loop (h : IO.FS.Stream) (out : IO.FS.Stream) : IO Unit := do
  let line ← h.getLine
  if line.isEmpty then return ()
  let toks := (line.trimAscii.toString.splitOn " ").filter (· ≠ "")
  match toks with
  | [] => loop h out
  | [cid] => out.putStrLn (cid ++ " bad-op"); loop h out
  | cid :: op :: rest =>
    let res := match (Ops.dispatch op).run rest with
      | .ok (s, []) => s
      | .ok (_, extra) => "bad-op trailing " ++ " ".intercalate extra
      | .error e => "bad-op " ++ e
    out.putStrLn (cid ++ " " ++ res)
    loop h out

def main : IO Unit := do
  let out ← IO.getStdout
  loop (← IO.getStdin) out
  out.flush
