#!/usr/bin/env python3
"""Build corpus/c18_battery.txt: a sample of wire lines of EVERY op kind used by the other properties' generators
(so that C18's cross-process determinism battery exercises the whole public surface, not only rendering).
Each property runner is executed in quick mode with a recording Check that stops before the comparison.
C12 contributes its file-system-free operations only (as_dict / as_html_tags / source_path_map, from its generator
`gen_urls`), and of those only lines that do not embed a path of THIS machine (package directories, the current
working directory): the corpus is committed.  props/c18.py refuses to run if whole op kinds are missing here."""
import importlib
import os
import random
import sys

HERE = os.path.dirname(os.path.abspath(__file__))
VERIF = os.path.dirname(HERE)
sys.path.insert(0, HERE)
import core  # noqa: E402

SKIP_OPS = {"copy_to", "copy_plan", "save_html", "c12_class", "jsx_libfiles", "scan_raw", "vcmp", "vparse", "quote", "unquote", "utf8",
            "posix_join", "dirname", "escape", "jstr", "sha1", "tagfn", "reexport"}
PER_OP = 12


class Stop(Exception):
    pass


class Rec(core.Check):
    recorded = []

    def prepare(self):
        self.proof = core.ProofStatus()
        self.proof.translate_info = core.translate.generate()
        self.driver = None

    def add(self, line, impl_out, nontrivial=True, tag=None):
        Rec.recorded.append((line, nontrivial))

    def correspond(self, *a, **k):
        pass

    def finish(self, *a, **k):
        raise Stop()


def c12_pure_lines():
    """C12's operations that do not touch the file system, machine-independent lines only"""
    import wire
    from props import c12
    ck = Rec("C12", "quick", [])
    by_op = {}
    for line, _nt, _tag in c12.gen_urls(ck, "quick"):
        t = wire.Toks(line)
        op = t.next()
        if op not in ("as_dict", "as_html_tags", "source_path_map") or len(line) > 6000:
            continue
        src = wire.p_depinfo(t)["source"]
        if src is not None and src[0] == "subdir" and (src[1] is not None or not src[2].startswith("/V")):
            continue        # package directory / relative directory: the absolute path in the line is this machine's
        by_op.setdefault(op, []).append(line)
    return by_op


def main():
    rng = random.Random(18)
    real = core.Check
    out = {}
    for pid in [f"c{n:02d}" for n in range(1, 21)]:
        if pid in ("c18", "c19"):
            continue
        if pid == "c12":
            out_c12 = c12_pure_lines()
            for op, ls in out_c12.items():
                rng.shuffle(ls)
                out.setdefault(op, [])
                out[op] += ls[:PER_OP * 2]
            print(pid, {op: len(v) for op, v in out_c12.items()})
            continue
        path = os.path.join(HERE, "props", pid + ".py")
        if not os.path.exists(path):
            continue
        Rec.recorded = []
        core.Check = Rec
        try:
            mod = importlib.import_module("props." + pid)
            try:
                mod.run("quick")
            except Stop:
                pass
            except Exception as e:  # noqa: BLE001
                print(pid, "stopped early:", type(e).__name__, str(e)[:100])
        finally:
            core.Check = real
        by_op = {}
        for line, nt in Rec.recorded:
            op = line.split(" ", 1)[0]
            if op in SKIP_OPS or len(line) > 6000:
                continue
            by_op.setdefault(op, []).append(line)
        for op, ls in by_op.items():
            rng.shuffle(ls)
            out.setdefault(op, [])
            out[op] += ls[:PER_OP]
        print(pid, {op: len(v) for op, v in by_op.items()})
    os.makedirs(os.path.join(VERIF, "corpus"), exist_ok=True)
    with open(os.path.join(VERIF, "corpus", "c18_battery.txt"), "w") as f:
        for op in sorted(out):
            for l in out[op][:PER_OP * 2]:
                f.write(l + "\n")
    print("ops:", len(out), "lines:", sum(min(len(v), PER_OP * 2) for v in out.values()))


if __name__ == "__main__":
    main()
