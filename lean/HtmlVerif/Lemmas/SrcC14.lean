/-
Source tie for C14 (Props/SrcC14.lean): the embedding of the child-list model's argument values (`Arg`, Model/Children.lean)
into the Python value universe, the model-level step functions that the loops of the translated `_flatten_recurse` and
`_tagchilds_to_tagnodes` simulate, and facts about the primitives on the embedded shapes.
-/
import HtmlVerif.Lemmas.SrcRender
import HtmlVerif.Model.Children
import HtmlVerif.Py.PrimC14

namespace HtmlVerif.SrcTie
open HtmlVerif HtmlVerif.Py HtmlVerif.Generated.Src

/-! ### the embedding `Arg → PVal` -/

/-- value of a digit string (a character that is not a digit gives some number: such a text is not `numOk`) -/
def natOfDigits : List Char → Nat → Nat
  | [], acc => acc
  | c :: r, acc => natOfDigits r (acc * 10 + (c.toNat - '0'.toNat))

/-- the int a decimal text denotes -/
def intOfTxt : Str → Int
  | '-' :: r => -(natOfDigits r 0 : Int)
  | r => (natOfDigits r 0 : Int)

/-- a Python number, given its kind and its `str()` text (which is all the model keeps of it) -/
def numVal : NumKind → Str → PVal
  | .float, t => .float t
  | .int, t => .int (intOfTxt t)
  | .bool, t => .bool (t == "True".toList)

/-- the text the model carries for a number is what `str()` gives for the embedded value (always so for a float, which
    the fragment carries as its text; for an int / bool it says the text is the decimal numeral / `True` / `False`) -/
def numOk (k : NumKind) (t : Str) : Bool :=
  match pyStr (numVal k t) with
  | .ok (.str s) => s == t
  | _ => false

theorem numOk_pyStr {k : NumKind} {t : Str} (h : numOk k t = true) : pyStr (numVal k t) = .ok (.str t) := by
  unfold numOk at h
  split at h
  · rename_i s hs; rw [hs]; simp at h; rw [h]
  · exact absurd h (by simp)

/-- class names standing for the other iterable built-in types (see Py/PrimC14.lean) -/
def seqName : SeqKind → String
  | .bytes => "bytes"
  | .range => "range"
  | .set => "set"
  | .dict => "dict"
  | .gen => "generator"

/-- a dict is the fragment's own `dict` (string keys; the values play no role here); the other iterables are instances
    that yield their `data` -/
def embSeq (k : SeqKind) (items : List PVal) (keys : List (Str × PVal)) : PVal :=
  match k with
  | .dict => .dict keys
  | k => .obj (seqName k) [("data", .list items)]

/-- the keys of a dict whose iteration yields these (string) items -/
def dictKeys : Args → List (Str × PVal)
  | .nil => []
  | .cons (.node (.text s)) t => (s, .none) :: dictKeys t
  | .cons _ t => dictKeys t

mutual
  /-- a value of the child-list model as the Python value the translated functions see -/
  def embA : Arg → PVal
    | .none => .none
    | .num k t => numVal k t
    | .node n => embNode n
    | .list xs => .list (embAs xs)
    | .tuple xs => .tuple (embAs xs)
    | .taglist xs => .obj "TagList" [("data", .list (embAs xs))]
    | .seqLike k xs => embSeq k (embAs xs) (dictKeys xs)
    | .bad k => .obj "Opaque" [("id", .int k)]
  def embAs : Args → List PVal
    | .nil => []
    | .cons h t => embA h :: embAs t
end

/-- `isinstance(x, str)` items only -/
def argsAllText : Args → Bool
  | .nil => true
  | .cons (.node (.text _)) t => argsAllText t
  | .cons _ _ => false

mutual
  /-- the value is representable in the fragment's universe: number texts are `numOk`, dict keys are strings -/
  def argRep : Arg → Bool
    | .num k t => numOk k t
    | .list xs => argsRep xs
    | .tuple xs => argsRep xs
    | .taglist xs => argsRep xs
    | .seqLike k xs => argsRep xs && (k != .dict || argsAllText xs)
    | _ => true
  def argsRep : Args → Bool
    | .nil => true
    | .cons h t => argRep h && argsRep t
end

mutual
  /-- nesting depth of list / tuple / TagList (what `_flatten_recurse` recurses into) -/
  def argFdepth : Arg → Nat
    | .list xs => argsFdepth xs + 1
    | .tuple xs => argsFdepth xs + 1
    | .taglist xs => argsFdepth xs + 1
    | _ => 0
  def argsFdepth : Args → Nat
    | .nil => 0
    | .cons h t => max (argFdepth h) (argsFdepth t)
end

/-- fuel that suffices for `flatten(x)` / `_tagchilds_to_tagnodes(x)` -/
def iterDepth : Arg → Nat
  | .list xs => argsFdepth xs
  | .tuple xs => argsFdepth xs
  | .taglist xs => argsFdepth xs
  | .seqLike _ xs => argsFdepth xs
  | _ => 0

def embStored (x : Stored) : PVal := embA x.toArg

/-- a TagList with this `.data` -/
def embTL (s : TL) : PVal := .obj "TagList" [("data", .list (s.map embStored))]

def tlRep (s : TL) : Bool := s.all fun x => argRep x.toArg

theorem embAs_toList (xs : Args) : embAs xs = xs.toList.map embA := by
  induction xs using Args.rec (motive_1 := fun _ => True) with
  | nil => rfl
  | cons h t _ ih => simp [embAs, Args.toList, ih]
  | _ => trivial

theorem toList_ofList (l : List Arg) : (Args.ofList l).toList = l := by
  induction l with
  | nil => rfl
  | cons a t ih => simp [Args.ofList, Args.toList, ih]

theorem embAs_ofList (l : List Arg) : embAs (Args.ofList l) = l.map embA := by
  rw [embAs_toList, toList_ofList]

theorem rep_toList (xs : Args) : argsRep xs = xs.toList.all argRep := by
  induction xs using Args.rec (motive_1 := fun _ => True) with
  | nil => rfl
  | cons h t _ ih => simp [argsRep, Args.toList, ih]
  | _ => trivial

theorem fdepth_mem (xs : Args) (c : Arg) (h : c ∈ xs.toList) : argFdepth c ≤ argsFdepth xs := by
  induction xs using Args.rec (motive_1 := fun _ => True) with
  | nil => simp [Args.toList] at h
  | cons x t _ ih =>
    simp only [Args.toList, List.mem_cons] at h
    simp only [argsFdepth]
    rcases h with rfl | h
    · omega
    · have := ih h; omega
  | _ => trivial

theorem dictKeys_allText (xs : Args) (h : argsAllText xs = true) :
    (dictKeys xs).map (fun kv => PVal.str kv.1) = embAs xs := by
  induction xs using Args.rec (motive_1 := fun _ => True) with
  | nil => rfl
  | cons x t _ ih =>
    cases x with
    | node n =>
      cases n <;> simp [argsAllText] at h
      simp [dictKeys, embAs, embA, embNode, ih h]
    | _ => simp [argsAllText] at h
  | _ => trivial

theorem embStored_ofArg (a : Arg) : embStored (Stored.ofArg a) = embA a := by
  cases a <;> rfl

theorem embTL_toArg (s : TL) : embA s.toArg = embTL s := by
  simp [TL.toArg, TL.toArgs, embA, embAs_ofList, embTL, embStored, Function.comp_def]

theorem rep_toArg (s : TL) : argRep s.toArg = tlRep s := by
  simp [TL.toArg, TL.toArgs, argRep, rep_toList, toList_ofList, tlRep, List.all_map, Function.comp_def]

/-! ### iteration -/

/-- `iter(x)` on an embedded value: the embedded items, or TypeError exactly when the model says so -/
theorem pyIter_emb (x : Arg) (hr : argRep x = true) :
    pyIter (embA x) = match x.iter with
      | .ok items => .ok (embAs items)
      | .error e => .error (embErr e) := by
  cases x with
  | none => rfl
  | num k t => cases k <;> rfl
  | node n =>
    cases n with
    | text s => simp [embA, embNode, pyIter, Arg.iter, strChars, embAs_ofList, Function.comp_def]
    | html s => simp [embA, embNode, pyIter, Arg.iter, htmlChars, embAs_ofList, Function.comp_def]
    | tobjL rh c => cases rh <;> simp [embA, embNode, pyIter, Arg.iter, embErr]
    | tobj1 rh c => cases rh <;> simp [embA, embNode, pyIter, Arg.iter, embErr]
    | _ => simp [embA, embNode, pyIter, Arg.iter, embErr]
  | list xs => rfl
  | tuple xs => rfl
  | taglist xs => simp [embA, pyIter, Arg.iter]
  | seqLike k xs =>
    cases k with
    | dict =>
      simp only [argRep, bne_self_eq_false, Bool.false_or, Bool.and_eq_true] at hr
      simp [embA, embSeq, pyIter, Arg.iter, dictKeys_allText xs hr.2]
    | _ => simp [embA, embSeq, seqName, pyIter, Arg.iter]
  | bad k => simp [embA, pyIter, Arg.iter, embErr]

/-! ### isinstance on embedded values

`isinstance(x, (c₁, …, cₙ))` is split into the single-class tests (`isInstance_cons2`), so that the facts below do not depend
on the order in which the source lists the classes. -/

theorem isInstance_cons2 (v : PVal) (c c' : String) (cs : List String) :
    isInstance v (c :: c' :: cs) = (isInstance v [c] || isInstance v (c' :: cs)) := by
  cases v <;> simp [isInstance, List.any_cons]

/-- which class-name tests of the C14 functions hold of a model value -/
def argIsList : Arg → Bool
  | .list _ => true
  | _ => false
def argIsTuple : Arg → Bool
  | .tuple _ => true
  | _ => false
def argIsTL : Arg → Bool
  | .taglist _ => true
  | _ => false
/-- `isinstance(x, int)` (bool is a subclass of int) -/
def argIsInt : Arg → Bool
  | .num .int _ => true
  | .num .bool _ => true
  | _ => false
def argIsFloat : Arg → Bool
  | .num .float _ => true
  | _ => false

theorem isStr_emb (x : Arg) : isInstance (embA x) ["str"] = x.isStr := by
  cases x with
  | node n => cases n <;> simp [embA, embNode, isInstance, builtinClasses, classBases, Arg.isStr]
  | num k t => cases k <;> simp [embA, numVal, isInstance, builtinClasses, Arg.isStr]
  | seqLike k xs => cases k <;> simp [embA, embSeq, seqName, isInstance, builtinClasses, classBases, Arg.isStr]
  | _ => simp [embA, isInstance, builtinClasses, classBases, Arg.isStr]

theorem isList_emb (x : Arg) : isInstance (embA x) ["list"] = argIsList x := by
  cases x with
  | node n => cases n <;> simp [embA, embNode, isInstance, builtinClasses, classBases, argIsList]
  | num k t => cases k <;> simp [embA, numVal, isInstance, builtinClasses, argIsList]
  | seqLike k xs => cases k <;> simp [embA, embSeq, seqName, isInstance, builtinClasses, classBases, argIsList]
  | _ => simp [embA, isInstance, builtinClasses, classBases, argIsList]

theorem isTuple_emb (x : Arg) : isInstance (embA x) ["tuple"] = argIsTuple x := by
  cases x with
  | node n => cases n <;> simp [embA, embNode, isInstance, builtinClasses, classBases, argIsTuple]
  | num k t => cases k <;> simp [embA, numVal, isInstance, builtinClasses, argIsTuple]
  | seqLike k xs => cases k <;> simp [embA, embSeq, seqName, isInstance, builtinClasses, classBases, argIsTuple]
  | _ => simp [embA, isInstance, builtinClasses, classBases, argIsTuple]

theorem isTL_emb (x : Arg) : isInstance (embA x) ["TagList"] = argIsTL x := by
  cases x with
  | node n => cases n <;> simp [embA, embNode, isInstance, builtinClasses, classBases, argIsTL]
  | num k t => cases k <;> simp [embA, numVal, isInstance, builtinClasses, argIsTL]
  | seqLike k xs => cases k <;> simp [embA, embSeq, seqName, isInstance, builtinClasses, classBases, argIsTL]
  | _ => simp [embA, isInstance, builtinClasses, classBases, argIsTL]

theorem isInt_emb (x : Arg) : isInstance (embA x) ["int"] = argIsInt x := by
  cases x with
  | node n => cases n <;> simp [embA, embNode, isInstance, builtinClasses, classBases, argIsInt]
  | num k t => cases k <;> simp [embA, numVal, isInstance, builtinClasses, argIsInt]
  | seqLike k xs => cases k <;> simp [embA, embSeq, seqName, isInstance, builtinClasses, classBases, argIsInt]
  | _ => simp [embA, isInstance, builtinClasses, classBases, argIsInt]

theorem isFloat_emb (x : Arg) : isInstance (embA x) ["float"] = argIsFloat x := by
  cases x with
  | node n => cases n <;> simp [embA, embNode, isInstance, builtinClasses, classBases, argIsFloat]
  | num k t => cases k <;> simp [embA, numVal, isInstance, builtinClasses, argIsFloat]
  | seqLike k xs => cases k <;> simp [embA, embSeq, seqName, isInstance, builtinClasses, classBases, argIsFloat]
  | _ => simp [embA, isInstance, builtinClasses, classBases, argIsFloat]

/-- `isinstance(x, (int, float))` -/
def argIsNum : Arg → Bool
  | .num _ _ => true
  | _ => false

/-- `isinstance(x, (list, tuple, TagList))` -/
def argIsNest : Arg → Bool
  | .list _ => true
  | .tuple _ => true
  | .taglist _ => true
  | _ => false

/-- `x is None` -/
def argIsNone : Arg → Bool
  | .none => true
  | _ => false

theorem isNone_emb (x : Arg) : isNone (embA x) = argIsNone x := by
  cases x with
  | node n => cases n <;> simp [embA, embNode, isNone, argIsNone]
  | num k t => cases k <;> simp [embA, numVal, isNone, argIsNone]
  | seqLike k xs => cases k <;> simp [embA, embSeq, seqName, isNone, argIsNone]
  | _ => simp [embA, isNone, argIsNone]

theorem pyListAppend_list (l : List PVal) (v : PVal) : pyListAppendA (.list l) v = .ok (.list (l ++ [v])) := rfl

/-! ### `_flatten_recurse`: the loop over the items, one pass at the model level -/

theorem flattenInto_fold (xs : Args) (acc : List Arg) :
    xs.toList.foldlM (m := Except Err) (fun b c => .ok (c.flattenItem b)) acc = .ok (xs.flattenInto acc) := by
  induction xs using Args.rec (motive_1 := fun _ => True) generalizing acc with
  | nil => rfl
  | cons h t _ ih =>
    simp only [Args.toList, List.foldlM_cons, Args.flattenInto, bind, Except.bind]
    exact ih _
  | _ => trivial

/-- whatever the body of `for item in x` is: if each pass does to `result` (the first component of the loop state; the rest
    `τ` is whatever other locals the loop assigns) what `Arg.flattenItem` does, the loop computes `Args.flattenInto`; stated
    with the continuation after the loop -/
theorem flat_loop_k {β τ : Type} (xs : Args) (acc : List Arg) (L : List PVal) (hL : L = xs.toList.map embA) (it0 : τ)
    (f : PVal → PVal × τ → PyM (ForInStep (PVal × τ)))
    (hstep : ∀ c ∈ xs.toList, ∀ (s : PVal × τ) (b : List Arg), s.1 = .list (b.map embA) →
      ∃ s', f (embA c) s = .ok (.yield s') ∧ s'.1 = .list ((c.flattenItem b).map embA))
    (k : PVal × τ → PyM β) (r : PyM β)
    (hk : ∀ s, s.1 = .list ((xs.flattenInto acc).map embA) → k s = r) :
    (forIn L (PVal.list (acc.map embA), it0) f >>= k) = r := by
  have sim := forIn_sim (fun (s : PVal × τ) (b : List Arg) => s.1 = .list (b.map embA)) embErr embA xs.toList f
    (fun c b => .ok (c.flattenItem b)) (PVal.list (acc.map embA), it0) acc rfl
    (by
      intro c hc s b hR
      obtain ⟨s', h1, h2⟩ := hstep c hc s b hR
      exact ⟨_, h1, s', rfl, h2⟩)
  rw [flattenInto_fold] at sim
  obtain ⟨s, hs, h1⟩ := sim
  rw [hL, hs, ok_bind]
  exact hk s h1

/-! ### `_tagchilds_to_tagnodes`: the loop over `enumerate(result)` -/

/-- `enumerate` from `k` -/
def enumP : Nat → List Arg → List (Nat × Arg)
  | _, [] => []
  | k, a :: r => (k, a) :: enumP (k + 1) r

/-- an `(index, item)` pair as `enumerate` yields it -/
def embIdx (p : Nat × Arg) : PVal := .tuple [.int p.1, embA p.2]

theorem enumP_mem (L : List Arg) (k : Nat) (p : Nat × Arg) (h : p ∈ enumP k L) : k ≤ p.1 ∧ p.1 < k + L.length := by
  induction L generalizing k with
  | nil => simp [enumP] at h
  | cons a r ih =>
    simp only [enumP, List.mem_cons] at h
    rcases h with rfl | h
    · simp
    · have := ih (k + 1) h; simp only [List.length_cons]; omega

theorem zip_range' (L : List Arg) (k : Nat) :
    ((List.range' k L.length).zip (L.map embA)).map (fun p => PVal.tuple [PVal.int (p.1 : Nat), p.2])
      = (enumP k L).map embIdx := by
  induction L generalizing k with
  | nil => rfl
  | cons a r ih =>
    simp only [List.length_cons, List.range'_succ, List.map_cons, List.zip_cons_cons, enumP, embIdx]
    rw [ih (k + 1)]

theorem pyEnumerate_emb (L : List Arg) :
    pyEnumerate (.list (L.map embA)) = .ok (.list ((enumP 0 L).map embIdx)) := by
  simp only [pyEnumerate, pyIter_list, ok_bind, pure_eq_ok, List.length_map, List.range_eq_range']
  rw [zip_range']

/-- what one pass of the conversion loop does to `result` (as a list of Python values) -/
def convStep (p : Nat × Arg) (b : List PVal) : Except Err (List PVal) :=
  match p.2 with
  | .num _ t => .ok (b.set p.1 (.str t))
  | a => if a.isTagNode then .ok b else .error .typeError

theorem convStep_num (i : Nat) (k : NumKind) (t : Str) (b : List PVal) :
    convStep (i, .num k t) b = .ok (b.set i (.str t)) := rfl

theorem convStep_other (i : Nat) (a : Arg) (b : List PVal) (h : argIsNum a = false) :
    convStep (i, a) b = if a.isTagNode then .ok b else .error .typeError := by
  cases a <;> first | rfl | simp [argIsNum] at h

theorem convStep_fold (rest : List Arg) (pre : List PVal) :
    (enumP pre.length rest).foldlM (fun b c => convStep c b) (pre ++ rest.map embA)
      = match convertLoop rest with
        | .ok r => .ok (pre ++ r.map embStored)
        | .error e => .error e := by
  induction rest generalizing pre with
  | nil => simp [enumP, convertLoop, pure, Except.pure]
  | cons a r ih =>
    have hlen : (pre ++ [embA a]).length = pre.length + 1 := by simp
    simp only [enumP, List.foldlM_cons, List.map_cons]
    by_cases hn : argIsNum a = true
    · cases a <;> simp [argIsNum] at hn
      rename_i k t
      rw [convStep_num]
      have hset : (pre ++ embA (Arg.num k t) :: r.map embA).set pre.length (PVal.str t) = (pre ++ [PVal.str t]) ++ r.map embA := by
        simp
      have ih' := ih (pre ++ [PVal.str t])
      simp only [List.length_append, List.length_cons, List.length_nil, Nat.zero_add] at ih'
      simp only [bind, Except.bind, hset, ih', convertLoop]
      cases convertLoop r <;> simp [embStored, Stored.toArg, embA, embNode]
    · have hn' : argIsNum a = false := by simpa using hn
      rw [convStep_other _ _ _ hn']
      have hcl : convertLoop (a :: r) = if a.isTagNode then
          (match convertLoop r with
            | .ok r' => .ok (Stored.ofArg a :: r')
            | .error e => .error e) else .error .typeError := by
        cases a <;> first | rfl | simp [argIsNum] at hn'
      rw [hcl]
      by_cases ht : a.isTagNode = true
      · have ih' := ih (pre ++ [embA a])
        simp only [List.length_append, List.length_cons, List.length_nil, Nat.zero_add, List.append_assoc, List.cons_append,
          List.nil_append] at ih'
        simp only [ht, if_true, bind, Except.bind, ih']
        cases convertLoop r <;> simp [embStored_ofArg]
      · simp [ht, bind, Except.bind]

theorem pySetItem_list_nat (b : List PVal) (i : Nat) (v : PVal) (h : i < b.length) :
    pySetItem (.list b) (.int i) v = .ok (.list (b.set i v)) := by
  have h1 : ¬ ((i : Int) < 0) := by omega
  simp only [pySetItem, h1, if_false, Int.toNat_natCast]
  simp only [pure_eq_ok, throw_eq_error]
  split
  · rename_i h2; rcases h2 with h2 | h2
    · exact absurd h2 (by simp)
    · exact absurd h (by omega)
  · rfl

/-- whatever the body of `for i, item in enumerate(result)` is: if each pass does to `result` what `convStep` does (or
    raises TypeError when it does), the loop followed by `return result` is `convertLoop` -/
theorem conv_loop {τ : Type} (L : List Arg) (t0 : τ)
    (f : PVal → PVal × τ → PyM (ForInStep (PVal × τ)))
    (hstep : ∀ p ∈ enumP 0 L, ∀ (s : PVal × τ) (b : List PVal), s.1 = .list b → b.length = L.length →
      Sim (fun (r : ForInStep (PVal × τ)) b' => ∃ s', r = .yield s' ∧ s'.1 = .list b' ∧ b'.length = L.length) embErr
        (f (embIdx p) s) (convStep p b)) :
    (do
      let s ← forIn ((enumP 0 L).map embIdx) (PVal.list (L.map embA), t0) f
      Except.ok s.1 : PyM PVal)
      = embRes (fun r => .list (r.map embStored)) (convertLoop L) := by
  have sim := forIn_sim (fun (s : PVal × τ) (b : List PVal) => s.1 = .list b ∧ b.length = L.length) embErr embIdx
    (enumP 0 L) f (fun c b => convStep c b) (PVal.list (L.map embA), t0) (L.map embA) ⟨rfl, by simp⟩
    (by
      intro p hp s b hR
      have := hstep p hp s b hR.1 hR.2
      cases hc : convStep p b with
      | error e => rw [hc] at this; exact this
      | ok b' =>
        rw [hc] at this
        obtain ⟨r, hr, s', rfl, h1, h2⟩ := this
        exact ⟨_, hr, s', rfl, h1, h2⟩)
  have cf := convStep_fold L []
  simp only [List.length_nil, List.nil_append] at cf
  rw [cf] at sim
  cases hcl : convertLoop L with
  | error e =>
    rw [hcl] at sim
    simp only [Sim] at sim
    rw [sim]; rfl
  | ok r =>
    rw [hcl] at sim
    obtain ⟨s, hs, h1, _⟩ := sim
    rw [hs]
    simp [embRes, h1]

/-! ### representability and depth are inherited by what iteration / flattening yields -/

theorem flatten_rep (items : Args) (hr : argsRep items = true) : ∀ a ∈ flatten items, argRep a = true := by
  have key : ∀ n, (∀ (xs : Args), argsFdepth xs ≤ n → argsRep xs = true → ∀ (acc : List Arg), (∀ a ∈ acc, argRep a = true) →
      ∀ a ∈ xs.flattenInto acc, argRep a = true) := by
    intro n
    induction n with
    | zero =>
      intro xs
      induction xs using Args.rec (motive_1 := fun _ => True) with
      | nil => intro _ _ acc hacc; simpa [Args.flattenInto] using hacc
      | cons c t _ iht =>
        intro hd hrep acc hacc
        simp only [argsFdepth, argsRep, Bool.and_eq_true] at hd hrep
        simp only [Args.flattenInto]
        refine iht (by omega) hrep.2 _ ?_
        cases c <;> simp [argFdepth] at hd <;> simp only [Arg.flattenItem] <;> first
          | exact hacc
          | (intro a ha; simp only [List.mem_append, List.mem_singleton] at ha; rcases ha with ha | rfl
             · exact hacc a ha
             · exact hrep.1)
      | _ => trivial
    | succ n ih =>
      intro xs
      induction xs using Args.rec (motive_1 := fun _ => True) with
      | nil => intro _ _ acc hacc; simpa [Args.flattenInto] using hacc
      | cons c t _ iht =>
        intro hd hrep acc hacc
        simp only [argsFdepth, argsRep, Bool.and_eq_true] at hd hrep
        simp only [Args.flattenInto]
        refine iht (by omega) hrep.2 _ ?_
        cases c with
        | list ys => exact ih ys (by simp [argFdepth] at hd; omega) (by simpa [argRep] using hrep.1) acc hacc
        | tuple ys => exact ih ys (by simp [argFdepth] at hd; omega) (by simpa [argRep] using hrep.1) acc hacc
        | taglist ys => exact ih ys (by simp [argFdepth] at hd; omega) (by simpa [argRep] using hrep.1) acc hacc
        | none => exact hacc
        | _ =>
          intro a ha; simp only [Arg.flattenItem, List.mem_append, List.mem_singleton] at ha; rcases ha with ha | rfl
          · exact hacc a ha
          · exact hrep.1
      | _ => trivial
  exact key (argsFdepth items) items (Nat.le_refl _) hr [] (by simp)

theorem iter_rep (x : Arg) (hr : argRep x = true) (items : Args) (hx : x.iter = .ok items) : argsRep items = true := by
  have chars : ∀ (l : List Arg), (∀ a ∈ l, argRep a = true) → argsRep (Args.ofList l) = true := by
    intro l; induction l with
    | nil => intro _; rfl
    | cons a t ih => intro hl; simp [Args.ofList, argsRep, hl a (by simp), ih (fun b hb => hl b (by simp [hb]))]
  cases x with
  | node n =>
    cases n <;> simp [Arg.iter] at hx <;> subst hx
    · exact chars _ (by intro a ha; simp at ha; obtain ⟨c, _, rfl⟩ := ha; rfl)
    · exact chars _ (by intro a ha; simp at ha; obtain ⟨c, _, rfl⟩ := ha; rfl)
  | list ys => simp [Arg.iter] at hx; subst hx; simpa [argRep] using hr
  | tuple ys => simp [Arg.iter] at hx; subst hx; simpa [argRep] using hr
  | taglist ys => simp [Arg.iter] at hx; subst hx; simpa [argRep] using hr
  | seqLike k ys => simp [Arg.iter] at hx; subst hx; simp [argRep] at hr; exact hr.1
  | _ => simp [Arg.iter] at hx

theorem fdepth_ofList_le (l : List Arg) (n : Nat) (h : ∀ a ∈ l, argFdepth a ≤ n) : argsFdepth (Args.ofList l) ≤ n := by
  induction l with
  | nil => exact Nat.zero_le _
  | cons a t ih =>
    simp only [Args.ofList, argsFdepth]
    have := h a (by simp)
    have := ih (fun b hb => h b (by simp [hb]))
    omega

theorem rep_ofList (l : List Arg) : argsRep (Args.ofList l) = l.all argRep := by
  rw [rep_toList, toList_ofList]

/-- what iterating `x` yields is nested no deeper than `iterDepth x` -/
theorem iter_fdepth (x : Arg) (items : Args) (hx : x.iter = .ok items) : argsFdepth items ≤ iterDepth x := by
  cases x with
  | node n =>
    cases n <;> simp [Arg.iter] at hx <;> subst hx
    · unfold strChars
      exact fdepth_ofList_le _ _ (by intro a ha; simp only [List.mem_map] at ha; obtain ⟨c, _, rfl⟩ := ha; exact Nat.zero_le _)
    · unfold htmlChars
      exact fdepth_ofList_le _ _ (by intro a ha; simp only [List.mem_map] at ha; obtain ⟨c, _, rfl⟩ := ha; exact Nat.zero_le _)
  | list ys => simp [Arg.iter] at hx; subst hx; exact Nat.le_refl _
  | tuple ys => simp [Arg.iter] at hx; subst hx; exact Nat.le_refl _
  | taglist ys => simp [Arg.iter] at hx; subst hx; exact Nat.le_refl _
  | seqLike k ys => simp [Arg.iter] at hx; subst hx; exact Nat.le_refl _
  | _ => simp [Arg.iter] at hx

/-! ### TagList operations -/

/-- outcome of a mutating TagList method in the functional reading: the new receiver, or the exception -/
def embOut (o : StepOut) : PyM PVal :=
  match o.result with
  | .ok _ => .ok (embTL o.state)
  | .error e => .error (embErr e)

/-- nesting depth of a TagList's own `.data` -/
def tlDepth (s : TL) : Nat := argsFdepth s.toArgs

theorem fdepth_toArg (s : TL) : argFdepth s.toArg = tlDepth s + 1 := rfl

theorem bind_ok_self {α : Type} (x : PyM α) : (x >>= fun a => Except.ok a) = x := by
  cases x <;> rfl

theorem userListInit_new (xs : List PVal) :
    userListInit (.obj "TagList" []) (.list xs) = .ok (.obj "TagList" [("data", .list xs)]) := rfl

theorem userListExtend_tl (ds xs : List PVal) :
    userListExtend (.obj "TagList" [("data", .list ds)]) (.list xs) = .ok (.obj "TagList" [("data", .list (ds ++ xs))]) := by
  simp [userListExtend, fieldGet?, fieldSet]

theorem userListSliceInsert_tl (ds xs : List PVal) (i : Int) :
    userListSliceInsert (.obj "TagList" [("data", .list ds)]) (.int i) (.list xs)
      = .ok (.obj "TagList" [("data", .list (ds.take (HtmlVerif.clampIdx ds.length i) ++ xs ++ ds.drop (HtmlVerif.clampIdx ds.length i)))]) := by
  simp [userListSliceInsert, fieldGet?, fieldSet, Py.clampIdx, HtmlVerif.clampIdx]

end HtmlVerif.SrcTie
