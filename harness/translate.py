#!/usr/bin/env python3
"""Translator: /repo source (ast only, nothing imported/executed) -> Lean tables.

Regenerates lean/HtmlVerif/Generated/Tables.lean and TagFns.lean from the *current*
working tree of the repository.  Files are rewritten only if their text changes so
that `lake build` stays incremental.  Anything whose shape is not the required one is
emitted as an explicit `shapeOk := false` row / `allShapesOk := false` flag, which
makes the dependent Lean theorem fail instead of silently dropping the entry.
"""
from __future__ import annotations

import ast
import hashlib
import json
import os
import sys

HERE = os.path.dirname(os.path.abspath(__file__))
VERIF = os.path.dirname(HERE)
REPO = os.environ.get("VERIF_REPO", "/repo")
GEN = os.path.join(VERIF, "lean", "HtmlVerif", "Generated")


# ---------------------------------------------------------------- Lean printing
def lchar(c: str) -> str:
    if c.isascii() and (c.isalnum() or c in " -_.:;,/=+*()[]{}<>&#@!?%^~|$`"):
        return "'" + c + "'"
    return f"Char.ofNat {ord(c)}"


def lstr(s: str) -> str:
    return "[" + ", ".join(lchar(c) for c in s) + "]"


def lbool(b: bool) -> str:
    return "true" if b else "false"


def llist(items: list[str], per_line: int = 1, indent: str = "  ") -> str:
    if not items:
        return "[]"
    return "[\n" + ",\n".join(indent + it for it in items) + "\n]"


# ---------------------------------------------------------------- AST helpers
def parse(rel: str) -> ast.Module:
    with open(os.path.join(REPO, rel), encoding="utf-8") as f:
        return ast.parse(f.read(), filename=rel)


def top_assign(mod: ast.Module, name: str) -> ast.expr | None:
    found = None
    for node in mod.body:
        if isinstance(node, ast.Assign):
            for t in node.targets:
                if isinstance(t, ast.Name) and t.id == name:
                    found = node.value
        elif isinstance(node, ast.AnnAssign) and isinstance(node.target, ast.Name):
            if node.target.id == name and node.value is not None:
                found = node.value
    return found


def str_const(e: ast.expr | None) -> str | None:
    if isinstance(e, ast.Constant) and isinstance(e.value, str):
        return e.value
    return None


def str_collection(e: ast.expr | None) -> tuple[list[str], bool]:
    """Set/list/tuple display of string constants -> (values in source order, ok)."""
    if not isinstance(e, (ast.Set, ast.List, ast.Tuple)):
        return [], False
    out, ok = [], True
    for el in e.elts:
        s = str_const(el)
        if s is None:
            ok = False
        else:
            out.append(s)
    return out, ok


def dict_table(mod: ast.Module, name: str, seen: tuple[str, ...] = ()) -> tuple[list[tuple[str, str]], bool]:
    """Dict display of str->str with `**OTHER` spreads resolved, source order kept.
    Python dict semantics: a repeated key keeps its first position, takes last value."""
    e = top_assign(mod, name)
    if not isinstance(e, ast.Dict) or name in seen:
        return [], False
    ok = True
    items: dict[str, str] = {}
    for k, v in zip(e.keys, e.values):
        if k is None:  # ** spread
            if isinstance(v, ast.Name):
                sub, sok = dict_table(mod, v.id, seen + (name,))
                ok = ok and sok
                for kk, vv in sub:
                    items[kk] = vv
            else:
                ok = False
            continue
        ks, vs = str_const(k), str_const(v)
        if ks is None or vs is None:
            ok = False
            continue
        items[ks] = vs
    return list(items.items()), ok


REGEX_SPECIAL = set(".^$*+?{}[]\\|()")


# ---------------------------------------------------------------- tag wrappers
def tag_fn_rows(rel: str, modname: str) -> tuple[list[dict], list[str]]:
    mod = parse(rel)
    rows = []
    for node in mod.body:
        if not isinstance(node, (ast.FunctionDef, ast.AsyncFunctionDef)):
            continue
        row = {"mod": modname, "fn": node.name, "lit": "", "dflt": True, "shape": False}
        a = node.args
        sig_ok = (
            isinstance(node, ast.FunctionDef)
            and not node.decorator_list
            and not a.posonlyargs
            and not a.args
            and a.vararg is not None
            and a.vararg.arg == "args"
            and len(a.kwonlyargs) == 1
            and a.kwonlyargs[0].arg == "_add_ws"
            and len(a.kw_defaults) == 1
            and isinstance(a.kw_defaults[0], ast.Constant)
            and isinstance(a.kw_defaults[0].value, bool)
            and a.kwarg is not None
            and a.kwarg.arg == "kwargs"
        )
        if sig_ok:
            row["dflt"] = bool(a.kw_defaults[0].value)  # type: ignore[union-attr]
        body = list(node.body)
        if body and isinstance(body[0], ast.Expr) and str_const(body[0].value) is not None:
            body = body[1:]
        body_ok = False
        if len(body) == 1 and isinstance(body[0], ast.Return):
            c = body[0].value
            if (
                isinstance(c, ast.Call)
                and isinstance(c.func, ast.Name)
                and c.func.id == "Tag"
                and len(c.args) == 2
                and str_const(c.args[0]) is not None
                and isinstance(c.args[1], ast.Starred)
                and isinstance(c.args[1].value, ast.Name)
                and c.args[1].value.id == "args"
                and len(c.keywords) == 2
                and c.keywords[0].arg == "_add_ws"
                and isinstance(c.keywords[0].value, ast.Name)
                and c.keywords[0].value.id == "_add_ws"
                and c.keywords[1].arg is None
                and isinstance(c.keywords[1].value, ast.Name)
                and c.keywords[1].value.id == "kwargs"
            ):
                body_ok = True
                row["lit"] = str_const(c.args[0])
        row["shape"] = bool(sig_ok and body_ok)
        rows.append(row)
    # `Tag` must be the one imported from ._core and not rebound at module level
    tag_import_ok = False
    rebound = False
    for node in mod.body:
        if isinstance(node, ast.ImportFrom) and node.module == "_core" and node.level == 1:
            if any(al.name == "Tag" and al.asname is None for al in node.names):
                tag_import_ok = True
        elif isinstance(node, (ast.Assign, ast.AnnAssign, ast.ClassDef)):
            names = []
            if isinstance(node, ast.Assign):
                names = [t.id for t in node.targets if isinstance(t, ast.Name)]
            elif isinstance(node, ast.AnnAssign) and isinstance(node.target, ast.Name):
                names = [node.target.id]
            elif isinstance(node, ast.ClassDef):
                names = [node.name]
            if "Tag" in names:
                rebound = True
    if not tag_import_ok or rebound:
        for r in rows:
            r["shape"] = False
    all_names, _ = str_collection(top_assign(mod, "__all__"))
    return rows, all_names


def row_lean(r: dict) -> str:
    return (
        "{ modName := " + lstr(r["mod"]) + ", fnName := " + lstr(r["fn"]) + ", tagLit := "
        + lstr(r["lit"]) + ", dflt := " + lbool(r["dflt"]) + ", shapeOk := " + lbool(r["shape"]) + " }"
    )


# ---------------------------------------------------------------- function fingerprints
class _StripDoc(ast.NodeTransformer):
    def _strip(self, node):
        self.generic_visit(node)
        if node.body and isinstance(node.body[0], ast.Expr) and str_const(node.body[0].value) is not None:
            node.body = node.body[1:] or [ast.Pass()]
        return node

    visit_FunctionDef = _strip
    visit_AsyncFunctionDef = _strip
    visit_ClassDef = _strip


def fingerprints() -> dict[str, str]:
    out: dict[str, str] = {}
    for rel in ("htmltools/_core.py", "htmltools/_util.py", "htmltools/_jsx.py", "htmltools/__init__.py"):
        try:
            mod = _StripDoc().visit(parse(rel))
        except Exception:
            continue

        def walk(body, prefix):
            for node in body:
                if isinstance(node, (ast.FunctionDef, ast.AsyncFunctionDef)):
                    key = f"{rel}:{prefix}{node.name}"
                    out[key] = hashlib.sha1(ast.dump(node).encode()).hexdigest()[:16]
                elif isinstance(node, ast.ClassDef):
                    walk(node.body, prefix + node.name + ".")
                elif isinstance(node, ast.Assign) and prefix == "":
                    for t in node.targets:
                        if isinstance(t, ast.Name):
                            key = f"{rel}:{t.id}"
                            out[key] = hashlib.sha1(ast.dump(node.value).encode()).hexdigest()[:16]

        walk(mod.body, "")
    return out


# ---------------------------------------------------------------- main
def generate() -> dict:
    info: dict = {"problems": []}
    core = parse("htmltools/_core.py")
    util = parse("htmltools/_util.py")
    init = parse("htmltools/__init__.py")

    void, ok1 = str_collection(top_assign(core, "_VOID_TAG_NAMES"))
    noesc, ok2 = str_collection(top_assign(core, "_NO_ESCAPE_TAG_NAMES"))
    text_tbl, ok3 = dict_table(util, "HTML_ESCAPE_TABLE")
    attr_tbl, ok4 = dict_table(util, "HTML_ATTRS_ESCAPE_TABLE")
    for nm, tbl in (("HTML_ESCAPE_TABLE", text_tbl), ("HTML_ATTRS_ESCAPE_TABLE", attr_tbl)):
        for k, _ in tbl:
            if len(k) != 1:
                info["problems"].append(f"{nm}: key {k!r} is not a single character")
            elif k in REGEX_SPECIAL:
                info["problems"].append(f"{nm}: key {k!r} is a regex metacharacter (guard not modelled)")
    try:
        gen = parse("scripts/generate_tags.py")
        inline, ok5 = str_collection(top_assign(gen, "_INLINE_TAG_NAMES"))
    except Exception as e:  # file removed: classification unavailable
        inline, ok5 = [], False
        info["problems"].append(f"scripts/generate_tags.py: {e}")
    try:
        vers_mod = parse("htmltools/_versions.py")
        vers_e = top_assign(vers_mod, "versions")
        vers: list[tuple[str, str]] = []
        ok6 = isinstance(vers_e, ast.Dict)
        if ok6:
            for k, v in zip(vers_e.keys, vers_e.values):  # type: ignore[union-attr]
                ks, vs = str_const(k), str_const(v)
                if ks is None or vs is None:
                    ok6 = False
                else:
                    vers.append((ks, vs))
    except Exception as e:
        vers, ok6 = [], False
        info["problems"].append(f"_versions.py: {e}")

    for nm, ok in (("_VOID_TAG_NAMES", ok1), ("_NO_ESCAPE_TAG_NAMES", ok2), ("HTML_ESCAPE_TABLE", ok3),
                   ("HTML_ATTRS_ESCAPE_TABLE", ok4), ("_INLINE_TAG_NAMES", ok5), ("versions", ok6)):
        if not ok:
            info["problems"].append(f"{nm}: not a display of string constants")
    all_ok = not info["problems"]

    html_rows, tags_all = tag_fn_rows("htmltools/tags.py", "tags")
    svg_rows, _ = tag_fn_rows("htmltools/svg.py", "svg")

    # re-exports in __init__: `from .tags import (...)` names and __all__
    reexports: list[str] = []
    reexp_ok = True
    for node in init.body:
        if isinstance(node, ast.ImportFrom) and node.module == "tags" and node.level == 1:
            for al in node.names:
                if al.asname not in (None, al.name):
                    reexp_ok = False
                reexports.append(al.name)
    init_all, ok7 = str_collection(top_assign(init, "__all__"))
    # names rebound at top level of __init__ after import would shadow the re-export
    for node in init.body:
        if isinstance(node, (ast.FunctionDef, ast.ClassDef)) and node.name in reexports:
            reexp_ok = False
        if isinstance(node, ast.Assign):
            for t in node.targets:
                if isinstance(t, ast.Name) and t.id in reexports:
                    reexp_ok = False
    mode_default = str_const(top_assign(init, "html_dependency_render_mode"))

    def tbl_lean(tbl):
        return llist(["(" + lchar(k[0] if k else "\0") + ", " + lstr(v) + ")" for k, v in tbl])

    tables = f"""-- GENERATED by harness/translate.py from {REPO} — do not edit.
import HtmlVerif.Model.Str

namespace HtmlVerif.Generated
open HtmlVerif

/-- every table had the required syntactic shape in the source -/
def allShapesOk : Bool := {lbool(all_ok)}

/-- `_VOID_TAG_NAMES` (sorted) -/
def voidNames : List Str := {llist([lstr(s) for s in sorted(set(void))])}

/-- `_NO_ESCAPE_TAG_NAMES` (sorted) -/
def noescNames : List Str := {llist([lstr(s) for s in sorted(set(noesc))])}

/-- `HTML_ESCAPE_TABLE`, source order -/
def textTbl : List (Char × Str) := {tbl_lean(text_tbl)}

/-- `HTML_ATTRS_ESCAPE_TABLE`, source order, `**` spread resolved -/
def attrTbl : List (Char × Str) := {tbl_lean(attr_tbl)}

/-- `_INLINE_TAG_NAMES` of scripts/generate_tags.py (sorted) -/
def inlineNames : List Str := {llist([lstr(s) for s in sorted(set(inline))])}

/-- `versions` of _versions.py -/
def reactVersions : List (Str × Str) := {llist(["(" + lstr(k) + ", " + lstr(v) + ")" for k, v in vers])}

/-- default of `html_dependency_render_mode` -/
def renderModeDefault : Str := {lstr(mode_default or "?")}

end HtmlVerif.Generated
"""
    tagfns = f"""-- GENERATED by harness/translate.py from {REPO} — do not edit.
import HtmlVerif.Model.Str

namespace HtmlVerif.Generated
open HtmlVerif

structure TagFnRow where
  modName : Str
  fnName  : Str
  tagLit  : Str
  dflt    : Bool
  shapeOk : Bool

def htmlFns : List TagFnRow := {llist([row_lean(r) for r in html_rows])}

def svgFns : List TagFnRow := {llist([row_lean(r) for r in svg_rows])}

/-- names imported by `from .tags import (...)` in htmltools/__init__.py, source order -/
def reexports : List Str := {llist([lstr(s) for s in reexports])}

def reexportShapeOk : Bool := {lbool(reexp_ok and ok7)}

/-- `__all__` of htmltools/__init__.py -/
def initAll : List Str := {llist([lstr(s) for s in init_all])}

/-- `__all__` of htmltools/tags.py -/
def tagsAll : List Str := {llist([lstr(s) for s in tags_all])}

end HtmlVerif.Generated
"""
    os.makedirs(GEN, exist_ok=True)
    changed = []
    for fn, text in (("Tables.lean", tables), ("TagFns.lean", tagfns)):
        p = os.path.join(GEN, fn)
        old = None
        if os.path.exists(p):
            with open(p, encoding="utf-8") as f:
                old = f.read()
        if old != text:
            with open(p + ".tmp", "w", encoding="utf-8") as f:
                f.write(text)
            os.replace(p + ".tmp", p)
            changed.append(fn)
    info.update(
        changed=changed,
        void=sorted(set(void)), noesc=sorted(set(noesc)), text_tbl=text_tbl, attr_tbl=attr_tbl,
        inline=sorted(set(inline)), versions=vers, html_rows=html_rows, svg_rows=svg_rows,
        reexports=reexports, init_all=init_all, tags_all=tags_all, all_ok=all_ok,
        fingerprints=fingerprints(),
    )
    return info


if __name__ == "__main__":
    inf = generate()
    json.dump({k: inf[k] for k in ("changed", "problems", "all_ok")}, sys.stdout)
    print()
