"""Implementation side of the JSX ops (C20): wire codec of the component tree, realisation with real
`JSXTag` / `jsx_tag_create` / `jsx` / `Tag` / dependency objects and small tagifiable helper classes,
canonical deep snapshot and `id()` graph of a component.

  jnode := ('comp', name, [(key, jval)...], [jnode...]) | ('tag', name, [(key, ('p'|'h', val))...], [jnode...])
         | ('str', 'p'|'j'|'h', s) | ('meta', n) | ('dep', depinfo) | ('tobj', jnode) | ('tobjL', [jnode...])
  jval  := ('null',) | ('bool', b) | ('num', txt) | ('list', is_tuple, [jval...]) | ('dict', [(key, jval)...])
         | ('node', jnode)
"""
from __future__ import annotations

import os
import zlib

from adapters import Meta, canon, canon_dep, realize_dep, htmltools
from htmltools import HTML, HTMLDependency, MetadataNode, Tag, TagList
from htmltools import _jsx
from htmltools._jsx import JSXTag, jsx, jsx_tag_create
from ops import op
from wire import (Toks, eattrs, eb, edepinfo, elist, enode, err_of, es, p_attr, p_bool, p_depinfo, p_list, p_str)

import re

_ZUNSAFE = re.compile(r"[^A-Za-z0-9_\-.,;:!?(){}\[\]<>=+*/'\"&#@^|$`]")


def zs(s: str) -> str:
    """compact string token: `~` then the characters, unsafe ones as `%<hex>.`"""
    return "~" + _ZUNSAFE.sub(lambda m: "%%%x." % ord(m.group()), s)


BODY_MARK = "\ufffc"


def elide_body(s: str, term):
    """the script body is sent once, inside str(tag): replace it in the tag term when str(tag) = <open tag> + body + </script>"""
    if term[0] == "tag" and term[4] and term[4][0][0] == "html" and ">" in s:
        after = s[s.index(">") + 1:]
        if after.endswith("</script>") and after[: len(after) - len("</script>")] == term[4][0][1]:
            return term[:4] + ([("html", BODY_MARK)] + list(term[4][1:]),)
    return term


ALIEN = "⟪alien:%s⟫"   # marks an object of an unexpected type inside a snapshot


# ------------------------------------------------------------------ helper classes
class JTObj:
    """Tagifiable object (neither Tag nor JSXTag); tagify() returns its stored expansion."""

    def __init__(self, exp):
        self.exp = exp

    def tagify(self):
        return self.exp


class JTObjL:
    """Tagifiable object whose tagify() returns a (stored) TagList."""

    def __init__(self, items):
        self.exp = TagList(*items)

    def tagify(self):
        return self.exp


# ------------------------------------------------------------------ wire
def ejnode(n) -> str:
    k = n[0]
    if k == "comp":
        return "comp " + es(n[1]) + " " + ejprops(n[2]) + " " + ejnodes(n[3])
    if k == "tag":
        return "tag " + es(n[1]) + " " + eattrs(n[2]) + " " + ejnodes(n[3])
    if k == "str":
        return "str " + n[1] + " " + es(n[2])
    if k == "meta":
        return "meta " + str(n[1])
    if k == "dep":
        return "dep " + edepinfo(n[1])
    if k == "tobj":
        return "tobj " + ejnode(n[1])
    if k == "tobjL":
        return "tobjL " + ejnodes(n[1])
    raise ValueError(f"bad jnode {n!r}")


def ejnodes(ns) -> str:
    return elist([ejnode(n) for n in ns])


def ejval(v) -> str:
    k = v[0]
    if k == "null":
        return "vn"
    if k == "bool":
        return "vt" if v[1] else "vf"
    if k == "num":
        return "vm " + es(v[1])
    if k == "list":
        return "vl " + eb(v[1]) + " " + elist([ejval(x) for x in v[2]])
    if k == "dict":
        return "vd " + ejprops(v[1])
    if k == "node":
        return "vx " + ejnode(v[1])
    raise ValueError(f"bad jval {v!r}")


def ejprops(ps) -> str:
    return elist([es(k) + " " + ejval(v) for k, v in ps])


def eallowed(a) -> str:
    return "N" if a is None else "L " + elist([es(x) for x in a])


def p_jnode(t: Toks):
    k = t.next()
    if k == "comp":
        return ("comp", p_str(t), p_jprops(t), p_list(t, p_jnode))
    if k == "tag":
        return ("tag", p_str(t), p_list(t, p_attr), p_list(t, p_jnode))
    if k == "str":
        return ("str", t.next(), p_str(t))
    if k == "meta":
        return ("meta", int(t.next()))
    if k == "dep":
        return ("dep", p_depinfo(t))
    if k == "tobj":
        return ("tobj", p_jnode(t))
    if k == "tobjL":
        return ("tobjL", p_list(t, p_jnode))
    raise ValueError(k)


def p_jval(t: Toks):
    k = t.next()
    if k == "vn":
        return ("null",)
    if k == "vt":
        return ("bool", True)
    if k == "vf":
        return ("bool", False)
    if k == "vm":
        return ("num", p_str(t))
    if k == "vl":
        return ("list", p_bool(t), p_list(t, p_jval))
    if k == "vd":
        return ("dict", p_jprops(t))
    if k == "vx":
        return ("node", p_jnode(t))
    raise ValueError(k)


def p_jprops(t: Toks):
    return p_list(t, lambda t: (p_str(t), p_jval(t)))


def p_allowed(t: Toks):
    k = t.next()
    return None if k == "N" else p_list(t, p_str)


# ------------------------------------------------------------------ realise
def _h(term) -> int:
    return zlib.crc32(repr(term).encode())


def parse_num(txt: str):
    try:
        return int(txt)
    except ValueError:
        return float(txt)


def make_component(name, props, kids, route: int, allowed=None):
    """build a JSXTag, adding the children by one of several routes ("however it was added")"""
    r = route % 6
    if r == 0:
        return JSXTag(name, *kids, allowedProps=allowed, **props)
    if r == 1:
        return jsx_tag_create(name, allowed)(*kids, **props)
    if r == 2:   # nested list / TagList arguments are flattened
        mid = len(kids) // 2
        return JSXTag(name, kids[:mid], TagList(*kids[mid:]), allowedProps=allowed, **props)
    if r == 3:
        x = JSXTag(name, allowedProps=allowed, **props)
        for c in kids:
            x.append(c)
        return x
    if r == 4:
        x = JSXTag(name, *kids[:1], allowedProps=allowed, **props)
        x.extend(kids[1:])
        return x
    x = JSXTag(name, allowedProps=allowed, **props)
    for c in kids:   # JSXTag.append(*args) forwards to TagList.append(item): exactly one item per call
        x.append(*[c])
    return x


def realize_j(n):
    k = n[0]
    if k == "comp":
        props = {key: realize_val(v) for key, v in n[2]}
        kids = [realize_j(c) for c in n[3]]
        return make_component(n[1], props, kids, _h(n))
    if k == "tag":
        t = Tag(n[1], *[realize_j(c) for c in n[3]])
        for key, v in n[2]:   # stored (normalised) form: install without renormalising
            dict.__setitem__(t.attrs, key, HTML(v[1]) if v[0] == "h" else v[1])
        return t
    if k == "str":
        return {"p": str, "j": jsx, "h": HTML}[n[1]](n[2])
    if k == "meta":
        return Meta(n[1])
    if k == "dep":
        return realize_dep(n[1], False, [])
    if k == "tobj":
        return JTObj(realize_j(n[1]))
    if k == "tobjL":
        return JTObjL([realize_j(c) for c in n[1]])
    raise ValueError(n)


def realize_val(v):
    k = v[0]
    if k == "null":
        return None
    if k == "bool":
        return v[1]
    if k == "num":
        return parse_num(v[1])
    if k == "list":
        xs = [realize_val(x) for x in v[2]]
        return tuple(xs) if v[1] else xs
    if k == "dict":
        return {key: realize_val(x) for key, x in v[1]}
    if k == "node":
        return realize_j(v[1])
    raise ValueError(v)


# ------------------------------------------------------------------ canonical snapshot and id() graph
def canon_j(x):
    if isinstance(x, JSXTag):
        return ("comp", x.name, [(str(k), canon_val(v)) for k, v in x.attrs.items()], [canon_j(c) for c in x.children])
    if isinstance(x, Tag):
        return ("tag", x.name, [(k, ("h" if isinstance(v, HTML) else "p", str(v))) for k, v in x.attrs.items()],
                [canon_j(c) for c in x.children])
    if isinstance(x, jsx):
        return ("str", "j", str.__str__(x))
    if isinstance(x, str):
        return ("str", "p", x)
    if isinstance(x, HTML):
        return ("str", "h", x.as_string())
    if isinstance(x, Meta):
        return ("meta", x.n)
    if isinstance(x, HTMLDependency):
        return ("dep", canon_dep(x, None)[1])
    if isinstance(x, JTObj):
        return ("tobj", canon_j(x.exp))
    if isinstance(x, JTObjL):
        return ("tobjL", [canon_j(c) for c in x.exp])
    return ("str", "p", ALIEN % type(x).__name__)


def canon_val(v):
    if v is None:
        return ("null",)
    if isinstance(v, bool):
        return ("bool", v)
    if isinstance(v, (int, float)):
        return ("num", str(v))
    if isinstance(v, (list, tuple)):
        return ("list", isinstance(v, tuple), [canon_val(x) for x in v])
    if isinstance(v, dict):
        return ("dict", [(str(k), canon_val(x)) for k, x in v.items()])
    return ("node", canon_j(v))


def idgraph(x, keep: list, out=None):
    """(role, id) of every mutable object reachable from the component, in traversal order; `keep` holds the
    objects alive so that no id can be reused while snapshots are compared"""
    out = [] if out is None else out

    def note(role, o):
        keep.append(o)
        out.append((role, id(o)))

    if isinstance(x, JSXTag):
        note("jsx", x)
        note("jsx.attrs", x.attrs)
        note("jsx.children", x.children)
        note("jsx.children.data", x.children.data)
        for v in x.attrs.values():
            idgraph(v, keep, out)
        for c in x.children:
            idgraph(c, keep, out)
    elif isinstance(x, Tag):
        note("tag", x)
        note("tag.attrs", x.attrs)
        note("tag.children", x.children)
        note("tag.children.data", x.children.data)
        for c in x.children:
            idgraph(c, keep, out)
    elif isinstance(x, (JTObj, JTObjL)):
        note("tobj", x)
        if isinstance(x, JTObjL):
            note("taglist", x.exp)
            note("taglist.data", x.exp.data)
            for c in x.exp:
                idgraph(c, keep, out)
        else:
            idgraph(x.exp, keep, out)
    elif isinstance(x, MetadataNode):
        note("meta", x)
    elif isinstance(x, (list, tuple)):
        note("seq", x)
        for v in x:
            idgraph(v, keep, out)
    elif isinstance(x, dict):
        note("dict", x)
        for v in x.values():
            idgraph(v, keep, out)
    elif isinstance(x, HTML):
        note("html", x)
    return out


# ------------------------------------------------------------------ ops
def _realized(f):
    """a failure while *building* the input is the harness's, not the library's answer"""
    try:
        return f()
    except Exception as e:
        raise HarnessError(f"{type(e).__name__}: {e}")


class HarnessError(BaseException):
    pass


@op("jsx_tagify")
def _jsx_tagify(t: Toks) -> str:
    """four conversions of one component: tagify(), str(), tagify(), tagify(); snapshots before, after the first, after the last"""
    term = p_jnode(t)
    x = _realized(lambda: realize_j(term))
    if canon_j(x) != term:
        raise HarnessError(f"term does not describe the object built from it: {term!r} vs {canon_j(x)!r}")
    keep: list = []
    ids0 = idgraph(x, keep)

    def attempt(f):
        try:
            return f()
        except Exception as e:
            return e

    r1 = attempt(x.tagify)
    a1 = canon_j(x)
    ids1 = idgraph(x, keep)
    s2 = attempt(lambda: str(x))
    attempt(x.tagify)
    r4 = attempt(x.tagify)
    a4 = canon_j(x)
    ids4 = idgraph(x, keep)
    if isinstance(r1, Tag) and isinstance(s2, str):
        c1 = canon(r1)
        res = "ok " + zs(s2) + " " + enode(elide_body(s2, c1))
        again = isinstance(r4, Tag) and canon(r4) == c1 and r4.get_html_string() == s2
    elif isinstance(r1, Exception):
        res = err_of(r1)
        again = isinstance(s2, Exception) and isinstance(r4, Exception) and err_of(s2) == res == err_of(r4)
    else:
        res = "inconsistent tagify-returned-but-str-raised"
        again = False
    return res + " after " + ejnode(a1) + " " + ejnode(a4) + " " + eb(ids0 == ids1 == ids4) + " " + eb(again)


@op("jsx_init")
def _jsx_init(t: Toks) -> str:
    name = p_str(t)
    _up = p_str(t)   # what str.upper() gives for the initial: information for the model only
    allowed = p_allowed(t)
    kw_terms = p_jprops(t)
    kwargs = _realized(lambda: [(k, realize_val(v)) for k, v in kw_terms])
    kid_terms = p_list(t, p_jnode)
    kids = _realized(lambda: [realize_j(c) for c in kid_terms])
    x = make_component(name, dict(kwargs), kids, _h((name, kid_terms)), allowed)
    try:
        s = "ok " + zs(str(x))
    except Exception as e:
        s = err_of(e)
    return "ok " + ejnode(canon_j(x)) + " " + s


@op("jsx_render")
def _jsx_render(t: Toks) -> str:
    term = p_jnode(t)
    x = _realized(lambda: realize_j(term))
    indent = int(t.next())
    eol = p_str(t)
    return "ok " + zs(_jsx._render_react_js(x, indent, eol))


@op("jsx_attr")
def _jsx_attr(t: Toks) -> str:
    v = p_jval(t)
    x = _realized(lambda: realize_val(v))
    return "ok " + zs(_jsx._serialize_attr(x))


@op("jsx_style")
def _jsx_style(t: Toks) -> str:
    v = p_jval(t)
    x = _realized(lambda: realize_val(v))
    return "ok " + zs(_jsx._serialize_style_attr(x))


@op("jsx_libfiles")
def _jsx_libfiles(t: Toks) -> str:
    r = JSXTag("X").tagify()
    rows = []
    for d in list(r.children)[1:3]:
        if not isinstance(d, HTMLDependency) or len(d.script) != 1:
            rows.append("bad-dependency")
            continue
        src = d.script[0]["src"]
        base = d.source_path_map()["source"]
        inside = os.path.realpath(base).startswith(os.path.realpath(os.path.dirname(htmltools.__file__)) + os.sep)
        rows.append(" ".join([es(d.name), es(str(d.version)), es(src), eb(inside and os.path.isfile(os.path.join(base, src)))]))
    return " ".join(rows)
