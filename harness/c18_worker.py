#!/usr/bin/env python3
"""Subprocess worker for C18: reads JSON {"lines": [...], "order": [...], "noise": [...]} on stdin, evaluates the
constructions with the real library in the given order (with unrelated 'noise' renderings interleaved) and prints
{"index": sha1(answer)} as JSON.  PYTHONHASHSEED is set by the parent."""
import hashlib
import json
import os
import sys

HERE = os.path.dirname(os.path.abspath(__file__))
sys.path.insert(0, HERE)
REPO = os.environ.get("VERIF_REPO", "/repo")
sys.path.insert(0, REPO)

import ops  # noqa: E402


def main():
    job = json.load(sys.stdin)
    lines, order, noise = job["lines"], job["order"], job.get("noise", [])
    out = {}
    for k, idx in enumerate(order):
        if noise:
            ops.run_line(noise[k % len(noise)])
        ans = ops.run_line(lines[idx])
        out[str(idx)] = hashlib.sha1(ans.encode()).hexdigest()
    json.dump({"digests": out, "hashseed": os.environ.get("PYTHONHASHSEED"), "hash_of_a": hash("a")}, sys.stdout)


if __name__ == "__main__":
    main()
