"""Translator plug-in for C13 (serialised dependencies round-trip through HTML text; DESIGN §14):

  HTMLTextDocument._static_extract_serialized_html_deps   -> HTMLTextDocument_static_extract
  HTMLTextDocument._extract_serialized_html_deps          -> HTMLTextDocument_extract      (returns the new self)
  HTMLTextDocument.__init__                               -> HTMLTextDocument_init         (returns the new self)
  HTMLTextDocument.render                                 -> HTMLTextDocument_render
  HTMLDependency.serialize_to_script_json                 -> HTMLDependency_serialize

(htmltools/_core.py).  New syntax, through hooks that act in the functions of this area only (primitives: Py/PrimC13.lean):

  * `re.findall(p, s)` / `re.sub(p, r, s)` -> `reFindallC13` / `reSubC13`: defined for exactly one pattern text (the extraction
    regex; replacement `""`), from the model's own `scan` (Model/TextDoc.lean); any other pattern is `unsupported`, so an
    edited pattern never gets a made-up meaning.  `re` / `json` must be the modules imported at the top of the file.
  * `json.loads(x)` -> `pyJsonLoadsC13` (the model's `jsonParse`; ValueError only where the text cannot be JSON of any kind,
    `unsupported` where the model's fragment — no numbers — may be the reason for the failure).
  * `json.dumps(x, indent=i)` -> `pyJsonDumpsC13` (the model's `jsonPrint`).
  * `set()` -> `pySetNewC13`; `x in c` / `x not in c` -> `pyInC13` (a set of `str`, else `pyIn`).
  * **fresh container locals**: a local bound exactly once, at the top level of the function body, to `[]` / `set()`, whose
    other occurrences are only: receiver of an `N.append(e)` / `N.add(e)` statement (`e` does not mention `N`), right operand
    of `in` / `not in`, `len(N)`, the iterable of a `for` whose body does not mention `N`, and anywhere inside a `return`
    expression.  No other reference to the container exists while it is mutated, so the in-place updates are functional
    updates of the name (`pyListAppendC13`, `pySetAddC13`).
  * `HTMLDependency(**kw)` (no other arguments) -> `pyCallKwC13` binding the dict to the keyword parameters of the translated
    `HTMLDependency.__init__` (signature read from the source: required parameters, defaults), run on a new instance
    `PVal.obj "HTMLDependency" []`.  Condition checked: the class is defined in the same file, neither it nor its bases in
    that file define `__new__` / `__init_subclass__` / a metaclass, `__init__` is the translated one.
  * `self.A, n = e` (tuple target with an attribute of `self`): unpacked left to right.
  * `self.A.extend(e)` (statement) -> `pySetAttr self A (pyListExtendC13 self.A e)`: `list.extend` on the list held in the
    field.  The list may be one the caller passed in (`HTMLTextDocument(html, deps=[…])` extends the caller's list): as for
    every self-mutating method translated so far the effect on the caller's own object is not part of the translation.
  * `s.replace(a, b, 1)` -> `pyReplaceFirstC13` (first occurrence only; `count` must be the literal `1`);
    `s.replace(a, b)` -> `pyReplaceAll` (Py/PrimC08.lean: a key of any length, leftmost non-overlapping).
  * `deepcopy(x)` (from `copy`) -> `x`: a `PVal` has no identity, a deep copy is the same value.
  * `str(x)` -> `pyStrC13` (`pyStr`, and the text of a `packaging` Version object).
  * **fresh TagList locals** (`render`): a local bound exactly once, at the top level of the body, to `TagList()`, whose other
    occurrences are only the receiver of `N.append(e, …)` / `N.extend(e)` statements (arguments do not mention `N`) and of
    `N.render()`.  `append` / `extend` go to the translated `TagList.append` / `TagList.extend` (which return the new
    instance), `N.render()` to the translated `TagList.render`.
  * `Tag(name, child…, k=v…)` (no star arguments) -> `pyMkTagC13` (`Tag.__init__` is not translated: the primitive states the
    object `Tag(…)` builds for a `str` name, `str` / `HTML` children and `str` / `True` attribute values).
  * `d.as_html_tags(lib_prefix=a, include_version=b)` -> `pyAsHtmlTagsC13 d a b`: `HTMLDependency.as_html_tags` is not
    translated; what it answers is a parameter — recorded by the harness in the embedded dependency object from the real
    method, in the spirit of `pyReprHtml`.
  * a list comprehension inside the argument of such an `append` / `extend` statement is hoisted: its loop is emitted before
    the statement, provided everything Python evaluates before it in that statement is a constant, a name or an attribute
    of a constant (no effect, cannot raise) — then running the loop first is what Python does.

`raise E(message)`: the message is not evaluated (as everywhere in the translator).
"""
from __future__ import annotations

import ast
import os

T = None

EXTRACT = ("HTMLTextDocument_static_extract", "HTMLTextDocument_extract", "HTMLTextDocument_init")
MINE = EXTRACT + ("HTMLTextDocument_render", "HTMLDependency_serialize")

_mod_cache: dict[str, ast.Module] = {}


def _module(fn) -> ast.Module:
    path = os.path.join(T.repo(), fn.spec.file)
    if path not in _mod_cache:
        with open(path, encoding="utf-8") as f:
            _mod_cache[path] = ast.parse(f.read())
    return _mod_cache[path]


def _shadowed(fn, name: str) -> bool:
    return name in fn.all_params or name in fn.locals


def _is_module(fn, name: str) -> bool:
    """`name` is bound at module level by `import name` and by nothing else we can see, and is not shadowed locally"""
    if _shadowed(fn, name):
        return False
    ok = False
    for n in _module(fn).body:
        if isinstance(n, ast.Import):
            for a in n.names:
                if (a.asname or a.name.split(".")[0]) == name:
                    if a.name == name and a.asname is None:
                        ok = True
                    else:
                        return False
        elif isinstance(n, ast.ImportFrom):
            if any((a.asname or a.name) == name for a in n.names):
                return False
        elif isinstance(n, (ast.FunctionDef, ast.ClassDef)) and n.name == name:
            return False
        elif isinstance(n, ast.Assign) and any(isinstance(t, ast.Name) and t.id == name for t in n.targets):
            return False
    return ok


def _imported_from(fn, name: str, modules: tuple[str, ...]) -> bool:
    if _shadowed(fn, name):
        return False
    ok = False
    for n in _module(fn).body:
        if isinstance(n, ast.ImportFrom) and any((a.asname or a.name) == name for a in n.names):
            if n.module in modules and n.level == 0 and any(a.name == name and a.asname is None for a in n.names):
                ok = True
            else:
                return False
        if isinstance(n, ast.Import) and any((a.asname or a.name.split(".")[0]) == name for a in n.names):
            return False
        if isinstance(n, (ast.FunctionDef, ast.ClassDef)) and n.name == name:
            return False
        if isinstance(n, ast.Assign) and any(isinstance(t, ast.Name) and t.id == name for t in n.targets):
            return False
    return ok


def _mentions(e: ast.AST, name: str) -> bool:
    return any(isinstance(n, ast.Name) and n.id == name for n in ast.walk(e))


def _plain_args(c: ast.Call, n: int) -> bool:
    return len(c.args) == n and not c.keywords and not any(isinstance(a, ast.Starred) for a in c.args)


# ------------------------------------------------------------------ fresh container locals
class _Fresh:
    """locals bound once to `[]` / `set()` and used in ways that never create a second reference (module docstring)"""

    def __init__(self, fn):
        self.kind: dict[str, str] = {}
        node = fn.node
        parents: dict[int, ast.AST] = {}
        for p in ast.walk(node):
            for c in ast.iter_child_nodes(p):
                parents[id(c)] = p
        self.parents = parents
        if any(n is not node and isinstance(n, (ast.FunctionDef, ast.Lambda, ast.AsyncFunctionDef, ast.ClassDef)) for n in ast.walk(node)):
            return
        stores: dict[str, list] = {}
        for n in ast.walk(node):
            if isinstance(n, ast.Name) and isinstance(n.ctx, (ast.Store, ast.Del)):
                stores.setdefault(n.id, []).append(n)
        for name, occs in stores.items():
            if name in fn.all_params or len(occs) != 1:
                continue
            st = parents.get(id(occs[0]))
            if not (isinstance(st, (ast.Assign, ast.AnnAssign)) and parents.get(id(st)) is node and st.value is not None):
                continue
            if isinstance(st, ast.Assign) and (len(st.targets) != 1 or st.targets[0] is not occs[0]):
                continue
            if isinstance(st, ast.AnnAssign) and st.target is not occs[0]:
                continue
            v = st.value
            if isinstance(v, ast.List) and not v.elts:
                kind = "list"
            elif isinstance(v, ast.Call) and isinstance(v.func, ast.Name) and v.func.id == "set" and _plain_args(v, 0) \
                    and not _shadowed(fn, "set"):
                kind = "set"
            else:
                continue
            if all(self.allowed(o, kind) for o in ast.walk(node) if isinstance(o, ast.Name) and o.id == name and o is not occs[0]):
                self.kind[name] = kind

    def mutator(self, occ: ast.Name, kind: str):
        """the `N.append(e)` / `N.add(e)` statement `occ` is the receiver of, or None"""
        a = self.parents.get(id(occ))
        meth = "append" if kind == "list" else "add"
        if not (isinstance(a, ast.Attribute) and a.attr == meth and a.value is occ):
            return None
        c = self.parents.get(id(a))
        if not (isinstance(c, ast.Call) and c.func is a and _plain_args(c, 1)):
            return None
        s = self.parents.get(id(c))
        if isinstance(s, ast.Expr) and not _mentions(c.args[0], occ.id):
            return s
        return None

    def allowed(self, occ: ast.Name, kind: str) -> bool:
        if self.mutator(occ, kind) is not None:
            return True
        p = self.parents.get(id(occ))
        if isinstance(p, ast.Compare) and len(p.ops) == 1 and isinstance(p.ops[0], (ast.In, ast.NotIn)) and p.comparators[0] is occ:
            return True
        if isinstance(p, ast.Call) and isinstance(p.func, ast.Name) and p.func.id == "len" and _plain_args(p, 1):
            return True
        if isinstance(p, ast.For) and p.iter is occ:
            return not any(_mentions(s, occ.id) for s in p.body + p.orelse)
        q = occ
        while q is not None and not isinstance(q, ast.stmt):
            q = self.parents.get(id(q))
        return isinstance(q, ast.Return)


def _fresh(fn) -> _Fresh:
    a = getattr(fn, "_c13_fresh", None)
    if a is None:
        a = _Fresh(fn)
        fn._c13_fresh = a
    return a


# ------------------------------------------------------------------ fresh TagList locals, hoisted comprehensions
def _fresh_tl(fn) -> set:
    r = getattr(fn, "_c13_tl", None)
    if r is not None:
        return r
    r = set()
    node = fn.node
    fr = _fresh(fn)
    parents = fr.parents
    nested = any(n is not node and isinstance(n, (ast.FunctionDef, ast.Lambda, ast.AsyncFunctionDef, ast.ClassDef)) for n in ast.walk(node))
    stores: dict[str, list] = {}
    for n in ast.walk(node):
        if isinstance(n, ast.Name) and isinstance(n.ctx, (ast.Store, ast.Del)):
            stores.setdefault(n.id, []).append(n)
    for name, occs in stores.items():
        if nested or name in fn.all_params or len(occs) != 1:
            continue
        st = parents.get(id(occs[0]))
        if not (isinstance(st, ast.Assign) and len(st.targets) == 1 and st.targets[0] is occs[0] and parents.get(id(st)) is node):
            continue
        v = st.value
        if not (isinstance(v, ast.Call) and isinstance(v.func, ast.Name) and v.func.id == "TagList" and _plain_args(v, 0)
                and not _shadowed(fn, "TagList")):
            continue
        ok = True
        for o in ast.walk(node):
            if isinstance(o, ast.Name) and o.id == name and o is not occs[0] and _tl_use(parents, o) is None:
                ok = False
        if ok:
            r.add(name)
    fn._c13_tl = r
    return r


def _tl_use(parents, occ: ast.Name):
    """("append" | "extend", statement) / ("render", call) if `occ` is the receiver of such a use, else None"""
    a = parents.get(id(occ))
    if not (isinstance(a, ast.Attribute) and a.value is occ and a.attr in ("append", "extend", "render")):
        return None
    c = parents.get(id(a))
    if not (isinstance(c, ast.Call) and c.func is a and not c.keywords and not any(isinstance(x, ast.Starred) for x in c.args)):
        return None
    if any(_mentions(x, occ.id) for x in c.args):
        return None
    if a.attr == "render":
        return ("render", c) if not c.args else None
    s = parents.get(id(c))
    if not isinstance(s, ast.Expr):
        return None
    if a.attr == "extend" and len(c.args) != 1 or a.attr == "append" and not c.args:
        return None
    return (a.attr, s)


def _effect_free(e: ast.expr) -> bool:
    """evaluating `e` has no effect and cannot raise: a constant, a bound name, an attribute of a constant (a method of a literal)"""
    if isinstance(e, (ast.Constant, ast.Name)):
        return True
    return isinstance(e, ast.Attribute) and isinstance(e.value, ast.Constant)


def _hoist(fn, ind: int, args: list):
    """emit the loop of the (single) list comprehension among the arguments of an `append` / `extend` statement before it"""
    lcs = [n for a in args for n in ast.walk(a) if isinstance(n, ast.ListComp)]
    if not lcs:
        return
    if len(lcs) > 1:
        raise T.Untranslatable("more than one list comprehension in a statement")
    lc = lcs[0]

    def path(root):
        if root is lc:
            return []
        if isinstance(root, ast.Call):
            if not _effect_free(root.func) or any(isinstance(a, ast.Starred) for a in root.args):
                return None
            for a in root.args:
                p = path(a)
                if p is not None:
                    return [root] + p
                if not _effect_free(a):
                    return None
            return None       # a comprehension in a keyword value: not hoisted
        return None
    for i, a in enumerate(args):
        p = path(a)
        if p is not None:
            break
        if not _effect_free(a):
            raise T.Untranslatable("a list comprehension after an argument with effects")
    else:
        raise T.Untranslatable("a list comprehension in a position the translator cannot hoist it from")
    d = getattr(fn, "_c13_lc", None)
    if d is None:
        d = fn._c13_lc = {}
    d[id(lc)] = fn.listcomp_stmts(ind, lc)


# ------------------------------------------------------------------ HTMLDependency(**kw)
def _class_plain(fn, cname: str, seen=()) -> bool:
    """class `cname` of this file, and its bases in this file, define no `__new__` / `__init_subclass__` / metaclass"""
    cdef = next((n for n in _module(fn).body if isinstance(n, ast.ClassDef) and n.name == cname), None)
    if cdef is None or cdef.keywords or cname in seen:
        return False
    for n in cdef.body:
        if isinstance(n, (ast.FunctionDef, ast.AsyncFunctionDef)) and n.name in ("__new__", "__init_subclass__", "__class_getitem__"):
            return False
    for b in cdef.bases:
        if not isinstance(b, ast.Name):
            return False
        if b.id == "object":
            continue
        if not _class_plain(fn, b.id, seen + (cname,)):
            return False
    return True


def _kw_constructor(fn, e: ast.Call) -> str:
    info = fn.known.get("HTMLDependency_init")
    if info is None or not info.available:
        raise T.Untranslatable("HTMLDependency(**kw): HTMLDependency.__init__ is not translated")
    if info.spec.file != fn.spec.file or info.spec.qual != "HTMLDependency.__init__" or not _class_plain(fn, "HTMLDependency") \
            or _shadowed(fn, "HTMLDependency"):
        raise T.Untranslatable("HTMLDependency(**kw): not the plain class of this file whose __init__ is translated")
    if info.vararg is not None or info.kwarg is not None or info.spec.recursive or not info.params or info.params[0] != "self":
        raise T.Untranslatable("HTMLDependency(**kw): signature of __init__ outside the fragment")
    names = info.params[1:] + info.kwonly
    req, opt = [], []
    for p in names:
        if p in info.defaults:
            d = info.defaults[p]
            if not isinstance(d, ast.Constant):
                raise T.Untranslatable("non-constant default")
            opt.append(f"({T.lstr(p)}, {fn.const(d.value)})")
        else:
            if opt and p in info.params:
                raise T.Untranslatable("required parameter after an optional one")
            req.append(T.lstr(p))
    # the order in which `call_known` passes them: all_params
    order = [p for p in info.all_params if p != "self"]
    if sorted(order) != sorted(names):
        raise T.Untranslatable("HTMLDependency(**kw): parameter list")
    bound = [p for p in names if p not in info.defaults] + [p for p in names if p in info.defaults]
    vs = {p: f"a{i + 1}" for i, p in enumerate(bound)}
    pat = ", ".join(vs[p] for p in bound)
    call = " ".join(vs[p] for p in order)
    return (f"(← pyCallKwC13 (fun a => match a with | [{pat}] => HTMLDependency_init G (PVal.obj \"HTMLDependency\" []) {call} "
            f"| _ => throw PyErr.unsupported) [{', '.join(req)}] [{', '.join(opt)}] {fn.V(e.keywords[0].value)})")


# ------------------------------------------------------------------ hooks
def _expr_hook(fn, e):
    if fn.spec.lean not in MINE:
        return None
    if isinstance(e, ast.Call):
        f = e.func
        if isinstance(f, ast.Attribute) and isinstance(f.value, ast.Name):
            if f.value.id == "re" and f.attr in ("findall", "sub"):
                if not _is_module(fn, "re"):
                    raise T.Untranslatable("`re` is not the module imported at the top of the file")
                if f.attr == "findall" and _plain_args(e, 2):
                    return f"(← reFindallC13 {fn.V(e.args[0])} {fn.V(e.args[1])})"
                if f.attr == "sub" and _plain_args(e, 3):
                    return f"(← reSubC13 {fn.V(e.args[0])} {fn.V(e.args[1])} {fn.V(e.args[2])})"
                raise T.Untranslatable(f"re.{f.attr} with other than the plain positional arguments")
            if f.value.id == "json" and f.attr in ("loads", "dumps"):
                if not _is_module(fn, "json"):
                    raise T.Untranslatable("`json` is not the module imported at the top of the file")
                if f.attr == "loads" and _plain_args(e, 1):
                    return f"(← pyJsonLoadsC13 {fn.V(e.args[0])})"
                if f.attr == "dumps" and len(e.args) == 1 and not isinstance(e.args[0], ast.Starred) \
                        and [k.arg for k in e.keywords] in ([], ["indent"]):
                    ind = fn.V(e.keywords[0].value) if e.keywords else "PVal.none"
                    return f"(← pyJsonDumpsC13 {fn.V(e.args[0])} {ind})"
                raise T.Untranslatable(f"json.{f.attr} with other than the plain arguments")
        if isinstance(f, ast.Name):
            if f.id == "str" and _plain_args(e, 1) and not _shadowed(fn, "str"):
                return f"(← pyStrC13 {fn.V(e.args[0])})"
            if f.id == "Tag" and e.args and not any(isinstance(a, ast.Starred) for a in e.args) \
                    and all(k.arg is not None for k in e.keywords):
                if _shadowed(fn, "Tag") or not any(isinstance(n, ast.ClassDef) and n.name == "Tag" for n in _module(fn).body):
                    raise T.Untranslatable("`Tag` is not the class of this file")
                if any(k.arg.startswith("_") for k in e.keywords):
                    raise T.Untranslatable("Tag(…, _add_ws=…)")
                kids = ", ".join(fn.V(a) for a in e.args[1:])
                kws = ", ".join(f"({T.lstr(k.arg)}, {fn.V(k.value)})" for k in e.keywords)
                return f"(← pyMkTagC13 {fn.V(e.args[0])} (PVal.tuple [{kids}]) (PVal.dict [{kws}]))"
            if f.id == "set" and _plain_args(e, 0) and not _shadowed(fn, "set"):
                return "pySetNewC13"
            if f.id == "HTMLDependency" and not e.args and len(e.keywords) == 1 and e.keywords[0].arg is None:
                return _kw_constructor(fn, e)
            if f.id == "deepcopy" and _plain_args(e, 1):
                if not _imported_from(fn, "deepcopy", ("copy",)):
                    raise T.Untranslatable("`deepcopy` is not copy.deepcopy here")
                return fn.V(e.args[0])
        # d.as_html_tags(lib_prefix=a, include_version=b)
        if isinstance(f, ast.Attribute) and f.attr == "as_html_tags":
            kw = {k.arg: k.value for k in e.keywords}
            if e.args or sorted(kw) != ["include_version", "lib_prefix"]:
                raise T.Untranslatable("as_html_tags with other than the two keyword arguments")
            return f"(← pyAsHtmlTagsC13 {fn.V(f.value)} {fn.V(kw['lib_prefix'])} {fn.V(kw['include_version'])})"
        # N.render() on the fresh TagList local
        if isinstance(f, ast.Attribute) and f.attr == "render" and isinstance(f.value, ast.Name) \
                and f.value.id in _fresh_tl(fn) and _plain_args(e, 0):
            info = fn.known.get("TagList_render")
            if info is None or not info.available:
                raise T.Untranslatable("TagList.render is not translated")
            return fn.call_known(info, [], [], recv=fn.name(f.value.id))
        # s.replace(a, b): a key of any length (Py/PrimC08.lean `pyReplaceAll`; the base translator's `pyReplace` is for a
        # one-character key)
        if isinstance(f, ast.Attribute) and f.attr == "replace" and _plain_args(e, 2):
            return f"(← pyReplaceAll {fn.V(f.value)} {fn.V(e.args[0])} {fn.V(e.args[1])})"
        # s.replace(a, b, 1)
        if isinstance(f, ast.Attribute) and f.attr == "replace" and _plain_args(e, 3):
            c = e.args[2]
            if not (isinstance(c, ast.Constant) and type(c.value) is int and c.value == 1):
                raise T.Untranslatable("str.replace with a count other than the literal 1")
            return f"(← pyReplaceFirstC13 {fn.V(f.value)} {fn.V(e.args[0])} {fn.V(e.args[1])})"
    if isinstance(e, ast.ListComp):
        r = getattr(fn, "_c13_lc", {}).get(id(e))
        if r is None:
            return None           # the base translator: right-hand side of an assignment, or untranslatable
        return r
    if isinstance(e, ast.Compare) and len(e.ops) == 1 and isinstance(e.ops[0], (ast.In, ast.NotIn)):
        t = f"(← pyInC13 {fn.V(e.left)} {fn.V(e.comparators[0])})"
        return t if isinstance(e.ops[0], ast.In) else f"(PVal.bool (!truthy {t}))"
    return None


def _stmt_hook(fn, ind: int, s: ast.stmt):
    if fn.spec.lean not in MINE:
        return False
    if fn.spec.lean == "HTMLTextDocument_static_extract":
        # called as `self._static_extract_serialized_html_deps(x)` with `x` bound to the first parameter: a staticmethod
        if not any(isinstance(d, ast.Name) and d.id == "staticmethod" for d in fn.node.decorator_list) or len(fn.node.decorator_list) != 1:
            raise T.Untranslatable("not a plain @staticmethod any more")
    elif fn.node.decorator_list:
        raise T.Untranslatable("decorated method")
    fr = _fresh(fn)
    if isinstance(s, ast.Expr) and isinstance(s.value, ast.Call):
        c = s.value
        f = c.func
        # N.append(e) / N.add(e) on a fresh container local
        if isinstance(f, ast.Attribute) and isinstance(f.value, ast.Name) and f.value.id in fr.kind \
                and fr.mutator(f.value, fr.kind[f.value.id]) is s:
            nm = fn.name(f.value.id)
            prim = "pyListAppendC13" if fr.kind[f.value.id] == "list" else "pySetAddC13"
            fn.emit(ind, f"{nm} := (← {prim} {nm} {fn.V(c.args[0])})")
            return True
        # N.append(e, …) / N.extend(e) on the fresh TagList local
        if isinstance(f, ast.Attribute) and isinstance(f.value, ast.Name) and f.value.id in _fresh_tl(fn):
            use = _tl_use(fr.parents, f.value)
            if use is not None and use[1] is s:
                info = fn.known.get("TagList_append" if use[0] == "append" else "TagList_extend")
                if info is None or not info.available or not info.spec.returns_self:
                    raise T.Untranslatable(f"TagList.{use[0]} is not translated")
                _hoist(fn, ind, c.args)
                nm = fn.name(f.value.id)
                fn.emit(ind, f"{nm} := " + fn.call_known(info, c.args, [], recv=nm))
                return True
            raise T.Untranslatable(f"use of the TagList local {f.value.id} outside the fragment")
        # self.A.extend(e)
        if (isinstance(f, ast.Attribute) and f.attr == "extend" and isinstance(f.value, ast.Attribute)
                and isinstance(f.value.value, ast.Name) and f.value.value.id == "self" and "self" in fn.all_params
                and fn.cls is not None and (fn.cls.name, f.value.attr) not in T.FIELD_CLASS and _plain_args(c, 1)
                and fn.spec.returns_self):
            me = fn.name("self")
            fld = f.value.attr
            fn.mutates_self = True
            fn.emit(ind, f"{me} := (← pySetAttr {me} \"{fld}\" (← pyListExtendC13 (← pyGetAttr {me} \"{fld}\") {fn.V(c.args[0])}))")
            return True
    # self.A, n = e
    if isinstance(s, ast.Assign) and len(s.targets) == 1 and isinstance(s.targets[0], ast.Tuple) and len(s.targets[0].elts) == 2:
        a, b = s.targets[0].elts

        def simple(t):
            return isinstance(t, ast.Name) or (isinstance(t, ast.Attribute) and isinstance(t.value, ast.Name) and t.value.id == "self")
        if simple(a) and simple(b) and not (isinstance(a, ast.Name) and isinstance(b, ast.Name)):
            t = fn.fresh("pair")
            fn.emit(ind, f"let {t} ← pyUnpack2 {fn.V(s.value)}")
            fn.assign_to(ind, a, f"{t}.1")
            fn.assign_to(ind, b, f"{t}.2")
            return True
    return False


def register(pytranslate):
    global T
    T = pytranslate
    F = "htmltools/_core.py"
    T.SPECS += [
        T.FnSpec(F, "HTMLTextDocument._static_extract_serialized_html_deps", "HTMLTextDocument_static_extract", drop_self=True),
        T.FnSpec(F, "HTMLTextDocument._extract_serialized_html_deps", "HTMLTextDocument_extract", returns_self=True),
        T.FnSpec(F, "HTMLTextDocument.__init__", "HTMLTextDocument_init", returns_self=True),
    ]
    T.ARITY.update({"HTMLTextDocument_static_extract": 1, "HTMLTextDocument_extract": 1, "HTMLTextDocument_init": 4})
    if "HtmlVerif.Py.PrimC13" not in T.IMPORTS:
        T.IMPORTS.append("HtmlVerif.Py.PrimC13")
    T.EXPR_HOOKS.append(_expr_hook)
    T.STMT_HOOKS.append(_stmt_hook)
