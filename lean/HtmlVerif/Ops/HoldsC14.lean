/-
`holds C14 <op> <args…> | <impl answer>` — the executable statement of C14 evaluated on what the
*implementation* answered, with the definitions the theorems are about (`specStep`/`flatSpec`, `Inv`,
`Stored.isTagNode`, `Arg.supported`, `Arg.isTagChild`).
-/
import HtmlVerif.Ops.Children
import HtmlVerif.Spec.Children

namespace HtmlVerif.Ops
open HtmlVerif HtmlVerif.Wire

/-- one step of the implementation's trace: outcome, list afterwards, `is_tag_node` verdict per element -/
structure ImplStep where
  result : Except Err Unit
  state : TL
  verdicts : List Bool

def implResult : P (Except Err Unit) := do
  let t ← next
  if t == "ok" then pure (.ok ()) else if t == "err" then do
    let k ← next
    pure (.error (match k with
      | "typeError" => .typeError
      | "valueError" => .valueError
      | "keyError" => .keyError
      | "runtimeError" => .runtimeError
      | "notImplemented" => .notImplemented
      | _ => .exception))
  else throw s!"bad result {t}"

def implStep : P ImplStep := do
  let r ← implResult
  let sv ← listOf storedV
  pure ⟨r, sv.map (·.1), sv.map (·.2)⟩

def resultEq : Except Err Unit → Except Err Unit → Bool
  | .ok _, .ok _ => true
  | .error a, .error b => a == b
  | _, _ => false

/-- the clauses of the statement for one step, given the list the implementation held before it;
    `none` = all hold, `some c` = clause `c` fails -/
def checkStep (isTag : Bool) (prev : TL) (op : Op) (got : ImplStep) : Option String :=
  -- the specification applies to a receiver that holds nodes; a Tag constructor call ignores dict arguments
  let op' : Op := match op, isTag with
    | .init args, true => .init (args.filter (fun a => !a.isDict))
    | o, _ => o
  let unchanged := TL.beq got.state prev
  if !invB got.state then some "stored-element-is-not-a-normalised-node"
  else if !(got.verdicts.all id) then some "is_tag_node-false-for-a-stored-element"
  else if !(got.state.all Stored.isTagNode) then some "model-is_tag_node-false"
  else match got.result with
    | .error e =>
      if !unchanged then some "list-changed-by-a-failing-operation"
      else if invB prev then
        (match specStep (TL.nodes prev) op' with
          | .ok _ => some "raised-although-every-argument-is-supported"
          | .error e' => if e == e' then none else some "wrong-exception-kind")
      else none
    | .ok _ =>
      if invB prev then
        (match specStep (TL.nodes prev) op' with
          | .ok ns => if TL.beq got.state (ns.map .node) then none else some "children-differ-from-the-flattening"
          | .error _ => some "accepted-an-unsupported-argument")
      else none

def checkTrace (isTag : Bool) : TL → List Op → List ImplStep → Nat → Option String
  | _, [], [], _ => none
  | prev, op :: ops, g :: gs, k =>
    match checkStep isTag prev op g with
    | some c => some s!"step={k} {c}"
    | none => checkTrace isTag g.state ops gs (k + 1)
  | _, _, _, _ => some "trace-length-mismatch"

def holdsC14 : OpTable
  | "c14_hist" => some do
    let isTag ← recvIsTag
    let ops ← listOf childOp
    expect "|"
    let got ← listOf implStep
    match checkTrace isTag [] ops got 0 with
    | none => pure "T"
    | some c => pure ("F " ++ c)
  | "c14_t2n" => some do
    let a ← arg
    expect "|"
    let t ← next
    if t == "ok" then do
      let st ← listOf stored
      match operandSpec a with
      | .ok ns => pure (if TL.beq st (ns.map .node) then "T" else "F nodes-differ-from-the-flattening")
      | .error _ => pure "F accepted-an-unsupported-argument"
    else do
      let k ← next
      match operandSpec a with
      | .ok _ => pure "F raised-although-every-argument-is-supported"
      | .error _ => pure (if k == "typeError" then "T" else "F wrong-exception-kind")
  | "c14_flatten" => some do
    -- helper of the correspondence only: nothing of the statement is about `flatten` alone
    let _a ← arg
    let _ ← implRaw
    pure "T"
  | "c14_pred" => some do
    let a ← arg
    expect "|"
    let child ← bool
    let nodeV ← bool
    if a.supported && !child then pure "F is_tag_child-rejects-a-value-the-operations-accept"
    else if (match a with | .node _ => !nodeV | _ => false) then pure "F is_tag_node-rejects-a-node"
    else pure "T"
  | _ => none

end HtmlVerif.Ops
