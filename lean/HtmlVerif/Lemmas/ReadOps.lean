/-
Helper lemmas for C08's purity / repeat / tagify-equality clauses.
-/
import HtmlVerif.Model.ReadOps
import HtmlVerif.Spec.Ident
import HtmlVerif.Lemmas.Ident
import HtmlVerif.Props.C09

namespace HtmlVerif.Ident
open HtmlVerif

/-! ### the Boolean guard implies the inductive one -/

theorem keysNodupB_iff {β} (a : List (Str × β)) : keysNodupB a = true ↔ keysNodup a := by
  simp [keysNodupB, keysNodup]

theorem depWfB_wf (d : DepInfo) (h : depWfB d = true) : d.wf := by
  simp only [depWfB, Bool.and_eq_true, List.all_eq_true] at h
  exact ⟨fun x hx => (keysNodupB_iff x).mp (h.1.1 x hx), fun x hx => (keysNodupB_iff x).mp (h.1.2 x hx),
    fun x hx => (keysNodupB_iff x).mp (h.2 x hx)⟩

mutual
  theorem plainB_plain (x : Node) (h : plainB x = true) : x.Plain := by
    cases x with
    | tag n w a k =>
      simp only [plainB, Bool.and_eq_true] at h
      exact .tag ((keysNodupB_iff a).mp h.1) (plainKidsB_plain k h.2)
    | text s => exact .text
    | html s => exact .html
    | robj s => exact .robj
    | mnode n => exact .mnode
    | dep d hh k =>
      simp only [plainB, Bool.and_eq_true] at h
      exact .dep (depWfB_wf d h.1) (plainKidsB_plain k h.2)
    | tobjL rh c => simp [plainB] at h
    | tobj1 rh c => simp [plainB] at h
  theorem plainKidsB_plain (ks : Nodes) (h : plainKidsB ks = true) : ks.PlainKids := by
    cases ks with
    | nil => exact .nil
    | cons a t =>
      simp only [plainKidsB, Bool.and_eq_true] at h
      exact .cons (plainB_plain a h.1) (plainKidsB_plain t h.2)
end

mutual
  /-- plain trees need no expansion -/
  theorem plainB_tagified (x : Node) (h : plainB x = true) : x.tagified = true := by
    cases x with
    | tag n w a k =>
      simp only [plainB, Bool.and_eq_true] at h
      simpa [Node.tagified] using plainKidsB_tagified k h.2
    | tobjL rh c => simp [plainB] at h
    | tobj1 rh c => simp [plainB] at h
    | _ => simp [Node.tagified]
  theorem plainKidsB_tagified (ks : Nodes) (h : plainKidsB ks = true) : ks.tagifiedKids = true := by
    cases ks with
    | nil => rfl
    | cons a t =>
      simp only [plainKidsB, Bool.and_eq_true] at h
      simp [Nodes.tagifiedKids, plainB_tagified a h.1, plainKidsB_tagified t h.2]
end

/-! ### id-level `Tag.tagify` / `TagList.tagify` against the plain ones -/

theorem itagifyTag_erase (x : ITree) (n : Nat) : (x.itagifyTag n).1.erase = tagifyTag x.erase := by
  cases x with
  | tag i a k nm ws at' kids =>
    simp [ITree.itagifyTag, ITree.erase, tagifyTag, ITrees.itagifyAll_erase, C09.C09_tagify_is_spec]
  | _ => simp [ITree.itagifyTag, ITree.erase, tagifyTag]

theorem itagifyList_erase (ks : ITrees) (n : Nat) : (ks.itagifyList n).2.1.eraseAll = tagifyNodes ks.eraseAll := by
  simp [ITrees.itagifyList, ITrees.itagifyAll_erase, C09.C09_tagify_is_spec]

theorem icopyShallow_erase (x : ITree) (n : Nat) : (x.icopyShallow n).1.erase = x.erase := by
  cases x <;> simp [ITree.icopyShallow, ITree.erase]

/-- for a Tag, what `TagList.tagify` puts in its place is `Tag.tagify()` of it -/
theorem itagify_of_tag (i a k : Nat) (nm : Str) (ws : Bool) (at' : Attrs) (kids : ITrees) (n : Nat) :
    (ITree.tag i a k nm ws at' kids).itagify n
      = (.cons ((ITree.tag i a k nm ws at' kids).itagifyTag n).1 .nil, ((ITree.tag i a k nm ws at' kids).itagifyTag n).2) := by
  simp [ITree.itagify, ITree.itagifyTag]

/-! ### every operation returns its receiver; its result is a function of the receiver's value -/

theorem step_receiver (cfg : Cfg) (o : ReadOp) (x : ITree) (n : Nat) : (o.step cfg x n).2.1 = x := by
  cases o <;> rfl

theorem step_obs (cfg : Cfg) (o : ReadOp) (x : ITree) (n : Nat) : (o.step cfg x n).1 = o.obs cfg x.erase := by
  cases o <;>
    simp [ReadOp.step, ReadOp.obs, itagifyTag_erase, icopyShallow_erase, strView, reprView, reprHtmlView, renderOfTag]

theorem stepList_receiver (cfg : Cfg) (o : ReadOp) (s : Nat × ITrees) (n : Nat) : (o.stepList cfg s n).2.1 = s := by
  cases o <;> rfl

theorem stepList_obs (cfg : Cfg) (o : ReadOp) (s : Nat × ITrees) (n : Nat) :
    (o.stepList cfg s n).1 = o.obsList cfg s.2.eraseAll := by
  cases o <;>
    simp [ReadOp.stepList, ReadOp.obsList, itagifyList_erase, strViewList, reprViewList, reprHtmlViewList, renderOfList]

/-- a history of operations each of which returns its receiver and whose result is a function `obs` of the receiver:
    the results are `obs` of the initial receiver, whatever ran before, and the receiver is unchanged at the end -/
theorem runSeq_spec {σ ω κ : Type} (step : κ → σ → Nat → ω × σ × Nat) (obs : κ → σ → ω)
    (hr : ∀ o s n, (step o s n).2.1 = s) (ho : ∀ o s n, (step o s n).1 = obs o s) :
    ∀ (ops : List κ) (s : σ) (n : Nat),
      (runSeq step ops s n).1 = ops.map (fun o => obs o s) ∧ (runSeq step ops s n).2.1 = s := by
  intro ops
  induction ops with
  | nil => intro s n; simp [runSeq]
  | cons o r ih =>
    intro s n
    have h := ih s (step o s n).2.2
    simp only [runSeq, hr, List.map_cons, ho]
    exact ⟨by rw [h.1], h.2⟩

end HtmlVerif.Ident
