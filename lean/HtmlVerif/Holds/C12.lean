/-
Executable statement of C12, evaluated by the driver on the *implementation's* answers: the conclusions of the
theorems of Props/C12.lean, decided on concrete data (finite file systems make every ∀ a finite check).
Each function returns `true` when a guard of the corresponding theorem fails (the input is then outside the statement;
the model ⇔ code correspondence still covers it).
-/
import HtmlVerif.Spec.Paths

namespace HtmlVerif.Holds
open HtmlVerif

/-! ### verdicts: held / violated / violated in the one way recorded as finding F-C12 -/

/-- `known`: every clause holds except that a URL whose `[prefix/]name[-version]` part contains a character a URL
    reader interprets (`urlSpecial`) — written exactly in the format clause 1 prescribes — does not decode to the copied
    file (`C12_urls_resolve_full_is_false`) -/
inductive Verdict
  | ok | known | fail
  deriving DecidableEq, Repr

def Verdict.and : Verdict → Verdict → Verdict
  | .fail, _ => .fail
  | _, .fail => .fail
  | .known, _ => .known
  | _, .known => .known
  | .ok, .ok => .ok

def Verdict.ofBool (b : Bool) : Verdict := if b then .ok else .fail

def Verdict.all {α} (l : List α) (f : α → Verdict) : Verdict := l.foldl (fun v x => v.and (f x)) .ok

def Verdict.enc : Verdict → String
  | .ok => "T"
  | .known => "KNOWN url-special"
  | .fail => "F"

/-! ### decidable forms of the guards -/

def apartB (a b : Path) : Bool := !a.isPrefixOf b && !b.isPrefixOf a

/-- `SrcWF`: no regular file directly inside `S` has anything below it -/
def srcWFB (fs : FS) (S : Path) : Bool :=
  (fs.keysUnder S).all fun r =>
    match r with
    | n :: _ :: _ => !(fs.isFile (S ++ [n]))
    | _ => true

/-- both file systems are the same finite map -/
def fsEq (a b : FS) : Bool := (a.files ++ b.files).all fun e => a.read e.1 == b.read e.1

def isStylesheetKV (s : KVs) : Bool := alookup dtKRel s == some vStylesheet

/-! ### percent-encoding (C12_quote_roundtrip_str, C12_quote_inert) -/

def holdsQuote (s out : Str) : Bool :=
  unquoteB out == utf8 s && out.all fun c => isUnreservedN c.toNat || c == '/' || c == '%'

/-! ### URLs (C12_url_local, C12_url_local_closed, C12_url_remote, C12_dict_*, C12_agree) -/

def holdsPathMap (d : DepInfo) (lp : Option Str) (iv : Bool) (src href : Str) : Bool :=
  match d.source with
  | .none => src == [] && href == []
  | .href h => src == [] && href == h
  | .subdir _ _ abs =>
    src == abs && ((dirName d iv).head? == some '/' || href == hrefBaseSpec lp (dirName d iv))

/-- the closed form clause 1 gives for the URL of path `p` (none outside the statement's domain) -/
def closedUrl (d : DepInfo) (lp : Option Str) (iv : Bool) (p : Str) : Option Str :=
  match d.source with
  | .none => none
  | .href h =>
    if !h.isEmpty && CleanRel p then
      some (if h.getLast? = some '/' then h ++ quote p else h ++ '/' :: quote p)
    else none
  | .subdir .. =>
    if WideSeg (dirName d iv) && CleanRel p then some (hrefBaseSpec lp (dirName d iv) ++ '/' :: quote p)
    else none

/-- one URL produced by the implementation for the listed path `p`: clause 1 (the format) and clause 2 (decodes to
    `libdir/name[-version]/p`) **without the character guards** — any relative `lp`, any single-component name -/
def holdsUrl (d : DepInfo) (lp : Option Str) (iv : Bool) (p : Str) (url : Str) : Verdict :=
  match closedUrl d lp iv p with
  | none => .ok
  | some u =>
    if url != u then .fail
    else if isLocal d && WideDirOpt lp then
      if agreeFull lp (dirName d iv) p url then .ok
      else if urlSpecial (hrefBaseSpec lp (dirName d iv)) then .known
      else .fail
    else .ok

def holdsUrlList (d : DepInfo) (lp : Option Str) (iv : Bool) (k : Str) (orig out : List KVs) : Verdict :=
  if orig.length != out.length then .fail else
  Verdict.all (orig.zip out) fun (s, s') =>
    match alookup k s, alookup k s' with
    | some p, some u => holdsUrl d lp iv p u
    | _, _ => .fail

def holdsDict (d : DepInfo) (lp : Option Str) (iv : Bool) (scripts sheets : List KVs) : Verdict :=
  ((holdsUrlList d lp iv dtKSrc d.script scripts).and (holdsUrlList d lp iv dtKHref d.stylesheet sheets)).and
    (Verdict.ofBool (sheets.all isStylesheetKV))

/-- the `link` / `script` tags of `as_html_tags` carry the same URLs (as plain, i.e. later escaped, attribute values):
    `asHtmlTags_urls` / `C12_head_urls` -/
def holdsTags (d : DepInfo) (lp : Option Str) (iv : Bool) (tags : Nodes) : Verdict :=
  let attrOf (name key : Str) : List (Option AttrVal) :=
    tags.toList.filterMap fun n =>
      match n with
      | .tag nm _ attrs _ => if nm = name then some (alookup key attrs) else none
      | _ => none
  let ok (k : Str) (orig : List KVs) (got : List (Option AttrVal)) : Verdict :=
    -- the head may contribute further tags of the same name after ours: compare the first |orig| of them
    if got.length < orig.length then .fail else
    Verdict.all (orig.zip got) fun (s, a) =>
      match alookup k s, a with
      | some p, some (.plain u) =>
        -- a key that normalises to the same attribute name would be merged into it: outside the statement
        if SoleKey k s then holdsUrl d lp iv p u else .ok
      | some _, _ => Verdict.ofBool (!SoleKey k s)
      | none, _ => .fail
  (ok dtKHref d.stylesheet (attrOf nLink dtKHref)).and (ok dtKSrc d.script (attrOf nScript dtKSrc))

/-! ### copy_to (C12_copy_ok, C12_copy_ok_all, C12_copy_missing, C12_copy_keyerror, C12_no_copy) -/

/-- the target directory holds exactly the wanted files, byte-identical to their sources (`CopySpec`, second half) -/
def targetOk (d : DepInfo) (S T : Path) (fs0 fs' : FS) : Bool :=
  ((fs'.keysUnder T).all fun r => wantedB d r && fs'.read (T ++ r) == fs0.read (S ++ r))
  && ((fs0.keysUnder S).all fun r => !wantedB d r || fs'.read (T ++ r) == fs0.read (S ++ r))

/-- nothing outside the directories `Ts` (and other than the paths `except`) differs -/
def frameOk (Ts : List Path) (except : List Path) (fs0 fs' : FS) : Bool :=
  (fs0.files ++ fs'.files).all fun e =>
    Ts.any (fun T => T.isPrefixOf e.1) || except.contains e.1 || fs'.read e.1 == fs0.read e.1

/-- the subtree at `T` is the same in both -/
def subtreeSame (T : Path) (fs0 fs' : FS) : Bool :=
  (fs0.files ++ fs'.files).all fun e => !T.isPrefixOf e.1 || fs'.read e.1 == fs0.read e.1

inductive Readiness
  | ready          -- `CopyReady`
  | missing        -- a listed file is absent (everything else in order): `C12_copy_missing`
  | keyError (e : Err)
  | outside        -- some other guard fails: outside the statement
  deriving DecidableEq, Repr

/-- decide `CopyReady d path iv fs` for a directory-sourced dependency, telling apart the ways it can fail -/
def readiness (d : DepInfo) (path : Str) (iv : Bool) (fs : FS) : Readiness :=
  match d.source with
  | .subdir _ _ abs =>
    let S := pathResolve abs
    let T := tgtDir d path iv
    if abs.isEmpty || !apartB S T then .outside
    else if d.allFiles then
      if srcWFB fs S && !fs.fileOnPath T then .ready else .outside
    else match listedFiles d with
      | .error e => .keyError e
      | .ok fl =>
        if !fl.all (fun f => CleanRel f) then .outside
        else if fl.any (fun f => !fs.exists (S ++ segs (utf8 f))) then .missing
        else if fl.all (fun f => fs.isFile (S ++ segs (utf8 f))) && !fs.fileOnPath T then .ready
        else .outside
  | _ => .ready

/-- `status`: `none` = returned normally, `some e` = raised -/
def holdsCopy (d : DepInfo) (path : Str) (iv : Bool) (fs0 : FS) (status : Option Err) (fs' : FS) : Bool :=
  if !isLocal d then status == none && fsEq fs0 fs'
  else match readiness d path iv fs0 with
    | .ready =>
      status == none && targetOk d (srcDir d) (tgtDir d path iv) fs0 fs'
        && frameOk [tgtDir d path iv] [] fs0 fs'
    | .missing => status.isSome && fsEq fs0 fs'      -- "raises": any exception
    | .keyError e => status == some e && fsEq fs0 fs'
    | .outside => true

/-- the atomicity clause on the **real** directory tree (directories, names, contents compared before and after
    by the harness): `raised` / `same` are what was observed.  A listed file missing ⇒ raised, and nothing at all
    differs; URL-sourced and source-less dependencies ⇒ returned, and nothing differs. -/
def holdsAtomic (d : DepInfo) (path : Str) (iv : Bool) (fs0 : FS) (raised same : Bool) : Bool :=
  if !isLocal d then !raised && same
  else match readiness d path iv fs0 with
    | .missing => raised && same
    | .keyError _ => raised && same
    | .ready => !raised
    | .outside => true

/-! ### save_html (C12_save_doc, C12_save_urls, C12_save_fail) -/

def localDeps (deps : List DepInfo) : List DepInfo := deps.filter isLocal

/-- the guards of `C12_save_doc` that do not concern a single dependency's readiness — with the character guards
    widened to *any* relative libdir and *any* single-component name (finding F-C12 lives in the difference) -/
def saveGuards (deps : List DepInfo) (fileAbs : Str) (libdir : Option Str) (iv : Bool) (fs : FS) : Bool :=
  let dest := destDir fileAbs libdir
  let ls := localDeps deps
  WideDirOpt libdir
    && ls.all (fun d => WideSeg (dirName d iv))
    && decide ((deps.map fun d => dirName d iv).Nodup)
    && ls.all (fun a => ls.all fun b => apartB (srcDir a) (tgtDir b dest iv))
    && ls.all (fun d => apartB (pathResolve fileAbs) (tgtDir d dest iv))
    && !fs.isDir (pathResolve fileAbs) && !fs.fileOnPath (pathResolve fileAbs).dropLast

/-- the listed paths of a dependency in document order (stylesheets, then scripts) -/
def listedInOrder (d : DepInfo) : List Str :=
  d.stylesheet.filterMap (alookup dtKHref) ++ d.script.filterMap (alookup dtKSrc)

/-- every URL clause 1 predicts occurs in the file, and resolves to a byte-identical copy -/
def urlsOk (d : DepInfo) (fileAbs : Str) (libdir : Option Str) (iv : Bool) (urls : List Str) (fs0 fs' : FS) : Verdict :=
  Verdict.all (listedInOrder d) fun p =>
    match closedUrl d libdir iv p with
    | none => .ok
    | some u =>
      if !urls.contains u then .fail
      else if !isLocal d then .ok
      else if !wantedB d (segs (utf8 p)) then Verdict.ofBool (relRefOk u)
      else
        let viaUrl := fs'.read (resolveRef (pathResolve (dirname fileAbs)) u)
        if relRefOk u && viaUrl == fs0.read (srcDir d ++ segs (utf8 p)) && (d.allFiles || viaUrl.isSome) then .ok
        else if urlSpecial (hrefBaseSpec libdir (dirName d iv)) then .known
        else .fail

def isOk (status : Except Err Str) (v : Str) : Bool :=
  match status with
  | .ok x => x == v
  | .error _ => false

def isErr (status : Except Err Str) (e : Err) : Bool :=
  match status with
  | .ok _ => false
  | .error x => x == e

def isAnyErr (status : Except Err Str) : Bool :=
  match status with
  | .ok _ => false
  | .error _ => true

def holdsSave (deps : List DepInfo) (file fileAbs : Str) (libdir : Option Str) (iv : Bool) (html : Str) (fs0 : FS)
    (status : Except Err Str) (urls : List Str) (fs' : FS) : Verdict :=
  if !saveGuards deps fileAbs libdir iv fs0 then .ok else
  let dest := destDir fileAbs libdir
  let F := pathResolve fileAbs
  let rs := deps.map fun d => (d, readiness d dest iv fs0)
  if rs.any (fun x => x.2 == .outside) then .ok else
  -- dependencies up to the first one that cannot be copied
  let done := rs.takeWhile (fun x => x.2 == .ready)
  let rest := rs.dropWhile (fun x => x.2 == .ready)
  let doneLocal := localDeps (done.map (·.1))
  let copiedOk := doneLocal.all fun d => targetOk d (srcDir d) (tgtDir d dest iv) fs0 fs'
  match rest with
  | [] =>
    -- C12_save_doc
    (Verdict.ofBool (isOk status file
      && fs'.read F == some (utf8 html)
      && copiedOk
      && frameOk (doneLocal.map fun d => tgtDir d dest iv) [F] fs0 fs')).and
    (Verdict.all deps fun d => urlsOk d fileAbs libdir iv urls fs0 fs')
  | (bad, r) :: _ =>
    -- C12_save_fail + C12_copy_missing: an error (the same KeyError), earlier copies made, the failing target and the
    -- file untouched
    Verdict.ofBool ((match r with | .keyError e => isErr status e | _ => isAnyErr status)
      && copiedOk
      && subtreeSame (tgtDir bad dest iv) fs0 fs'
      && frameOk (doneLocal.map fun d => tgtDir d dest iv) [] fs0 fs')

/-! ### which clause of the statement an input exercises (reported in the evidence, so that vacuous passes show) -/

def Readiness.name : Readiness → String
  | .ready => "ready"
  | .missing => "missing"
  | .keyError _ => "keyerror"
  | .outside => "outside"

def classCopy (d : DepInfo) (path : Str) (iv : Bool) (fs0 : FS) : String :=
  if !isLocal d then "no-copy"
  else (if d.allFiles then "all:" else "listed:") ++ (readiness d path iv fs0).name

def classSave (deps : List DepInfo) (fileAbs : Str) (libdir : Option Str) (iv : Bool) (fs0 : FS) : String :=
  if !saveGuards deps fileAbs libdir iv fs0 then "guards-fail" else
  let rs := deps.map fun d => readiness d (destDir fileAbs libdir) iv fs0
  if rs.any (· == .outside) then "outside"
  else match rs.dropWhile (· == .ready) with
    | [] => "all-ready"
    | r :: _ => "fails:" ++ r.name

def classUrl (d : DepInfo) (lp : Option Str) (iv : Bool) : String :=
  let ps := d.stylesheet.filterMap (alookup dtKHref) ++ d.script.filterMap (alookup dtKSrc)
  let closed := (ps.filter fun p => (closedUrl d lp iv p).isSome).length
  let agree := (ps.filter fun p => isLocal d && WideSeg (dirName d iv) && CleanRel p && WideDirOpt lp).length
  s!"{ps.length} {closed} {agree}"

end HtmlVerif.Holds
