/-
C11 — HTMLDocument builds one head/body and hoists every dependency into head.

Model: `Model/Document.lean` (`genTree` = `_gen_html_tag_tree` up to hoisting, `hoist` = `_hoist_head_content`
as written: index loop, insert at 0, item assignment, `append`, `extend`; `docTree` = the copy `Tag.render()`
renders; `docRender` = markup, returned list *as the code recomputes it from the hoisted tree*, and the stored
content after the call).  Specification: `Spec/Document.lean` (`specTree`, built directly from the expanded
content `Nodes.expandAll` (C09), the resolved list `docDeps = resolve ∘ collect` (C10) and `asHtmlTags` (C12)).

With `R := docDeps content`, `K` := the root's children demanded by the case (`specRoot`):

  C11_tree_is_spec      the rendered tree is the described tree, error for error
  C11_doctype           markup = "<!DOCTYPE html>\n" ++ rendering of that tree at indent 0, eol "\n"; never a RuntimeError
  C11_root_*            the three cases (chosen on the stored, un-expanded content; `len == 1` counts metadata nodes)
  C11_one_head          exactly one direct <head> child, under the guard `headCount ≤ 1` for a user's <html>
  C11_head_*            that head = <meta charset> :: user's head children ++ listing R ++ markup of R, in place
  C11_listing           the listing script: present iff R ≠ [], text = name[version] joined by ";"
  C11_dep_markup_order  the markup of R is the concatenation, in resolved order, of each dependency's markup, once
  C11_dep_tags          one dependency: metas, links, scripts (one childless tag per entry), then its head nodes
  C11_returned          returned list = R under `noDepInDepHead`; `C11_returned_full_is_false` (F-C11)
  C11_rest_is_plain     outside the head nothing is added, and the markup is that of the dependency-free content (C07)
  C11_page_layout       wrap cases: the page is the html line, the head block, the body block
  C11_objects_expanded* document-level corollary of C09
  C11_pure, C11_append  render() leaves the stored content alone (F-C08a is a deviation of the code); appending
  C11_errors            when render() raises
  C11_statement_holds_of_model   the executable statement accepts the model's own output
-/
import HtmlVerif.Lemmas.Document
import HtmlVerif.Props.C07
import HtmlVerif.Lemmas.NodeBeq
import HtmlVerif.Holds.C11

namespace HtmlVerif.C11
open HtmlVerif HtmlVerif.Doc

/-! ### the rendered tree is the described tree -/

/-- **refinement**: find-or-insert by index, copy, `insert(0, …)`, `append`, `extend`, then `tagify()` of the
    result compute exactly the tree the property describes — and fail exactly when it is not defined -/
theorem C11_tree_is_spec (cfg : Cfg) (content : Nodes) (kw : List (Str × AttrArg)) (lp : Option Str) (iv : Bool) :
    docTree cfg content kw lp iv = specTree cfg content kw lp iv :=
  docTree_eq_spec cfg content kw lp iv

/-- unfolding of the description: root from the case, `withHead` of the appended nodes -/
theorem C11_tree_shape {cfg : Cfg} {content : Nodes} {kw : List (Str × AttrArg)} {lp : Option Str} {iv : Bool}
    {t : Node} (h : docTree cfg content kw lp iv = .ok t) :
    ∃ n w a ks ms, specRoot cfg content kw = .ok (n, w, a, ks) ∧
      depMarkupAll cfg lp iv (docDeps content) = .ok ms ∧
      t = .tag n w a (withHead (listing (docDeps content) ++ ms) ks) := by
  rw [C11_tree_is_spec] at h
  unfold specTree specExtra at h
  split at h
  · cases h
  · rename_i n w a ks hr
    split at h
    · cases h
    · rename_i extra he
      split at he
      · cases he
      · rename_i ms hm
        cases he; cases h
        exact ⟨n, w, a, ks, ms, hr, hm, rfl⟩

/-- **doctype**: `render()` succeeds exactly when the tree is defined (rendering it never raises: nothing
    un-expanded is left), and the markup is the doctype line followed by the tree's own rendering -/
theorem C11_doctype (cfg : Cfg) (content : Nodes) (kw : List (Str × AttrArg)) (lp : Option Str) (iv : Bool) :
    docRender cfg content kw lp iv =
      match docTree cfg content kw lp iv with
      | .error e => .error e
      | .ok t => .ok { html := doctype ++ t.render cfg 0 ['\n'], deps := t.getDeps true, after := content } :=
  docRender_eq cfg content kw lp iv

theorem C11_doctype_prefix {cfg : Cfg} {content : Nodes} {kw : List (Str × AttrArg)} {lp : Option Str} {iv : Bool}
    {r : DocRendered} (h : docRender cfg content kw lp iv = .ok r) :
    ∃ t, docTree cfg content kw lp iv = .ok t ∧ r.html = doctype ++ t.render cfg 0 ['\n'] ∧
      doctype <+: r.html := by
  rw [C11_doctype] at h
  split at h
  · cases h
  · rename_i t ht
    cases h
    exact ⟨t, ht, rfl, ⟨_, rfl⟩⟩

/-! ### the root: three cases -/

/-- **sole `<html>`** (the only stored node, metadata nodes counted): the user's own tag — name, `add_ws` kept —
    with its attributes updated by the keyword arguments, and all children other than the one head are the
    user's children, expanded, in order -/
theorem C11_root_html {cfg : Cfg} {w : Bool} {a : Attrs} {kids : Nodes} {kw : List (Str × AttrArg)}
    {lp : Option Str} {iv : Bool} {t : Node}
    (h : docTree cfg (.cons (.tag nHtml w a kids) .nil) kw lp iv = .ok t) :
    ∃ a' ks, updateKw cfg a kw = .ok a' ∧ t = .tag nHtml w a' ks ∧
      dropFirstHead ks = dropFirstHead kids.expandAll := by
  obtain ⟨n, w', a', ks, ms, hr, _, rfl⟩ := C11_tree_shape h
  simp only [specRoot, docShape, if_true] at hr
  split at hr
  · cases hr
  · rename_i a'' ha
    cases hr
    exact ⟨_, _, ha, rfl, dropFirstHead_withHead _ _⟩

/-- **sole `<body>`**: a new `<html>` (attributes = the keyword arguments) with exactly two children, the head
    and the user's own `<body>` tag (name, flag, attributes kept) over its expanded children -/
theorem C11_root_body {cfg : Cfg} {w : Bool} {a : Attrs} {kids : Nodes} {kw : List (Str × AttrArg)}
    {lp : Option Str} {iv : Bool} {t : Node}
    (h : docTree cfg (.cons (.tag nBody w a kids) .nil) kw lp iv = .ok t) :
    ∃ a' ms, tagInitAttrs cfg [] kw = .ok a' ∧
      depMarkupAll cfg lp iv (docDeps (.cons (.tag nBody w a kids) .nil)) = .ok ms ∧
      t = .tag nHtml true a'
        (.cons (specHead nHead true [] .nil (listing (docDeps (.cons (.tag nBody w a kids) .nil)) ++ ms))
          (.cons (.tag nBody w a kids.expandAll) .nil)) := by
  obtain ⟨n, w', a', ks, ms, hr, hm, rfl⟩ := C11_tree_shape h
  have hs : docShape (.cons (.tag nBody w a kids) .nil) = .soleBody w a kids := by
    simp [docShape, nBody_ne_nHtml]
  simp only [specRoot, hs] at hr
  split at hr
  · cases hr
  · rename_i a'' ha
    cases hr
    exact ⟨_, ms, ha, hm, by simp [withHead, splitHead, emptyHead, isTagNamed, specHead]⟩

/-- **anything else** (no node, several nodes, a sole node that is not an `<html>`/`<body>` *tag* — e.g. an object
    that would expand to one): a new `<html>` with the head and a new `<body>` wrapping the expanded content -/
theorem C11_root_fragment {cfg : Cfg} {content : Nodes} {kw : List (Str × AttrArg)} {lp : Option Str} {iv : Bool}
    {t : Node} (hs : docShape content = .fragment) (h : docTree cfg content kw lp iv = .ok t) :
    ∃ a' ms, tagInitAttrs cfg [] kw = .ok a' ∧ depMarkupAll cfg lp iv (docDeps content) = .ok ms ∧
      t = .tag nHtml true a'
        (.cons (specHead nHead true [] .nil (listing (docDeps content) ++ ms))
          (.cons (.tag nBody true [] content.expandAll) .nil)) := by
  obtain ⟨n, w', a', ks, ms, hr, hm, rfl⟩ := C11_tree_shape h
  simp only [specRoot, hs] at hr
  split at hr
  · cases hr
  · rename_i a'' ha
    cases hr
    exact ⟨_, ms, ha, hm, by simp [withHead, splitHead, emptyHead, isTagNamed, specHead]⟩

/-- the case is decided on the stored content: a metadata node next to the `<html>` tag, or an object that
    expands to an `<html>` tag, makes it a fragment -/
theorem C11_case_on_stored_content (rh : Option Str) (w : Bool) (a : Attrs) (k : Nodes) (m : Nat) :
    docShape (.cons (.tobj1 rh (.tag nHtml w a k)) .nil) = .fragment ∧
    docShape (Nodes.cons (.tobj1 rh (.tag nHtml w a k)) .nil).expandAll = .soleHtml w a k.expandAll ∧
    docShape (.cons (.mnode m) (.cons (.tag nHtml w a k) .nil)) = .fragment ∧
    docShape (.cons (.tag nHtml w a k) .nil) = .soleHtml w a k := by
  simp [docShape, Nodes.expandAll, Node.expand]

/-- the root is always an `<html>` tag -/
theorem C11_root_is_html {cfg : Cfg} {content : Nodes} {kw : List (Str × AttrArg)} {lp : Option Str} {iv : Bool}
    {t : Node} (h : docTree cfg content kw lp iv = .ok t) : isTagNamed nHtml t = true := by
  obtain ⟨n, w, a, ks, ms, hr, _, rfl⟩ := C11_tree_shape h
  obtain ⟨hn, _, _⟩ := specRoot_ok hr
  simp [isTagNamed, hn]

/-! ### exactly one head -/

/-- **one head.**  Guard (decidable, the property's own): a user-supplied `<html>` has at most one direct
    `<head>` child after expansion.  In the two wrapping cases the guard is vacuous. -/
theorem C11_one_head {cfg : Cfg} {content : Nodes} {kw : List (Str × AttrArg)} {lp : Option Str} {iv : Bool}
    {n : Str} {w : Bool} {a : Attrs} {ks : Nodes}
    (guard : ∀ w0 a0 kids, docShape content = .soleHtml w0 a0 kids → headCount kids.expandAll ≤ 1)
    (h : docTree cfg content kw lp iv = .ok (.tag n w a ks)) : headCount ks = 1 := by
  obtain ⟨n', w', a', ks', ms, hr, _, ht⟩ := C11_tree_shape h
  cases ht
  rw [headCount_withHead]
  unfold specRoot at hr
  split at hr
  · rename_i w0 a0 kids hs
    have := guard w0 a0 kids hs
    split at hr
    · cases hr
    · cases hr; omega
  · split at hr
    · cases hr
    · cases hr; simp [headCount, emptyHead, isTagNamed, nBody_ne_nHead]
  · split at hr
    · cases hr
    · cases hr; simp [headCount, emptyHead, isTagNamed, nBody_ne_nHead]

/-- without the guard the count is the user's (the complementary case is modelled, not claimed) -/
theorem C11_head_count_general {cfg : Cfg} {w : Bool} {a : Attrs} {kids : Nodes} {kw : List (Str × AttrArg)}
    {lp : Option Str} {iv : Bool} {n : Str} {w' : Bool} {a' : Attrs} {ks : Nodes}
    (h : docTree cfg (.cons (.tag nHtml w a kids) .nil) kw lp iv = .ok (.tag n w' a' ks)) :
    headCount ks = max 1 (headCount kids.expandAll) := by
  obtain ⟨n', w'', a'', ks', ms, hr, _, ht⟩ := C11_tree_shape h
  cases ht
  simp only [specRoot, docShape, if_true] at hr
  split at hr
  · cases hr
  · cases hr; exact headCount_withHead _ _

/-! ### the head -/

/-- **the head, when the root's children have no `<head>`** (always so in the wrapping cases — the fresh empty
    head is completed): a new first child `<head>` = `<meta charset="utf-8">`, then `extra` -/
theorem C11_head_new (extra ks : Nodes) (h : headCount ks = 0) :
    withHead extra ks = .cons (.tag nHead true [] (.cons metaCharset extra)) ks := by
  rcases headIndex_spec ks with ⟨_, h2, _⟩ | ⟨_, pre, n, w, a, hk, post, _, _, hn, hks, _, _⟩
  · simp [withHead, h2, specHead]
  · rw [hks, headCount_append] at h
    simp [headCount, isTagNamed, hn] at h

/-- **the head, when the user's `<html>` has one**: the first direct `<head>` child stays where it is, keeps its
    name / flag / attributes, and its children become `<meta charset="utf-8">`, the user's head children in
    order, then `extra`; every other child is untouched -/
theorem C11_head_user (extra pre post hk : Nodes) (w : Bool) (a : Attrs) (hp : headCount pre = 0) :
    withHead extra (pre ++ Nodes.cons (.tag nHead w a hk) post)
      = pre ++ Nodes.cons (.tag nHead w a (.cons metaCharset (hk ++ extra))) post := by
  simp [withHead, (splitHead_append pre post w a hk hp).1, specHead]

/-- `extra` in the document: the listing of R, then the markup of R -/
theorem C11_head {cfg : Cfg} {content : Nodes} {kw : List (Str × AttrArg)} {lp : Option Str} {iv : Bool} {t : Node}
    (h : docTree cfg content kw lp iv = .ok t) :
    ∃ n w a ks ms, specRoot cfg content kw = .ok (n, w, a, ks) ∧
      depMarkupAll cfg lp iv (docDeps content) = .ok ms ∧
      t = .tag n w a (withHead (listing (docDeps content) ++ ms) ks) ∧
      -- the head that is found first in the result is the completed one
      (∀ pre hd post, splitHead ks = some (pre, hd, post) →
        ∃ n' w' a' hk, hd = .tag n' w' a' hk ∧
          splitHead (withHead (listing (docDeps content) ++ ms) ks)
            = some (pre, .tag n' w' a' (.cons metaCharset (hk ++ (listing (docDeps content) ++ ms))), post)) ∧
      (splitHead ks = none →
          splitHead (withHead (listing (docDeps content) ++ ms) ks)
            = some (.nil, .tag nHead true [] (.cons metaCharset (listing (docDeps content) ++ ms)), ks)) := by
  obtain ⟨n, w, a, ks, ms, hr, hm, rfl⟩ := C11_tree_shape h
  refine ⟨n, w, a, ks, ms, hr, hm, rfl, ?_, ?_⟩
  · intro pre hd post hs
    rcases headIndex_spec ks with ⟨_, h2, _⟩ | ⟨_, pre', n', w', a', hk, post', _, h2, hn, hks, hp, _⟩
    · rw [h2] at hs; cases hs
    · rw [h2] at hs; cases hs
      subst hn
      refine ⟨_, _, _, _, rfl, ?_⟩
      simp only [withHead, h2, specHead]
      exact (splitHead_append pre post w' a' _ hp).1
  · intro hs
    simp [withHead, hs, specHead, splitHead, isTagNamed]

/-- **the listing script**: absent when nothing is resolved; otherwise one
    `<script type="application/html-dependencies">` whose only child is the text `name[version]` of every
    resolved dependency, joined by `;`, in resolved order -/
theorem C11_listing (d : Node) (ds : List Node) :
    listing [] = .nil ∧
    listing (d :: ds) = .cons (.tag nScript true
      [(['t', 'y', 'p', 'e'], .plain ['a', 'p', 'p', 'l', 'i', 'c', 'a', 't', 'i', 'o', 'n', '/', 'h', 't', 'm', 'l',
        '-', 'd', 'e', 'p', 'e', 'n', 'd', 'e', 'n', 'c', 'i', 'e', 's'])]
      (.cons (.text (listingText (d :: ds))) .nil)) .nil ∧
    listingText (d :: ds) = joinStr [';'] ((d :: ds).map fun x =>
      match x with
      | .dep i _ _ => i.name ++ '[' :: i.version ++ [']']
      | _ => []) :=
  ⟨rfl, rfl, rfl⟩

/-- **resolved order, each once**: the markup appended for a list of dependencies is the markup of the first,
    followed by the markup appended for the rest — one block per list element, in list order -/
theorem C11_dep_markup_order (cfg : Cfg) (lp : Option Str) (iv : Bool) (d : Node) (ds : List Node) (ms : Nodes) :
    depMarkupAll cfg lp iv [] = .ok .nil ∧
    (depMarkupAll cfg lp iv (d :: ds) = .ok ms ↔
      ∃ p rs, depMarkup cfg lp iv d = .ok p ∧ depMarkupAll cfg lp iv ds = .ok rs ∧ ms = p ++ rs) := by
  refine ⟨rfl, ?_⟩
  simp only [depMarkupAll]
  cases hd : depMarkup cfg lp iv d with
  | error e => simp
  | ok ts =>
    cases hr : depMarkupAll cfg lp iv ds with
    | error e => simp
    | ok rs =>
      simp only [Except.ok.injEq]
      constructor
      · intro h; exact ⟨ts, rs, rfl, rfl, h.symm⟩
      · rintro ⟨p, rs', hp, hrs, rfl⟩; cases hp; cases hrs; rfl

/-- **one dependency's markup**: its `<meta>` tags, then its `<link>` tags, then its `<script>` tags — one
    childless tag per entry of `meta` / `stylesheet` / `script` — then its own head nodes (expanded), if any -/
theorem C11_dep_tags {cfg : Cfg} {lp : Option Str} {iv : Bool} {d : DepInfo} {hh : Bool} {head ms : Nodes}
    (h : depMarkup cfg lp iv (.dep d hh head) = .ok ms) :
    ∃ metas links scripts : List Node,
      ms = Nodes.ofList (metas ++ links ++ scripts) ++ (if hh then head.expandAll else .nil) ∧
      metas.length = d.metas.length ∧ links.length = d.stylesheet.length ∧ scripts.length = d.script.length ∧
      (∀ t ∈ metas, ∃ a, t = .tag nMeta true a .nil) ∧ (∀ t ∈ links, ∃ a, t = .tag nLink true a .nil) ∧
      (∀ t ∈ scripts, ∃ a, t = .tag nScript true a .nil) := by
  unfold depMarkup at h
  split at h
  · cases h
  · rename_i ts hts
    cases h
    obtain ⟨metas, links, scripts, rfl, l1, l2, l3, s1, s2, s3⟩ := asHtmlTags_shape hts
    refine ⟨metas, links, scripts, ?_, l1, l2, l3, s1, s2, s3⟩
    have hc : ChildlessTags (metas ++ links ++ scripts) := by
      intro t ht
      simp only [List.mem_append] at ht
      rcases ht with (ht | ht) | ht
      · obtain ⟨a, ha⟩ := s1 t ht; exact ⟨_, a, ha⟩
      · obtain ⟨a, ha⟩ := s2 t ht; exact ⟨_, a, ha⟩
      · obtain ⟨a, ha⟩ := s3 t ht; exact ⟨_, a, ha⟩
    rw [Nodes.expandAll_append, (childless_expand hc).1]
    cases hh <;> simp [Nodes.expandAll]

/-! ### the returned list -/

/-- **returned list = resolved list**, under the guard that no resolved dependency's head contains a
    dependency (F-C11: the code recomputes the list from the hoisted tree) -/
theorem C11_returned {cfg : Cfg} {content : Nodes} {kw : List (Str × AttrArg)} {lp : Option Str} {iv : Bool}
    {r : DocRendered} (guard : noDepInDepHead content = true)
    (h : docRender cfg content kw lp iv = .ok r) : r.deps = docDeps content := by
  rw [C11_doctype] at h
  split at h
  · cases h
  · rename_i t ht
    cases h
    obtain ⟨n, w, a, ks, ms, hr, hm, rfl⟩ := C11_tree_shape ht
    obtain ⟨_, _, hc⟩ := specRoot_ok hr
    have hms : ms.collect = [] := by
      rw [depMarkupAll_collect hm]
      simp only [noDepInDepHead, List.all_eq_true, List.isEmpty_iff] at guard
      simp only [List.flatMap_eq_nil_iff]
      exact guard
    have he : (listing (docDeps content) ++ ms).collect = [] := by
      rw [collect_append, listing_collect, hms]; rfl
    simp only [Node.getDeps, Nodes.getDeps, if_true]
    rw [collect_withHead _ _ he, hc]
    rfl

/-- what the code returns in general: the resolution of the content's dependencies together with whatever
    dependencies the hoisted heads carry (membership form) -/
theorem C11_returned_general {cfg : Cfg} {content : Nodes} {kw : List (Str × AttrArg)} {lp : Option Str} {iv : Bool}
    {r : DocRendered} (h : docRender cfg content kw lp iv = .ok r) :
    ∃ ds, r.deps = resolve ds ∧
      ∀ d, d ∈ ds ↔ (d ∈ content.expandAll.collect ∨ d ∈ (docDeps content).flatMap depHeadDeps) := by
  rw [C11_doctype] at h
  split at h
  · cases h
  · rename_i t ht
    cases h
    obtain ⟨n, w, a, ks, ms, hr, hm, rfl⟩ := C11_tree_shape ht
    obtain ⟨_, _, hc⟩ := specRoot_ok hr
    refine ⟨(withHead (listing (docDeps content) ++ ms) ks).collect, rfl, fun d => ?_⟩
    rw [collect_withHead_mem, collect_append, listing_collect, depMarkupAll_collect hm, hc]
    simp

/-- a small renderer configuration for the concrete witnesses below -/
def cfg0 : Cfg := { void := [nMeta], noesc := [nScript], textTbl := [('<', ['&', 'l', 't', ';'])], attrTbl := [] }

def depInfo0 (name : Str) : DepInfo :=
  { name := name, version := ['1'], vrank := 0, source := .none, script := [], stylesheet := [], metas := [],
    allFiles := false }

/-- F-C11's witness: `inner = HTMLDependency("inner","1"); h = HTMLDependency("h","1", head=TagList(div(inner)));
    HTMLDocument(div(h))` -/
def witnessFC11 : Nodes :=
  .cons (.tag ['d', 'i', 'v'] true []
    (.cons (.dep (depInfo0 ['h']) true
      (.cons (.tag ['d', 'i', 'v'] true [] (.cons (.dep (depInfo0 ['i', 'n', 'n', 'e', 'r']) false .nil) .nil)) .nil))
      .nil)) .nil

/-- number of returned dependencies (0 when render() raises) -/
def returnedCount (x : Except Err DocRendered) : Nat :=
  match x with
  | .ok r => r.deps.length
  | .error _ => 0

/-- **the unguarded statement is false** (F-C11): for the witness, `h` alone is resolved, listed and hoisted,
    but two dependencies are returned -/
theorem C11_returned_full_is_false :
    ¬ ∀ (cfg : Cfg) (content : Nodes) (kw : List (Str × AttrArg)) (lp : Option Str) (iv : Bool) (r : DocRendered),
        docRender cfg content kw lp iv = .ok r → r.deps = docDeps content := by
  intro h
  have h2 : returnedCount (docRender cfg0 witnessFC11 [] none true) = 2 := by decide +kernel
  have h1 : (docDeps witnessFC11).length = 1 := by decide +kernel
  cases hr : docRender cfg0 witnessFC11 [] none true with
  | error e => simp [hr, returnedCount] at h2
  | ok r =>
    have := h cfg0 witnessFC11 [] none true r hr
    simp only [hr, returnedCount] at h2
    rw [this] at h2
    omega

/-- the witness is outside the guard, and the guard is satisfiable by documents with dependencies that have heads -/
example : noDepInDepHead witnessFC11 = false := by decide +kernel

example : noDepInDepHead (.cons (.dep (depInfo0 ['h']) true (.cons (.text ['x']) .nil)) .nil) = true ∧
    docDeps (.cons (.dep (depInfo0 ['h']) true (.cons (.text ['x']) .nil)) .nil) ≠ [] := by decide +kernel

/-! ### everything else is the content's ordinary rendering -/

/-- **nothing is added outside the head, and dependencies leave no markup there.**  With `K` the root's children
    for the case (the user's, expanded) and `extra` the listing and markup of R:
    (1) the children other than the one head are exactly those of `K` — hoisting inserts no node anywhere else;
    (2) the markup of the document is the markup of the same construction over the *dependency-free* skeleton
        `K.stripMeta` (C07): no dependency or other metadata node of the content contributes a character. -/
theorem C11_rest_is_plain {cfg : Cfg} {content : Nodes} {kw : List (Str × AttrArg)} {lp : Option Str} {iv : Bool}
    {t : Node} (h : docTree cfg content kw lp iv = .ok t) :
    ∃ n w a ks extra, specRoot cfg content kw = .ok (n, w, a, ks) ∧ t = .tag n w a (withHead extra ks) ∧
      dropFirstHead (withHead extra ks) = dropFirstHead ks ∧
      ∀ (i : Nat) (e : Str),
        t.render cfg i e = (Node.tag n w a (withHead extra ks.stripMeta)).render cfg i e := by
  obtain ⟨n, w, a, ks, ms, hr, _, rfl⟩ := C11_tree_shape h
  refine ⟨n, w, a, ks, _, hr, rfl, dropFirstHead_withHead _ _, fun i e => ?_⟩
  apply C07.C07_insert_remove
  simp [Node.stripMeta, stripMeta_withHead, stripMeta_idem]

/-- **page layout in the two wrapping cases**: the `<html …>` line, the head block at indent 1, the body block at
    indent 1 — the body block being the ordinary rendering of the (expanded) content under `<body>`, equal to that
    of its dependency-free skeleton — and the closing tag -/
theorem C11_page_layout (cfg : Cfg) (a : Attrs) (hn : Str) (ha : Attrs) (hk : Nodes)
    (bn : Str) (bw : Bool) (ba : Attrs) (bk : Nodes) :
    doctype ++ (Node.tag nHtml true a (.cons (.tag hn true ha hk) (.cons (.tag bn bw ba bk) .nil))).render cfg 0 ['\n']
      = doctype ++ openTag cfg nHtml a ++ ['>', '\n']
        ++ (Node.tag hn true ha hk).render cfg 1 ['\n'] ++ ['\n']
        ++ (Node.tag bn bw ba bk.stripMeta).render cfg 1 ['\n'] ++ ['\n'] ++ closeTag nHtml := by
  have hb := C07.C07_tag cfg (.tag bn bw ba bk) 1 ['\n']
  simp only [Node.stripMeta] at hb
  rw [hb]
  simp [Node.render, Nodes.visible, Node.isMeta, inlineChild?, Nodes.renderKids, indentStr]

/-! ### tagifiable objects in the content (document-level corollary of C09) -/

/-- the result is a function of the case (chosen on the stored content) and of the *expansion* of the content:
    in the fragment case objects can be replaced by their expansions as long as that does not change the case … -/
theorem C11_objects_expanded (cfg : Cfg) (content : Nodes) (kw : List (Str × AttrArg)) (lp : Option Str) (iv : Bool)
    (h1 : docShape content = .fragment) (h2 : docShape content.expandAll = .fragment) :
    docTree cfg content kw lp iv = docTree cfg content.expandAll kw lp iv := by
  simp only [C11_tree_is_spec, specTree, specRoot, h1, h2, docDeps, C09.C09_idempotent]

/-- … and below a user's `<html>` or `<body>` tag always -/
theorem C11_objects_expanded_html (cfg : Cfg) (n : Str) (w : Bool) (a : Attrs) (kids : Nodes)
    (kw : List (Str × AttrArg)) (lp : Option Str) (iv : Bool) :
    docTree cfg (.cons (.tag n w a kids) .nil) kw lp iv
      = docTree cfg (.cons (.tag n w a kids.expandAll) .nil) kw lp iv := by
  by_cases hh : n = nHtml
  · subst hh
    simp only [C11_tree_is_spec, specTree, specRoot, docShape, if_true, docDeps, Nodes.expandAll, Node.expand,
      C09.C09_idempotent]
  · by_cases hb : n = nBody
    · subst hb
      simp only [C11_tree_is_spec, specTree, specRoot, docShape, hh, if_false, if_true, docDeps, Nodes.expandAll,
        Node.expand, C09.C09_idempotent]
    · simp only [C11_tree_is_spec, specTree, specRoot, docShape, hh, hb, if_false, docDeps, Nodes.expandAll,
        Node.expand, C09.C09_idempotent]

/-- an object that expands to an `<html>` tag is *not* taken as the document's root: the case is chosen before
    expansion, so the two documents differ (concrete instance) -/
theorem C11_objects_case_before_expansion :
    let c : Nodes := .cons (.tobj1 none (.tag nHtml true [] .nil)) .nil
    (match docTree cfg0 c [] none true, docTree cfg0 c.expandAll [] none true with
      | .ok t, .ok t' => t.beq t'
      | _, _ => true) = false := by
  decide +kernel

/-! ### purity, appending, errors -/

/-- **`render()` leaves the stored content as it was** (the pinned code updates the attributes of the user's
    `<html>` tag in place: F-C08a, repaired by `fixes/C08-doc-render-no-mutation.patch`) -/
theorem C11_pure {cfg : Cfg} {content : Nodes} {kw : List (Str × AttrArg)} {lp : Option Str} {iv : Bool}
    {r : DocRendered} (h : docRender cfg content kw lp iv = .ok r) : r.after = content := by
  rw [C11_doctype] at h
  split at h
  · cases h
  · cases h; rfl

/-- hence rendering again gives the same result -/
theorem C11_repeat {cfg : Cfg} {content : Nodes} {kw : List (Str × AttrArg)} {lp : Option Str} {iv : Bool}
    {r : DocRendered} (h : docRender cfg content kw lp iv = .ok r) :
    docRender cfg r.after kw lp iv = .ok r := by
  rw [C11_pure h]; exact h

/-- content appended later is content: `HTMLDocument(*a).append(*b)…` renders as `HTMLDocument(*a, *b, …)` -/
theorem C11_append (args : Nodes) (later : List Nodes) :
    docContent args later = later.foldl (· ++ ·) args ∧
    docContent args [] = args ∧
    (∀ b, docContent args [b] = args ++ b) := by
  refine ⟨rfl, rfl, fun b => rfl⟩

/-- **when `render()` raises**: exactly when the keyword arguments are rejected (before anything else), or some
    resolved dependency's `as_html_tags` raises (the first one in resolved order decides) -/
theorem C11_errors (cfg : Cfg) (content : Nodes) (kw : List (Str × AttrArg)) (lp : Option Str) (iv : Bool) (e : Err) :
    docRender cfg content kw lp iv = .error e ↔
      (specRoot cfg content kw = .error e ∨
        ((∃ r, specRoot cfg content kw = .ok r) ∧ depMarkupAll cfg lp iv (docDeps content) = .error e)) := by
  rw [C11_doctype, C11_tree_is_spec]
  unfold specTree specExtra
  cases hr : specRoot cfg content kw with
  | error e' => simp
  | ok r =>
    obtain ⟨n, w, a, ks⟩ := r
    cases hm : depMarkupAll cfg lp iv (docDeps content) with
    | error e' => simp
    | ok ms => simp

/-! ### non-vacuity: a user's `<html>` whose `<head>` (third child) already has children, dependencies in the body, in
the head and directly under `<html>`, two versions of one name, html attribute arguments -/

def exampleDep (name version : Str) (rank : Nat) (head : Nodes) : Node :=
  .dep { name := name, version := version, vrank := rank, source := .href ['/', '/', 'c'],
         script := [[(['s', 'r', 'c'], ['s', '.', 'j', 's'])]], stylesheet := [], metas := [], allFiles := false }
    true head

def exampleDoc : Nodes :=
  .cons (.tag nHtml true [(['l', 'a', 'n', 'g'], .plain ['x'])]
    (.cons (exampleDep ['a'] ['1'] 0 (.cons (.text ['h', '1']) .nil))
    (.cons (.tag nBody true [] (.cons (.text ['b']) (.cons (exampleDep ['a'] ['2'] 1 .nil) .nil)))
    (.cons (.tag nHead true [] (.cons (.tag ['t', 'i', 't', 'l', 'e'] true [] (.cons (.text ['t']) .nil))
        (.cons (.tobjL none (.cons (exampleDep ['b'] ['1'] 0 .nil) .nil)) .nil)))
    .nil)))) .nil

/-- the document is defined, has one head, resolves to two dependencies (a-2, b), satisfies both guards, and the
    returned list has the resolved length -/
example :
    (match docRender cfg0 exampleDoc [(['l', 'a', 'n', 'g'], .str ['e', 'n'])] (some ['l', 'i', 'b']) true,
           docTree cfg0 exampleDoc [(['l', 'a', 'n', 'g'], .str ['e', 'n'])] (some ['l', 'i', 'b']) true with
      | .ok r, .ok (.tag _ _ _ ks) => headCount ks == 1 && r.deps.length == 2
      | _, _ => false) = true ∧
    (docDeps exampleDoc).length = 2 ∧ noDepInDepHead exampleDoc = true ∧
    docShape exampleDoc ≠ .fragment := by
  refine ⟨by decide +kernel, by decide +kernel, by decide +kernel, ?_⟩
  simp [exampleDoc, docShape]

/-! ### the executable statement accepts the model's own output -/

/-- the model's answer in the form the executable statement receives -/
def modelAnswer (cfg : Cfg) (content : Nodes) (kw : List (Str × AttrArg)) (lp : Option Str) (iv : Bool) :
    Holds.DocAnswer :=
  match docRender cfg content kw lp iv with
  | .ok r => .ok (r.html, r.deps, r.after)
  | .error e => .error e

/-- under the guard every clause of `Holds.failsC11` holds of the model; without it only the clause about the
    returned list can fail, and it is then labelled as outside the guard -/
theorem C11_statement_holds_of_model (cfg : Cfg) (content : Nodes) (kw : List (Str × AttrArg)) (lp : Option Str)
    (iv : Bool) :
    (noDepInDepHead content = true →
      Holds.failsC11 cfg content kw lp iv (modelAnswer cfg content kw lp iv) = []) ∧
    (∀ l ∈ Holds.failsC11 cfg content kw lp iv (modelAnswer cfg content kw lp iv), l = "returned!g") := by
  have key : ∀ (g : Bool), noDepInDepHead content = g →
      (g = true → Holds.failsC11 cfg content kw lp iv (modelAnswer cfg content kw lp iv) = []) ∧
      (∀ l ∈ Holds.failsC11 cfg content kw lp iv (modelAnswer cfg content kw lp iv), l = "returned!g") := by
    intro g hg
    unfold modelAnswer Holds.failsC11
    cases hr : docRender cfg content kw lp iv with
    | error e =>
      have hr' := hr
      rw [C11_doctype, C11_tree_is_spec] at hr'
      cases hs : specTree cfg content kw lp iv with
      | error e' =>
        rw [hs] at hr'
        cases hr'
        simp [Holds.clause]
      | ok t => rw [hs] at hr'; cases hr'
    | ok r =>
      have hr' := hr
      rw [C11_doctype, C11_tree_is_spec] at hr'
      cases hs : specTree cfg content kw lp iv with
      | error e' => rw [hs] at hr'; cases hr'
      | ok t =>
        rw [hs] at hr'
        cases hr'
        cases g with
        | true =>
          have hd := C11_returned hg hr
          simp only at hd
          simp [Holds.clause, hd, C10.C10_nodesEq_refl, Nodes.beq_refl]
        | false =>
          simp only [Holds.clause, hg, Nodes.beq_refl, beq_self_eq_true, if_true, List.nil_append, List.append_nil]
          constructor
          · intro hf; cases hf
          · intro l hl
            split at hl
            · cases hl
            · simpa using hl
  exact key _ rfl

end HtmlVerif.C11
