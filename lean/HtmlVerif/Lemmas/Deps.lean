/-
Helper lemmas for C10: the resolution fold decomposes by name.
-/
import HtmlVerif.Spec.Deps

namespace HtmlVerif

section
variable {κ α : Type} [DecidableEq κ] (gt : α → α → Bool) (name : α → κ)

/-- what the loop leaves under one key: start with the first object of that name, replace on strictly greater -/
def bestOf (v : α) (l : List α) : α := l.foldl (fun b y => if gt y b then y else b) v

@[simp] theorem bestOf_nil (v : α) : bestOf gt v [] = v := rfl

@[simp] theorem bestOf_cons (v y : α) (l : List α) :
    bestOf gt v (y :: l) = bestOf gt (if gt y v then y else v) l := rfl

theorem resolveStep_cons_same (k : κ) (v d : α) (m : List (κ × α)) (h : name d = k) :
    resolveStep gt name ((k, v) :: m) d = (k, if gt d v then d else v) :: m := by
  simp only [resolveStep, amapGet?, amapSet, h, if_true]
  split <;> rfl

theorem resolveStep_cons_other (k : κ) (v d : α) (m : List (κ × α)) (h : name d ≠ k) :
    resolveStep gt name ((k, v) :: m) d = (k, v) :: resolveStep gt name m d := by
  have h' : ¬ k = name d := fun e => h e.symm
  simp only [resolveStep, amapGet?, amapSet, h', if_false]
  cases amapGet? (name d) m with
  | none => rfl
  | some cur => simp only []; split <;> rfl

/-- the fold acts on the first key and on the rest of the dict independently -/
theorem foldl_resolveStep_cons (k : κ) (ds : List α) : ∀ (v : α) (m : List (κ × α)),
    ds.foldl (resolveStep gt name) ((k, v) :: m)
      = (k, bestOf gt v (ds.filter (fun d => name d = k)))
          :: (ds.filter (fun d => name d ≠ k)).foldl (resolveStep gt name) m := by
  induction ds with
  | nil => intro v m; rfl
  | cons d ds ih =>
    intro v m
    by_cases h : name d = k
    · simp [List.foldl_cons, resolveStep_cons_same gt name k v d m h, ih, h]
    · simp [List.foldl_cons, resolveStep_cons_other gt name k v d m h, ih, h]

theorem resolveStep_nil (d : α) : resolveStep gt name [] d = [(name d, d)] := rfl

/-- recursive description of `_resolve_dependencies` -/
theorem resolveBy_cons (d : α) (ds : List α) :
    resolveBy gt name (d :: ds)
      = bestOf gt d (ds.filter (fun x => name x = name d))
          :: resolveBy gt name (ds.filter (fun x => name x ≠ name d)) := by
  simp [resolveBy, resolveMap, List.foldl_cons, resolveStep_nil, foldl_resolveStep_cons]

@[simp] theorem resolveBy_nil : resolveBy gt name ([] : List α) = [] := rfl

omit [DecidableEq κ] in
theorem name_bestOf (l : List α) : ∀ (v : α), (∀ y ∈ l, name y = name v) →
    name (bestOf gt v l) = name v := by
  induction l with
  | nil => intro v _; rfl
  | cons y l ih =>
    intro v h
    have hy : name y = name v := h y (by simp)
    have hl : ∀ z ∈ l, name z = name v := fun z hz => h z (by simp [hz])
    rw [bestOf_cons]
    split
    · rw [ih y (fun z hz => by rw [hl z hz, hy]), hy]
    · exact ih v hl

theorem bestOf_mem (l : List α) : ∀ (v : α), bestOf gt v l = v ∨ bestOf gt v l ∈ l := by
  induction l with
  | nil => intro v; simp
  | cons y l ih =>
    intro v
    rw [bestOf_cons]
    split
    · rcases ih y with h | h
      · right; simp [h]
      · right; simp [h]
    · rcases ih v with h | h
      · left; exact h
      · right; simp [h]

/-- the loop invariant of one key: the kept object is the first maximal one of those seen -/
theorem bestOf_isFirstMax_aux (hs : StrictWeak gt) (l : List α) : ∀ (seen : List α) (b : α),
    IsFirstMax gt seen b → IsFirstMax gt (seen ++ l) (bestOf gt b l) := by
  induction l with
  | nil => intro seen b h; simpa using h
  | cons y l ih =>
    intro seen b h
    rw [bestOf_cons]
    have : seen ++ y :: l = (seen ++ [y]) ++ l := by simp
    rw [this]
    apply ih
    obtain ⟨pre, post, hl, hpre, hpost⟩ := h
    by_cases hg : gt y b = true
    · simp only [hg, if_true]
      refine ⟨seen, [], by simp, ?_, by simp⟩
      intro z hz
      rw [hl] at hz
      rcases List.mem_append.mp hz with hz | hz
      · exact hs.gt_of_gt_of_le y b z hg (hs.asymm _ _ (hpre z hz))
      · rcases List.mem_cons.mp hz with rfl | hz
        · exact hg
        · exact hs.gt_of_gt_of_le y b z hg (hpost z hz)
    · have hg' : gt y b = false := by simpa using hg
      simp only [hg', Bool.false_eq_true, if_false]
      refine ⟨pre, post ++ [y], by simp [hl], hpre, ?_⟩
      intro z hz
      rcases List.mem_append.mp hz with hz | hz
      · exact hpost z hz
      · simp at hz; subst hz; exact hg'

theorem bestOf_isFirstMax (hs : StrictWeak gt) (v : α) (l : List α) :
    IsFirstMax gt (v :: l) (bestOf gt v l) :=
  bestOf_isFirstMax_aux gt hs l [v] v ⟨[], [], rfl, by simp, by simp⟩

theorem IsFirstMax.mem {l : List α} {d : α} (h : IsFirstMax gt l d) : d ∈ l := by
  obtain ⟨pre, post, hl, _, _⟩ := h
  simp [hl]

theorem StrictWeak.irrefl {gt : α → α → Bool} (hs : StrictWeak gt) (a : α) : gt a a = false := by
  cases h : gt a a with
  | false => rfl
  | true => have := hs.asymm a a h; simp [h] at this

/-- the positional and the search form of "first maximal" agree -/
theorem IsFirstMax.firstMaxBy_eq {gt : α → α → Bool} (hs : StrictWeak gt) {l : List α} {d : α}
    (h : IsFirstMax gt l d) : firstMaxBy gt l = some d := by
  obtain ⟨pre, post, hl, hpre, hpost⟩ := h
  have hd : d ∈ l := by simp [hl]
  unfold firstMaxBy
  have hgood : (l.all fun y => !gt y d) = true := by
    simp only [List.all_eq_true, Bool.not_eq_true']
    intro y hy
    rw [hl] at hy
    rcases List.mem_append.mp hy with hy | hy
    · exact hs.asymm _ _ (hpre y hy)
    · rcases List.mem_cons.mp hy with rfl | hy
      · exact hs.irrefl _
      · exact hpost y hy
  have hbad : ∀ x ∈ pre, (l.all fun y => !gt y x) = false := by
    intro x hx
    have : ¬ (l.all fun y => !gt y x) = true := by
      simp only [List.all_eq_true, Bool.not_eq_true']
      intro hall
      have := hall d hd
      rw [hpre x hx] at this
      exact Bool.noConfusion this
    simpa using this
  generalize hp : (fun d => l.all fun y => !gt y d) = p at hgood hbad
  have hgood' : p d = true := by rw [← hp]; exact hgood
  have hbad' : ∀ x ∈ pre, p x = false := by intro x hx; rw [← hp]; exact hbad x hx
  rw [hl]
  clear hp hgood hbad hd hl hpre hpost
  induction pre with
  | nil => simp [hgood']
  | cons x pre ih =>
    simp only [List.cons_append, List.find?, hbad' x (by simp)]
    exact ih (fun z hz => hbad' z (by simp [hz]))

/-- at most one position is "first maximal" -/
theorem IsFirstMax.pos_unique {gt : α → α → Bool} :
    ∀ (pre pre' post post' : List α) (d d' : α),
      pre ++ d :: post = pre' ++ d' :: post' →
      (∀ y ∈ pre, gt d y = true) → (∀ y ∈ post, gt y d = false) →
      (∀ y ∈ pre', gt d' y = true) → (∀ y ∈ post', gt y d' = false) →
      pre = pre' := by
  intro pre
  induction pre with
  | nil =>
    intro pre' post post' d d' e _ hpost hpre' _
    cases pre' with
    | nil => rfl
    | cons x p' =>
      simp only [List.nil_append, List.cons_append, List.cons.injEq] at e
      obtain ⟨rfl, e⟩ := e
      have h1 : gt d' d = true := hpre' d (by simp)
      have h2 : gt d' d = false := hpost d' (by simp [e])
      rw [h1] at h2; exact Bool.noConfusion h2
  | cons x p ih =>
    intro pre' post post' d d' e hpre hpost hpre' hpost'
    cases pre' with
    | nil =>
      simp only [List.nil_append, List.cons_append, List.cons.injEq] at e
      obtain ⟨rfl, e⟩ := e
      have h1 : gt d x = true := hpre x (by simp)
      have h2 : gt d x = false := hpost' d (by simp [← e])
      rw [h1] at h2; exact Bool.noConfusion h2
    | cons x' p' =>
      simp only [List.cons_append, List.cons.injEq] at e
      obtain ⟨rfl, e⟩ := e
      have := ih p' post post' d d' e (fun y hy => hpre y (by simp [hy])) hpost
        (fun y hy => hpre' y (by simp [hy])) hpost'
      rw [this]

end

/-! ### one per name -/

section
variable {κ : Type} [DecidableEq κ]

theorem dedupKeepFirst_filter (p : κ → Bool) (l : List κ) :
    dedupKeepFirst (l.filter p) = (dedupKeepFirst l).filter p := by
  induction l with
  | nil => rfl
  | cons a l ih =>
    by_cases hp : p a = true
    · simp only [List.filter_cons, hp, if_true, dedupKeepFirst, ih, List.filter_filter]
      congr 1
      apply List.filter_congr
      intro x _
      exact Bool.and_comm _ _
    · have hp' : p a = false := by simpa using hp
      simp only [List.filter_cons, hp', Bool.false_eq_true, if_false, dedupKeepFirst, ih,
        List.filter_filter]
      apply List.filter_congr
      intro x _
      by_cases hx : x = a
      · subst hx; simp [hp']
      · simp [hx]

theorem mem_dedupKeepFirst (x : κ) (l : List κ) : x ∈ dedupKeepFirst l ↔ x ∈ l := by
  induction l with
  | nil => simp [dedupKeepFirst]
  | cons a l ih =>
    simp only [dedupKeepFirst, List.mem_cons, List.mem_filter, ih]
    by_cases hx : x = a <;> simp [hx]

theorem dedupKeepFirst_nodup (l : List κ) : (dedupKeepFirst l).Nodup := by
  induction l with
  | nil => simp [dedupKeepFirst]
  | cons a l ih =>
    simp only [dedupKeepFirst, List.nodup_cons]
    refine ⟨by simp, ?_⟩
    exact ih.sublist List.filter_sublist

end

end HtmlVerif

namespace HtmlVerif

section
variable {κ α : Type} [DecidableEq κ] (gt : α → α → Bool) (name : α → κ)

theorem resolveBy_names_aux : ∀ (n : Nat) (ds : List α), ds.length ≤ n →
    (resolveBy gt name ds).map name = dedupKeepFirst (ds.map name) := by
  intro n
  induction n with
  | zero =>
    intro ds h
    have : ds = [] := List.eq_nil_of_length_eq_zero (by omega)
    subst this; rfl
  | succ n ih =>
    intro ds h
    cases ds with
    | nil => rfl
    | cons d ds =>
      rw [resolveBy_cons, List.map_cons, List.map_cons, dedupKeepFirst]
      have h1 : name (bestOf gt d (ds.filter (fun x => name x = name d))) = name d :=
        name_bestOf gt name _ d (fun y hy => by simpa using (List.mem_filter.mp hy).2)
      have hl : (ds.filter (fun x => name x ≠ name d)).length ≤ n := by
        have := List.length_filter_le (fun x => decide (name x ≠ name d)) ds
        simp only [List.length_cons] at h
        omega
      rw [h1, ih _ hl, ← dedupKeepFirst_filter, List.filter_map]
      rfl

theorem resolveBy_rep_aux (hs : StrictWeak gt) : ∀ (n : Nat) (ds : List α), ds.length ≤ n →
    ∀ d ∈ resolveBy gt name ds, IsFirstMax gt (ds.filter (fun x => name x = name d)) d := by
  intro n
  induction n with
  | zero =>
    intro ds h d hd
    have : ds = [] := List.eq_nil_of_length_eq_zero (by omega)
    subst this; simp at hd
  | succ n ih =>
    intro ds h d' hd'
    cases ds with
    | nil => simp at hd'
    | cons d ds =>
      rw [resolveBy_cons, List.mem_cons] at hd'
      have hl : (ds.filter (fun x => name x ≠ name d)).length ≤ n := by
        have := List.length_filter_le (fun x => decide (name x ≠ name d)) ds
        simp only [List.length_cons] at h
        omega
      rcases hd' with hd' | hd'
      · have hn : name d' = name d := by
          rw [hd']
          exact name_bestOf gt name _ d (fun y hy => by simpa using (List.mem_filter.mp hy).2)
        have := bestOf_isFirstMax gt hs d (ds.filter (fun x => name x = name d))
        rw [← hd'] at this
        simpa [List.filter_cons, hn] using this
      · have h2 := ih _ hl d' hd'
        have hm := (List.mem_filter.mp (IsFirstMax.mem gt h2)).1
        have hne : name d' ≠ name d := by simpa using (List.mem_filter.mp hm).2
        have hne' : ¬ name d = name d' := fun e => hne e.symm
        rw [List.filter_filter] at h2
        have e : (ds.filter fun a => decide (name a = name d') && decide (name a ≠ name d))
            = ds.filter (fun x => name x = name d') := by
          apply List.filter_congr
          intro x _
          by_cases hx : name x = name d' <;> simp [hx, hne]
        rw [e] at h2
        simpa [List.filter_cons, hne'] using h2

theorem resolveBy_of_nodup : ∀ (l : List α), (l.map name).Nodup → resolveBy gt name l = l := by
  intro l
  induction l with
  | nil => intro _; rfl
  | cons d l ih =>
    intro h
    rw [List.map_cons, List.nodup_cons] at h
    have hnot : ∀ x ∈ l, name x ≠ name d := by
      intro x hx e
      exact h.1 (by rw [← e]; exact List.mem_map_of_mem hx)
    have e1 : l.filter (fun x => name x = name d) = [] := by
      rw [List.filter_eq_nil_iff]; intro x hx; simpa using hnot x hx
    have e2 : l.filter (fun x => name x ≠ name d) = l := by
      rw [List.filter_eq_self]; intro x hx; simpa using hnot x hx
    rw [resolveBy_cons, e1, e2, ih h.2]; rfl

end

end HtmlVerif
