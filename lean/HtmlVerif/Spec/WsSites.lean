/-
Specification side of C05, clause 4: layout whitespace only ever appears immediately inside or
immediately outside the opening or closing tag of a whitespace-enabled (block) tag.
Stated over the piece view of the output: every maximal run of layout-whitespace pieces has, as its left
or its right neighbour, the opening or closing tag of a block tag.
-/
import HtmlVerif.Spec.Pieces

namespace HtmlVerif

def Piece.isWs : Piece → Bool
  | .ws _ => true
  | _ => false

/-- the opening tag (incl. a self-closed one) or closing tag of a whitespace-enabled tag -/
def Piece.isBlockBoundary : Piece → Bool
  | .opn _ w _ _ => w
  | .cls _ w => w
  | _ => false

/-- the first non-whitespace piece to the right is a block-tag boundary -/
def rightJustified : List Piece → Bool
  | [] => false
  | p :: rest => if p.isWs then rightJustified rest else p.isBlockBoundary

/-- scan: `left` = "the nearest non-whitespace piece to the left is a block-tag boundary"
    (initially: the exemption for the caller's own leading indentation) -/
def wsSitesOk : Bool → List Piece → Bool
  | _, [] => true
  | left, p :: rest =>
    if p.isWs then (left || rightJustified rest) && wsSitesOk left rest
    else wsSitesOk p.isBlockBoundary rest

/-- loop state after a child list: whitespace flag of the last visible child (leaves count as inline) -/
def Nodes.finalL : Nodes → Bool → Bool
  | .nil, l => l
  | .cons h t, l =>
    match h with
    | .mnode _ => t.finalL l
    | .dep .. => t.finalL l
    | .tag _ w _ _ => t.finalL w
    | _ => t.finalL false

end HtmlVerif
