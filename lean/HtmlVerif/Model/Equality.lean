/-
`==` between tags, tag lists and dependencies: `_equals_impl` (_core.py:1994-2000) applied to the
instance dictionaries, together with the `==` of the contained values:
* attrs: dict equality (same key set, values equal — `str` and `HTML` compare by text, UserString.__eq__)
* children: list equality, element by element
* dependencies: name, version (packaging's Version equality = equal rank), source, script, stylesheet, meta,
  all_files, head
Objects of helper classes compare as the harness defines them (`_repr_html_` objects by their text, bare
metadata nodes by number); un-expanded tagifiable objects only by identity (never equal here).
-/
import HtmlVerif.Model.Tree

namespace HtmlVerif

/-- dict equality for stored attributes (keys are distinct in a dict) -/
def attrsEqv (a b : Attrs) : Bool :=
  a.length == b.length &&
    a.all fun kv => match alookup kv.1 b with
      | some v => kv.2.str == v.str
      | none => false

/-- dict equality for `str → str` dicts -/
def kvDictEqv (a b : List (Str × Str)) : Bool :=
  a.length == b.length && a.all fun kv => alookup kv.1 b == some kv.2

def kvDictsEqv : List (List (Str × Str)) → List (List (Str × Str)) → Bool
  | [], [] => true
  | x :: xs, y :: ys => kvDictEqv x y && kvDictsEqv xs ys
  | _, _ => false

def sourceEqv : DepSource → DepSource → Bool
  | .none, .none => true
  | .href a, .href b => a == b
  | .subdir p d _, .subdir p' d' _ => p == p' && d == d'
  | _, _ => false

def depInfoEqv (a b : DepInfo) : Bool :=
  a.name == b.name && a.vrank == b.vrank && sourceEqv a.source b.source && kvDictsEqv a.script b.script
    && kvDictsEqv a.stylesheet b.stylesheet && kvDictsEqv a.metas b.metas && a.allFiles == b.allFiles

mutual
  def Node.eqv : Node → Node → Bool
    | .tag n w a k, .tag n' w' a' k' => n == n' && w == w' && attrsEqv a a' && k.eqvKids k'
    | .text s, .text s' => s == s'
    | .text s, .html s' => s == s'
    | .html s, .text s' => s == s'
    | .html s, .html s' => s == s'
    | .robj s, .robj s' => s == s'
    | .mnode n, .mnode n' => n == n'
    | .dep d h k, .dep d' h' k' => depInfoEqv d d' && h == h' && k.eqvKids k'
    | _, _ => false
  def Nodes.eqvKids : Nodes → Nodes → Bool
    | .nil, .nil => true
    | .cons h t, .cons h' t' => h.eqv h' && t.eqvKids t'
    | _, _ => false
end

end HtmlVerif
