/-
Driver op that *runs* the regenerated C16 functions (`Tag.has_class`, `add_class`, `add_style`, `remove_class`, `css`)
with the two things the running interpreter contributes taken from the line (DESIGN §14, translator validation):

  srcc16 <ws> [ (<str> <str.lower() of it>)… ] <function> [ <pval>… ]      → ok <pval> | err <kind> | unsupported

`<ws>`: every character for which `str.isspace()` holds; the table: `str.lower()` of the strings the harness expects the
function to lower-case.  A string that is lower-cased but is not in the table taints the result (a private-use
sentinel is prepended) and the answer is `unsupported` — no verdict, never a guess.  The pval syntax is that of
`Ops/Src.lean`.
-/
import HtmlVerif.Ops.Base
import HtmlVerif.Generated.Src

namespace HtmlVerif.Ops
open HtmlVerif HtmlVerif.Wire HtmlVerif.Py

private def c16Sentinel : Char := Char.ofNat 0xF8FF

private def c16G (ws : Str) (tbl : List (Str × Str)) : Globals :=
  { HTML_ESCAPE_TABLE := embTbl cfg.textTbl, HTML_ATTRS_ESCAPE_TABLE := embTbl cfg.attrTbl,
    VOID_TAG_NAMES := cfg.void, NO_ESCAPE_TAG_NAMES := cfg.noesc,
    isSpace := fun c => ws.contains c,
    lower := fun s => match alookup s tbl with
      | some r => r
      | none => c16Sentinel :: s }

private partial def c16PVal : P PVal := do
  let t ← next
  match t with
  | "N" => pure .none
  | "T" => pure (.bool true)
  | "F" => pure (.bool false)
  | "I" => do
    let s ← next
    match s.toInt? with
    | some n => pure (.int n)
    | none => throw s!"bad int {s}"
  | "D" => .float <$> str
  | "S" => .str <$> str
  | "H" => .html <$> str
  | "L" => .list <$> listOf c16PVal
  | "U" => .tuple <$> listOf c16PVal
  | "M" => .dict <$> listOf (do let k ← str; let v ← c16PVal; pure (k, v))
  | "O" => do
    let c ← next
    let fs ← listOf (do let k ← next; let v ← c16PVal; pure (k, v))
    pure (.obj c fs)
  | _ => throw s!"bad pval {t}"

private partial def c16Enc : PVal → String
  | .none => "N"
  | .bool true => "T"
  | .bool false => "F"
  | .int n => s!"I {n}"
  | .float t => "D " ++ encStr t
  | .str s => "S " ++ encStr s
  | .html s => "H " ++ encStr s
  | .list xs => "L " ++ encList (xs.map c16Enc)
  | .tuple xs => "U " ++ encList (xs.map c16Enc)
  | .dict kvs => "M " ++ encList (kvs.map fun kv => encStr kv.1 ++ " " ++ c16Enc kv.2)
  | .obj c fs => "O " ++ c ++ " " ++ encList (fs.map fun kv => kv.1 ++ " " ++ c16Enc kv.2)

/-- some string of the value went through a lower-casing the table does not cover -/
private partial def c16Tainted : PVal → Bool
  | .float t => t.contains c16Sentinel
  | .str s => s.contains c16Sentinel
  | .html s => s.contains c16Sentinel
  | .list xs => xs.any c16Tainted
  | .tuple xs => xs.any c16Tainted
  | .dict kvs => kvs.any fun kv => kv.1.contains c16Sentinel || c16Tainted kv.2
  | .obj _ fs => fs.any fun kv => c16Tainted kv.2
  | _ => false

private def c16Err : PyErr → String
  | .typeError => "err TypeError"
  | .valueError => "err ValueError"
  | .keyError => "err KeyError"
  | .indexError => "err IndexError"
  | .attributeError => "err AttributeError"
  | .runtimeError => "err RuntimeError"
  | .notImplemented => "err NotImplementedError"
  | .exception => "err Exception"
  | .fuel => "unsupported fuel"
  | .unsupported => "unsupported"

def srcC16Ops : OpTable
  | "srcc16" => some do
    let ws ← str
    let tbl ← listOf kv
    let f ← next
    let a ← listOf c16PVal
    match Generated.Src.runByName (c16G ws tbl) f a with
    | none => pure "unsupported"      -- not translated (left the fragment) or unknown: no verdict
    | some r =>
      match r with
      | .ok v => pure (if c16Tainted v then "unsupported lower" else "ok " ++ c16Enc v)
      | .error e => pure (c16Err e)
  | _ => none

end HtmlVerif.Ops
