"""Protocol membership that differs between instances of ONE class (C09, C18; the display-hook side is C17's `Flex`).

`Tagifiable` and `ReprHtml` are runtime-checkable protocols: whether an object has `tagify` / `_repr_html_` is asked of the
object, so a wrapper class may set either on the instance.  What a tree renders to must depend on the objects in it, not on
which instance of their class was looked at first — in the same tree (the child loop of tagify() runs backwards) or earlier
in the process.  Each scenario uses a class created for it, so the scenarios do not influence each other; the expected
answer is computed from library nodes only (the expansion / the trusted markup put where the object was)."""
from __future__ import annotations


def _mk_class(name="Adapter"):
    class Adapter:
        """a thin wrapper: forwards whichever of the two protocols the wrapped thing supports"""

        def __init__(self, html=None, expand=None):
            if html is not None:
                self._repr_html_ = lambda: html
            if expand is not None:
                self.tagify = expand
    Adapter.__name__ = Adapter.__qualname__ = name
    return Adapter


class PlainRepr:
    """an ordinary self-rendering object (method on the class): what a repr-only Adapter instance must behave like"""

    def __init__(self, html):
        self.html = html

    def _repr_html_(self):
        return self.html


def scenarios():
    """-> [(label, build)] where build() returns (steps, expected_steps): two lists of thunks evaluated in order; the k-th
    results must be equal"""
    from htmltools import HTML, HTMLDependency, HTMLDocument, Tag, TagList
    out = []

    def dep(n):
        return HTMLDependency(n, "1.0", head=Tag("meta", name=n))

    def expansion(k):
        return [lambda: Tag("b", "E", dep("e1")), lambda: TagList("x", Tag("i", "y"), dep("e2")), lambda: TagList(), lambda: "s<",
                lambda: HTML("<u>h</u>")][k % 5]

    def rendered(x):
        r = x.render()
        return (r["html"], [(d.name, str(d.version)) for d in r["dependencies"]])

    def docd(x):
        r = HTMLDocument(x).render()
        return (r["html"], [(d.name, str(d.version)) for d in r["dependencies"]])

    for k in range(5):
        for order in ("repr-first", "tagify-first"):
            for via, wrap in (("TagList.render", lambda a, b: (lambda: rendered(TagList("p", a, "q")), lambda: rendered(TagList("p", b, "q")))),
                              ("Tag.render", lambda a, b: (lambda: rendered(Tag("div", a, "q")), lambda: rendered(Tag("div", "p", b)))),
                              ("HTMLDocument.render", lambda a, b: (lambda: docd(Tag("div", a)), lambda: docd(TagList(b, "q"))))):
                def build(k=k, order=order, wrap=wrap):
                    C = _mk_class()
                    r_only, t_only = C(html="<r>R</r>"), C(expand=expansion(k))
                    e_r, e_t = PlainRepr("<r>R</r>"), expansion(k)()
                    if order == "repr-first":
                        return wrap(r_only, t_only), wrap(e_r, e_t)
                    return wrap(t_only, r_only), wrap(e_t, e_r)
                out.append((f"history {order}, expansion kind {k}, via {via}", build))
        # the same within one tree (the child loop visits the last child first)
        for shape in range(3):
            def build1(k=k, shape=shape):
                C = _mk_class()
                a, b = C(html="<r>R</r>"), C(expand=expansion(k))
                ea, eb = PlainRepr("<r>R</r>"), expansion(k)()
                mk = [lambda x, y: TagList(x, "m", y), lambda x, y: TagList(y, Tag("p", x), y), lambda x, y: Tag("div", Tag("span", y), x, "t")][shape]
                return (lambda: rendered(mk(a, b)),), (lambda: rendered(mk(ea, eb)),)
            out.append((f"one tree, expansion kind {k}, shape {shape}", build1))
        # both protocols on one instance next to a bare self-rendering one: tagify wins in render(), _repr_html_ in get_html_string()
        def build2(k=k):
            C = _mk_class()
            both, r_only = C(html="<z/>", expand=expansion(k)), C(html="<r>R</r>")
            return ((lambda: TagList(r_only, both).get_html_string(), lambda: rendered(TagList(r_only, both))),
                    (lambda: TagList(PlainRepr("<r>R</r>"), PlainRepr("<z/>")).get_html_string(), lambda: rendered(TagList(PlainRepr("<r>R</r>"), expansion(k)()))))
        out.append((f"both protocols on one instance, expansion kind {k}", build2))
    return out


def oracle(ck) -> int:
    n = 0
    for label, build in scenarios():
        n += 1
        ck.holds_checked += 1
        try:
            steps, wants = build()
            got = []
            for f in steps:
                try:
                    got.append(f())
                except Exception as e:  # noqa: BLE001
                    got.append(f"raised {type(e).__name__}: {e}")
            want = [f() for f in wants]
        except Exception as e:  # noqa: BLE001
            ck.py_violation(f"flex {label}", f"raised {type(e).__name__}: {e}", f"scenario raised outside the rendering calls: {e}", py=label)
            continue
        if got != want:
            k = next(i for i in range(len(want)) if got[i] != want[i])
            ck.py_violation(f"flex {label}", repr(got[k])[:400],
                            f"two instances of one class that differ in protocol membership (tagify / _repr_html_ set on the instance): step {k + 1} gives "
                            f"{got[k]!r}; with the expansion / markup written in place of the objects: {want[k]!r}",
                            py=f"# harness/flexhist.py scenario: {label}\nclass Adapter:\n    def __init__(self, html=None, expand=None):\n"
                               f"        if html is not None: self._repr_html_ = lambda: html\n        if expand is not None: self.tagify = expand")
    ck.exhaustive_scopes.append({"scope": "instances of one class that differ in protocol membership: 5 expansion kinds x {2 orders x 3 rendering routes as a process "
                                          "history, 3 shapes inside one tree, both protocols on one instance}", "n": n, "exhaustive": True})
    return n


def odd_tagifiable_oracle(ck) -> int:
    """an object with tagify() is a node whatever else it is: a `collections.abc.Sequence` (items via __getitem__/__len__), a
    dict subclass, an iterable — it is expanded by render(), never dissolved into its items or read as attributes"""
    import collections.abc
    from htmltools import HTMLDependency, HTMLDocument, Tag, TagList
    n = 0

    def dep(nm):
        return HTMLDependency(nm, "1.0", head=Tag("meta", name=nm))

    class Menu(collections.abc.Sequence):
        def __init__(self, *items):
            self.items = list(items)

        def __getitem__(self, i):
            return self.items[i]

        def __len__(self):
            return len(self.items)

        def tagify(self):
            return Tag("ul", *[Tag("li", x) for x in self.items], dep("menu"))

    class Bag:
        def __init__(self, *items):
            self.items = items

        def __iter__(self):
            return iter(self.items)

        def tagify(self):
            return TagList(*[Tag("i", x) for x in self.items], dep("bag"))

    class Rec(dict):
        def tagify(self):
            return Tag("dl", *[Tag("dt", k) for k in self])

    class Plain:
        def __init__(self, f):
            self.f = f

        def tagify(self):
            return self.f()

    odd = [("Sequence with tagify", lambda: Menu("a", "b"), lambda: Plain(lambda: Menu("a", "b").tagify())),
           ("empty Sequence with tagify", lambda: Menu(), lambda: Plain(lambda: Menu().tagify())),
           ("iterable with tagify", lambda: Bag("x", "y"), lambda: Plain(lambda: Bag("x", "y").tagify())),
           ("dict subclass with tagify", lambda: Rec(k1=1, k2=2), lambda: Plain(lambda: Rec(k1=1, k2=2).tagify()))]
    places = [("TagList item", lambda w: TagList("p", w, "q")), ("in a nested list of a Tag", lambda w: Tag("div", ["p", [w]], "q")),
              ("appended", lambda w: (lambda t: (t.append(w), t)[1])(Tag("section", "s"))), ("extended", lambda w: (lambda t: (t.extend([w, "z"]), t)[1])(TagList("s"))),
              ("document content", lambda w: HTMLDocument(TagList(w, "z")))]
    for ol, mk, plain in odd:
        for pl, place in places:
            if ol.startswith("dict") and pl in ("in a nested list of a Tag",):
                pass
            n += 1
            ck.holds_checked += 1
            try:
                wr = place(plain()).render()
                want = (wr["html"], [(d.name, str(d.version)) for d in wr["dependencies"]])
            except Exception as e:  # noqa: BLE001
                ck.py_violation(f"odd_tagifiable {ol} / {pl}", f"raised {type(e).__name__}: {e}", "the reference (ordinary tagifiable object) raised", py=ol)
                continue
            try:
                gr = place(mk()).render()
                got = (gr["html"], [(d.name, str(d.version)) for d in gr["dependencies"]])
            except Exception as e:  # noqa: BLE001
                got = f"raised {type(e).__name__}: {e}"
            if got != want:
                ck.py_violation(f"odd_tagifiable {ol} / {pl}", str(got)[:400],
                                f"an object with tagify() that is also a {ol.split(' with')[0]} ({pl}) renders {str(got)[:300]!r}; an ordinary object with the same "
                                f"expansion renders {str(want)[:300]!r}",
                                py=f"class Menu(collections.abc.Sequence): ...  # __getitem__/__len__ over its items, tagify() -> <ul>\nTagList('p', Menu('a', 'b'), 'q').render()   # {ol}; {pl}")
    ck.exhaustive_scopes.append({"scope": "tagifiable objects that are also Sequence / iterable / dict instances: 4 kinds x 5 places, against an ordinary tagifiable object", "n": n, "exhaustive": True})
    return n


def jsx_metadata_tagifiable_oracle(ck) -> int:
    """inside a JSX component, an object with tagify() that is also a MetadataNode (a dependency that resolves itself when the
    page is built) is expanded like any other tagifiable object: same script text, same dependencies as an ordinary object
    with the same expansion — as a child, below a nested tag, below a nested component, and as a prop value"""
    from htmltools import HTMLDependency, Tag, TagList
    from htmltools._jsx import jsx_tag_create
    n = 0

    def expansion():
        return Tag("b", "resolved", HTMLDependency("real", "2.0", head=Tag("meta", name="real")))

    class LazyDep(HTMLDependency):
        def tagify(self):
            return expansion()

    class Plain:
        def tagify(self):
            return expansion()

    Foo, Bar = jsx_tag_create("Foo"), jsx_tag_create("Bar")
    places = [("child", lambda w: Foo("a", w)), ("child of a nested tag", lambda w: Foo(Tag("div", w, "t"))),
              ("child of a nested component", lambda w: Foo(Bar(w), "z")), ("prop value", lambda w: Foo(title=Tag("span", w))),
              ("inside a plain tag tree around the component", lambda w: Tag("section", Foo(w)))]
    for pl, place in places:
        n += 1
        ck.holds_checked += 1
        try:
            wr = TagList(place(Plain())).render()
            want = (wr["html"], [(d.name, str(d.version)) for d in wr["dependencies"]])
            gr = TagList(place(LazyDep("lazy", "1.0"))).render()
            got = (gr["html"], [(d.name, str(d.version)) for d in gr["dependencies"]])
        except Exception as e:  # noqa: BLE001
            ck.py_violation(f"jsx_metadata_tagifiable {pl}", f"raised {type(e).__name__}: {e}", f"{pl}: raised", py=pl)
            continue
        if got != want:
            ck.py_violation(f"jsx_metadata_tagifiable {pl}", str(got)[:400],
                            f"a dependency subclass with tagify() as {pl} of a JSX component gives {str(got)[:300]!r}; an ordinary tagifiable object with the same "
                            f"expansion gives {str(want)[:300]!r}",
                            py=f"class LazyDep(HTMLDependency):\n    def tagify(self): return Tag('b', 'resolved', HTMLDependency('real', '2.0'))\n# {pl}")
    ck.exhaustive_scopes.append({"scope": "a MetadataNode subclass with tagify() at 5 places of a JSX component, against an ordinary tagifiable object", "n": n, "exhaustive": True})
    return n
