/-
Driver op that *runs* the regenerated file-system functions of C12 (`HTMLDependency.copy_to`, `HTMLDocument.save_html`,
`Tag.save_html`, `TagList.save_html`; Generated/Src.lean `runByNameC12b`) on an explicit file system (DESIGN §14, translator
validation; Py/PrimC12b.lean):

  srcc12b <function> <cwd : str> <fs> [ <argument : pval>… ]
      → ok <pval> ;; <fs>
      | err <kind> ;; <fs>                      (the file system after the exception is part of the answer)
      | unsupported

`<fs>` is the wire term of Ops/Paths.lean (`[ <path> <content> … ]`, output sorted and canonical).  The run-time facts of
`SysC12b` are computed from the line: `Path(s).resolve()` answers the normal form of `s` taken relative to `cwd` (no
symbolic links: the harness creates none); `os.fsdecode` is strict UTF-8 decoding (an entry that is not UTF-8 gives no
verdict).  The harness materialises the same file system in a real temporary directory and calls the real functions
(harness/ops_src_c12b.py).
-/
import HtmlVerif.Ops.Base
import HtmlVerif.Ops.Paths
import HtmlVerif.Generated.Src

namespace HtmlVerif.Ops
open HtmlVerif HtmlVerif.Wire HtmlVerif.Py

private def c12bG : Globals :=
  { HTML_ESCAPE_TABLE := embTbl cfg.textTbl, HTML_ATTRS_ESCAPE_TABLE := embTbl cfg.attrTbl,
    VOID_TAG_NAMES := cfg.void, NO_ESCAPE_TAG_NAMES := cfg.noesc, isSpace := fun _ => false, lower := id }

private partial def c12bPVal : P PVal := do
  let t ← next
  match t with
  | "N" => pure .none
  | "T" => pure (.bool true)
  | "F" => pure (.bool false)
  | "I" => do
    let s ← next
    match s.toInt? with
    | some n => pure (.int n)
    | none => throw s!"bad int {s}"
  | "D" => .float <$> str
  | "S" => .str <$> str
  | "H" => .html <$> str
  | "L" => .list <$> listOf c12bPVal
  | "U" => .tuple <$> listOf c12bPVal
  | "M" => .dict <$> listOf (do let k ← str; let v ← c12bPVal; pure (k, v))
  | "O" => do
    let c ← next
    let fs ← listOf (do let k ← next; let v ← c12bPVal; pure (k, v))
    pure (.obj c fs)
  | _ => throw s!"bad pval {t}"

private partial def c12bEnc : PVal → String
  | .none => "N"
  | .bool true => "T"
  | .bool false => "F"
  | .int n => s!"I {n}"
  | .float t => "D " ++ encStr t
  | .str s => "S " ++ encStr s
  | .html s => "H " ++ encStr s
  | .list xs => "L " ++ encList (xs.map c12bEnc)
  | .tuple xs => "U " ++ encList (xs.map c12bEnc)
  | .dict kvs => "M " ++ encList (kvs.map fun kv => encStr kv.1 ++ " " ++ c12bEnc kv.2)
  | .obj c fs => "O " ++ c ++ " " ++ encList (fs.map fun kv => kv.1 ++ " " ++ c12bEnc kv.2)

private def c12bErr : PyErr → String
  | .typeError => "err TypeError"
  | .valueError => "err ValueError"
  | .keyError => "err KeyError"
  | .indexError => "err IndexError"
  | .attributeError => "err AttributeError"
  | .runtimeError => "err RuntimeError"
  | .notImplemented => "err NotImplementedError"
  | .exception => "err Exception"
  | .fuel => "unsupported fuel"
  | .unsupported => "unsupported"

/-- split on '/' keeping empty pieces -/
private def c12bSplit : Str → List Str
  | [] => [[]]
  | c :: r =>
    if c = '/' then [] :: c12bSplit r
    else match c12bSplit r with
      | [] => [[c]]
      | h :: t => (c :: h) :: t

/-- `str(Path(s).resolve())` without symbolic links: relative to `cwd`, `.` and empty components dropped, `..` applied -/
private def c12bResolve (cwd s : Str) : Str :=
  let full := if s.head? = some '/' then s else cwd ++ '/' :: s
  let comps := (c12bSplit full).foldl (fun acc c =>
    if c.isEmpty || c = ['.'] then acc else if c = ['.', '.'] then acc.dropLast else acc ++ [c]) ([] : List Str)
  if comps.isEmpty then ['/'] else comps.flatMap fun c => '/' :: c

/-- strict UTF-8 decoding of a directory entry (`os.fsdecode` on what is valid UTF-8; anything else: not supplied) -/
private partial def c12bUtf8Decode : Bytes → Option Str
  | [] => some []
  | b :: r =>
    let n := b.toNat
    let cont (x : UInt8) : Option Nat := if 0x80 ≤ x.toNat ∧ x.toNat < 0xC0 then some (x.toNat - 0x80) else none
    if n < 0x80 then (c12bUtf8Decode r).map (Char.ofNat n :: ·)
    else if 0xC2 ≤ n ∧ n < 0xE0 then
      match r with
      | b1 :: r' => do
        let c1 ← cont b1
        let rest ← c12bUtf8Decode r'
        pure (Char.ofNat ((n - 0xC0) * 64 + c1) :: rest)
      | _ => none
    else if 0xE0 ≤ n ∧ n < 0xF0 then
      match r with
      | b1 :: b2 :: r' => do
        let c1 ← cont b1
        let c2 ← cont b2
        let v := (n - 0xE0) * 4096 + c1 * 64 + c2
        if v < 0x800 ∨ (0xD800 ≤ v ∧ v < 0xE000) then none
        else do
          let rest ← c12bUtf8Decode r'
          pure (Char.ofNat v :: rest)
      | _ => none
    else if 0xF0 ≤ n ∧ n < 0xF5 then
      match r with
      | b1 :: b2 :: b3 :: r' => do
        let c1 ← cont b1
        let c2 ← cont b2
        let c3 ← cont b3
        let v := (n - 0xF0) * 262144 + c1 * 4096 + c2 * 64 + c3
        if v < 0x10000 ∨ 0x110000 ≤ v then none
        else do
          let rest ← c12bUtf8Decode r'
          pure (Char.ofNat v :: rest)
      | _ => none
    else none

def srcC12bOps : OpTable
  | "srcc12b" => some do
    let f ← next
    let cwd ← str
    let fs ← fsP
    let a ← listOf c12bPVal
    let S : SysC12b := { fs := fs, resolve := c12bResolve cwd, fsdecode := c12bUtf8Decode }
    match Generated.Src.runByNameC12b c12bG f a with
    | none => pure "unsupported"      -- not translated (left the fragment) or unknown: no verdict
    | some m =>
      let r := m S
      let st := " ;; " ++ encFS r.2.fs
      match r.1 with
      | .ok v => pure ("ok " ++ c12bEnc v ++ st)
      | .error .unsupported => pure "unsupported"
      | .error .fuel => pure "unsupported fuel"
      | .error e => pure (c12bErr e ++ st)
  | _ => none

end HtmlVerif.Ops
