"""Translator validation for C12 / C11 (DESIGN §14): value generators for the regenerated
`HTMLDependency.source_path_map`, `as_dict`, `as_html_tags` (op `src`).

Every line is `[ <HTMLDependency> <lib_prefix> <include_version> ]`.  The receiver carries, besides its `__dict__`, the
two run-time facts the Lean side cannot compute (Py/PrimC12.lean): `__realpath__` — what `os.path.realpath(subdir)` answers
here and now (only absolute `subdir`s are generated for sources without a package, so the answer does not depend on the
working directory of the process that runs the real function) — and `__package_dir__` — the directory of the package
named in `source` (absent when that package cannot be imported: both sides then give no verdict)."""
from __future__ import annotations

import os

from wire import es

import srctie
from srctie import S, H, rstr, scalar, pv_node

NAMES = ["dep", "my-dep", "d_1.x", "my dep", "Dé", "a%41", "a#b", "", "/abs", "x/", "d&b'q\"x"]
VERSIONS = ["1.0", "2.1.3", "1.0+local", "1!2.0", "0.0", "3.0a1"]
PREFIXES = (["N", S(""), S("lib"), S("lib"), S("a/b"), S("a/b/"), S("/"), S("my lib"), S("é/ü"), S("/abs/p"), S("lib//")] * 3
            + [H(""), H("lib"), "I 0", "I 1", "F", "T", "L [ ]", "M [ ]", "O Other [ ]"])
FLAGS = ["T", "F"] * 6 + ["N", "I 0", "I 1", S(""), S("x"), "L [ ]", "O Other [ ]"]
PATHS = ["a.js", "a b.js", "100%.css", "x%20y.js", "q#1.js", "é.css", "sub/n.js", "/abs.js", "", "~t_.-x", "😀.js", "a&b.css",
         "sub/deep er/m#.css", "c:d.js", "//x", "s/"]
ABS_DIRS = ["/nonexistent-c12/a", "/nonexistent-c12/a/../b", "/nonexistent-c12//x/", "/nonexistent-c12/é d/./y", "/"]
REL_DIRS = ["lib", "lib/x/", "", "/abs/elsewhere", "a b/é", "../up"]
HREFS = ["https://cdn.example/pkg", "https://cdn.example/pkg/", "//cdn/x", "/abs/url/", "rel/url", ""]
ITEM_KEYS = ["defer", "type", "integrity", "data_x", "data-x", "class_", "media", "title", "crossorigin"]
RESERVED = ["self", "_name", "_add_ws"]


def _pkg_dir(pkg: str) -> str | None:
    """the directory `package_dir(pkg)` answers, computed as that function computes it but without calling it"""
    import importlib
    try:
        f = importlib.import_module(".", package=pkg).__file__
    except Exception:  # noqa: BLE001
        return None
    return None if f is None else os.path.dirname(f)


def _words(rng) -> str:
    import gen
    if gen.EXTRA and rng.random() < 0.25:      # change-directed: literals the source has gained (harness/literals.py)
        return rng.choice(gen.EXTRA)
    return rng.choice(PATHS) if rng.random() < 0.8 else rstr(rng)


def _item(rng, path_key: str | None, other_keys=()) -> str:
    """a script / stylesheet / meta item: a dict of str (sometimes without its path key, sometimes with a value of
    another kind, sometimes with a key that collides with a parameter of `Tag.__init__`)"""
    import gen
    kv = []
    if path_key is not None and rng.random() < 0.97:
        r = rng.random()
        kv.append((path_key, S(_words(rng)) if r < 0.97 else scalar(rng)))
    for k in other_keys:
        if rng.random() < 0.8:
            kv.append((k, S(rstr(rng))))
    for _ in range(rng.choice([0, 0, 1, 1, 2])):
        k = rng.choice(ITEM_KEYS + ["rel", "src", "href"] + gen.EXTRA)
        if k not in [x for x, _ in kv]:
            kv.append((k, S(rstr(rng)) if rng.random() < 0.96 else scalar(rng)))
    if rng.random() < 0.025:
        kv.append((rng.choice(RESERVED), rng.choice([S("x"), S(""), "T", "F", "N"])))
    if rng.random() < 0.4:
        rng.shuffle(kv)
    return "M [ " + "".join(es(k) + " " + v + " " for k, v in kv) + "]"


def _items(rng, path_key, other_keys=()) -> str:
    r = rng.random()
    if r < 0.01:      # not a list of dicts (most of these are outside the fragment on the Lean side: no verdict)
        return rng.choice(["N", "N", "M [ ]", "M [ ]", "I 1", S("ab"), "L [ N ]", "L [ L [ ] ]"])
    body = "".join(_item(rng, path_key, other_keys) + " " for _ in range(rng.choice([0, 1, 1, 2, 3])))
    return ("U [ " if r < 0.08 else "L [ ") + body + "]"


def _source(rng) -> tuple[str, str | None, str | None]:
    """(source term, recorded realpath, recorded package dir)"""
    r = rng.random()
    if r < 0.12:
        return "N", None, None
    if r < 0.32:
        extra = ""
        if rng.random() < 0.2:
            extra = es("subdir") + " " + S("lib") + " "
        h = S(rng.choice(HREFS)) if rng.random() < 0.9 else scalar(rng)
        return "M [ " + es("href") + " " + h + " " + extra + "]", None, None
    if r < 0.64:
        d = rng.choice(ABS_DIRS)
        pk = rng.choice(["", "", es("package") + " N "])
        sub = S(d) if rng.random() < 0.92 else rng.choice(["N", "I 1", H(d)])
        return "M [ " + pk + es("subdir") + " " + sub + " ]", os.path.realpath(d), None
    if r < 0.975:
        pkg = rng.choice(["htmltools"] * 10 + ["packaging"] * 4 + ["json"] * 3 + ["nonexistent_pkg_c12", "", ""])
        sub = rng.choice(REL_DIRS)
        p = S(pkg) if rng.random() < 0.93 else rng.choice(["I 1", H("htmltools"), "F", "L [ ]"])
        order = rng.random() < 0.5
        a, b = es("subdir") + " " + S(sub) + " ", es("package") + " " + p + " "
        return "M [ " + (a + b if order else b + a) + "]", None, _pkg_dir(pkg) if pkg else None
    return rng.choice(["M [ ]", "M [ " + es("package") + " " + S("htmltools") + " ]", "L [ ]", S("href"),
                       "L [ " + S("href") + " ]", "I 1"]), os.path.realpath("/nonexistent-c12/z"), _pkg_dir("htmltools")


def _head(rng, leaves) -> str:
    import gen
    if rng.random() < 0.45:
        return "N"
    ks = [gen.rand_node(rng, rng.randint(0, 2), leaves=leaves) for _ in range(rng.randint(0, 3))]
    if rng.random() < 0.12:
        ks.append(rng.choice([("tobjL", None, []), ("tobjL", "<r>", []), ("tobj1", None, ("text", "x"))]))
    return "O TagList [ data L [ " + "".join(pv_node(c) + " " for c in ks) + "] ]"


def _dep(rng, head_leaves=("text", "html", "robj", "meta")) -> str:
    from packaging.version import Version
    name = S(rng.choice(NAMES)) if rng.random() < 0.96 else rng.choice([H("hn"), H("hn"), H(""), "I 1", "N"])
    v = str(Version(rng.choice(VERSIONS)))
    version = f"O Version [ __str__ {S(v)} rank I 0 ]" if rng.random() < 0.95 else S(v)
    src, rp, pd = _source(rng)
    fields = [("name", name), ("version", version), ("source", src),
              ("script", _items(rng, "src")), ("stylesheet", _items(rng, "href", ("rel",))),
              ("meta", _items(rng, None, ("name", "content"))), ("all_files", rng.choice(["T", "F"])),
              ("head", _head(rng, head_leaves))]
    if rng.random() < 0.02:
        fields.pop(rng.randrange(len(fields)))       # an attribute that was deleted: AttributeError
    if rp is not None:
        fields.append(("__realpath__", S(rp)))
    if pd is not None:
        fields.append(("__package_dir__", S(pd)))
    return "O HTMLDependency [ " + "".join(k + " " + t + " " for k, t in fields) + "]"


def _line(rng, **kw) -> str:
    return f"[ {_dep(rng, **kw)} {rng.choice(PREFIXES)} {rng.choice(FLAGS)} ]"


def register(GENS):
    GENS["HTMLDependency_source_path_map"] = _line
    GENS["HTMLDependency_as_dict"] = _line
    # the tag list that comes back holds the nodes of `head`: only nodes whose realisation can be written back as the same term
    GENS["HTMLDependency_as_html_tags"] = lambda rng: _line(rng, head_leaves=("text", "html", "robj"))
