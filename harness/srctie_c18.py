"""Translator validation for `render()`, the string views and `head_content` (harness/pytr_c18.py; DESIGN §14): value
generators for the regenerated `Tag/TagList.render`, `_render_tag_or_taglist`, `Tag/TagList.__str__`,
`hash_deterministic`, `head_content`.  All lines use the op `srcc18`, which carries the value of
`htmltools.html_dependency_render_mode` for the call (`add_src_c18(ck, [...])`).

Trees are generated as small Python structures and written as pval terms in the shape of the embedding `embC18`
(Lemmas/SrcC18.lean): Tag / TagList instances, strings, HTML, self-rendering objects, bare metadata nodes, dependencies
(name, Version with its rank among the versions of the line, a marker in `meta`, and — always when the line may run in
"json" mode — the field `serialize_to_script_json` holding the `<script>` Tag the *real* method returns for that object),
tagifiable objects of a foreign class carrying the value their `tagify()` returns.  Receivers of the wrong class and
odd children are mixed in.
"""
from __future__ import annotations

import itertools

from wire import es

VERSIONS = ["1.9", "1.10", "1.10.0", "2", "10", "2.0.0", "1.0a1", "1.0rc1", "1.0", "1.0.post1", "0.0.1", "0"]
NAMES = ["a", "b", "c", "jquery", "", "x</script>"]
TAGS = [("div", True), ("span", False), ("p", True), ("br", False), ("script", True), ("style", True), ("a", False)]
TEXTS = ["", "a", "x<y", "&amp;", "é", "a b", "</script>", "a\nb", '"q"']
MODES = ["S " + es("invisible"), "S " + es("json"), "S " + es("json"), "S " + es("other"), "N", "S " + es("JSON")]


def S(s):
    return "S " + es(s)


def _extra():
    try:
        import gen
        return list(gen.EXTRA)
    except Exception:  # noqa: BLE001
        return []


def text(rng) -> str:
    ex = _extra()
    if ex and rng.random() < 0.2:      # change-directed: literals the source has gained (harness/literals.py)
        return rng.choice(ex)
    return rng.choice(TEXTS)


class Cx:
    def __init__(self, rng, ser: str):
        self.rng = rng
        self.ctr = itertools.count()
        self.versions: list[str] = []
        self.ser = ser            # "all" | "some" | "none": which dependencies carry `serialize_to_script_json`

    # ---- structures
    def dep(self):
        rng = self.rng
        name = rng.choice(NAMES[:3] if rng.random() < 0.8 else NAMES)
        version = rng.choice(VERSIONS[:4] if rng.random() < 0.6 else VERSIONS)
        self.versions.append(version)
        ser = self.ser == "all" or (self.ser == "some" and rng.random() < 0.5)
        return ("dep", name, version, next(self.ctr), ser)

    def leaf(self, tobj=True):
        rng = self.rng
        r = rng.random()
        if r < 0.25:
            return ("text", text(rng))
        if r < 0.35:
            return ("html", text(rng))
        if r < 0.45:
            return ("robj", text(rng))
        if r < 0.52:
            return ("meta", next(self.ctr))
        if r < 0.85 or not tobj:
            return self.dep()
        return self.tobj(1)

    def tag(self, depth, tobj=True):
        rng = self.rng
        name, ws = rng.choice(TAGS)
        attrs = rng.choice([[], [("class", ("s", "x"))], [("id", ("h", "<i>")), ("title", ("s", 'a"b'))]])
        return ("tag", name, ws, attrs, self.items(depth - 1, tobj))

    def node(self, depth, tobj=True):
        if depth <= 0 or self.rng.random() < 0.45:
            return self.leaf(tobj)
        return self.tag(depth, tobj)

    def items(self, depth, tobj=True):
        return [self.node(depth, tobj) for _ in range(self.rng.choice([0, 1, 1, 2, 2, 3, 4]))]

    def tobj(self, depth):
        """a foreign tagifiable object: its `tagify()` returns a TagList of tagified nodes, a single tagified node, or
        (rarely) something else"""
        rng = self.rng
        r = rng.random()
        if r < 0.5:
            res = ("taglist", [self.node(depth, False) for _ in range(rng.choice([0, 1, 2, 3]))])
        elif r < 0.92:
            res = ("single", self.node(depth, False))
        elif r < 0.96:
            res = ("single", self.node(depth, True))      # not tagified: render() then meets an un-expanded object
        else:
            res = ("raw", rng.choice(["N", "I 3", "L [ ]"]))
        rh = text(rng) if rng.random() < 0.4 else None
        return ("tobj", res, rh)

    # ---- terms
    def ranks(self):
        from packaging.version import Version
        order = sorted({Version(v) for v in self.versions})
        return {v: order.index(Version(v)) for v in set(self.versions)}

    def term(self, n, rk=None) -> str:
        rk = self.ranks() if rk is None else rk
        k = n[0]
        if k == "text":
            return S(n[1])
        if k == "html":
            return "H " + es(n[1])
        if k == "robj":
            return f"O ReprObj [ _repr_html_ {S(n[1])} ]"
        if k == "meta":
            return f"O MetadataNode [ id I {n[1]} ]"
        if k == "dep":
            return dep_term(n[1], n[2], rk[n[2]], n[3], n[4])
        if k == "tag":
            attrs = "M [ " + "".join(es(a) + " " + ("H " if v[0] == "h" else "S ") + es(v[1]) + " " for a, v in n[3]) + "]"
            return (f"O Tag [ name {S(n[1])} attrs {attrs} children {self.list_term(n[4], rk)} "
                    f"add_ws {'T' if n[2] else 'F'} ]")
        if k == "tobj":
            kind, res = n[1][0], n[1][1]
            if kind == "taglist":
                r = self.list_term(res, rk)
            elif kind == "single":
                r = self.term(res, rk)
            else:
                r = res
            return "O TagifyObj [ tagify " + r + (f" _repr_html_ {S(n[2])}" if n[2] is not None else "") + " ]"
        raise ValueError(k)

    def list_term(self, ks, rk=None) -> str:
        rk = self.ranks() if rk is None else rk
        return "O TagList [ data L [ " + "".join(self.term(c, rk) + " " for c in ks) + "] ]"


def _norm(v: str) -> str:
    from packaging.version import Version
    return str(Version(v))


_SER_CACHE: dict = {}


def ser_term(name: str, vtext: str, rank: int, marker: int) -> str | None:
    """the `<script>` Tag `serialize_to_script_json()` returns for the dependency object the harness realises from these
    fields — computed by the real method (it is not translated: what it returns is part of the input)"""
    key = (name, vtext, rank, marker)
    if key in _SER_CACHE:
        return _SER_CACHE[key]
    out = None
    try:
        import htmltools
        import ops_src_c10 as c10
        d = c10._mk_dep({"name": name, "version": c10._mk_version({"text": vtext, "rank": rank}),
                         "meta": [{"name": "id", "content": str(marker)}]})
        t = d.serialize_to_script_json()
        if type(t) is htmltools.Tag:
            out = _plain_term(t)
    except Exception:  # noqa: BLE001  (the real method is broken: the field is left out, the line has no verdict in json mode)
        out = None
    _SER_CACHE[key] = out
    return out


def _plain_term(v) -> str:
    import htmltools
    if type(v) is str:
        return S(v)
    if type(v) is htmltools.HTML:
        return "H " + es(v.as_string())
    if type(v) is htmltools.Tag:
        attrs = "M [ " + "".join(es(k) + " " + _plain_term(x) + " " for k, x in v.attrs.items()) + "]"
        kids = "O TagList [ data L [ " + "".join(_plain_term(c) + " " for c in v.children) + "] ]"
        return f"O Tag [ name {S(v.name)} attrs {attrs} children {kids} add_ws {'T' if v.add_ws else 'F'} ]"
    raise ValueError(type(v))


def dep_term(name, version, rank, marker, ser) -> str:
    vt = _norm(version)
    mk = f"M [ {es('name')} {S('id')} {es('content')} {S(str(marker))} ]"
    t = f"O HTMLDependency [ name {S(name)} version O Version [ rank I {rank} text {S(vt)} ] meta L [ {mk} ]"
    if ser:
        st = ser_term(name, vt, rank, marker)
        if st is not None:
            t += " serialize_to_script_json " + st
    return t + " ]"


def _ser_for(mode: str, rng) -> str:
    return "all" if mode == "S " + es("json") else rng.choice(["all", "some", "none"])


def _list_recv(rng, mode):
    cx = Cx(rng, _ser_for(mode, rng))
    r = rng.random()
    if r < 0.05:
        return rng.choice(["N", "I 1", "O Other [ ]", S("ab"), "L [ ]"])
    if r < 0.09:      # a Tag where a TagList is expected (works: the dispatch is on the class of the receiver)
        t = cx.tag(2)
        return cx.term(t)
    if r < 0.12:      # a foreign tagifiable object as the receiver: `self.tagify()` returns the recorded value
        t = cx.tobj(2)
        return cx.term(t)
    ks = cx.items(rng.randint(1, 4))
    return cx.list_term(ks)


def _tag_recv(rng, mode):
    cx = Cx(rng, _ser_for(mode, rng))
    r = rng.random()
    if r < 0.05:
        return rng.choice(["N", "O Other [ ]", S("x"),
                           f"O Tag [ name {S('div')} attrs M [ ] children {S('x')} add_ws T ]"])
    if r < 0.09:
        return cx.list_term(cx.items(2))
    return cx.term(cx.tag(rng.randint(1, 4)))


def _render_list(rng):
    mode = rng.choice(MODES)
    return mode, f"[ {_list_recv(rng, mode)} ]"


def _render_tag(rng):
    mode = rng.choice(MODES)
    return mode, f"[ {_tag_recv(rng, mode)} ]"


def _str_any(rng):
    mode = rng.choice(MODES)
    return mode, f"[ {_tag_recv(rng, mode) if rng.random() < 0.5 else _list_recv(rng, mode)} ]"


def _hash(rng):
    r = rng.random()
    if r < 0.8:
        v = S(rng.choice(TEXTS + ["abc", "The quick brown fox jumps over the lazy dog", "a" * 55, "a" * 56, "b" * 64, "é" * 40, "😀x"]))
    elif r < 0.9:
        v = "H " + es(rng.choice(TEXTS))
    else:
        v = rng.choice(["N", "I 3", "O Other [ ]", "L [ ]", "D " + es("1.5"), "T"])
    return rng.choice(MODES), f"[ {v} ]"


def _head_content(rng):
    cx = Cx(rng, "none")
    n = rng.choice([0, 1, 1, 2, 3])
    args = []
    for _ in range(n):
        r = rng.random()
        if r < 0.55:
            c = cx.node(rng.randint(0, 3), tobj=False)
            if c[0] == "dep":
                c = ("meta", next(cx.ctr))
            args.append(cx.term(c))
        elif r < 0.65:
            args.append(rng.choice(["N", "I 5", "D " + es("1.5"), "T", "I -3"]))
        elif r < 0.78:      # sequences are flattened
            inner = [cx.term(cx.node(1, tobj=False)) if rng.random() < 0.7 else rng.choice(["N", "I 2", "L [ " + S("z") + " ]"])
                     for _ in range(rng.choice([0, 1, 2]))]
            inner = [x for x in inner if "HTMLDependency" not in x]
            args.append(rng.choice(["L", "U"]) + " [ " + "".join(x + " " for x in inner) + "]")
        elif r < 0.86:
            args.append(cx.list_term([c for c in cx.items(1, tobj=False) if c[0] != "dep"]))
        elif r < 0.93:      # an un-expanded tagifiable object: get_html_string raises unless it renders itself
            args.append(cx.term(cx.tobj(1)) if True else "")
        else:
            args.append(rng.choice(["M [ ]", "O Other [ ]", f"M [ {es('k')} {S('v')} ]"]))
    args = [a for a in args if "HTMLDependency" not in a]
    return rng.choice(MODES), "[ U [ " + "".join(a + " " for a in args) + "] ]"


C18_GENS = {
    "TagList_render": _render_list,
    "Tag_render": _render_tag,
    "render_tag_or_taglist": _str_any,
    "Tag_str": lambda rng: (lambda m: (m, f"[ {_tag_recv(rng, m)} ]"))(rng.choice(MODES)),
    "TagList_str": lambda rng: (lambda m: (m, f"[ {_list_recv(rng, m)} ]"))(rng.choice(MODES)),
    "hash_deterministic": _hash,
    "head_content": _head_content,
}


def register(GENS):
    """nothing runs under the plain `src` op (every function of this area reads a run-time parameter or calls one that does)"""
    return None


def lines_c18(rng, funcs: list[str], n: int) -> list[str]:
    out = []
    for f in funcs:
        seen = set()
        for _ in range(n):
            mode, args = C18_GENS[f](rng)
            l = f"srcc18 {mode} {f} {args}"
            if l not in seen:
                seen.add(l)
                out.append(l)
    return out


def add_src_c18(ck, funcs: list[str], quick: int = 250, thorough: int = 2500):
    """`Check.add_src` for the functions of this area (op `srcc18`)"""
    import core
    ls = lines_c18(ck.rng, funcs, thorough if ck.tier == "thorough" else quick)
    ck.src_lines += list(zip(ls, core.impl_many(ls)))
