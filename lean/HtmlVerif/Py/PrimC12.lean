/-
Primitives of the Python fragment used by `HTMLDependency.source_path_map` / `as_dict` / `as_html_tags` that Py/Prim.lean
lacks.  Each was compared with CPython (/venv/bin/python) on every value kind of `PVal` (see harness/srctie_c12.py, whose
lines run them against the interpreter on every check).

Two kinds of primitive:

* library functions that the *model* already describes (Model/Paths.lean): `posixpath.join` → `posixJoin`,
  `urllib.parse.quote` → `quote`.  They are defined from the model's own functions on `str` arguments, so the tie is about
  the glue logic of the three methods; the agreement of `posixJoin` / `quote` with the standard library is the business of
  C12's correspondence check (ops `posix_join`, `quote`).  On every other argument kind both raise TypeError.
* run-time facts: what `os.path.realpath` and `package_dir` (an import) answer depends on the file system and the import
  system.  The answer is *recorded in the receiver* under the pseudo-attributes `__realpath__` / `__package_dir__` (as
  `pyReprHtml` reads the text of `_repr_html_()` from the object); without a record the primitives are `unsupported`.
-/
import HtmlVerif.Py.Prim
import HtmlVerif.Model.Paths

namespace HtmlVerif.Py
open HtmlVerif

/-- `posixpath.join(a, b)` (= `os.path.join(a, b)` on POSIX).  Both arguments go through `os.fspath`: anything that is
    not a `str` (`None`, numbers, containers, `HTML` — a `UserString` is not path-like) raises TypeError; an instance
    that defines `__fspath__` is outside the fragment. -/
def pyPosixJoin (a b : PVal) : PyM PVal :=
  let pathLike (v : PVal) : Bool := match v with
    | .obj _ fs => fs.any fun f => f.1 == "__fspath__"
    | _ => false
  match a, b with
  | .str x, .str y => pure (.str (posixJoin x y))
  | _, _ => if pathLike a || pathLike b then throw .unsupported else throw .typeError

/-- `urllib.parse.quote(s)` with the default `safe="/"`: a `str` is encoded as UTF-8 and quoted; everything else is
    handed to `quote_from_bytes`, which raises TypeError for what is not `bytes` / `bytearray` (no value of `PVal` is). -/
def pyQuote : PVal → PyM PVal
  | .str s => pure (.str (quote s))
  | _ => throw .typeError

/-- `os.path.realpath(p)` for the receiver `carrier`: the resolved path is what the file system says, recorded in the
    receiver under `__realpath__`.  A non-`str` argument raises TypeError (`os.fspath`). -/
def osRealpath (carrier p : PVal) : PyM PVal :=
  match p with
  | .str _ =>
    match carrier with
    | .obj _ fs => match fieldGet? "__realpath__" fs with
      | some (.str r) => pure (.str r)
      | _ => throw .unsupported
    | _ => throw .unsupported
  | .obj _ _ => throw .unsupported
  | _ => throw .typeError

/-- `package_dir(pkg)` (htmltools/_util.py: the directory of the imported package) for the receiver `carrier`: what the
    import system says, recorded in the receiver under `__package_dir__` (no record: the import fails or is not modelled).
    `importlib.import_module(".", package=pkg)` raises TypeError for the empty string and for what is not a `str`. -/
def pyPackageDir (carrier pkg : PVal) : PyM PVal :=
  match pkg with
  | .str s =>
    if s.isEmpty then throw .typeError else
    match carrier with
    | .obj _ fs => match fieldGet? "__package_dir__" fs with
      | some (.str r) => pure (.str r)
      | _ => throw .unsupported
    | _ => throw .unsupported
  | .obj _ _ => throw .unsupported
  | _ => throw .typeError

/-- `copy.deepcopy(x)`: values of `PVal` are immutable and carry no identity, so a deep copy *is* the value (what the
    copy buys in Python — later in-place updates do not reach the original — holds of every `PVal` operation).
    An instance may customise copying (`__deepcopy__`, `__reduce_ex__`): outside the fragment. -/
def pyDeepcopy : PVal → PyM PVal
  | .obj _ _ => throw .unsupported
  | v => pure v

/-- `acc.append(v)` on the accumulator of an item-updating loop (harness/pytr_c12.py) -/
def pyListAppendC12 (acc v : PVal) : PyM PVal :=
  match acc with
  | .list xs => pure (.list (xs ++ [v]))
  | _ => throw .unsupported

/-- the container `c` whose items were updated in place, item by item, to `items`: a loop `for s in c: … s.update(…)`
    over a list or a tuple leaves the container with the updated items (harness/pytr_c12.py makes that loop functional) -/
def pyWithItems (c items : PVal) : PyM PVal :=
  match c, items with
  | .list _, .list xs => pure (.list xs)
  | .tuple _, .list xs => pure (.tuple xs)
  | .dict [], .list [] => pure (.dict [])      -- nothing to iterate over: the empty dict stays
  | _, _ => throw .unsupported

/-- a value `TagList.__init__` keeps as it is: a tag node (`is_tag_node`) that `flatten` does not descend into -/
def isPlainTagNodeC12 (v : PVal) : Bool :=
  isInstance v ["Tagifiable", "MetadataNode", "ReprHtml", "str", "HTML"] && pyClassOf v != "TagList"

/-- the items of `TagList(*children)`: `None` is dropped, a `TagList` instance is spliced in (`flatten` descends into it;
    its items are tag nodes already), a tag node is kept.  Numbers (converted with `str`), lists / tuples (descended into)
    and values that are no tag children (TypeError) are outside this primitive. -/
def tagListItems : List PVal → PyM (List PVal)
  | [] => pure []
  | .none :: r => tagListItems r
  | .obj "TagList" fs :: r =>
    match fieldGet? "data" fs with
    | some (.list xs) => if xs.all isPlainTagNodeC12 then do pure (xs ++ (← tagListItems r)) else throw .unsupported
    | _ => throw .unsupported
  | v :: r => if isPlainTagNodeC12 v then do pure (v :: (← tagListItems r)) else throw .unsupported

/-- `TagList(*children)` on such children -/
def mkTagList (children : List PVal) : PyM PVal := do
  pure (.obj "TagList" [("data", .list (← tagListItems children))])

end HtmlVerif.Py
