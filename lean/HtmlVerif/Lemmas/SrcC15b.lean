/-
Source tie for the Tag constructor and the helpers around it (Props/SrcC15b.lean): embeddings of the model's values
(`TagArg Arg`, `WsArg`, `TagM`) into the Python value universe, the model of the whole of `Tag.__init__` composed from the
models of its parts (`tagInitWs`, `tagInitAttrs`, `TL.init`), the loop rule for the two comprehensions, and facts about the
primitives of Py/PrimC15b.lean on the embedded shapes.
-/
import HtmlVerif.Lemmas.SrcC14
import HtmlVerif.Model.Consolidate
import HtmlVerif.Model.TagFn
import HtmlVerif.Py.PrimC15b

set_option linter.unusedVariables false

namespace HtmlVerif.SrcTie
open HtmlVerif HtmlVerif.Py HtmlVerif.Generated.Src

/-! ### values -/

/-- one positional argument of `Tag(...)` / `consolidate_attrs(...)`: an attribute dict, or a value of the child-list model -/
def embTagArgC15b : TagArg Arg → PVal
  | .dict d => embArgDict d
  | .child c => embA c

/-- what is given for `_add_ws`: a bool, or any value that is not one -/
inductive WsVC15b
  | bool (b : Bool)
  | other (v : PVal) (h : isInstance v ["bool"] = false)

def WsVC15b.emb : WsVC15b → PVal
  | .bool b => .bool b
  | .other v _ => v

def WsVC15b.toWs : WsVC15b → WsArg
  | .bool b => .bool b
  | .other _ _ => .other

/-- the names of the parameters of `Tag.__init__` other than `*args` / `**kwargs`: a keyword of that name is not an attribute -/
def reservedC15b : List Str := [['s', 'e', 'l', 'f'], ['_', 'n', 'a', 'm', 'e'], ['_', 'a', 'd', 'd', '_', 'w', 's']]

/-- no key of the keyword dict is one of `names` -/
def kwFreeC15b (names : List Str) (kw : List (Str × AttrArg)) : Bool := kw.all fun kv => !names.contains kv.1

/-- the children are values the fragment can represent, and none of them is a dict (a dict is an attribute argument) -/
def kidsOkC15b (kids : List Arg) : Bool := kids.all fun c => argRep c && !c.isDict

/-- a Tag as `__init__` leaves it (the attributes in the order of `tagFieldNamesC15b`) -/
def embTagMC15b (cls : String) (t : TagM) : PVal :=
  .obj cls [("name", .str t.name), ("attrs", embAttrs t.attrs), ("children", embTL t.children), ("add_ws", .bool t.ws),
            ("prev_displayhook", .none)]

def tagFieldNamesC15b : List String := ["name", "attrs", "children", "add_ws", "prev_displayhook"]

/-- an instance restricted to these attributes, in this order: the order in which `__init__` makes its assignments (the
    order of `__dict__`) is not part of what the tie states -/
def projTagC15b : PVal → PVal
  | .obj c fs => .obj c (tagFieldNamesC15b.filterMap fun k => (fieldGet? k fs).map fun v => (k, v))
  | v => v

/-! ### the model of the whole constructor -/

/-- `Tag.__init__(self, _name, *args, _add_ws, **kwargs)`: the `_add_ws` check (Model/TagFn.lean), then the attributes
    (Model/Attrs.lean) from the dict arguments and the keywords, then the children (Model/Children.lean) from the other
    arguments; the first failure decides -/
def tagInitC15b (cfg : Cfg) (name : Str) (ws : WsArg) (args : List (TagArg Arg)) (kw : List (Str × AttrArg)) :
    Except Err TagM :=
  match tagInitWs ws with
  | none => .error .typeError
  | some b =>
    match tagInitAttrs cfg (dictsOf args) kw with
    | .error e => .error e
    | .ok a =>
      match TL.init (kidsOf args) with
      | .error e => .error e
      | .ok c => .ok ⟨name, b, a, c⟩

/-- whether `TagList(*kids)` raises: the `checkKids` parameter of Model/Consolidate.lean, instantiated with C14's model -/
def checkKidsC15b (kids : List Arg) : Except Err Unit :=
  match TL.init kids with
  | .ok _ => .ok ()
  | .error e => .error e

/-- outcome of a mutating Tag method in the functional reading: the new receiver, or the exception -/
def embTagOutC15b (cls : String) (r : Except Err Unit × TagM) : PyM PVal :=
  match r.1 with
  | .ok _ => .ok (embTagMC15b cls r.2)
  | .error e => .error (embErr e)

/-! ### the exception monad -/

theorem map_eq_bindC15b {α β} (f : α → β) (x : PyM α) : (f <$> x) = x >>= fun a => Except.ok (f a) := by
  cases x <;> rfl

theorem bind_assocC15b {α β γ} (x : PyM α) (f : α → PyM β) (g : β → PyM γ) :
    (x >>= f) >>= g = x >>= fun a => f a >>= g := by
  cases x <;> rfl

/-! ### the comprehensions `[x for x in args if <test on x>]` -/

/-- whatever the body of the comprehension loop is: if one pass appends the item exactly when `p` holds of it, the loop
    computes the filter; stated with the continuation after the loop -/
theorem filter_loop_kC15b {β : Type} (p : PVal → Bool) (L acc : List PVal)
    (f : PVal → List PVal → PyM (ForInStep (List PVal)))
    (hstep : ∀ x ∈ L, ∀ s, f x s = .ok (.yield (if p x then s ++ [x] else s)))
    (k : List PVal → PyM β) :
    (forIn L acc f >>= k) = k (acc ++ L.filter p) := by
  induction L generalizing acc with
  | nil => simp
  | cons x t ih =>
    simp only [List.forIn_cons, hstep x (by simp) acc, ok_bind]
    rw [ih _ (fun y hy s => hstep y (by simp [hy]) s)]
    by_cases hp : p x = true
    · simp [hp]
    · simp [hp]

theorem isDict_embC15b (x : Arg) : isInstance (embA x) ["dict"] = x.isDict := by
  cases x with
  | node n => cases n <;> simp [embA, embNode, isInstance, builtinClasses, classBases, Arg.isDict]
  | num k t => cases k <;> simp [embA, numVal, isInstance, builtinClasses, Arg.isDict]
  | seqLike k xs => cases k <;> simp [embA, embSeq, seqName, isInstance, builtinClasses, classBases, Arg.isDict]
  | _ => simp [embA, isInstance, builtinClasses, classBases, Arg.isDict]

theorem isDict_embArgDictC15b (d : List (Str × AttrArg)) : isInstance (embArgDict d) ["dict"] = true := rfl

theorem kidsOk_consC15b (c : Arg) (r : List Arg) :
    kidsOkC15b (c :: r) = ((argRep c && !c.isDict) && kidsOkC15b r) := rfl

/-- the dict arguments, as the first comprehension of `Tag.__init__` selects them -/
theorem filter_dictsC15b (args : List (TagArg Arg)) (hk : kidsOkC15b (kidsOf args) = true) :
    (args.map embTagArgC15b).filter (fun v => isInstance v ["dict"]) = (dictsOf args).map embArgDict := by
  induction args with
  | nil => rfl
  | cons a t ih =>
    cases a with
    | dict d =>
      simp only [kidsOf] at hk
      simp [embTagArgC15b, isDict_embArgDictC15b, dictsOf, List.filter_cons, ih hk]
    | child c =>
      simp only [kidsOf, kidsOk_consC15b, Bool.and_eq_true, Bool.not_eq_true'] at hk
      simp [embTagArgC15b, isDict_embC15b, hk.1.2, dictsOf, ih hk.2]

/-- the other arguments, as the second comprehension selects them -/
theorem filter_kidsC15b (args : List (TagArg Arg)) (hk : kidsOkC15b (kidsOf args) = true) :
    (args.map embTagArgC15b).filter (fun v => !isInstance v ["dict"]) = (kidsOf args).map embA := by
  induction args with
  | nil => rfl
  | cons a t ih =>
    cases a with
    | dict d =>
      simp only [kidsOf] at hk
      simp [embTagArgC15b, isDict_embArgDictC15b, kidsOf, ih hk]
    | child c =>
      simp only [kidsOf, kidsOk_consC15b, Bool.and_eq_true, Bool.not_eq_true'] at hk
      simp [embTagArgC15b, isDict_embC15b, hk.1.2, kidsOf, ih hk.2]

theorem kidsOk_repC15b (kids : List Arg) (hk : kidsOkC15b kids = true) : kids.all argRep = true := by
  induction kids with
  | nil => rfl
  | cons c r ih =>
    simp only [kidsOk_consC15b, Bool.and_eq_true] at hk
    simp [hk.1.1, ih hk.2]

/-! ### keyword dicts -/

theorem kwFree_subC15b (names names' : List Str) (kw : List (Str × AttrArg)) (h : kwFreeC15b names kw = true)
    (hsub : names'.all (fun n => names.contains n) = true) : kwFreeC15b names' kw = true := by
  induction kw with
  | nil => rfl
  | cons kv t ih =>
    simp only [kwFreeC15b, List.all_cons, Bool.and_eq_true, Bool.not_eq_true'] at h ⊢
    refine ⟨?_, ih h.2⟩
    cases hc : names'.contains kv.1 with
    | false => rfl
    | true =>
      have hm : kv.1 ∈ names' := by simpa using hc
      have := (List.all_eq_true.mp hsub) kv.1 hm
      rw [this] at h
      exact absurd h.1 (by simp)

/-- `f(**kw)` when no key of `kw` names a parameter of `f`: everything goes to `**kwargs`, unchanged -/
theorem pyKwRest_embC15b (kw : List (Str × AttrArg)) (bound taken : List Str)
    (h : kwFreeC15b reservedC15b kw = true)
    (hsub : (bound ++ taken).all (fun n => reservedC15b.contains n) = true) :
    pyKwRestC15b (embArgDict kw) bound taken = .ok (embArgDict kw) := by
  have hf := kwFree_subC15b _ _ kw h hsub
  have hall : ∀ kv ∈ kw, (bound ++ taken).contains kv.1 = false := by
    intro kv hkv
    have := (List.all_eq_true.mp hf) kv hkv
    simpa using this
  have h1 : ((kw.map fun kv => (kv.1, embArg kv.2)).any fun kv => bound.contains kv.1) = false := by
    rw [List.any_eq_false]
    intro x hx
    obtain ⟨kv, hkv, rfl⟩ := List.mem_map.mp hx
    have := hall kv hkv
    simp only [List.contains_eq_mem, List.mem_append, decide_eq_false_iff_not, not_or] at this
    simpa using this.1
  have h2 : ((kw.map fun kv => (kv.1, embArg kv.2)).filter fun kv => !taken.contains kv.1)
      = kw.map fun kv => (kv.1, embArg kv.2) := by
    rw [List.filter_eq_self]
    intro x hx
    obtain ⟨kv, hkv, rfl⟩ := List.mem_map.mp hx
    have := hall kv hkv
    simp only [List.contains_eq_mem, List.mem_append, decide_eq_false_iff_not, not_or] at this
    simpa using this.2
  simp only [pyKwRestC15b, embArgDict, h1, h2, Bool.false_eq_true, if_false, pure_eq_ok]

/-- `f(**kw)` when no key of `kw` names a parameter of `f`: a parameter with a default keeps its default -/
theorem pyKwTake_embC15b (kw : List (Str × AttrArg)) (name : Str) (dflt : PVal)
    (h : kwFreeC15b reservedC15b kw = true) (hn : reservedC15b.contains name = true) :
    pyKwTakeC15b (embArgDict kw) name dflt = .ok dflt := by
  have hf := kwFree_subC15b _ [name] kw h (by simpa using hn)
  have hall : ∀ kv ∈ kw, kv.1 ≠ name := by
    intro kv hkv
    have := (List.all_eq_true.mp hf) kv hkv
    simp only [List.contains_cons, List.contains_nil, Bool.or_false, Bool.not_eq_true', beq_eq_false_iff_ne, ne_eq] at this
    exact this
  have : Py.dictGet? name (kw.map fun kv => (kv.1, embArg kv.2)) = none := by
    clear h hf
    induction kw with
    | nil => rfl
    | cons kv t ih =>
      simp only [List.map_cons, Py.dictGet?]
      rw [if_neg (hall kv (by simp))]
      exact ih (fun x hx => hall x (by simp [hx]))
  simp only [pyKwTakeC15b, embArgDict, this, Option.getD_none, pure_eq_ok]

theorem pyDictInit0_embC15b (a : Attrs) : pyDictInit0C15b (embAttrs a) = .ok (embAttrs a) := rfl
theorem pyDictCopy_embC15b (a : Attrs) : pyDictCopyC15b (embAttrs a) = .ok (embAttrs a) := rfl

/-! ### instances -/

theorem pySetAttr_objC15b (c : String) (fs : List (String × PVal)) (n : String) (v : PVal) :
    pySetAttr (.obj c fs) n v = .ok (.obj c (fieldSet n v fs)) := rfl

theorem pyGetAttr_objC15b (c : String) (fs : List (String × PVal)) (n : String) :
    pyGetAttr (.obj c fs) n = match fieldGet? n fs with | some v => .ok v | none => .error .attributeError := by
  simp only [pyGetAttr]; cases fieldGet? n fs <;> rfl

theorem fieldGet?_fieldSet_sameC15b (k : String) (v : PVal) (fs : List (String × PVal)) :
    fieldGet? k (fieldSet k v fs) = some v := by
  induction fs with
  | nil => simp [fieldSet, fieldGet?]
  | cons x t ih =>
    obtain ⟨k', v'⟩ := x
    by_cases h : k' = k
    · simp [fieldSet, fieldGet?, h]
    · simp [fieldSet, fieldGet?, h, ih]

theorem fieldGet?_fieldSet_otherC15b (k k' : String) (v : PVal) (fs : List (String × PVal)) (h : k' ≠ k) :
    fieldGet? k' (fieldSet k v fs) = fieldGet? k' fs := by
  induction fs with
  | nil => simp [fieldSet, fieldGet?, Ne.symm h]
  | cons x t ih =>
    obtain ⟨k'', v''⟩ := x
    by_cases h1 : k'' = k
    · subst h1; simp [fieldSet, fieldGet?, Ne.symm h]
    · by_cases h2 : k'' = k'
      · subst h2; simp [fieldSet, fieldGet?, h1]
      · simp [fieldSet, fieldGet?, h1, h2, ih]

/-- the projection of an instance onto the five attributes, read off `fieldGet?` -/
theorem projTag_objC15b (c : String) (fs : List (String × PVal)) (n a ch w d : PVal)
    (h1 : fieldGet? "name" fs = some n) (h2 : fieldGet? "attrs" fs = some a) (h3 : fieldGet? "children" fs = some ch)
    (h4 : fieldGet? "add_ws" fs = some w) (h5 : fieldGet? "prev_displayhook" fs = some d) :
    projTagC15b (.obj c fs) = .obj c [("name", n), ("attrs", a), ("children", ch), ("add_ws", w), ("prev_displayhook", d)] := by
  simp [projTagC15b, tagFieldNamesC15b, h1, h2, h3, h4, h5]

/-- reading one of the five attributes of the projection is reading it of the instance -/
theorem pyGetAttr_projC15b (v : PVal) (k : String) (hk : tagFieldNamesC15b.contains k = true) :
    pyGetAttr (projTagC15b v) k = pyGetAttr v k := by
  cases v with
  | obj c fs =>
    have key : ∀ (names : List String), names.contains k = true →
        fieldGet? k (names.filterMap fun n => (fieldGet? n fs).map fun v => (n, v)) = fieldGet? k fs := by
      intro names
      induction names with
      | nil => intro h; simp at h
      | cons n t ih =>
        intro h
        by_cases hn : n = k
        · subst hn
          cases hg : fieldGet? n fs with
          | none =>
            simp only [List.filterMap_cons, hg, Option.map_none]
            by_cases ht : t.contains n = true
            · rw [ih ht, hg]
            · have : ∀ (l : List String), l.contains n = false →
                  fieldGet? n (l.filterMap fun m => (fieldGet? m fs).map fun v => (m, v)) = none := by
                intro l; induction l with
                | nil => intro _; rfl
                | cons m r ihr =>
                  intro hl
                  simp only [List.contains_cons, Bool.or_eq_false_iff, beq_eq_false_iff_ne, ne_eq] at hl
                  cases hm : fieldGet? m fs with
                  | none => simp only [List.filterMap_cons, hm, Option.map_none]; exact ihr hl.2
                  | some w =>
                    simp only [List.filterMap_cons, hm, Option.map_some, fieldGet?]
                    rw [if_neg (fun e => hl.1 e.symm)]
                    exact ihr hl.2
              exact this t (by simpa using ht)
          | some w => simp [hg, fieldGet?]
        · have ht : t.contains k = true := by
            simp only [List.contains_cons, Bool.or_eq_true, beq_iff_eq] at h
            rcases h with h | h
            · exact absurd h.symm hn
            · exact h
          cases hg : fieldGet? n fs with
          | none => simp only [List.filterMap_cons, hg, Option.map_none]; exact ih ht
          | some w =>
            simp only [List.filterMap_cons, hg, Option.map_some, fieldGet?]
            rw [if_neg hn]
            exact ih ht
    simp only [projTagC15b, pyGetAttr, key tagFieldNamesC15b hk]
  | _ => rfl

/-- positional binding at run time (`self.children.append(*args)`) -/
theorem pyPosArg_consC15b (a : PVal) (r : List PVal) : pyPosArgC15b (a :: r) 0 = .ok a := rfl
theorem pyPosArg_nilC15b (i : Nat) : pyPosArgC15b [] i = .error .typeError := rfl

/-! ### reading a new instance through its attributes -/

theorem proj_inv_errorC15b (X : PyM PVal) (e : PyErr) (h : projTagC15b <$> X = .error e) : X = .error e := by
  cases X with
  | error e' => exact h
  | ok v => exact absurd h (by simp)

theorem proj_inv_okC15b (X : PyM PVal) (w : PVal) (h : projTagC15b <$> X = .ok w) :
    ∃ v, X = .ok v ∧ projTagC15b v = w := by
  cases X with
  | error e' => exact absurd h (by simp)
  | ok v => exact ⟨v, rfl, by simpa using h⟩

theorem pyGetAttr_embTagM_attrsC15b (cls : String) (t : TagM) :
    pyGetAttr (embTagMC15b cls t) "attrs" = .ok (embAttrs t.attrs) := rfl

theorem fieldGet?_children_embTagMC15b (t : TagM) :
    fieldGet? "children" [("name", PVal.str t.name), ("attrs", embAttrs t.attrs), ("children", embTL t.children),
      ("add_ws", PVal.bool t.ws), ("prev_displayhook", PVal.none)] = some (embTL t.children) := rfl

/-- outcome of a method that works on the `children` field of an instance: the instance with the new child list, or the
    exception -/
def embKidsOutC15b (cls : String) (fs : List (String × PVal)) (o : StepOut) : PyM PVal :=
  match o.result with
  | .ok _ => .ok (.obj cls (fieldSet "children" (embTL o.state) fs))
  | .error e => .error (embErr e)

/-- on a Tag as `__init__` leaves it this is `TagM.withChildren` -/
theorem embKidsOut_tagMC15b (cls : String) (t : TagM) (o : StepOut) :
    embKidsOutC15b cls [("name", PVal.str t.name), ("attrs", embAttrs t.attrs), ("children", embTL t.children),
      ("add_ws", PVal.bool t.ws), ("prev_displayhook", PVal.none)] o = embTagOutC15b cls (t.withChildren o) := by
  simp only [embKidsOutC15b, embTagOutC15b, TagM.withChildren]
  cases o.result <;> rfl

/-! ### the models of the parts against the models of Model/Consolidate.lean and Model/Children.lean -/

/-- the constructor model and the split model of Model/Consolidate.lean say the same about attributes and errors -/
theorem tagInitSplit_eqC15b (cfg : Cfg) (name : Str) (b : Bool) (args : List (TagArg Arg)) (kw : List (Str × AttrArg)) :
    tagInitSplit cfg checkKidsC15b args kw
      = match tagInitC15b cfg name (.bool b) args kw with
        | .ok t => .ok (t.attrs, kidsOf args)
        | .error e => .error e := by
  simp only [tagInitSplit, tagInitC15b, tagInitWs, checkKidsC15b]
  cases tagInitAttrs cfg (dictsOf args) kw with
  | error e => rfl
  | ok a => cases TL.init (kidsOf args) <;> rfl

/-- without attribute arguments it is the child-list model's `TagM.init` (Model/Children.lean) -/
theorem tagInit_kidsC15b (cfg : Cfg) (name : Str) (args : List Arg) (h : ∀ a ∈ args, a.isDict = false) :
    tagInitC15b cfg name (.bool true) (args.map .child) [] = TagM.init name args := by
  have h1 : dictsOf (args.map (TagArg.child (α := Arg))) = [] := by
    induction args with
    | nil => rfl
    | cons a t ih => simp [dictsOf, ih (fun x hx => h x (by simp [hx]))]
  have h2 : kidsOf (args.map (TagArg.child (α := Arg))) = args := by
    clear h1 h
    induction args with
    | nil => rfl
    | cons a t ih => simp [kidsOf, ih]
  have h3 : args.filter (fun a => !a.isDict) = args := by
    rw [List.filter_eq_self]; intro a ha; simp [h a ha]
  simp only [tagInitC15b, tagInitWs, h1, h2, TagM.init, h3]
  cases TL.init args <;> rfl

/-- the flag a successfully built tag carries is the one `tagInitWs` (Model/TagFn.lean, C19) accepts -/
theorem tagInit_wsC15b (cfg : Cfg) (name : Str) (ws : WsArg) (args : List (TagArg Arg)) (kw : List (Str × AttrArg)) (t : TagM)
    (h : tagInitC15b cfg name ws args kw = .ok t) : tagInitWs ws = some t.ws ∧ t.name = name := by
  unfold tagInitC15b at h
  cases hw : tagInitWs ws with
  | none => rw [hw] at h; exact absurd h (by simp)
  | some b =>
    rw [hw] at h
    simp only at h
    cases ha : tagInitAttrs cfg (dictsOf args) kw with
    | error e => rw [ha] at h; exact absurd h (by simp)
    | ok a =>
      rw [ha] at h
      simp only at h
      cases hc : TL.init (kidsOf args) with
      | error e => rw [hc] at h; exact absurd h (by simp)
      | ok c =>
        rw [hc] at h
        simp only [Except.ok.injEq] at h
        subst h
        exact ⟨rfl, rfl⟩

/-! ### both halves of the constructor raise TypeError only (so which half is built first cannot be observed) -/

theorem accumPairs_errC15b (cfg : Cfg) (l : List (Str × AttrArg)) (acc : Attrs) (e : Err)
    (h : accumPairs cfg l acc = .error e) : e = .typeError := by
  induction l generalizing acc with
  | nil => simp [accumPairs] at h
  | cons kv t ih =>
    obtain ⟨k, v⟩ := kv
    cases v <;> simp only [accumPairs, normAttrValue] at h <;> first | exact ih _ h | (cases h; rfl)

theorem accumDicts_errC15b (cfg : Cfg) (ds : List (List (Str × AttrArg))) (acc : Attrs) (e : Err)
    (h : accumDicts cfg ds acc = .error e) : e = .typeError := by
  induction ds generalizing acc with
  | nil => simp [accumDicts] at h
  | cons d t ih =>
    simp only [accumDicts] at h
    cases hd : accumPairs cfg d acc with
    | error e' => rw [hd] at h; cases h; exact accumPairs_errC15b cfg d acc _ hd
    | ok a => rw [hd] at h; exact ih _ h

/-- the attribute half of the constructor raises nothing but TypeError -/
theorem tagInitAttrs_errC15b (cfg : Cfg) (ds : List (List (Str × AttrArg))) (kw : List (Str × AttrArg)) (e : Err)
    (h : tagInitAttrs cfg ds kw = .error e) : e = .typeError := by
  simp only [tagInitAttrs, attrsUpdate] at h
  cases hd : accumDicts cfg (if kw.isEmpty then ds else ds ++ [kw]) [] with
  | error e' => rw [hd] at h; cases h; exact accumDicts_errC15b cfg _ _ _ hd
  | ok a => rw [hd] at h; cases h

theorem convertLoop_errC15b (l : List Arg) (e : Err) (h : convertLoop l = .error e) : e = .typeError := by
  induction l generalizing e with
  | nil => simp [convertLoop] at h
  | cons a t ih =>
    by_cases hn : argIsNum a = true
    · cases a <;> simp [argIsNum] at hn
      simp only [convertLoop] at h
      cases hc : convertLoop t with
      | error e' => rw [hc] at h; cases h; exact ih _ hc
      | ok r => rw [hc] at h; cases h
    · have hn' : argIsNum a = false := by simpa using hn
      have hcl : convertLoop (a :: t) = if a.isTagNode then
          (match convertLoop t with
            | .ok r' => .ok (Stored.ofArg a :: r')
            | .error e => .error e) else .error .typeError := by
        cases a <;> first | rfl | simp [argIsNum] at hn'
      rw [hcl] at h
      by_cases ht : a.isTagNode = true
      · simp only [ht, if_true] at h
        cases hc : convertLoop t with
        | error e' => rw [hc] at h; cases h; exact ih _ hc
        | ok r => rw [hc] at h; cases h
      · simp only [ht, Bool.false_eq_true, if_false] at h
        cases h; rfl

/-- the child half of the constructor raises nothing but TypeError -/
theorem TLinit_errC15b (kids : List Arg) (e : Err) (h : TL.init kids = .error e) : e = .typeError := by
  simp only [TL.init, chTagchildsToTagnodes, Arg.isStr, Arg.iter, Bool.false_eq_true, if_false] at h
  exact convertLoop_errC15b _ _ h

end HtmlVerif.SrcTie
