/-
The renderer tie (Props/SrcRender.lean) restated for the embedding `embT` (Lemmas/SrcC10.lean) and the globals of the C11
tie (`globalsC11`): the loop lemmas of Lemmas/SrcRender.lean with `embT tv` in place of `embNode`.  The two embeddings
differ in what they record of metadata nodes (a dependency's version and marker) and of foreign tagifiable objects (the
value their `tagify()` returns) — nothing the renderer reads; `HTMLDocument.render` / `Tag.render` call `tagify`,
`get_dependencies` (tied on `embT`) and `get_html_string` on the same objects, hence this copy.
-/
import HtmlVerif.Lemmas.SrcC11

set_option linter.unusedVariables false
set_option linter.unusedSimpArgs false

namespace HtmlVerif.SrcTie
open HtmlVerif HtmlVerif.Py HtmlVerif.Generated.Src

/-- whatever the body of the child loop is: if each pass simulates `kidStep`, the loop followed by `return html_`
    is `renderList` (or RuntimeError when an un-expanded object is reached) -/
theorem child_loopC11 {ρ : Type} (tv : Node → PVal) (cfg : Cfg) (ks : Nodes) (i : Nat) (eol : Str) (aw esc : Bool) (r0 : ρ)
    (f : PVal → PVal × PVal × PVal × ρ → PyM (ForInStep (PVal × PVal × PVal × ρ)))
    (hstep : ∀ c ∈ ks.toList, ∀ s b, RKS s b →
      Sim (fun (r : ForInStep _) b' => ∃ s', r = .yield s' ∧ RKS s' b') embErr (f (embT tv c) s) (kidStep cfg i eol esc c b)) :
    (do
      let s ← forIn (ks.toList.map (embT tv)) (PVal.str [], PVal.bool true, PVal.bool aw, r0) f
      Except.ok s.1 : PyM PVal)
      = if ks.hasTobjKids then .error .runtimeError else .ok (.str (renderList cfg ks i eol aw esc)) := by
  have sim := forIn_sim (RKS (ρ := ρ)) embErr (embT tv) ks.toList f (fun c b => kidStep cfg i eol esc c b)
    (PVal.str [], PVal.bool true, PVal.bool aw, r0) ⟨[], true, aw⟩ ⟨rfl, rfl, rfl⟩ hstep
  have kf := kids_fold cfg i eol esc ks ⟨[], true, aw⟩
  generalize List.foldlM (fun b c => kidStep cfg i eol esc c b) ({ acc := [], first := true, prev := aw } : KS) ks.toList = y at sim kf
  cases y with
  | error e =>
    simp only [Sim] at sim
    rw [sim]
    by_cases hk : ks.hasTobjKids = true
    · simp only [hk, if_true, Except.map] at kf ⊢
      cases kf; rfl
    · simp [hk, Except.map] at kf
  | ok b =>
    obtain ⟨s, hs, hR⟩ := sim
    rw [hs]
    by_cases hk : ks.hasTobjKids = true
    · simp [hk, Except.map] at kf
    · simp only [hk, Bool.false_eq_true, if_false, Except.map, List.nil_append] at kf ⊢
      have kf' : b.acc = ks.renderKids cfg i eol true aw esc := by injection kf
      simp [hR.1, renderList, kf']

/-- the comprehension `[x for x in self.children if not isinstance(x, MetadataNode)]`, whatever its body -/
theorem vis_loopC11 (tv : Node → PVal) (ks : Nodes) (f : PVal → List PVal → PyM (ForInStep (List PVal)))
    (hstep : ∀ c ∈ ks.toList, ∀ s, f (embT tv c) s = .ok (.yield (if c.isMeta then s else s ++ [embT tv c]))) :
    forIn (ks.toList.map (embT tv)) ([] : List PVal) f = .ok (ks.visible.map (embT tv)) := by
  have sim := forIn_sim (fun (s : List PVal) (b : List Node) => s = b.map (embT tv)) embErr (embT tv) ks.toList f
    (fun c b => .ok (if c.isMeta then b else b ++ [c])) [] [] rfl
    (by
      intro c hc s b hR
      subst hR
      refine ⟨_, hstep c hc _, _, rfl, ?_⟩
      by_cases h : c.isMeta = true <;> simp [h])
  rw [visible_fold] at sim
  obtain ⟨s, hs, hR⟩ := sim
  rw [hs, hR, visible_eq_filter]
  simp

theorem getattr_tagC11 (tv : Node → PVal) (nm : Str) (ws : Bool) (a : Attrs) (k : Nodes) :
    pyGetAttr (embT tv (.tag nm ws a k)) "name" = .ok (.str nm)
    ∧ pyGetAttr (embT tv (.tag nm ws a k)) "attrs" = .ok (embAttrs a)
    ∧ pyGetAttr (embT tv (.tag nm ws a k)) "children" = .ok (.obj "TagList" [("data", .list (embTs tv k))])
    ∧ pyGetAttr (embT tv (.tag nm ws a k)) "add_ws" = .ok (.bool ws) := by
  simp [embT, pyGetAttr, fieldGet?]

end HtmlVerif.SrcTie
