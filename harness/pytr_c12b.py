"""Translator plug-in for the file-system half of C12 (DESIGN §14): `HTMLDependency.copy_to`, `HTMLDocument.save_html`,
`Tag.save_html`, `TagList.save_html` (htmltools/_core.py).

These functions read and write the *file system*.  They are translated as **state-passing** (as the functions of C17 are,
harness/pytr_c17.py): the Lean type is `G → args → PyFSC12b PVal` where `PyFSC12b α = SysC12b → Except PyErr α × SysC12b`
(Py/PrimC12b.lean) — the file system goes in and comes out on every path, also the exceptional one.  Every operating-system
call becomes one primitive of Py/PrimC12b.lean, *defined from the model's own FS operations* (Model/FS.lean); the statements
stay in source order and Lean's `do` notation evaluates the nested actions of a statement left to right, which is Python's
order for the shapes admitted here (arguments left to right, right-hand side before the store).

New syntax, for the functions of this area only (anything else in them goes through the base translator, or is
`Untranslatable`):

  * `os.path.join(a, b)`, `os.path.dirname(p)`                       -> `osPathJoinC12b`, `osPathDirnameC12b`
  * `os.path.exists(p)` / `isfile` / `isdir`                         -> `osPathExistsC12b` / `osPathIsfileC12b` / `osPathIsdirC12b`
  * `os.makedirs(p, exist_ok=True)`                                  -> `osMakedirsC12b`
  * `shutil.rmtree(p)`, `shutil.copy2(a, b)`, `shutil.copytree(a, b)` -> `shutilRmtreeC12b`, `shutilCopy2C12b`, `shutilCopytreeC12b`
  * `Path(x)`, `p.resolve()`, `p.parent`, `p.glob("*")`, `p.relative_to(q)`, `p.mkdir(parents=True, exist_ok=True)`
                                                                     -> `mkPathC12b`, `pathResolveMethC12b`, `pathParentC12b`,
                                                                        `pathGlobStarC12b`, `pathRelativeToC12b`, `pathMkdirPC12b`
    (`os`, `shutil` must be the modules imported at top level by `import os` / `import shutil`, `Path` the class imported by
    `from pathlib import Path`, none of them rebound in the function);
  * `with open(x, "w") as f:` whose body consists of statements `f.write(e)` only
                                                                     -> `f := (← openWriteC12b x)`, then `fileWriteC12b f e` per statement
    (`open` must be the builtin; the `close()` at the end of the block has no effect in the model);
  * `v = [*c1, *c2, …]` where every `ci` is a list comprehension     -> the loops of the comprehensions, one after the other, then
                                                                        `pyStarListC12b [acc1, acc2, …]`
  * `a and b` / `a or b` / `b if c else d`                           -> `pyAndSC12b` / `pyOrSC12b` / an `if` in the state monad
  * `x.copy_to(…)` for a local / parameter `x`                       -> by the class of `x` at run time: the translated
                                                                        `HTMLDependency.copy_to`, any other class AttributeError
  * `self.render(lib_prefix=…, include_version=…)` in `HTMLDocument` -> `docRenderRecC12b`: `HTMLDocument.render` is **not translated**
    here; the call answers the value *recorded in the document object* (Py/PrimC12b.lean), in the spirit of `pyReprHtml`;
  * `HTMLDocument(x).save_html(…)`                                   -> the translated `HTMLDocument.save_html` on `mkDocC12b x`
    (`HTMLDocument.__init__` is not translated: the constructor primitive builds the object from a Tag / TagList and hands on
    the render record the receiver carries).

The run table `runByNameC12b` of the `srcc12b` op is emitted after the last translation.
"""
from __future__ import annotations

import ast
import os

T = None  # the pytranslate module (set by register)

CORE = "htmltools/_core.py"
COPY, DSAVE, TSAVE, LSAVE = ("HTMLDependency_copy_toC12b", "HTMLDocument_save_htmlC12b", "Tag_save_htmlC12b",
                             "TagList_save_htmlC12b")
MINE = (COPY, DSAVE, TSAVE, LSAVE)
MONAD = "PyFSC12b"

_mod_cache: dict[str, ast.Module] = {}


def _module(spec) -> ast.Module:
    path = os.path.join(T.repo(), spec.file)
    if path not in _mod_cache:
        with open(path, encoding="utf-8") as f:
            _mod_cache[path] = ast.parse(f.read())
    return _mod_cache[path]


def _top_bindings(mod: ast.Module, name: str) -> list[ast.stmt]:
    """every statement anywhere at module level (also inside `if` / `try` blocks) that binds `name`"""
    out = []

    def visit(stmts):
        for n in stmts:
            if isinstance(n, (ast.Import, ast.ImportFrom)):
                if any((a.asname or a.name.split(".")[0]) == name for a in n.names):
                    out.append(n)
            elif isinstance(n, (ast.FunctionDef, ast.AsyncFunctionDef, ast.ClassDef)):
                if n.name == name:
                    out.append(n)
            elif isinstance(n, (ast.Assign, ast.AnnAssign, ast.AugAssign)):
                tg = n.targets if isinstance(n, ast.Assign) else [n.target]
                if any(isinstance(x, ast.Name) and x.id == name for t in tg for x in ast.walk(t)):
                    out.append(n)
            elif isinstance(n, (ast.If, ast.Try, ast.With, ast.For, ast.While)):
                for fld in ("body", "orelse", "finalbody"):
                    visit(getattr(n, fld, []))
                for h in getattr(n, "handlers", []):
                    visit(h.body)

    visit(mod.body)
    return out


def _local(fn, name: str) -> bool:
    return name in fn.all_params or name in fn.locals


def _is_module(fn, name: str) -> bool:
    """`name` is the standard module of that name: bound once at top level, by `import name`, not rebound in the function"""
    if _local(fn, name):
        return False
    bs = _top_bindings(_module(fn.spec), name)
    return len(bs) == 1 and isinstance(bs[0], ast.Import) and any(a.name == name and a.asname is None for a in bs[0].names)


def _is_imported_from(fn, name: str, module: str) -> bool:
    if _local(fn, name):
        return False
    bs = _top_bindings(_module(fn.spec), name)
    return (len(bs) == 1 and isinstance(bs[0], ast.ImportFrom) and bs[0].module == module and bs[0].level == 0
            and any(a.name == name and a.asname is None for a in bs[0].names))


def _is_builtin(fn, name: str) -> bool:
    return not _local(fn, name) and not _top_bindings(_module(fn.spec), name)


def _is_class(fn, name: str) -> bool:
    if _local(fn, name):
        return False
    bs = _top_bindings(_module(fn.spec), name)
    return len(bs) == 1 and isinstance(bs[0], ast.ClassDef)


def _dotted(e) -> str | None:
    parts = []
    while isinstance(e, ast.Attribute):
        parts.append(e.attr)
        e = e.value
    if isinstance(e, ast.Name):
        parts.append(e.id)
        return ".".join(reversed(parts))
    return None


def _plain_args(e: ast.Call, n: int) -> bool:
    return len(e.args) == n and not e.keywords and not any(isinstance(a, ast.Starred) for a in e.args)


def _kw_true(e: ast.Call, names: tuple[str, ...]) -> bool:
    """exactly the keywords `names`, each the constant True"""
    return (sorted(k.arg or "" for k in e.keywords) == sorted(names)
            and all(isinstance(k.value, ast.Constant) and k.value.value is True for k in e.keywords))


OS_PATH1 = {"os.path.exists": "osPathExistsC12b", "os.path.isfile": "osPathIsfileC12b", "os.path.isdir": "osPathIsdirC12b",
            "os.path.dirname": "osPathDirnameC12b"}
SHUTIL = {"shutil.rmtree": ("shutilRmtreeC12b", 1), "shutil.copy2": ("shutilCopy2C12b", 2),
          "shutil.copytree": ("shutilCopytreeC12b", 2)}


def _info(fn, lean_name: str):
    i = fn.known.get(lean_name)
    if i is None or not i.available:
        raise T.Untranslatable(f"calls {lean_name}, which is not translated")
    return i


def expr_hook(fn, e):
    if fn.spec.lean not in MINE:
        return None
    # short-circuit operators / conditional expressions whose operands may touch the file system
    if isinstance(e, ast.BoolOp):
        cur = fn.M(e.values[-1])
        comb = "pyAndSC12b" if isinstance(e.op, ast.And) else "pyOrSC12b"
        for v in reversed(e.values[:-1]):
            cur = f"({comb} {fn.M(v)} {cur})"
        return f"(← {cur})"
    if isinstance(e, ast.IfExp):
        return f"(← (if truthy {fn.V(e.test)} then {fn.M(e.body)} else {fn.M(e.orelse)} : {MONAD} PVal))"
    # p.parent
    if isinstance(e, ast.Attribute) and isinstance(e.ctx, ast.Load) and e.attr == "parent":
        return f"(← pathParentC12b {fn.V(e.value)})"
    if not isinstance(e, ast.Call):
        return None
    f = e.func
    d = _dotted(f)
    if d and d.split(".")[0] == "os" and not _local(fn, "os"):
        if not _is_module(fn, "os"):
            raise T.Untranslatable("`os` is not the module os here")
        if d == "os.path.join" and _plain_args(e, 2):
            return f"(← osPathJoinC12b {fn.V(e.args[0])} {fn.V(e.args[1])})"
        if d in OS_PATH1 and _plain_args(e, 1):
            return f"(← {OS_PATH1[d]} {fn.V(e.args[0])})"
        if d == "os.makedirs" and len(e.args) == 1 and not isinstance(e.args[0], ast.Starred) and _kw_true(e, ("exist_ok",)):
            return f"(← osMakedirsC12b {fn.V(e.args[0])})"
        raise T.Untranslatable(f"call of {d} (with these arguments) in a file-system function")
    if d and d.split(".")[0] == "shutil" and not _local(fn, "shutil"):
        if not _is_module(fn, "shutil"):
            raise T.Untranslatable("`shutil` is not the module shutil here")
        if d in SHUTIL and _plain_args(e, SHUTIL[d][1]):
            return f"(← {SHUTIL[d][0]} " + " ".join(fn.V(a) for a in e.args) + ")"
        raise T.Untranslatable(f"call of {d} (with these arguments) in a file-system function")
    if d == "Path" and not _local(fn, "Path"):
        if not _is_imported_from(fn, "Path", "pathlib"):
            raise T.Untranslatable("`Path` is not pathlib.Path here")
        if _plain_args(e, 1):
            return f"(← mkPathC12b {fn.V(e.args[0])})"
        raise T.Untranslatable("Path(...) with other than one positional argument")
    if d == "open" and not _local(fn, "open"):
        raise T.Untranslatable("open(...) outside `with open(x, \"w\") as f:`")
    if isinstance(f, ast.Attribute):
        recv = f.value
        if f.attr == "resolve" and _plain_args(e, 0):
            return f"(← pathResolveMethC12b {fn.V(recv)})"
        if f.attr == "glob" and _plain_args(e, 1) and isinstance(e.args[0], ast.Constant) and e.args[0].value == "*":
            return f"(← pathGlobStarC12b {fn.V(recv)})"
        if f.attr == "relative_to" and _plain_args(e, 1):
            return f"(← pathRelativeToC12b {fn.V(recv)} {fn.V(e.args[0])})"
        if f.attr == "mkdir" and not e.args and _kw_true(e, ("parents", "exist_ok")):
            return f"(← pathMkdirPC12b {fn.V(recv)})"
        if f.attr in ("resolve", "glob", "relative_to", "mkdir"):
            raise T.Untranslatable(f".{f.attr}(...) with these arguments")
        # f.write(e) on the file of the enclosing `with open(…, "w") as f:`
        if f.attr == "write" and isinstance(recv, ast.Name) and recv.id in getattr(fn, "c12b_open_files", ()) and _plain_args(e, 1):
            return f"(← fileWriteC12b {fn.name(recv.id)} {fn.V(e.args[0])})"
        # self.render(lib_prefix=…, include_version=…) in HTMLDocument: the recorded answer
        if (f.attr == "render" and isinstance(recv, ast.Name) and recv.id == "self" and fn.cls is not None
                and fn.cls.name == "HTMLDocument" and fn.params and fn.params[0] == "self"
                and "self" not in fn.assigned_names(fn.node)):
            kws = {k.arg: k.value for k in e.keywords}
            if e.args or sorted(kws) != ["include_version", "lib_prefix"]:
                raise T.Untranslatable("self.render(...) with other than the keywords lib_prefix, include_version")
            # Python evaluates the keyword values in source order
            vals = {k.arg: fn.V(k.value) for k in e.keywords}
            return f"(← docRenderRecC12b {fn.name('self')} {vals['lib_prefix']} {vals['include_version']})"
        # x.copy_to(…): by the class of x
        if f.attr == "copy_to":
            if not isinstance(recv, ast.Name) or not _local(fn, recv.id):
                raise T.Untranslatable(".copy_to(...) on something other than a local / parameter")
            call = fn.call_known(_info(fn, COPY), e.args, e.keywords, recv=fn.name(recv.id))
            return (f'(← (match pyClassOf {fn.name(recv.id)} with | "HTMLDependency" => (do pure {call}) '
                    f"| _ => throw PyErr.attributeError : {MONAD} PVal))")
        # HTMLDocument(x).save_html(…)
        if f.attr == "save_html":
            if not (isinstance(recv, ast.Call) and isinstance(recv.func, ast.Name) and recv.func.id == "HTMLDocument"
                    and _plain_args(recv, 1)):
                raise T.Untranslatable(".save_html(...) on something other than HTMLDocument(x)")
            if not _is_class(fn, "HTMLDocument"):
                raise T.Untranslatable("`HTMLDocument` is not the class of this module here")
            return fn.call_known(_info(fn, DSAVE), e.args, e.keywords, recv=f"(← mkDocC12b {fn.V(recv.args[0])})")
    return None


def _is_open_w(fn, e) -> bool:
    return (isinstance(e, ast.Call) and isinstance(e.func, ast.Name) and e.func.id == "open" and _plain_args(e, 2)
            and isinstance(e.args[1], ast.Constant) and e.args[1].value == "w")


def stmt_hook(fn, ind, s):
    if fn.spec.lean not in MINE:
        return False
    # with open(x, "w") as f:  f.write(e) …
    if isinstance(s, ast.With):
        if len(s.items) != 1 or not _is_open_w(fn, s.items[0].context_expr) or not isinstance(s.items[0].optional_vars, ast.Name):
            raise T.Untranslatable("`with` other than `with open(x, \"w\") as f:`")
        if not _is_builtin(fn, "open"):
            raise T.Untranslatable("`open` is not the builtin here")
        var = s.items[0].optional_vars.id
        binds = [n for n in ast.walk(fn.node) if isinstance(n, ast.Name) and n.id == var and isinstance(n.ctx, (ast.Store, ast.Del))]
        if len(binds) != 1 or var in fn.all_params:
            raise T.Untranslatable(f"the file variable {var} is bound elsewhere as well")
        for b in s.body:
            ok = (isinstance(b, ast.Expr) and isinstance(b.value, ast.Call) and isinstance(b.value.func, ast.Attribute)
                  and b.value.func.attr == "write" and isinstance(b.value.func.value, ast.Name) and b.value.func.value.id == var
                  and _plain_args(b.value, 1))
            if not ok:
                raise T.Untranslatable(f"a statement other than {var}.write(e) inside `with open(…) as {var}:`")
            if any(isinstance(n, ast.Name) and n.id == var for n in ast.walk(b.value.args[0])):
                raise T.Untranslatable(f"{var} used inside the argument of {var}.write(…)")
        fn.emit(ind, f"{fn.name(var)} := (← openWriteC12b {fn.V(s.items[0].context_expr.args[0])})")
        fn.c12b_open_files = getattr(fn, "c12b_open_files", ()) + (var,)
        try:
            fn.stmts(ind, s.body)
        finally:
            fn.c12b_open_files = fn.c12b_open_files[:-1]
        return True
    # v = [*comp1, *comp2, …]
    if isinstance(s, ast.Assign) and len(s.targets) == 1 and isinstance(s.value, ast.List) and s.value.elts \
            and all(isinstance(x, ast.Starred) and isinstance(x.value, ast.ListComp) for x in s.value.elts):
        accs = []
        for x in s.value.elts:
            t = fn.listcomp_stmts(ind, x.value)          # emits the loop; "(PVal.list acc_k)"
            assert t.startswith("(PVal.list ") and t.endswith(")")
            accs.append(t[len("(PVal.list "):-1])
        fn.assign_to(ind, s.targets[0], f"(pyStarListC12b [{', '.join(accs)}])")
        return True
    return False


_arity: dict[str, int] = {}
DEFAULT_ARITY = {COPY: 3, DSAVE: 4, TSAVE: 4, LSAVE: 4}


def run_table_text() -> str:
    rows = []
    for n in MINE:
        k = _arity.get(n, DEFAULT_ARITY[n])
        vs = [f"x{i}" for i in range(k)]
        rows.append(f'  | "{n}", [{", ".join(vs)}] => if {n}_available then some ({n} G {" ".join(vs)}) else none')
    return ("""
/-- `srcc12b <name> <state> [args]`: the state-passing translations of the file-system half of C12, by name; `none`: not
    translated / unknown / wrong number of arguments -/
def runByNameC12b (G : Globals) (f : String) (a : List PVal) : Option (PyFSC12b PVal) :=
  match f, a with
""" + "\n".join(rows) + """
  | _, _ => none
""")


def make_fn_class():
    class FnC12b(T.Fn):
        """a state-passing translation over the file system (other head)"""

        def __init__(self, spec, node, cls, known):
            super().__init__(spec, node, cls, known)
            # `with … as f` binds a local
            for n in ast.walk(node):
                if isinstance(n, ast.With):
                    for it in n.items:
                        v = it.optional_vars
                        if isinstance(v, ast.Name) and v.id not in self.locals and v.id not in self.all_params:
                            self.locals.append(v.id)
            for n in ast.walk(node):
                if isinstance(n, (ast.FunctionDef, ast.AsyncFunctionDef, ast.Lambda, ast.ClassDef, ast.Global, ast.Nonlocal,
                                  ast.Try, ast.Yield, ast.YieldFrom, ast.Await, ast.NamedExpr, ast.Delete)) and n is not node:
                    raise T.Untranslatable(f"{type(n).__name__} in a file-system function")
            for p in self.all_params + self.locals:
                if T.lname(p) in ("G", "fuel"):
                    raise T.Untranslatable(f"the name {p} is reserved by the translation")
            _arity[spec.lean] = len(self.all_params)
            T.AFTER[LSAVE] = run_table_text()

        def head(self, sig: str) -> str:
            if self.spec.recursive:
                raise T.Untranslatable("a state-passing translation in a group")
            return f"def {self.spec.lean} (G : Globals) {sig} : {MONAD} PVal := do"

    return FnC12b


def stateful_stub(spec, nparams: int) -> str:
    sig = " ".join(f"(_a{i} : PVal)" for i in range(nparams))
    return f"def {spec.lean} (_G : Globals) {sig} : {MONAD} PVal := throw PyErr.unsupported"


def register(pytranslate):
    global T
    T = pytranslate
    F = T.FnSpec
    T.SPECS += [
        F(CORE, "HTMLDependency.copy_to", COPY),
        F(CORE, "HTMLDocument.save_html", DSAVE),
        F(CORE, "Tag.save_html", TSAVE),
        F(CORE, "TagList.save_html", LSAVE),
    ]
    T.ARITY.update(DEFAULT_ARITY)
    cls = make_fn_class()
    for n in MINE:
        T.FN_CLASS[n] = cls
        T.STUBS[n] = stateful_stub
        T.NO_RUN.add(n)
    T.AFTER[LSAVE] = run_table_text()
    if "HtmlVerif.Py.PrimC12b" not in T.IMPORTS:
        T.IMPORTS.append("HtmlVerif.Py.PrimC12b")
    T.EXPR_HOOKS.insert(0, expr_hook)
    T.STMT_HOOKS.insert(0, stmt_hook)
