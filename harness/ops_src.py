"""Implementation side of the `src` op (DESIGN §14): call the real function named in the line on the realised Python
values and return the result as a pval term.  The driver runs the Lean function regenerated from that function's
source text on the same values; the two answers must agree (translator validation)."""
from __future__ import annotations

from ops import op
from wire import Toks, es, ds

EXC = ("TypeError", "ValueError", "KeyError", "IndexError", "AttributeError", "RuntimeError", "NotImplementedError")


class _Other:
    """an instance of some other class: no `__add__`, optionally a `__str__` with a given text"""

    def __init__(self, text=None):
        self._text = text

    def __str__(self):
        if self._text is None:
            return object.__str__(self)
        return self._text


class _Repr:
    def __init__(self, text):
        self._t = text

    def _repr_html_(self):
        return self._t


class _Tagifiable:
    def tagify(self):
        return htmltools_HTML("")


class _TagifiableRepr(_Tagifiable):
    def __init__(self, text):
        self._t = text

    def _repr_html_(self):
        return self._t


def htmltools_HTML(s):
    import htmltools
    return htmltools.HTML(s)


def p_pval(t: Toks):
    import htmltools
    k = t.next()
    if k == "N":
        return None
    if k == "T":
        return True
    if k == "F":
        return False
    if k == "I":
        return int(t.next())
    if k == "D":
        return float(ds(t.next()))
    if k == "S":
        return ds(t.next())
    if k == "H":
        return htmltools.HTML(ds(t.next()))
    if k in ("L", "U"):
        assert t.next() == "["
        xs = []
        while t.peek() != "]":
            xs.append(p_pval(t))
        t.next()
        return xs if k == "L" else tuple(xs)
    if k == "M":
        assert t.next() == "["
        d = {}
        while t.peek() != "]":
            key = ds(t.next())
            d[key] = p_pval(t)
        t.next()
        return d
    if k == "O":
        cls = t.next()
        assert t.next() == "["
        fields = {}
        while t.peek() != "]":
            f = t.next()
            fields[f] = p_pval(t)
        t.next()
        _load_plugins()
        if cls in REALIZE:
            return REALIZE[cls](fields)
        if cls == "Other":
            return _Other(fields.get("__str__"))
        if cls == "Tag":
            tg = htmltools.Tag(fields["name"], _add_ws=fields["add_ws"])
            dict.update(tg.attrs, fields["attrs"])
            tg.children = fields["children"]
            return tg
        if cls == "TagList":
            tl = htmltools.TagList()
            tl.data = list(fields["data"])
            return tl
        if cls == "ReprObj":
            return _Repr(fields["_repr_html_"])
        if cls == "TagifiableObj":
            return _TagifiableRepr(fields["_repr_html_"]) if "_repr_html_" in fields else _Tagifiable()
        if cls == "MetadataNode":
            return htmltools.MetadataNode()
        if cls == "HTMLDependency":
            return htmltools.HTMLDependency(fields.get("name") or "d", "1.0")
        raise ValueError(f"cannot realise an instance of {cls}")
    raise ValueError(f"bad pval {k}")


def e_pval(v) -> str:
    import htmltools
    if v is None:
        return "N"
    if v is True:
        return "T"
    if v is False:
        return "F"
    if type(v) is int:
        return f"I {v}"
    if type(v) is float:
        return "D " + es(str(v))
    if type(v) is str:
        return "S " + es(v)
    if type(v) is htmltools.HTML:
        return "H " + es(v.as_string())
    if type(v) is list:
        return "L [ " + "".join(e_pval(x) + " " for x in v) + "]"
    if type(v) is tuple:
        return "U [ " + "".join(e_pval(x) + " " for x in v) + "]"
    if isinstance(v, dict):
        return "M [ " + "".join(es(k) + " " + e_pval(x) + " " for k, x in v.items()) + "]"
    for enc in ENCODE:
        r = enc(v, e_pval)
        if r is not None:
            return r
    if isinstance(v, _Other):
        return "O Other [ " + ("" if v._text is None else "__str__ S " + es(v._text) + " ") + "]"
    return f"O {type(v).__name__} [ ]"


#: area plug-ins (harness/ops_src_<area>.py) register here: function name -> callable on the realised arguments;
#: class name -> constructor from the dict of realised fields; type -> encoder to a pval term
CALLS: dict = {}
REALIZE: dict = {}
ENCODE: list = []


#: per area plug-in: its own CALLS / REALIZE / ENCODE (an area's value shapes are its own: two areas may realise the
#: same class name differently, e.g. a dependency with and without a version)
AREAS: dict = {}
OWNER: dict = {}


CURRENT_AREA = [None]


def _scoped(f, real, enc, area=None):
    def g(t):
        global REALIZE, ENCODE
        saved = (REALIZE, ENCODE, CURRENT_AREA[0])
        REALIZE, ENCODE = real, enc
        CURRENT_AREA[0] = area
        try:
            return f(t)
        finally:
            REALIZE, ENCODE = saved[0], saved[1]
            CURRENT_AREA[0] = saved[2]
    return g


def _load_plugins():
    import importlib
    import os
    global CALLS, REALIZE, ENCODE
    if getattr(_load_plugins, "done", False):
        return
    _load_plugins.done = True
    here = os.path.dirname(os.path.abspath(__file__))
    all_calls, all_real, all_enc = {}, {}, []
    for fn in sorted(os.listdir(here)):
        if fn.startswith("ops_src_") and fn.endswith(".py"):
            CALLS, REALIZE, ENCODE = {}, {}, []       # what this plug-in registers goes here
            import ops as _ops
            before = dict(_ops.IMPL)
            try:
                import sys
                if fn[:-3] in sys.modules:
                    # already imported by the op loader of ops.py: run it again so that it registers into the fresh tables
                    importlib.reload(sys.modules[fn[:-3]])
                else:
                    importlib.import_module(fn[:-3])
            except Exception:  # noqa: BLE001  (its functions then answer `unsupported`)
                continue
            AREAS[fn[:-3]] = (CALLS, REALIZE, ENCODE)
            for f in CALLS:
                OWNER[f] = fn[:-3]
            # an op the plug-in defines itself (e.g. `srcc13`) realises and encodes values with the plug-in's own tables
            for opname, f in list(_ops.IMPL.items()):
                if before.get(opname) is not f and opname != "src":
                    _ops.IMPL[opname] = _scoped(f, REALIZE, ENCODE, fn[:-3])
            all_calls.update(CALLS)
            for k, v in REALIZE.items():
                all_real.setdefault(k, v)
            all_enc += ENCODE
    # outside a `src` line of a particular area (the areas' own ops): everything, first registration wins
    CALLS, REALIZE, ENCODE = all_calls, all_real, all_enc


def _call(f: str, a: list):
    _load_plugins()
    cur = CURRENT_AREA[0]
    if cur in AREAS and f in AREAS[cur][0]:
        return AREAS[cur][0][f](a)
    if f in CALLS:
        return CALLS[f](a)
    import htmltools
    from htmltools import _core, _util
    if f == "html_escape":
        return _util.html_escape(a[0], a[1])
    if f == "HTML_as_string":
        return a[0].as_string()
    if f == "HTML_add":
        return htmltools.HTML.__add__(a[0], a[1])
    if f == "HTML_radd":
        return htmltools.HTML.__radd__(a[0], a[1])
    if f == "add":
        return a[0] + a[1]
    if f == "normalize_text":
        return _core._normalize_text(a[0])
    if f == "normalize_attr_name":
        return _core.TagAttrDict._normalize_attr_name(a[0])
    if f == "normalize_attr_value":
        return _core.TagAttrDict._normalize_attr_value(a[0])
    if f == "Tag_get_html_string":
        return a[0].get_html_string(a[1], a[2])
    if f == "TagList_get_html_string":
        return a[0].get_html_string(a[1], a[2], add_ws=a[3], _escape_strings=a[4])
    if f in ("TagAttrDict_setitem", "TagAttrDict_update"):
        d = _core.TagAttrDict()
        dict.update(d, a[0])
        if f == "TagAttrDict_setitem":
            d[a[1]] = a[2]
        else:
            d.update(*a[1], **a[2])
        return dict(d)
    raise LookupError(f)


@op("src")
def _src(t: Toks) -> str:
    global REALIZE, ENCODE
    _load_plugins()
    f = t.next()
    saved = (REALIZE, ENCODE)
    cur = CURRENT_AREA[0]
    if cur in AREAS and f in AREAS[cur][0]:
        # reached through an area's own op: that area's function of this name, with that area's value tables
        _, REALIZE, ENCODE = AREAS[cur]
    elif f in OWNER:
        _, REALIZE, ENCODE = AREAS[OWNER[f]]
    else:
        REALIZE, ENCODE = {}, []          # the functions of the core: the built-in value shapes only
    try:
        return _src1(f, t)
    finally:
        REALIZE, ENCODE = saved


def _src1(f: str, t: Toks) -> str:
    assert t.next() == "["
    a = []
    while t.peek() != "]":
        a.append(p_pval(t))
    t.next()
    try:
        r = _call(f, a)
    except (LookupError, ImportError) as e:
        if isinstance(e, KeyError):
            return "err KeyError"
        if isinstance(e, IndexError):
            return "err IndexError"
        return "unsupported"       # the function is not reachable under that name any more
    except Exception as e:  # noqa: BLE001
        for cls in type(e).__mro__:
            if cls.__name__ in EXC:
                return "err " + cls.__name__
        return "err Exception"
    return "ok " + e_pval(r)
