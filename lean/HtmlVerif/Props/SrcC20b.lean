/-
Source tie (DESIGN §14) for the rest of htmltools/_jsx.py (C20): the Lean functions regenerated from the *text* of
`JSXTagAttrDict.__setitem__ / _update / update / __init__`, `JSXTag.__init__ / extend / append / __copy__`, the visitor defined
inside `JSXTag.tagify`, `_walk_attrs_and_children`, `_lib_dependency` and `JSXTag.tagify`
(Generated/Src.lean, harness/pytr_c20b.py) compute, for every input, what the component model (Model/Jsx.lean) computes:

  JSXTagAttrDict.__setitem__   `JProps.set` under the normalised name (`normAttrName`, through the translated
                               `JSXTagAttrDict._normalize_attr_name`), the value kept as it is
  JSXTagAttrDict._update       `foldProps` on the receiver: the names of the mapping normalised one after the other, later
                               keys replace (the code normalises into a fresh dict first and then sets its items in the
                               receiver; `merge_mkPropsC20b` shows that this is the same)
  JSXTagAttrDict.update        every positional mapping in turn, then the keywords (`propsUpdateC20b`)
  JSXTagAttrDict.__init__      on a new instance: `mkProps` (what `C20_props_normalised` is about)
  JSXTag.__init__              `jsxInit`: NotImplementedError unless the initial of the last dotted piece of the name is its own
                               upper-case form (`str.upper` = `Globals.upperC20b`, the running interpreter's) and every keyword is
                               in a declared allow-list — also an empty one (`C20_allowed`, `C20_allowed_empty`,
                               `C20_lowercase_rejected`); otherwise the component with `name`, `attrs = mkProps kwargs` and
                               `children = TagList(*args)` (`C20_init`)
  JSXTag.extend / append       the translated `TagList.extend / append` on the `children` field, every other field untouched
  JSXTag.__copy__              the component itself (a value has no identity: what the copy buys — assigning into it leaves the
                               original alone — holds by construction; that the copy owns its containers is C20's purity
                               correspondence)

  the visitor                  a tagifiable object that is neither a Tag nor a JSXTag is replaced by what its `tagify()` returns;
                               the value is copied; a metadata node is appended to the captured list (`visitor_valC20b`)
  _walk_attrs_and_children     `JNode.walk`: the walked copy `(x.walk d).node` — through children and prop values, tagifiable
                               objects expanded — and the collected metadata nodes `(x.walk d).metas` in the walk's order
                               (`C20_collected`, `C20_collected_complete / _sound`); by induction on the nesting, with fuel
  _lib_dependency              `libDependency`: KeyError for a package `_versions.py` (regenerated table) does not pin, else
                               the dependency with the pinned version, the package-relative source and the one script (`C20_react`)
  JSXTag.tagify                `jsxTagify` (`C20_script`): the walk, `_render_react_js` of the walked copy (through the tie of
                               Props/SrcC20.lean), the JavaScript `jsWrap`, the `<script>` Tag with `scriptAttrs` whose children are
                               the body, react, react-dom and the collected nodes (`C20_script_shape`, `C20_collected_on_script`)

  jsx.__new__ / __add__        `jsx(*args)` is the `jsx` string of the arguments joined by line breaks; `jsx + str` is a plain
                               `str`, `jsx + jsx` a `jsx` — what the primitive `pyAddJ` of Py/PrimC20.lean *states* for a `jsx`
                               left operand is what the source of `jsx.__add__` says
  jsx_tag_create               returns the closure over `(name, allowedProps)`; calling it with `*kids, **kw` is `jsxInit`
                               (`JSXTag(name, *args, allowedProps=allowedProps, **kwargs)`)

Scope of the statements, made explicit by their hypotheses:
  * the walk: `walkOkNC20b` (Lemmas/SrcC20b.lean) — prop names once each and free of `_` (a name with `_`, put there behind the
    dict's back, is renamed by `copy.copy` and by the assignment of the walk), dict prop values without a key with `_` (the
    universe does not tell a dict from a JSXTagAttrDict), no tagifiable object whose expansion expands to a TagList.  Two
    embeddings: `embInNC20b` (a tagifiable object records what its `tagify()` returns) for the input, `embOutNC20b` for the walked
    copy.  A value has no identity: that the walk assigns into the visitor's *copies* and leaves the argument alone (`C20_pure`)
    is not part of these statements — it is the purity correspondence of C20;
  * `tagify`: the walked copy holds no un-expanded tagifiable object (`noTobjNC20b`) and meets the renderer's side conditions;
  * `hkw : kwFreeC20b [self] kw`: no keyword is called `self` (Python would bind it to the parameter of
    `JSXTagAttrDict.__init__` / `update`, or raise "multiple values"; the translation states that binding — `pyKwRestC15b` —,
    the model does not have it);
  * children: `src_jsx_tag_init_genC20b` holds for *any* positional arguments and says that `children` is whatever the translated
    `TagList.__init__` answers for them (an exception included).  The statements in terms of the component model
    (`src_jsx_tag_initC20b`, `…_extendC20b`, `…_appendC20b`) are for children that are nodes of the model other than `jsx`
    strings (`noJsxKidsC20b`): the translations of `_core.py` use the base primitives, for which an instance has no special
    methods, so the translator routes every argument of a `TagList` call through `pyNoJsxArgsC20b` (`unsupported` for a `jsx`
    string).  On such children `TagList(*args)` stores the arguments as they are (`TagList_init_plainC20b`, proved from the
    regenerated `_tagchilds_to_tagnodes` / `flatten` / `_flatten_recurse` / `is_tag_node`);
  * a `JSXTagAttrDict` instance is carried as a dict; `__copy__` is stated for stored names without `_` (`copy.copy` of a
    JSXTagAttrDict re-normalises its names; every name `mkProps` stores is free of `_`: `mkProps_no_underscoreC20b`);
  * fuel: any fuel above the call depth.

No loop body is spelled out: the loops (`_update`, `update`, the allow-list check, for the children the loops of
`_flatten_recurse` and `_tagchilds_to_tagnodes`, the attribute loop and the two child loops of the walk, the two comprehensions of
`Tag.__init__`) are taken from the regenerated definitions by unification (Lemmas/SrcC20b.lean: `kw_loop_kC20b`,
`maps_loop_kC20b`, `allowed_loop_kC20b`, `append_loop_kC20b`, `inv_loop_kC20b`, `props_walk_loopC20b`, `kids_walk_loopC20b`;
`filter_loop_kC15b`); the one loop that is *evaluated* is `TagAttrDict.update` on the constant dict of `tagify`
(`script_attrsC20b`).
Every theorem takes `<fn>_available = true` for the function and for every translated function it calls and is vacuous (first
alternative) when a function has left the translatable fragment.
-/
import HtmlVerif.Generated.Src
import HtmlVerif.Lemmas.SrcC20b
import HtmlVerif.Props.SrcC20
import HtmlVerif.Props.SrcAttrs
import HtmlVerif.Props.SrcC10b
import HtmlVerif.Generated.Tables

set_option linter.unusedVariables false
set_option linter.unusedSimpArgs false

namespace HtmlVerif.SrcTie
open HtmlVerif HtmlVerif.Py HtmlVerif.Generated.Src HtmlVerif.JsxL

/-! ### JSXTagAttrDict -/

/-- `JSXTagAttrDict.__setitem__(name, value)` as the source has it: the value, as it is, under the normalised name — in
    place when the name is stored already, else at the end -/
theorem src_jsx_setitemC20b (h : JSXTagAttrDict_setitemC20b_available = true) (hn : JSX_normalize_attr_name_available = true)
    (G : Globals) (ι : Str → Option Int) (ps : JProps) (k : Str) (v : JVal) :
    JSXTagAttrDict_setitemC20b G (.dict (embJProps ι ps)) (.str k) (embJVal ι v)
      = .ok (.dict (embJProps ι (ps.set (normAttrName k) v))) := by
  first
  | exact absurd h (by decide)
  | (unfold JSXTagAttrDict_setitemC20b
     simp only [src_jsx_normalize_attr_name hn, ok_bind, pure_eq_ok, pySetItem, dictSet_embJPropsC20b])

/-- `JSXTagAttrDict._update(m)` as the source has it = `foldProps`: the names of `m` normalised one after the other into the
    receiver, values kept as they are, later keys replace -/
theorem src_jsx_updateMapC20b (h : JSXTagAttrDict_updateMapC20b_available = true) (hn : JSX_normalize_attr_name_available = true)
    (G : Globals) (ι : Str → Option Int) (cur : JProps) (kw : List (Str × JVal)) :
    JSXTagAttrDict_updateMapC20b G (.dict (embJProps ι cur)) (embKwC20b ι kw) = .ok (.dict (embJProps ι (foldProps cur kw))) := by
  first
  | exact absurd h (by decide)
  | skip
  all_goals (
    unfold JSXTagAttrDict_updateMapC20b
    simp only [embKwC20b, pyItems_dict, ok_bind, pure_eq_ok, pyIterJ_listC20b]
    refine kw_loop_kC20b ι kw .nil _ (by simp [Function.comp_def]) _ _ ?step _ _ ?k
    case step =>
      intro kv hkv s b hs
      obtain ⟨s1, s2⟩ := s
      simp only at hs
      subst hs
      simp only [pyUnpack2_tuple, ok_bind, src_jsx_normalize_attr_name hn, pySetItem, pure_eq_ok, dictSet_embJPropsC20b]
      exact ⟨_, rfl, rfl⟩
    case k =>
      intro s hs
      obtain ⟨s1, s2⟩ := s
      simp only at hs
      subst hs
      simp only [pyDictUpdateKwC20b, pyDictUpdate, pure_eq_ok, ok_bind, dictUpdate_embJPropsC20b]
      rw [show foldProps JProps.nil kw = mkProps kw from rfl, merge_mkPropsC20b])

/-- `JSXTagAttrDict.update(*args, **kwargs)` as the source has it: `_update` of every positional mapping, then of the
    keywords (also when there are none) -/
theorem src_jsx_updateC20b (h : JSXTagAttrDict_updateC20b_available = true) (hm : JSXTagAttrDict_updateMapC20b_available = true)
    (hn : JSX_normalize_attr_name_available = true)
    (G : Globals) (ι : Str → Option Int) (cur : JProps) (args : List (List (Str × JVal))) (kw : List (Str × JVal)) :
    JSXTagAttrDict_updateC20b G (.dict (embJProps ι cur)) (.tuple (args.map (embKwC20b ι))) (embKwC20b ι kw)
      = .ok (.dict (embJProps ι (propsUpdateC20b cur (args ++ [kw])))) := by
  first
  | exact absurd h (by decide)
  | skip
  all_goals (
    unfold JSXTagAttrDict_updateC20b
    simp only [ok_bind, pure_eq_ok, pyIterJ_tupleC20b]
    refine maps_loop_kC20b ι args cur _ rfl _ _ ?step _ _ ?k
    case step =>
      intro m hmem s b hs
      obtain ⟨s1, s2⟩ := s
      simp only at hs
      subst hs
      simp only [src_jsx_updateMapC20b hm hn, ok_bind]
      exact ⟨_, rfl, rfl⟩
    case k =>
      intro s hs
      obtain ⟨s1, s2⟩ := s
      simp only at hs
      subst hs
      simp only [src_jsx_updateMapC20b hm hn, ok_bind, propsUpdateC20b, List.foldl_append, List.foldl_cons, List.foldl_nil])

/-- `JSXTagAttrDict.__init__(self, **kwargs)` as the source has it (`super().__init__()`, then `self.update(**kwargs)`), on
    any receiver -/
theorem src_jsx_attrdict_initC20b (h : JSXTagAttrDict_initC20b_available = true) (hu : JSXTagAttrDict_updateC20b_available = true)
    (hm : JSXTagAttrDict_updateMapC20b_available = true) (hn : JSX_normalize_attr_name_available = true)
    (G : Globals) (ι : Str → Option Int) (cur : JProps) (kw : List (Str × JVal))
    (hkw : kwFreeC20b [['s', 'e', 'l', 'f']] kw = true) :
    JSXTagAttrDict_initC20b G (.dict (embJProps ι cur)) (embKwC20b ι kw) = .ok (.dict (embJProps ι (foldProps cur kw))) := by
  first
  | exact absurd h (by decide)
  | skip
  all_goals (
    unfold JSXTagAttrDict_initC20b
    have := src_jsx_updateC20b hu hm hn G ι cur [] kw
    simp only [List.map_nil, List.nil_append, propsUpdateC20b, List.foldl_cons, List.foldl_nil] at this
    simp only [pyDictInit0C15b, pure_eq_ok, ok_bind, pyKwRest_embKwC20b ι kw _ hkw, this])

/-- `JSXTagAttrDict(**kwargs)` = `mkProps`: each keyword once, under its normalised name, the value of the last such keyword
    (`C20_props_normalised`) -/
theorem src_jsx_attrdict_newC20b (h : JSXTagAttrDict_initC20b_available = true) (hu : JSXTagAttrDict_updateC20b_available = true)
    (hm : JSXTagAttrDict_updateMapC20b_available = true) (hn : JSX_normalize_attr_name_available = true)
    (G : Globals) (ι : Str → Option Int) (kw : List (Str × JVal)) (hkw : kwFreeC20b [['s', 'e', 'l', 'f']] kw = true) :
    JSXTagAttrDict_initC20b G (.dict []) (embKwC20b ι kw) = .ok (.dict (embJProps ι (mkProps kw))) :=
  src_jsx_attrdict_initC20b h hu hm hn G ι .nil kw hkw

/-! ### the `TagList` translations of `_core.py` on plain nodes -/

theorem flatten_recurse_plainC20b (h : util_flatten_recurse_available = true) (G : Globals) (fuel : Nat) (x : PVal)
    (l acc : List PVal) (hx : pyIter x = .ok l) (hl : ∀ v ∈ l, plainNodeC20b v = true) :
    util_flatten_recurse G (fuel + 1) x (.list acc) = .ok (.list (acc ++ l)) := by
  first
  | exact absurd h (by decide)
  | skip
  all_goals (
    rw [util_flatten_recurse]
    simp only [hx, ok_bind, pure_eq_ok]
    refine append_loop_kC20b l acc _ _ ?step _ _ ?k
    case step =>
      intro a ha s b hs
      obtain ⟨s1, s2⟩ := s
      simp only at hs
      subst hs
      have hp := hl a ha
      simp only [plainNodeC20b, Bool.and_eq_true, Bool.not_eq_true'] at hp
      -- the class tuple in any order, the `None` test before or after it, `elif` or guard clauses
      have hp3 : isInstance a ["TagList", "tuple", "list"] = false := by
        rw [isInstance_permC20b a (l' := ["list", "tuple", "TagList"]) (by decide)]; exact hp.1.1.2
      have hp4 : isInstance a ["tuple", "list", "TagList"] = false := by
        rw [isInstance_permC20b a (l' := ["list", "tuple", "TagList"]) (by decide)]; exact hp.1.1.2
      simp only [truthy_bool, hp.1.1.2, hp3, hp4, hp.1.2, Bool.false_eq_true, if_false, Bool.not_false, Bool.not_true, if_true, pyListAppendA,
        pure_eq_ok, ok_bind]
      exact ⟨_, rfl, rfl⟩
    case k =>
      intro s hs
      obtain ⟨s1, s2⟩ := s
      simp only at hs
      subst hs
      rfl)

/-- `_tagchilds_to_tagnodes(x)` as the source has it, for an `x` that is not a `str` and whose items are plain nodes: the
    list of the items (nothing is unnested, dropped or converted) -/
theorem tagchilds_plainC20b (h : tagchilds_to_tagnodes_available = true) (hf : util_flatten_available = true)
    (hr : util_flatten_recurse_available = true) (hn : is_tag_node_available = true)
    (G : Globals) (fuel : Nat) (x : PVal) (l : List PVal) (hx : pyIter x = .ok l) (hs : isInstance x ["str"] = false)
    (hl : ∀ v ∈ l, plainNodeC20b v = true) :
    tagchilds_to_tagnodes G (fuel + 3) x = .ok (.list l) := by
  first
  | exact absurd h (by decide)
  | exact absurd hf (by decide)
  | exact absurd hn (by decide)
  | skip
  all_goals (
    rw [tagchilds_to_tagnodes, util_flatten]
    simp only [ok_bind, pure_eq_ok, truthy_bool, flatten_recurse_plainC20b hr G fuel x l [] hx hl, List.nil_append]
    simp only [hs, Bool.false_eq_true, if_false, pyEnumerate, pyIter_list, ok_bind, pure_eq_ok]
    refine inv_loop_kC20b (fun (s : PVal × PVal × PVal) => s.1 = .list l) _ _ ?step _ rfl _ _ ?k
    case step =>
      intro a ha s hs
      obtain ⟨p, hp, rfl⟩ := List.mem_map.1 ha
      have hmem : p.2 ∈ l := (List.of_mem_zip hp).2
      have hpl := hl p.2 hmem
      simp only [plainNodeC20b, Bool.and_eq_true, Bool.not_eq_true'] at hpl
      obtain ⟨s1, s2, s3⟩ := s
      simp only at hs
      subst hs
      unfold is_tag_node at *
      simp only [pyUnpack2_tuple, ok_bind, truthy_bool, hpl.2, hpl.1.1.1, pure_eq_ok, Bool.false_eq_true, if_false, Bool.not_true]
      exact ⟨_, rfl, rfl⟩
    case k =>
      intro s hs
      obtain ⟨s1, s2, s3⟩ := s
      simp only at hs
      subst hs
      rfl)

/-- `TagList(*args)` on plain nodes: they are stored as they are -/
theorem TagList_init_plainC20b (h : TagList_init_available = true) (ht : tagchilds_to_tagnodes_available = true)
    (hf : util_flatten_available = true) (hr : util_flatten_recurse_available = true) (hn : is_tag_node_available = true)
    (G : Globals) (fuel : Nat) (l : List PVal) (hl : ∀ v ∈ l, plainNodeC20b v = true) :
    TagList_init G (fuel + 4) (.obj "TagList" []) (.tuple l) = .ok (.obj "TagList" [("data", .list l)]) := by
  first
  | exact absurd h (by decide)
  | skip
  all_goals (
    rw [TagList_init]
    simp only [tagchilds_plainC20b ht hf hr hn G fuel (.tuple l) l rfl (by simp [isInstance, builtinClasses]) hl, ok_bind,
      pure_eq_ok, userListInit_new])

/-- `tl.extend(x)` for a list / tuple `x` of plain nodes: they are appended as they are -/
theorem TagList_extend_plainC20b (h : TagList_extend_available = true) (ht : tagchilds_to_tagnodes_available = true)
    (hf : util_flatten_available = true) (hr : util_flatten_recurse_available = true) (hn : is_tag_node_available = true)
    (G : Globals) (fuel : Nat) (ds : List PVal) (x : PVal) (l : List PVal) (hx : pyIter x = .ok l)
    (hs : isInstance x ["str"] = false) (hl : ∀ v ∈ l, plainNodeC20b v = true) :
    TagList_extend G (fuel + 4) (.obj "TagList" [("data", .list ds)]) x = .ok (.obj "TagList" [("data", .list (ds ++ l))]) := by
  first
  | exact absurd h (by decide)
  | skip
  all_goals (
    rw [TagList_extend]
    simp only [tagchilds_plainC20b ht hf hr hn G fuel x l hx hs hl, ok_bind, pure_eq_ok, userListExtend_tl])

/-- `tl.append(item, *rest)` for plain nodes -/
theorem TagList_append_plainC20b (h : TagList_append_available = true) (he : TagList_extend_available = true)
    (ht : tagchilds_to_tagnodes_available = true)
    (hf : util_flatten_available = true) (hr : util_flatten_recurse_available = true) (hn : is_tag_node_available = true)
    (G : Globals) (fuel : Nat) (ds : List PVal) (item : PVal) (rest : List PVal)
    (hl : ∀ v ∈ item :: rest, plainNodeC20b v = true) :
    TagList_append G (fuel + 5) (.obj "TagList" [("data", .list ds)]) item (.tuple rest)
      = .ok (.obj "TagList" [("data", .list (ds ++ item :: rest))]) := by
  first
  | exact absurd h (by decide)
  | skip
  all_goals (
    rw [TagList_append]
    simp only [pyIter_tuple, ok_bind, pure_eq_ok, List.singleton_append,
      TagList_extend_plainC20b he ht hf hr hn G fuel ds (.list (item :: rest)) (item :: rest) rfl
        (by simp [isInstance, builtinClasses]) hl])

/-! ### JSXTag.__init__ -/

/-- `JSXTag.__init__` as the source has it, for *any* positional arguments: the two checks of `jsxInit` — the initial of the
    last dotted piece of the name is its own upper-case form; every keyword is in a declared allow-list —, NotImplementedError
    otherwise; then `name`, `attrs = JSXTagAttrDict(**kwargs)` (= `mkProps`) and `children = TagList(*args)`: whatever the
    translated `TagList.__init__` answers for these arguments, an exception included.  Run on an instance with an empty
    `__dict__` of `JSXTag` or a subclass `cls`. -/
theorem src_jsx_tag_init_genC20b (h : JSXTag_initC20b_available = true)
    (hA : JSXTagAttrDict_initC20b_available = true) (hu : JSXTagAttrDict_updateC20b_available = true)
    (hm : JSXTagAttrDict_updateMapC20b_available = true) (hnn : JSX_normalize_attr_name_available = true)
    (G : Globals) (ι : Str → Option Int) (upper : Str → Str) (fuel : Nat) (cls : String)
    (name : Str) (allowed : Option (List Str)) (kw : List (Str × JVal)) (args : List PVal)
    (hup : G.upperC20b (nameInitial name) = some (upper (nameInitial name)))
    (hkw : kwFreeC20b [['s', 'e', 'l', 'f']] kw = true)
    (hj : hasJsxArgsC20b args = false) :
    JSXTag_initC20b G (fuel + 1) (.obj cls []) (.str name) (.tuple args) (embAllowedC20b allowed) (embKwC20b ι kw)
      = match jsxInit upper name allowed kw .nil with
        | .error e => .error (embErr e)
        | .ok _ => TagList_init G fuel (.obj "TagList" []) (.tuple args) >>= fun tl =>
            .ok (.obj cls [("name", .str name), ("attrs", .dict (embJProps ι (mkProps kw))), ("children", tl)]) := by
  first
  | exact absurd h (by decide)
  | skip
  all_goals (
    rw [JSXTag_initC20b]
    have hsplit : splitOn '.' name ≠ [] := splitOn_ne_nilC20b '.' name
    have hnew := src_jsx_attrdict_newC20b hA hu hm hnn G ι kw hkw
    have hj' : hasJsxArgC20b (.tuple args) = false := by rw [hasJsxArgC20b]; exact hj
    -- the name test, wherever it stands (before or after the allow-list loop): `pieces[-1][:1] != pieces[-1][:1].upper()`
    simp only [ok_bind, pure_eq_ok, truthy_bool, asStr_str, pySplitSep_str]
    simp only [getItem_lastC20b _ hsplit, ok_bind, asStr_str, slice_take1C20b]
    simp only [← nameInitial_eqC20b, pyUpperC20b, hup, pyEqJ_str, ok_bind, pure_eq_ok]
    unfold jsxInit
    by_cases hn : nameInitial name = upper (nameInitial name)
    · have hn' : (nameInitial name == upper (nameInitial name)) = true := by simpa using hn
      rw [if_neg (show ¬ (nameInitial name ≠ upper (nameInitial name)) from fun hh => hh hn)]
      simp only [hn', Bool.not_true, Bool.false_eq_true, if_false, truthy_bool, ok_bind, pure_eq_ok]
      cases allowed with
      | none =>
        simp only [embAllowedC20b, isNone, Bool.not_true, Bool.false_eq_true, if_false, propsAllowed, pySetAttr_objC15b,
          ok_bind, pyKwRest_embKwC20b ι kw _ hkw, hnew, pyIter_tuple, pyNoJsxArgsC20b, hj', pure_eq_ok]
        cases TagList_init G fuel (PVal.obj "TagList" []) (PVal.tuple args) <;> simp [fieldSet]
      | some ps =>
        simp only [embAllowedC20b, isNone, Bool.not_false, if_true, pyKeys_embKwC20b, pyIterJ_listC20b, ok_bind]
        refine allowed_loop_kC20b ps kw _ rfl _ _ ?step _ _ ?k
        case step =>
          intro kv hkv s
          simp only [asStr_str, asStr, jsxText?, pyIn_strsC20b, ok_bind, truthy_bool]
          cases hc : ps.contains kv.1 <;> simp
        case k =>
          simp only [propsAllowed]
          by_cases hall : (kw.all fun kv => ps.contains kv.1) = true
          case neg =>
            have hall' : (kw.all fun kv => ps.contains kv.1) = false := by simpa using hall
            simp only [hall', Bool.false_eq_true, if_false, Bool.not_false, if_true]
            rfl
          case pos =>
            simp only [hall, if_true, Bool.not_true, Bool.false_eq_true, if_false]
            intro s
            simp only [pySetAttr_objC15b, ok_bind, pyKwRest_embKwC20b ι kw _ hkw, hnew, pyIter_tuple, pyNoJsxArgsC20b, hj',
              pure_eq_ok, Bool.false_eq_true, if_false]
            cases TagList_init G fuel (PVal.obj "TagList" []) (PVal.tuple args) <;> simp [fieldSet]
    · have hn' : (nameInitial name == upper (nameInitial name)) = false := by simpa using hn
      rw [if_pos (show nameInitial name ≠ upper (nameInitial name) from hn)]
      simp only [hn', Bool.not_false, if_true, truthy_bool, ok_bind, pure_eq_ok]
      -- NotImplementedError whichever test comes first: at once, or after an allow-list loop that raises the same or nothing
      first
      | rfl
      | (cases allowed with
         | none =>
           simp only [embAllowedC20b, isNone, Bool.not_true, Bool.false_eq_true, if_false]
           rfl
         | some ps =>
           simp only [embAllowedC20b, isNone, Bool.not_false, if_true, pyKeys_embKwC20b, pyIterJ_listC20b, ok_bind]
           refine allowed_loop_kC20b ps kw _ rfl _ _ ?step _ _ ?k
           case step =>
             intro kv hkv s
             simp only [asStr_str, asStr, jsxText?, pyIn_strsC20b, ok_bind, truthy_bool]
             cases hc : ps.contains kv.1 <;> simp
           case k =>
             by_cases hall : (kw.all fun kv => ps.contains kv.1) = true
             case neg =>
               have hall' : (kw.all fun kv => ps.contains kv.1) = false := by simpa using hall
               simp only [hall', Bool.false_eq_true, if_false]
               rfl
             case pos =>
               simp only [hall, if_true]
               intro s
               rfl))

/-- `JSXTag(name, *kids, allowedProps=allowed, **kw)` as the source has it = `jsxInit` (Model/Jsx.lean), for children that are
    nodes of the component model (no `jsx` string among them): NotImplementedError for a name without a capital initial or a
    keyword outside a declared allow-list, else the component holding the normalised props and the children in the order
    given -/
theorem src_jsx_tag_initC20b (h : JSXTag_initC20b_available = true)
    (hA : JSXTagAttrDict_initC20b_available = true) (hu : JSXTagAttrDict_updateC20b_available = true)
    (hm : JSXTagAttrDict_updateMapC20b_available = true) (hnn : JSX_normalize_attr_name_available = true)
    (hT : TagList_init_available = true) (ht : tagchilds_to_tagnodes_available = true)
    (hf : util_flatten_available = true) (hr : util_flatten_recurse_available = true) (hn : is_tag_node_available = true)
    (G : Globals) (ι : Str → Option Int) (upper : Str → Str) (fuel : Nat)
    (name : Str) (allowed : Option (List Str)) (kw : List (Str × JVal)) (kids : JNodes)
    (hup : G.upperC20b (nameInitial name) = some (upper (nameInitial name)))
    (hkw : kwFreeC20b [['s', 'e', 'l', 'f']] kw = true)
    (hk : noJsxKidsC20b kids = true) :
    JSXTag_initC20b G (fuel + 5) (.obj "JSXTag" []) (.str name) (.tuple (embJNodes ι kids)) (embAllowedC20b allowed)
        (embKwC20b ι kw)
      = embRes (embJNode ι) (jsxInit upper name allowed kw kids) := by
  obtain ⟨hpl, hj⟩ := plain_embJNodesC20b ι kids hk
  rw [src_jsx_tag_init_genC20b h hA hu hm hnn G ι upper (fuel + 4) "JSXTag" name allowed kw _ hup hkw hj,
    TagList_init_plainC20b hT ht hf hr hn G fuel _ hpl]
  unfold jsxInit
  by_cases h1 : nameInitial name ≠ upper (nameInitial name)
  · rw [if_pos h1, if_pos h1]; rfl
  · rw [if_neg h1, if_neg h1]
    by_cases h2 : (!propsAllowed allowed kw) = true
    · rw [if_pos h2, if_pos h2]; rfl
    · rw [if_neg h2, if_neg h2]; rfl

/-! ### JSXTag.extend / append / __copy__ -/

theorem comp_get_childrenC20b (ι : Str → Option Int) (name : Str) (ps : JProps) (ks : JNodes) :
    pyGetAttr (embJNode ι (.comp name ps ks)) "children" = .ok (.obj "TagList" [("data", .list (embJNodes ι ks))]) := by
  simp [embJNode, pyGetAttr, fieldGet?]

theorem comp_set_childrenC20b (ι : Str → Option Int) (name : Str) (ps : JProps) (ks : JNodes) (v : PVal) :
    pySetAttr (embJNode ι (.comp name ps ks)) "children" v
      = .ok (.obj "JSXTag" [("name", .str name), ("attrs", .dict (embJProps ι ps)), ("children", v)]) := by
  simp [embJNode, pySetAttr, fieldSet]

/-- `JSXTag.extend(x)` as the source has it, for a list of nodes of the component model: they are appended to the children,
    every other field is untouched -/
theorem src_jsx_tag_extendC20b (h : JSXTag_extendC20b_available = true)
    (hE : TagList_extend_available = true) (ht : tagchilds_to_tagnodes_available = true)
    (hf : util_flatten_available = true) (hr : util_flatten_recurse_available = true) (hn : is_tag_node_available = true)
    (G : Globals) (ι : Str → Option Int) (fuel : Nat) (name : Str) (ps : JProps) (ks more : JNodes) (tup : Bool)
    (hk : noJsxKidsC20b more = true) :
    JSXTag_extendC20b G (fuel + 5) (embJNode ι (.comp name ps ks))
        (if tup then .tuple (embJNodes ι more) else .list (embJNodes ι more))
      = .ok (embJNode ι (.comp name ps (JNodes.ofList (ks.toList ++ more.toList)))) := by
  first
  | exact absurd h (by decide)
  | skip
  all_goals (
    obtain ⟨hpl, hj⟩ := plain_embJNodesC20b ι more hk
    rw [JSXTag_extendC20b]
    have hx : pyIter (if tup then PVal.tuple (embJNodes ι more) else .list (embJNodes ι more)) = .ok (embJNodes ι more) := by
      cases tup <;> rfl
    have hs : isInstance (if tup then PVal.tuple (embJNodes ι more) else .list (embJNodes ι more)) ["str"] = false := by
      cases tup <;> simp [isInstance, builtinClasses]
    have hj' : hasJsxArgC20b (if tup then PVal.tuple (embJNodes ι more) else .list (embJNodes ι more)) = false := by
      cases tup <;> simp [hasJsxArgC20b, hj]
    simp only [comp_get_childrenC20b, comp_set_childrenC20b, pure_eq_ok, ok_bind, pyNoJsxArgsC20b, hj', Bool.false_eq_true,
      if_false, TagList_extend_plainC20b hE ht hf hr hn G fuel (embJNodes ι ks) _ (embJNodes ι more) hx hs hpl]
    simp only [embJNode, embJNodes_ofList_appendC20b])

/-- `JSXTag.append(*args)` as the source has it, for nodes of the component model: TypeError when called without an
    argument (`TagList.append` requires one), else they are appended to the children -/
theorem src_jsx_tag_appendC20b (h : JSXTag_appendC20b_available = true) (hA : TagList_append_available = true)
    (hE : TagList_extend_available = true) (ht : tagchilds_to_tagnodes_available = true)
    (hf : util_flatten_available = true) (hr : util_flatten_recurse_available = true) (hn : is_tag_node_available = true)
    (G : Globals) (ι : Str → Option Int) (fuel : Nat) (name : Str) (ps : JProps) (ks more : JNodes)
    (hk : noJsxKidsC20b more = true) :
    JSXTag_appendC20b G (fuel + 6) (embJNode ι (.comp name ps ks)) (.tuple (embJNodes ι more))
      = if more.isEmpty then .error .typeError
        else .ok (embJNode ι (.comp name ps (JNodes.ofList (ks.toList ++ more.toList)))) := by
  first
  | exact absurd h (by decide)
  | skip
  all_goals (
    obtain ⟨hpl, hj⟩ := plain_embJNodesC20b ι more hk
    rw [JSXTag_appendC20b]
    have hj' : hasJsxArgC20b (PVal.tuple (embJNodes ι more)) = false := by simp [hasJsxArgC20b, hj]
    simp only [comp_get_childrenC20b, pure_eq_ok, ok_bind, pyNoJsxArgsC20b, hj', Bool.false_eq_true, if_false, pyIter_tuple]
    cases more with
    | nil => simp [embJNodes, pyPosArgC15b, JNodes.isEmpty]
    | cons m rest =>
      simp only [embJNodes] at hpl
      simp only [embJNodes, pyPosArgC15b, List.getElem?_cons_zero, pure_eq_ok, ok_bind, List.drop_succ_cons, List.drop_zero,
        TagList_append_plainC20b hA hE ht hf hr hn G fuel (embJNodes ι ks) (embJNode ι m) (embJNodes ι rest) hpl,
        comp_set_childrenC20b, JNodes.isEmpty, Bool.false_eq_true, if_false]
      simp only [embJNode, embJNodes_ofList_appendC20b, embJNodes])

/-- the names `mkProps` stores are free of `_` (so `copy.copy` of the dict a constructor built re-normalises nothing) -/
theorem normAttrName_no_underscoreC20b (x : Str) : '_' ∉ normAttrName x := by
  unfold normAttrName
  split <;>
  · simp only [List.mem_map]
    rintro ⟨c, _, hc⟩
    split at hc <;> simp_all

/-- `JSXTag.__copy__()` as the source has it: a new instance of the same class with the same attributes, `attrs` and
    `children` copied — as a value, the component itself; stated for stored names without `_` -/
theorem src_jsx_tag_copyC20b (h : JSXTag_copyC20b_available = true)
    (G : Globals) (ι : Str → Option Int) (name : Str) (ps : JProps) (ks : JNodes)
    (hps : ∀ k ∈ ps.keys, '_' ∉ k) :
    JSXTag_copyC20b G (embJNode ι (.comp name ps ks)) = .ok (embJNode ι (.comp name ps ks)) := by
  first
  | exact absurd h (by decide)
  | skip
  all_goals (
    unfold JSXTag_copyC20b
    have hany : (embJProps ι ps).any (fun kv => kv.1.contains '_') = false := by
      rw [List.any_eq_false]
      intro kv hkv
      rw [embJProps_toList] at hkv
      obtain ⟨x, hx, rfl⟩ := List.mem_map.1 hkv
      have : x.1 ∈ ps.keys := by
        have hkeys : ∀ (fs : JProps), fs.keys = fs.toList.map (·.1) := by
          intro fs
          induction fs using JProps.rec (motive_1 := fun _ => True) (motive_2 := fun _ => True) (motive_3 := fun _ => True)
            (motive_4 := fun _ => True) <;> simp_all [JProps.keys, JProps.toList]
        rw [hkeys]; exact List.mem_map.2 ⟨x, hx, rfl⟩
      simpa using hps _ this
    simp only [embJNode, pyNewLikeC20b, pyDictAttrUpdateC20b, pure_eq_ok, ok_bind, List.foldl_cons, List.foldl_nil, fieldSet,
      pyGetAttr, fieldGet?, pyCopyC20b, hany, Bool.false_eq_true, if_false, pyCopy, pySetAttr]
    simp only [fieldGet?, fieldSet, String.reduceEq, ↓reduceIte, hany, Bool.false_eq_true, ok_bind, pure_eq_ok,
      Option.isSome_none, throw_eq_error])

/-! ### the visitor of `JSXTag.tagify` -/

/-- `JSXTag.__copy__` on any JSXTag object whose `attrs` dict has no key with `_` -/
theorem jsx_copy_objC20b (h : JSXTag_copyC20b_available = true) (G : Globals) (a c : PVal) (kvs : List (Str × PVal))
    (hk : kvs.any (fun kv => kv.1.contains '_') = false) (hc : pyCopyC20b c = .ok c) :
    JSXTag_copyC20b G (.obj "JSXTag" [("name", a), ("attrs", .dict kvs), ("children", c)])
      = .ok (.obj "JSXTag" [("name", a), ("attrs", .dict kvs), ("children", c)]) := by
  first
  | exact absurd h (by decide)
  | skip
  all_goals (
    unfold JSXTag_copyC20b
    simp only [pyNewLikeC20b, pyDictAttrUpdateC20b, pure_eq_ok, ok_bind, List.foldl_cons, List.foldl_nil, fieldSet,
      pyGetAttr, fieldGet?, pySetAttr, String.reduceEq, ↓reduceIte, hc]
    simp only [pyCopyC20b, hk, Bool.false_eq_true, if_false, ok_bind, pure_eq_ok])

theorem visitor_nodeC20b (h : JSXTag_tagify_visitorC20b_available = true) (hc : JSXTag_copyC20b_available = true)
    (G : Globals) (ι : Str → Option Int) (fuel : Nat) (mds : List PVal) (x : JNode) (hx : visOkC20b (.node x) = true)
    (hnt : ∀ e, x ≠ .tobj e) :
    JSXTag_tagify_visitorC20b G (fuel + 1) (.list mds) (embInNC20b ι x)
      = .ok (.tuple [visOutC20b ι (.node x), .list (mds ++ visMetasC20b ι (.node x))]) := by
  first
  | exact absurd h (by decide)
  | skip
  all_goals (
    rw [JSXTag_tagify_visitorC20b]
    cases x with
    | comp n ps ks =>
      have hcls : pyClassOf (embInNC20b ι (.comp n ps ks)) = "JSXTag" := rfl
      have hcp := jsx_copy_objC20b hc G (.str n) (.obj "TagList" [("data", .list (embInKC20b ι ks))]) (embInPC20b ι ps)
        (clean_anyC20b _ (by rw [embInP_keysC20b]; exact hx)) (by simp [pyCopyC20b, pyCopy, fieldGet?])
      simp only [hcls, embInNC20b] at hcp ⊢
      simp [isInstanceJ, jsxText?, isInstance, classBases, pyAnd, hcp, visOutC20b, visMetasC20b, embInVC20b, embInNC20b, pyClassOf]
    | tag n a ks =>
      have hcls : pyClassOf (embInNC20b ι (.tag n a ks)) = "Tag" := rfl
      have hk := embAttrs_cleanC20b a hx
      have hcopy : pyCopyObjC20b (embInNC20b ι (.tag n a ks)) = .ok (embInNC20b ι (.tag n a ks)) := by
        simp only [embInNC20b, pyCopyObjC20b, fieldGet?, embAttrs, String.reduceEq, ↓reduceIte, String.reduceBEq,
          Bool.false_eq_true]
        rw [if_pos (by simp [isInstance]), if_pos hk]
        simp [pyCopy, fieldGet?]
      simp only [embInNC20b] at hcopy
      simp [hcls, embInNC20b, isInstanceJ, jsxText?, isInstance, classBases, pyAnd, visOutC20b, visMetasC20b, embInVC20b,
        hcopy, pyClassOf]
    | str k s =>
      cases k <;>
        simp [embInNC20b, isInstanceJ, jsxText?, isInstance, classBases, builtinClasses, pyAnd, visOutC20b, visMetasC20b,
          embInVC20b, pyCopyObjC20b, pyCopyC20b, pyCopy, fieldGet?, pyClassOf, mkJsx]
    | md m =>
      cases m <;>
        simp [embInNC20b, isInstanceJ, jsxText?, isInstance, classBases, pyAnd, visOutC20b, visMetasC20b, embInVC20b,
          pyCopyObjC20b, pyCopy, fieldGet?, pyClassOf, pyListAppend, embMetaC20b]
    | tobj e => exact absurd rfl (hnt e)
    | tobjL es =>
      simp [embInNC20b, isInstanceJ, jsxText?, isInstance, classBases, pyAnd, visOutC20b, visMetasC20b, embInVC20b,
        pyCopyObjC20b, pyCopy, fieldGet?, pyClassOf, pyTagifyObj])

/-- the visitor on any value, as the source has it: a tagifiable object that is neither a Tag nor a JSXTag is replaced by
    what its `tagify()` returns; the value is copied; a metadata node is appended to the captured list -/
theorem visitor_valC20b (h : JSXTag_tagify_visitorC20b_available = true) (hc : JSXTag_copyC20b_available = true)
    (G : Globals) (ι : Str → Option Int) (fuel : Nat) (mds : List PVal) (v : JVal) (hv : visOkC20b v = true) :
    JSXTag_tagify_visitorC20b G (fuel + 1) (.list mds) (embInVC20b ι v)
      = .ok (.tuple [visOutC20b ι v, .list (mds ++ visMetasC20b ι v)]) := by
  first
  | exact absurd h (by decide)
  | skip
  all_goals (
    cases v with
    | node x =>
      by_cases hnt : ∀ e, x ≠ .tobj e
      · exact visitor_nodeC20b h hc G ι fuel mds x hv hnt
      · have ⟨e, he⟩ : ∃ e, x = .tobj e := by
          cases x <;> first | exact ⟨_, rfl⟩ | (exfalso; apply hnt; intro e he; cases he)
        subst he
        rw [JSXTag_tagify_visitorC20b]
        simp only [embInVC20b, embInNC20b_tobj]
        have hcls : pyClassOf (PVal.obj "TagifiableObj" [("tagify", embInNC20b ι e)]) = "TagifiableObj" := rfl
        have hty : pyTagifyObj (PVal.obj "TagifiableObj" [("tagify", embInNC20b ι e)]) = .ok (embInNC20b ι e) := by
          simp [pyTagifyObj, fieldGet?]
        have hi1 : isInstanceJ (PVal.obj "TagifiableObj" [("tagify", embInNC20b ι e)]) ["Tagifiable"] = true := by
          simp [isInstanceJ, jsxText?, isInstance, classBases]
        have hi2 : isInstanceJ (PVal.obj "TagifiableObj" [("tagify", embInNC20b ι e)]) ["Tag", "JSXTag"] = false := by
          simp [isInstanceJ, jsxText?, isInstance, classBases]
        simp only [hi1, hi2, pyAnd, pure_eq_ok, ok_bind, truthy_bool, Bool.not_false, if_true, hcls, hty]
        cases e with
        | comp n ps ks =>
          have hcp := jsx_copy_objC20b hc G (.str n) (.obj "TagList" [("data", .list (embInKC20b ι ks))]) (embInPC20b ι ps)
            (clean_anyC20b _ (by rw [embInP_keysC20b]; exact hv)) (by simp [pyCopyC20b, pyCopy, fieldGet?])
          simp [embInNC20b, isInstanceJ, jsxText?, isInstance, classBases, hcp, visOutC20b, visMetasC20b, pyClassOf]
        | tag n a ks =>
          have hk := embAttrs_cleanC20b a hv
          have hcopy : pyCopyObjC20b (embInNC20b ι (.tag n a ks)) = .ok (embInNC20b ι (.tag n a ks)) := by
            simp only [embInNC20b, pyCopyObjC20b, fieldGet?, embAttrs, String.reduceEq, ↓reduceIte, String.reduceBEq,
              Bool.false_eq_true]
            rw [if_pos (by simp [isInstance]), if_pos hk]
            simp [pyCopy, fieldGet?]
          simp only [embInNC20b] at hcopy
          simp [embInNC20b, isInstanceJ, jsxText?, isInstance, classBases, visOutC20b, visMetasC20b, hcopy, pyClassOf]
        | str k s =>
          cases k <;>
            simp [embInNC20b, isInstanceJ, jsxText?, isInstance, classBases, builtinClasses, visOutC20b, visMetasC20b,
              pyCopyObjC20b, pyCopyC20b, pyCopy, fieldGet?, pyClassOf, mkJsx]
        | md m =>
          cases m <;>
            simp [embInNC20b, isInstanceJ, jsxText?, isInstance, classBases, visOutC20b, visMetasC20b,
              pyCopyObjC20b, pyCopy, fieldGet?, pyClassOf, pyListAppend, embMetaC20b]
        | tobj e' =>
          simp [embInNC20b_tobj, isInstanceJ, jsxText?, isInstance, classBases, visOutC20b, visMetasC20b,
            pyCopyObjC20b, pyCopy, fieldGet?, pyClassOf]
        | tobjL es =>
          simp [embInNC20b, isInstanceJ, jsxText?, isInstance, classBases, visOutC20b, visMetasC20b,
            pyCopyObjC20b, pyCopy, fieldGet?, pyClassOf]
    | null =>
      rw [JSXTag_tagify_visitorC20b]
      simp [embInVC20b, isInstanceJ, jsxText?, isInstance, builtinClasses, pyAnd, visOutC20b, visMetasC20b, pyCopyObjC20b,
        pyCopyC20b, pyCopy, pyClassOf]
    | bool b =>
      rw [JSXTag_tagify_visitorC20b]
      simp [embInVC20b, isInstanceJ, jsxText?, isInstance, builtinClasses, pyAnd, visOutC20b, visMetasC20b, pyCopyObjC20b,
        pyCopyC20b, pyCopy, pyClassOf]
    | num t =>
      rw [JSXTag_tagify_visitorC20b]
      cases hi : ι t <;>
        simp [embInVC20b, hi, isInstanceJ, jsxText?, isInstance, builtinClasses, pyAnd, visOutC20b, visMetasC20b, pyCopyObjC20b,
          pyCopyC20b, pyCopy, pyClassOf]
    | list tup vs =>
      rw [JSXTag_tagify_visitorC20b]
      cases tup <;>
        simp [embInVC20b, isInstanceJ, jsxText?, isInstance, builtinClasses, pyAnd, visOutC20b, visMetasC20b, pyCopyObjC20b,
          pyCopyC20b, pyCopy, pyClassOf]
    | dict fs =>
      rw [JSXTag_tagify_visitorC20b]
      have hk := clean_anyC20b (embInPC20b ι fs) (by rw [embInP_keysC20b]; exact hv)
      have hcopy : pyCopyObjC20b (PVal.dict (embInPC20b ι fs)) = .ok (PVal.dict (embInPC20b ι fs)) := by
        simp only [pyCopyObjC20b, pyCopyC20b]
        rw [if_neg (by rw [hk]; decide)]
        rfl
      simp [embInVC20b, isInstanceJ, jsxText?, isInstance, builtinClasses, pyAnd, visOutC20b, visMetasC20b, hcopy, pyClassOf])

/-- `JSXTagAttrDict.__setitem__` on any dict and any value -/
theorem jsx_setitem_dictC20b (h : JSXTagAttrDict_setitemC20b_available = true) (hn : JSX_normalize_attr_name_available = true)
    (G : Globals) (kvs : List (Str × PVal)) (k : Str) (v : PVal) :
    JSXTagAttrDict_setitemC20b G (.dict kvs) (.str k) v = .ok (.dict (Py.dictSet (normAttrName k) v kvs)) := by
  first
  | exact absurd h (by decide)
  | (unfold JSXTagAttrDict_setitemC20b
     simp only [src_jsx_normalize_attr_name hn, ok_bind, pure_eq_ok, pySetItem])

/-! ### `_walk_attrs_and_children` -/

theorem isInstJ_compC20b (ι : Str → Option Int) (n : Str) (d c : PVal) :
    isInstanceJ (.obj "JSXTag" [("name", .str n), ("attrs", d), ("children", c)]) ["Tag"] = false
    ∧ isInstanceJ (.obj "JSXTag" [("name", .str n), ("attrs", d), ("children", c)]) ["JSXTag"] = true := by
  simp [isInstanceJ, jsxText?, isInstance, classBases]

-- one pass of a child loop of the walk on the object `mk data`: the child is walked (`HW`), the result is put at its
-- position, what was collected is handed on
set_option hygiene false in
local macro "walk_kid_step_tacC20b" : tactic => `(tactic|
  (intro pre' c rest m t hc
   obtain ⟨t1, t2⟩ := t
   simp only [pyUnpack2_tuple, ok_bind, HW c hc, walkResC20b, JVal.walkVal, embOutVC20b, hget, setItemU_midC20b, hset,
     embInVC20b]
   exact ⟨_, rfl⟩))

/-- the walk on a component, given the walk on its prop values and children at the fuel below -/
theorem walk_compC20b (h : walk_attrs_and_childrenC20b_available = true) (hv : JSXTag_tagify_visitorC20b_available = true)
    (hc : JSXTag_copyC20b_available = true) (hs : JSXTagAttrDict_setitemC20b_available = true)
    (hn : JSX_normalize_attr_name_available = true)
    (G : Globals) (ι : Str → Option Int) (fuel : Nat) (n : Str) (ps : JProps) (ks : JNodes)
    (hok : walkOkNC20b (.comp n ps ks) = true)
    (HW : ∀ c ∈ ks.toList, ∀ mds, walk_attrs_and_childrenC20b G (fuel + 1) (embInVC20b ι (.node c)) (.list mds)
      = walkResC20b ι (.node c) mds)
    (HP : ∀ kv ∈ ps.toList, ∀ mds, walk_attrs_and_childrenC20b G (fuel + 1) (embInVC20b ι kv.2) (.list mds)
      = walkResC20b ι kv.2 mds)
    (mds : List PVal) :
    walk_attrs_and_childrenC20b G (fuel + 2) (embInNC20b ι (.comp n ps ks)) (.list mds)
      = walkResC20b ι (.node (.comp n ps ks)) mds := by
  first
  | exact absurd h (by decide)
  | skip
  all_goals (
    have hok' : (ps.keys.Nodup ∧ cleanKeysC20b ps.keys = true ∧ walkOkPC20b ps = true) ∧ walkOkKC20b ks = true := by
      simpa [walkOkNC20b, and_assoc] using hok
    have HW : ∀ c ∈ ks.toList, ∀ mds, walk_attrs_and_childrenC20b G (fuel + 1) (embInNC20b ι c) (.list mds)
        = walkResC20b ι (.node c) mds := fun c hc mds => by simpa [embInVC20b] using HW c hc mds
    rw [walk_attrs_and_childrenC20b]
    have hvis := visitor_valC20b hv hc G ι fuel mds (.node (.comp n ps ks)) hok'.1.2.1
    simp only [embInVC20b] at hvis
    simp only [hvis, ok_bind, pure_eq_ok, pyUnpack2_tuple, truthy_bool, visOutC20b, visMetasC20b, embInVC20b, List.append_nil]
    simp only [embInNC20b, (isInstJ_compC20b ι n _ _).1, (isInstJ_compC20b ι n _ _).2, Bool.false_eq_true, if_false, if_true]
    have hga : ∀ d c, pyGetAttr (.obj "JSXTag" [("name", .str n), ("attrs", d), ("children", c)]) "attrs" = .ok d := by
      intro d c; simp [pyGetAttr, fieldGet?]
    simp only [hga, ok_bind, pyItems_dict, pyIterJ_listC20b, embInP_toListC20b, List.map_map, Function.comp_def]
    have hkeys : cleanKeysC20b (ps.toList.map (·.1)) = true := by rw [← keys_toListC20b]; exact hok'.1.2.1
    have hnd : (([] : List (Str × PVal)).map (·.1) ++ ps.toList.map (·.1)).Nodup := by
      simpa [← keys_toListC20b] using hok'.1.1
    refine props_walk_loopC20b
      (fun d => PVal.obj "JSXTag" [("name", .str n), ("attrs", .dict d), ("children", .obj "TagList" [("data", .list (embInKC20b ι ks))])])
      (embInVC20b ι) (fun v => embOutVC20b ι (v.walkVal .demanded).node) (fun v => (v.walkVal .demanded).metas.map (embMetaC20b ι))
      ps.toList [] mds _ hnd _ ?pstep _ _ ?pk
    case pstep =>
      intro pre' kv rest m t hkv hfresh
      obtain ⟨t1, t2⟩ := t
      have hclean : kv.1.contains '_' = false := by
        have := (List.all_eq_true.mp hkeys) kv.1 (List.mem_map.2 ⟨kv, hkv, rfl⟩)
        simpa using this
      simp only [pyUnpack2_tuple, ok_bind, HP kv hkv, walkResC20b, hga, jsx_setitem_dictC20b hs hn,
        normAttrName_cleanC20b _ hclean, dictSet_midC20b _ _ _ _ _ hfresh]
      simp only [pySameKeysC20b, List.map_append, List.map_cons, beq_self_eq_true, if_true, pure_eq_ok, ok_bind, pySetAttr,
        fieldSet, String.reduceEq, ↓reduceIte]
      exact ⟨_, rfl⟩
    case pk =>
      intro s h1 h2
      obtain ⟨s1, s2, s3⟩ := s
      simp only at h1 h2
      subst h1 h2
      have hget : ∀ d l, pyGetAttr (PVal.obj "JSXTag" [("name", .str n), ("attrs", d), ("children", .obj "TagList" [("data", .list l)])]) "children"
          = .ok (.obj "TagList" [("data", .list l)]) := by
        intro d l; simp [pyGetAttr, fieldGet?]
      have hset : ∀ d l c, pySetAttr (PVal.obj "JSXTag" [("name", .str n), ("attrs", d), ("children", .obj "TagList" [("data", .list l)])]) "children" c
          = .ok (PVal.obj "JSXTag" [("name", .str n), ("attrs", d), ("children", c)]) := by
        intro d l c; simp [pySetAttr, fieldSet]
      simp only [List.nil_append, hget, ok_bind, pyNotJsxC20b, String.reduceBEq, Bool.false_eq_true, if_false, pure_eq_ok,
        pyEnumerate_taglistC20b, pyIterJ_listC20b, embInK_toListC20b]
      refine kids_walk_loopC20b
        (fun l => PVal.obj "JSXTag" [("name", .str n), ("attrs", _), ("children", .obj "TagList" [("data", .list l)])])
        (embInNC20b ι) (fun c => embOutNC20b ι (c.walk .demanded).node) (fun c => (c.walk .demanded).metas.map (embMetaC20b ι))
        ks.toList [] _ _ _ ?kstep _ _ ?kk
      case kstep => walk_kid_step_tacC20b
      case kk =>
        intro s h1 h2
        obtain ⟨s1, s2, s3⟩ := s
        simp only at h1 h2
        subst h1 h2
        simp only [walkResC20b, JVal.walkVal, JNode.walk, embOutVC20b, embOutNC20b, (walkKids_outC20b ι ks).1,
          (walkKids_outC20b ι ks).2, (walkProps_outC20b ι ps).1, (walkProps_outC20b ι ps).2, List.nil_append, List.map_append,
          List.map_flatMap, List.append_assoc, List.flatMap_map])

/-- the walk on an html Tag, given the walk on its children at the fuel below -/
theorem walk_tagC20b (h : walk_attrs_and_childrenC20b_available = true) (hv : JSXTag_tagify_visitorC20b_available = true)
    (hc : JSXTag_copyC20b_available = true)
    (G : Globals) (ι : Str → Option Int) (fuel : Nat) (n : Str) (a : Attrs) (ks : JNodes)
    (hok : walkOkNC20b (.tag n a ks) = true)
    (HW : ∀ c ∈ ks.toList, ∀ mds, walk_attrs_and_childrenC20b G (fuel + 1) (embInVC20b ι (.node c)) (.list mds)
      = walkResC20b ι (.node c) mds)
    (mds : List PVal) :
    walk_attrs_and_childrenC20b G (fuel + 2) (embInNC20b ι (.tag n a ks)) (.list mds)
      = walkResC20b ι (.node (.tag n a ks)) mds := by
  first
  | exact absurd h (by decide)
  | skip
  all_goals (
    have hok' : cleanKeysC20b (a.map (·.1)) = true ∧ walkOkKC20b ks = true := by simpa [walkOkNC20b] using hok
    have HW : ∀ c ∈ ks.toList, ∀ mds, walk_attrs_and_childrenC20b G (fuel + 1) (embInNC20b ι c) (.list mds)
        = walkResC20b ι (.node c) mds := fun c hc mds => by simpa [embInVC20b] using HW c hc mds
    rw [walk_attrs_and_childrenC20b]
    have hvis := visitor_valC20b hv hc G ι fuel mds (.node (.tag n a ks)) hok'.1
    simp only [embInVC20b] at hvis
    simp only [hvis, ok_bind, pure_eq_ok, pyUnpack2_tuple, truthy_bool, visOutC20b, visMetasC20b, embInVC20b, List.append_nil]
    have hit : ∀ d c w, isInstanceJ (.obj "Tag" [("name", .str n), ("attrs", d), ("children", c), ("add_ws", w)]) ["Tag"] = true := by
      intro d c w; simp [isInstanceJ, jsxText?, isInstance]
    have hget : ∀ d l w, pyGetAttr (PVal.obj "Tag" [("name", .str n), ("attrs", d), ("children", .obj "TagList" [("data", .list l)]), ("add_ws", w)]) "children"
        = .ok (.obj "TagList" [("data", .list l)]) := by
      intro d l w; simp [pyGetAttr, fieldGet?]
    have hset : ∀ d l w c, pySetAttr (PVal.obj "Tag" [("name", .str n), ("attrs", d), ("children", .obj "TagList" [("data", .list l)]), ("add_ws", w)]) "children" c
        = .ok (PVal.obj "Tag" [("name", .str n), ("attrs", d), ("children", c), ("add_ws", w)]) := by
      intro d l w c; simp [pySetAttr, fieldSet]
    simp only [embInNC20b, hit, if_true, hget, ok_bind, pyNotJsxC20b, String.reduceBEq, Bool.false_eq_true, if_false, pure_eq_ok,
      pyEnumerate_taglistC20b, pyIterJ_listC20b, embInK_toListC20b]
    refine kids_walk_loopC20b
      (fun l => PVal.obj "Tag" [("name", .str n), ("attrs", embAttrs a), ("children", .obj "TagList" [("data", .list l)]), ("add_ws", .bool true)])
      (embInNC20b ι) (fun c => embOutNC20b ι (c.walk .demanded).node) (fun c => (c.walk .demanded).metas.map (embMetaC20b ι))
      ks.toList [] _ _ _ ?kstep _ _ ?kk
    case kstep => walk_kid_step_tacC20b
    case kk =>
      intro s h1 h2
      obtain ⟨s1, s2, s3⟩ := s
      simp only at h1 h2
      subst h1 h2
      simp only [walkResC20b, JVal.walkVal, JNode.walk, embOutVC20b, embOutNC20b, (walkKids_outC20b ι ks).1,
        (walkKids_outC20b ι ks).2, List.nil_append, List.map_flatMap, List.flatMap_map])

/-- a value the walk does not descend into: the visitor's result is neither a Tag nor a JSXTag -/
theorem walk_leafC20b (h : walk_attrs_and_childrenC20b_available = true) (hv : JSXTag_tagify_visitorC20b_available = true)
    (hc : JSXTag_copyC20b_available = true)
    (G : Globals) (ι : Str → Option Int) (fuel : Nat) (v : JVal) (hok : visOkC20b v = true) (mds : List PVal)
    (h1 : isInstanceJ (visOutC20b ι v) ["Tag"] = false) (h2 : isInstanceJ (visOutC20b ι v) ["JSXTag"] = false) :
    walk_attrs_and_childrenC20b G (fuel + 2) (embInVC20b ι v) (.list mds)
      = .ok (.tuple [visOutC20b ι v, .list (mds ++ visMetasC20b ι v)]) := by
  first
  | exact absurd h (by decide)
  | skip
  all_goals (
    rw [walk_attrs_and_childrenC20b]
    simp only [visitor_valC20b hv hc G ι fuel mds v hok, ok_bind, pure_eq_ok, pyUnpack2_tuple, truthy_bool, h1, h2,
      Bool.false_eq_true, if_false]
    exact ite_self _)

/-- two values on which the visitor agrees are walked alike -/
theorem walk_congrC20b (h : walk_attrs_and_childrenC20b_available = true) (G : Globals) (fuel : Nat) (x x' fn : PVal)
    (hvis : JSXTag_tagify_visitorC20b G fuel fn x = JSXTag_tagify_visitorC20b G fuel fn x') :
    walk_attrs_and_childrenC20b G (fuel + 1) x fn = walk_attrs_and_childrenC20b G (fuel + 1) x' fn := by
  first
  | exact absurd h (by decide)
  | (rw [walk_attrs_and_childrenC20b, walk_attrs_and_childrenC20b, hvis])

/-- the walk on one value, given the walk on everything below it at the fuel below -/
theorem walk_stepC20b (h : walk_attrs_and_childrenC20b_available = true) (hv : JSXTag_tagify_visitorC20b_available = true)
    (hc : JSXTag_copyC20b_available = true) (hs : JSXTagAttrDict_setitemC20b_available = true)
    (hn : JSX_normalize_attr_name_available = true)
    (G : Globals) (ι : Str → Option Int) (fuel : Nat) (v : JVal) (hok : walkOkVC20b v = true)
    (HW : ∀ w : JVal, whVC20b w < whVC20b v → walkOkVC20b w = true → ∀ mds,
      walk_attrs_and_childrenC20b G (fuel + 1) (embInVC20b ι w) (.list mds) = walkResC20b ι w mds)
    (mds : List PVal) :
    walk_attrs_and_childrenC20b G (fuel + 2) (embInVC20b ι v) (.list mds) = walkResC20b ι v mds := by
  have hvok := visOk_of_walkOkC20b v hok
  -- a component / a tag `x`, directly or as the expansion of a tagifiable object: what is below it is below `v`
  have hcomp : ∀ n ps ks, whNC20b (.comp n ps ks) ≤ whVC20b v → walkOkNC20b (.comp n ps ks) = true → ∀ mds,
      walk_attrs_and_childrenC20b G (fuel + 2) (embInNC20b ι (.comp n ps ks)) (.list mds)
        = walkResC20b ι (.node (.comp n ps ks)) mds := by
    intro n ps ks hle hk mds
    have hk' : (ps.keys.Nodup ∧ cleanKeysC20b ps.keys = true ∧ walkOkPC20b ps = true) ∧ walkOkKC20b ks = true := by
      simpa [walkOkNC20b, and_assoc] using hk
    refine walk_compC20b h hv hc hs hn G ι fuel n ps ks hk ?_ ?_ mds
    · intro c hc' m
      exact HW (.node c) (by have := whK_memC20b ks c hc'; simp only [whVC20b, whNC20b] at hle ⊢; omega)
        (walkOkK_memC20b ks hk'.2 c hc') m
    · intro kv hkv m
      exact HW kv.2 (by have := whP_memC20b ps kv hkv; simp only [whNC20b] at hle; omega) (walkOkP_memC20b ps hk'.1.2.2 kv hkv) m
  have htag : ∀ n a ks, whNC20b (.tag n a ks) ≤ whVC20b v → walkOkNC20b (.tag n a ks) = true → ∀ mds,
      walk_attrs_and_childrenC20b G (fuel + 2) (embInNC20b ι (.tag n a ks)) (.list mds)
        = walkResC20b ι (.node (.tag n a ks)) mds := by
    intro n a ks hle hk mds
    have hk' : cleanKeysC20b (a.map (·.1)) = true ∧ walkOkKC20b ks = true := by simpa [walkOkNC20b] using hk
    refine walk_tagC20b h hv hc G ι fuel n a ks hk ?_ mds
    intro c hc' m
    exact HW (.node c) (by have := whK_memC20b ks c hc'; simp only [whVC20b, whNC20b] at hle ⊢; omega)
      (walkOkK_memC20b ks hk'.2 c hc') m
  cases v with
  | node x =>
    cases x with
    | comp n ps ks => exact hcomp n ps ks (Nat.le_refl _) hok mds
    | tag n a ks => exact htag n a ks (Nat.le_refl _) hok mds
    | str k s =>
      rw [walk_leafC20b h hv hc G ι fuel _ hvok mds (by cases k <;> simp [visOutC20b, embInVC20b, embInNC20b, isInstanceJ, jsxText?, isInstance, builtinClasses, mkJsx, fieldGet?, classBases])
        (by cases k <;> simp [visOutC20b, embInVC20b, embInNC20b, isInstanceJ, jsxText?, isInstance, builtinClasses, mkJsx, fieldGet?, classBases])]
      cases k <;> simp [walkResC20b, JVal.walkVal, JNode.walk, visOutC20b, visMetasC20b, embOutVC20b, embOutNC20b, embInVC20b]
    | md m =>
      rw [walk_leafC20b h hv hc G ι fuel _ hvok mds (by cases m <;> simp [visOutC20b, embInVC20b, embInNC20b, isInstanceJ, jsxText?, isInstance, classBases])
        (by cases m <;> simp [visOutC20b, embInVC20b, embInNC20b, isInstanceJ, jsxText?, isInstance, classBases])]
      simp [walkResC20b, JVal.walkVal, JNode.walk, visOutC20b, visMetasC20b, embOutVC20b, embOutNC20b, embInVC20b]
    | tobjL es =>
      rw [walk_leafC20b h hv hc G ι fuel _ hvok mds (by simp [visOutC20b, isInstanceJ, jsxText?, isInstance, classBases])
        (by simp [visOutC20b, isInstanceJ, jsxText?, isInstance, classBases])]
      simp [walkResC20b, JVal.walkVal, JNode.walk, visOutC20b, visMetasC20b, embOutVC20b, embOutNC20b]
    | tobj e =>
      cases e with
      | comp n ps ks =>
        have hveq : JSXTag_tagify_visitorC20b G (fuel + 1) (.list mds) (embInVC20b ι (.node (.tobj (.comp n ps ks))))
            = JSXTag_tagify_visitorC20b G (fuel + 1) (.list mds) (embInVC20b ι (.node (.comp n ps ks))) := by
          rw [visitor_valC20b hv hc G ι fuel mds _ hvok, visitor_valC20b hv hc G ι fuel mds (.node (.comp n ps ks)) hvok]
          rfl
        rw [walk_congrC20b h G (fuel + 1) _ _ _ hveq]
        have := hcomp n ps ks (Nat.le_refl _) hok mds
        simp only [embInVC20b] at this ⊢
        rw [this]
        simp [walkResC20b, JVal.walkVal, JNode.walk, JNode.walkExp]
      | tag n a ks =>
        have hveq : JSXTag_tagify_visitorC20b G (fuel + 1) (.list mds) (embInVC20b ι (.node (.tobj (.tag n a ks))))
            = JSXTag_tagify_visitorC20b G (fuel + 1) (.list mds) (embInVC20b ι (.node (.tag n a ks))) := by
          rw [visitor_valC20b hv hc G ι fuel mds _ hvok, visitor_valC20b hv hc G ι fuel mds (.node (.tag n a ks)) hvok]
          rfl
        rw [walk_congrC20b h G (fuel + 1) _ _ _ hveq]
        have := htag n a ks (Nat.le_refl _) hok mds
        simp only [embInVC20b] at this ⊢
        rw [this]
        simp [walkResC20b, JVal.walkVal, JNode.walk, JNode.walkExp]
      | str k s =>
        rw [walk_leafC20b h hv hc G ι fuel _ hvok mds (by cases k <;> simp [visOutC20b, embInNC20b, isInstanceJ, jsxText?, isInstance, builtinClasses, mkJsx, fieldGet?, classBases])
          (by cases k <;> simp [visOutC20b, embInNC20b, isInstanceJ, jsxText?, isInstance, builtinClasses, mkJsx, fieldGet?, classBases])]
        cases k <;> simp [walkResC20b, JVal.walkVal, JNode.walk, JNode.walkExp, visOutC20b, visMetasC20b, embOutVC20b, embOutNC20b]
      | md m =>
        rw [walk_leafC20b h hv hc G ι fuel _ hvok mds (by cases m <;> simp [visOutC20b, embInNC20b, isInstanceJ, jsxText?, isInstance, classBases])
          (by cases m <;> simp [visOutC20b, embInNC20b, isInstanceJ, jsxText?, isInstance, classBases])]
        simp [walkResC20b, JVal.walkVal, JNode.walk, JNode.walkExp, visOutC20b, visMetasC20b, embOutVC20b, embOutNC20b]
      | tobj e' =>
        rw [walk_leafC20b h hv hc G ι fuel _ hvok mds (by simp [visOutC20b, embInNC20b_tobj, isInstanceJ, jsxText?, isInstance, classBases])
          (by simp [visOutC20b, embInNC20b_tobj, isInstanceJ, jsxText?, isInstance, classBases])]
        simp [walkResC20b, JVal.walkVal, JNode.walk, JNode.walkExp, visOutC20b, visMetasC20b, embOutVC20b, embOutNC20b]
      | tobjL es => simp [walkOkVC20b, walkOkNC20b] at hok
  | null =>
    rw [walk_leafC20b h hv hc G ι fuel _ hvok mds (by simp [visOutC20b, embInVC20b, isInstanceJ, jsxText?, isInstance, builtinClasses])
      (by simp [visOutC20b, embInVC20b, isInstanceJ, jsxText?, isInstance, builtinClasses])]
    simp [walkResC20b, JVal.walkVal, visOutC20b, visMetasC20b, embOutVC20b]
  | bool b =>
    rw [walk_leafC20b h hv hc G ι fuel _ hvok mds (by simp [visOutC20b, embInVC20b, isInstanceJ, jsxText?, isInstance, builtinClasses])
      (by simp [visOutC20b, embInVC20b, isInstanceJ, jsxText?, isInstance, builtinClasses])]
    simp [walkResC20b, JVal.walkVal, visOutC20b, visMetasC20b, embOutVC20b]
  | num t =>
    rw [walk_leafC20b h hv hc G ι fuel _ hvok mds (by cases hi : ι t <;> simp [visOutC20b, embInVC20b, hi, isInstanceJ, jsxText?, isInstance, builtinClasses])
      (by cases hi : ι t <;> simp [visOutC20b, embInVC20b, hi, isInstanceJ, jsxText?, isInstance, builtinClasses])]
    simp [walkResC20b, JVal.walkVal, visOutC20b, visMetasC20b, embOutVC20b]
  | list tup vs =>
    rw [walk_leafC20b h hv hc G ι fuel _ hvok mds (by cases tup <;> simp [visOutC20b, embInVC20b, isInstanceJ, jsxText?, isInstance, builtinClasses])
      (by cases tup <;> simp [visOutC20b, embInVC20b, isInstanceJ, jsxText?, isInstance, builtinClasses])]
    simp [walkResC20b, JVal.walkVal, visOutC20b, visMetasC20b, embOutVC20b]
  | dict fs =>
    rw [walk_leafC20b h hv hc G ι fuel _ hvok mds (by simp [visOutC20b, embInVC20b, isInstanceJ, jsxText?, isInstance, builtinClasses])
      (by simp [visOutC20b, embInVC20b, isInstanceJ, jsxText?, isInstance, builtinClasses])]
    simp [walkResC20b, JVal.walkVal, visOutC20b, visMetasC20b, embOutVC20b]

/-- the walk on every value of height ≤ n, with any fuel above the height -/
theorem src_walk_depthC20b (h : walk_attrs_and_childrenC20b_available = true) (hv : JSXTag_tagify_visitorC20b_available = true)
    (hc : JSXTag_copyC20b_available = true) (hs : JSXTagAttrDict_setitemC20b_available = true)
    (hn : JSX_normalize_attr_name_available = true) (G : Globals) (ι : Str → Option Int) (n : Nat) :
    ∀ v : JVal, walkOkVC20b v = true → whVC20b v ≤ n → ∀ fuel, whVC20b v + 1 ≤ fuel → ∀ mds,
      walk_attrs_and_childrenC20b G fuel (embInVC20b ι v) (.list mds) = walkResC20b ι v mds := by
  induction n with
  | zero => intro v _ hh; have := whV_posC20b v; omega
  | succ n ih =>
    intro v hok hh fuel hf mds
    obtain ⟨f, rfl⟩ : ∃ f, fuel = f + 2 := ⟨fuel - 2, by have := whV_posC20b v; omega⟩
    refine walk_stepC20b h hv hc hs hn G ι f v hok ?_ mds
    intro w hw hwok m
    exact ih w hwok (by omega) (f + 1) (by omega) m

/-- `_walk_attrs_and_children(x, fn)` as the source has it, with `fn` the visitor of `JSXTag.tagify` closed over a list that
    holds `mds`: the pair of the walked copy — `(x.walk d).node` of Model/Jsx.lean: every tagifiable object that is neither a
    Tag nor a JSXTag replaced by what its `tagify()` returns, recursively through children and prop values — and the list
    extended by the metadata nodes the walk met, in its order (`(x.walk d).metas`; `C20_collected`: in document order) -/
theorem src_walk_attrs_and_childrenC20b (h : walk_attrs_and_childrenC20b_available = true)
    (hv : JSXTag_tagify_visitorC20b_available = true)
    (hc : JSXTag_copyC20b_available = true) (hs : JSXTagAttrDict_setitemC20b_available = true)
    (hn : JSX_normalize_attr_name_available = true) (G : Globals) (ι : Str → Option Int)
    (x : JNode) (hok : walkOkNC20b x = true) (fuel : Nat) (hf : whNC20b x + 1 ≤ fuel) (mds : List PVal) (d : Discipline) :
    walk_attrs_and_childrenC20b G fuel (embInNC20b ι x) (.list mds)
      = .ok (.tuple [embOutNC20b ι (x.walk d).node, .list (mds ++ (x.walk d).metas.map (embMetaC20b ι))]) := by
  have := src_walk_depthC20b h hv hc hs hn G ι (whNC20b x) (.node x) hok (Nat.le_refl _) fuel hf mds
  simp only [embInVC20b, walkResC20b, JVal.walkVal, embOutVC20b] at this
  rw [this, walk_node_indep d .demanded, walk_metas d, walk_metas .demanded]

/-! ### `_lib_dependency` and the constructor call at the end of `tagify` -/

theorem script_attrsC20b (h : TagAttrDict_initC15b_available = true) (hu : TagAttrDict_update_available = true)
    (hv : normalize_attr_value_available = true) (hn : normalize_attr_name_available = true) (G : Globals) (t : Str) :
    TagAttrDict_initC15b G (.dict []) (.tuple [.dict [(chars% "type", .str t), (chars% "data_needs_render", .bool true)]]) (.dict [])
      = .ok (.dict [(chars% "type", .str t), (chars% "data-needs-render", .str [])]) := by
  first
  | exact absurd h (by decide)
  | exact absurd hu (by decide)
  | exact absurd hv (by decide)
  | skip
  all_goals (
    unfold TagAttrDict_initC15b TagAttrDict_update
    simp only [pyDictInit0C15b, pyIter_tuple, pyKwRestC15b, List.any_nil, Bool.false_eq_true, if_false, List.filter_nil, ok_bind, pure_eq_ok, truthy,
      List.isEmpty_nil, Bool.not_true, List.forIn_cons, List.forIn_nil, pyItems_dict, List.map_cons, List.map_nil, pyIter_list,
      pyUnpack2_tuple, src_normalize_attr_name hn]
    unfold normalize_attr_value
    simp [isNone, isBool, pyOr, isInstance, builtinClasses, pyIn, Py.dictGet?, pySetItem, Py.dictSet, pyDictUpdate, normAttrName])

/-- the constructor call at the end of `tagify`: `Tag(name, {"type": t, "data_needs_render": True}, *kids)` for children that are
    plain nodes (and no dicts) — the new Tag's attributes in assignment order -/
theorem Tag_init_scriptC20b (h : Tag_initC15b_available = true) (hA : TagAttrDict_initC15b_available = true)
    (hu : TagAttrDict_update_available = true)
    (hv : normalize_attr_value_available = true) (hnn : normalize_attr_name_available = true)
    (hT : TagList_init_available = true) (ht : tagchilds_to_tagnodes_available = true)
    (hf : util_flatten_available = true) (hr : util_flatten_recurse_available = true) (hn : is_tag_node_available = true)
    (G : Globals) (fuel : Nat) (nm t : Str) (kids : List PVal)
    (hpl : ∀ v ∈ kids, plainNodeC20b v = true) (hnd : ∀ v ∈ kids, isInstance v ["dict"] = false) :
    Tag_initC15b G (fuel + 5) (.obj "Tag" []) (.str nm)
        (.tuple (.dict [(chars% "type", .str t), (chars% "data_needs_render", .bool true)] :: kids)) (.bool true) (.dict [])
      = .ok (.obj "Tag" [("name", .str nm), ("add_ws", .bool true),
          ("attrs", .dict [(chars% "type", .str t), (chars% "data-needs-render", .str [])]),
          ("children", .obj "TagList" [("data", .list kids)]), ("prev_displayhook", .none)]) := by
  first
  | exact absurd h (by decide)
  | skip
  all_goals (
    rw [Tag_initC15b]
    have hb : isInstance (PVal.bool true) ["bool"] = true := by simp [isInstance, builtinClasses]
    have hfd : (PVal.dict [(chars% "type", PVal.str t), (chars% "data_needs_render", PVal.bool true)] :: kids).filter
        (fun v => isInstance v ["dict"]) = [PVal.dict [(chars% "type", PVal.str t), (chars% "data_needs_render", PVal.bool true)]] := by
      rw [List.filter_cons]
      simp only [show isInstance (PVal.dict [(chars% "type", PVal.str t), (chars% "data_needs_render", PVal.bool true)]) ["dict"] = true
        from by simp [isInstance, builtinClasses], if_true]
      congr 1
      rw [List.filter_eq_nil_iff]
      intro v hv'; simp [hnd v hv']
    have hfk : (PVal.dict [(chars% "type", PVal.str t), (chars% "data_needs_render", PVal.bool true)] :: kids).filter
        (fun v => !isInstance v ["dict"]) = kids := by
      rw [List.filter_cons]
      simp only [show isInstance (PVal.dict [(chars% "type", PVal.str t), (chars% "data_needs_render", PVal.bool true)]) ["dict"] = true
        from by simp [isInstance, builtinClasses], Bool.not_true, Bool.false_eq_true, if_false]
      rw [List.filter_eq_self]
      intro v hv'; simp [hnd v hv']
    simp only [pySetAttr_objC15b, ok_bind, pure_eq_ok, truthy_bool, hb, Bool.not_true, Bool.false_eq_true, if_false, pyIter_tuple]
    refine (filter_loop_kC15b (fun v => isInstance v ["dict"]) _ _ _ ?_ _).trans ?_
    · intro x _ s; cases isInstance x ["dict"] <;> rfl
    simp only [List.nil_append, hfd, pyIter_list, ok_bind, pyKwRestC15b, List.any_nil, Bool.false_eq_true, if_false, List.filter_nil,
      pure_eq_ok, script_attrsC20b hA hu hv hnn G t, pySetAttr_objC15b]
    refine (filter_loop_kC15b (fun v => !isInstance v ["dict"]) _ _ _ ?_ _).trans ?_
    · intro x _ s; cases isInstance x ["dict"] <;> rfl
    simp only [List.nil_append, hfk, pyIter_list, ok_bind, TagList_init_plainC20b hT ht hf hr hn G fuel kids hpl, pySetAttr_objC15b]
    simp [fieldSet])

theorem dictGet_versionsC20b (pkg : Str) (vs : List (Str × Str)) :
    Py.dictGet? pkg (vs.map fun kv => (kv.1, PVal.str kv.2)) = (alookup pkg vs).map PVal.str := by
  induction vs with
  | nil => rfl
  | cons x t ih =>
    obtain ⟨k, v⟩ := x
    simp only [List.map_cons, Py.dictGet?, alookup]
    split <;> simp_all

/-- the dependency the model's `libDependency` describes (Model/Jsx.lean) -/
def libDepInfoC20b (pkg v src : Str) : DepInfo :=
  { name := pkg, version := v, vrank := 0, source := .subdir (some (chars% "htmltools")) (chars% "lib/" ++ pkg) [],
    script := [[(chars% "src", src)]], stylesheet := [], metas := [], allFiles := false }

/-- `_lib_dependency(pkg, script={"src": src})` as the source has it = `libDependency`: KeyError for a package `_versions.py`
    (as it is in the source now) does not pin; otherwise `HTMLDependency(name=pkg, version=versions[pkg],
    source={"package": "htmltools", "subdir": "lib/" + pkg}, script=…)` through the translated `HTMLDependency.__init__`:
    the dependency the model describes (compared attribute by attribute, `projDepC10b`).
    `hver`: `packaging` accepts the pinned version string and writes it back as it is. -/
theorem src_lib_dependencyC20b (h : lib_dependencyC20b_available = true) (hI : HTMLDependency_init_available = true)
    (h1 : HTMLDependency_validate_dicts_available = true) (h2 : HTMLDependency_validate_dict_available = true)
    (G : Globals) (pkg src : Str)
    (hver : ∀ v, alookup pkg Generated.reactVersions = some v → G.mkVersion v = some (versionObjC10b 0 v)) :
    projDepC10b <$> lib_dependencyC20b G (.str pkg) (.dict [(chars% "src", .str src)])
      = match alookup pkg Generated.reactVersions with
        | none => .error .keyError
        | some v => .ok (embDepObjC10b "HTMLDependency"
            (.dict [(chars% "package", .str (chars% "htmltools")), (chars% "subdir", .str (chars% "lib/" ++ pkg))])
            (libDepInfoC20b pkg v src) .none) := by
  first
  | exact absurd h (by decide)
  | skip
  all_goals (
    unfold lib_dependencyC20b
    simp only [pyGetItem, dictGet_versionsC20b, pyAddJ_str, ok_bind, pure_eq_ok]
    cases hv : alookup pkg Generated.reactVersions with
    | none => simp
    | some v =>
      simp only [Option.map_some, ok_bind, pure_eq_ok]
      have := src_init hI h1 h2 G "HTMLDependency"
        { name := pkg, version := v, verOk := true, vrank := 0,
          source := .dict [(chars% "package", chars% "htmltools"), (chars% "subdir", chars% "lib/" ++ pkg)],
          script := .one [(chars% "src", src)], stylesheet := .none, metas := .none, allFiles := false }
        (.str v) (Or.inl ⟨v, rfl, by simpa using hver v hv⟩) .none
      simp only [SourceV.emb, ItemsV.emb, embKvsC10b, List.map_cons, List.map_nil, HeadV.emb] at this
      rw [this]
      simp [depInit, DepArgV.toArg, SourceV.toArg, ItemsV.toArg, checkSource, hasKey, normItems, validateDicts, validateDict,
        checkKeys, reqScript, reqStylesheet, reqMeta, alookup, HeadV.res, libDepInfoC20b, addRel])

/-! ### JSXTag.tagify -/

theorem lib_dep_objC20b (x : PyM PVal) (d : PVal) (info : DepInfo)
    (h : projDepC10b <$> x = .ok (embDepObjC10b "HTMLDependency" d info .none)) :
    ∃ fs, x = .ok (.obj "HTMLDependency" fs) := by
  cases x with
  | error e => simp at h
  | ok r =>
    cases r with
    | obj c fs =>
      simp only [map_ok, projDepC10b, embDepObjC10b, Except.ok.injEq, PVal.obj.injEq] at h
      exact ⟨fs, by rw [h.1]⟩
    | _ => simp [projDepC10b, embDepObjC10b] at h

/-- `JSXTag.tagify()` as the source has it = `jsxTagify` (Model/Jsx.lean; `C20_script`): the walk gives the expanded copy and the
    metadata nodes; `_render_react_js(cp, 2, "\n")` of the copy (its exception is passed on); the JavaScript `jsWrap name
    component`; and `Tag("script", {"type": "text/javascript", "data_needs_render": True}, HTML("\n" + js + "\n"), react,
    react-dom, *metadata_nodes)`, whose attributes are `scriptAttrs` and whose children are the script body, the two objects
    `_lib_dependency` returns — the dependencies `libDependency` describes (`C20_react`), compared attribute by attribute — and the
    collected nodes in document order (`C20_collected_on_script`).
    Stated for components whose walked copy holds no un-expanded tagifiable object (`noTobjNC20b`: `tagify()` of a tagifiable
    object did not return another such object — then the renderer's tie, which is about `embJNode`, applies) and satisfies the
    renderer's side conditions (`tiedN`); `hv1` / `hv2`: `_versions.py` pins both packages (`C20_react_pinned`); `hver1` /
    `hver2`: `packaging` accepts the pinned strings and writes them back as they are. -/
theorem src_jsx_tagifyC20b (h : JSXTag_tagifyC20b_available = true)
    (hw : walk_attrs_and_childrenC20b_available = true) (hv : JSXTag_tagify_visitorC20b_available = true)
    (hc : JSXTag_copyC20b_available = true) (hs : JSXTagAttrDict_setitemC20b_available = true)
    (hn : JSX_normalize_attr_name_available = true)
    (hr1 : render_react_js_available = true) (hr2 : serialize_attr_available = true) (hr3 : serialize_style_attr_available = true)
    (hL : lib_dependencyC20b_available = true) (hI : HTMLDependency_init_available = true)
    (hd1 : HTMLDependency_validate_dicts_available = true) (hd2 : HTMLDependency_validate_dict_available = true)
    (hT : Tag_initC15b_available = true) (hA : TagAttrDict_initC15b_available = true) (hu : TagAttrDict_update_available = true)
    (hav : normalize_attr_value_available = true) (han : normalize_attr_name_available = true)
    (hTL : TagList_init_available = true) (ht : tagchilds_to_tagnodes_available = true)
    (hf : util_flatten_available = true) (hfr : util_flatten_recurse_available = true) (hit : is_tag_node_available = true)
    (G : Globals) (ι : Str → Option Int) (hι : IntTexts ι) (name : Str) (ps : JProps) (ks : JNodes)
    (hok : walkOkNC20b (.comp name ps ks) = true)
    (hclean : noTobjNC20b ((JNode.comp name ps ks).walk .demanded).node = true)
    (htied : tiedN ((JNode.comp name ps ks).walk .demanded).node = true)
    (v1 v2 : Str) (hv1 : alookup (chars% "react") Generated.reactVersions = some v1)
    (hv2 : alookup (chars% "react-dom") Generated.reactVersions = some v2)
    (hver1 : G.mkVersion v1 = some (versionObjC10b 0 v1)) (hver2 : G.mkVersion v2 = some (versionObjC10b 0 v2))
    (fuel : Nat) (hf1 : whNC20b (.comp name ps ks) + 1 ≤ fuel) (hf2 : hN ((JNode.comp name ps ks).walk .demanded).node ≤ fuel)
    (hf3 : 5 ≤ fuel) :
    ∃ r rd,
      projDepC10b r = embDepObjC10b "HTMLDependency"
          (.dict [(chars% "package", .str (chars% "htmltools")), (chars% "subdir", .str (chars% "lib/" ++ chars% "react"))])
          (libDepInfoC20b (chars% "react") v1 (chars% "react.production.min.js")) .none ∧
      projDepC10b rd = embDepObjC10b "HTMLDependency"
          (.dict [(chars% "package", .str (chars% "htmltools")), (chars% "subdir", .str (chars% "lib/" ++ chars% "react-dom"))])
          (libDepInfoC20b (chars% "react-dom") v2 (chars% "react-dom.production.min.js")) .none ∧
      JSXTag_tagifyC20b G (fuel + 1) (embInNC20b ι (.comp name ps ks))
        = match ((JNode.comp name ps ks).walk .demanded).node.renderJs 2 ['\n'] with
          | .error e => .error (embErr e)
          | .ok component =>
            .ok (scriptObjC20b (jsWrap name component) r rd ((JNode.comp name ps ks).metasIn.map (embMetaC20b ι))) := by
  first
  | exact absurd h (by decide)
  | skip
  all_goals (
    have hl1 := src_lib_dependencyC20b hL hI hd1 hd2 G (chars% "react") (chars% "react.production.min.js")
      (fun v hv' => by rw [hv1] at hv'; cases hv'; exact hver1)
    have hl2 := src_lib_dependencyC20b hL hI hd1 hd2 G (chars% "react-dom") (chars% "react-dom.production.min.js")
      (fun v hv' => by rw [hv2] at hv'; cases hv'; exact hver2)
    rw [hv1] at hl1
    rw [hv2] at hl2
    obtain ⟨fs1, e1⟩ := lib_dep_objC20b _ _ _ hl1
    obtain ⟨fs2, e2⟩ := lib_dep_objC20b _ _ _ hl2
    refine ⟨.obj "HTMLDependency" fs1, .obj "HTMLDependency" fs2, by simpa [e1] using hl1, by simpa [e2] using hl2, ?_⟩
    rw [JSXTag_tagifyC20b]
    have hwalk := src_walk_attrs_and_childrenC20b hw hv hc hs hn G ι (.comp name ps ks) hok fuel hf1 [] .demanded
    have hrender := src_render_react_js hr1 hr2 hr3 G ι hι _ htied fuel hf2 2 ['\n']
    rw [← embOut_eq_embJNC20b ι _ hclean] at hrender
    simp only [ok_bind, pure_eq_ok, hwalk, pyUnpack2_tuple, List.nil_append]
    have h2 : (PVal.int 2) = PVal.int ((2 : Nat) : Int) := rfl
    rw [h2, hrender]
    cases hrj : ((JNode.comp name ps ks).walk .demanded).node.renderJs 2 ['\n'] with
    | error e => simp [embRes]
    | ok component =>
      have hname : pyGetAttr (embInNC20b ι (.comp name ps ks)) "name" = .ok (.str name) := by
        simp [embInNC20b, pyGetAttr, fieldGet?]
      have hjoin := pyJoinJ_strs ['\n'] (jsWrapPartsC20b name component)
      simp only [jsWrapPartsC20b, List.map_cons, List.map_nil] at hjoin
      simp only [embRes, ok_bind, hname, pyStrJ_str, pyConcat3, pure_eq_ok, char10C20b, char39C20b, char34C20b, hjoin,
        pyAddJ_str, mkHTMLC20b, asStr_str, mkHTML, pyStr_str, e1, e2, pyIter_list]
      obtain ⟨f', rfl⟩ : ∃ f', fuel = f' + 5 := ⟨fuel - 5, by omega⟩
      simp only [List.cons_append, List.nil_append]
      have hkid : ∀ (js : Str) (v : PVal), v ∈ PVal.html js :: PVal.obj "HTMLDependency" fs1 :: PVal.obj "HTMLDependency" fs2
          :: List.map (embMetaC20b ι) (JNode.walk Discipline.demanded (JNode.comp name ps ks)).metas →
          plainNodeC20b v = true ∧ isInstance v ["dict"] = false := by
        intro js v hv'
        simp only [List.mem_cons, List.mem_map] at hv'
        rcases hv' with rfl | rfl | rfl | ⟨m, _, rfl⟩
        · simp [plainNodeC20b, isInstance, builtinClasses, isNone]
        · simp [plainNodeC20b, isInstance, classBases, isNone]
        · simp [plainNodeC20b, isInstance, classBases, isNone]
        · cases m <;> simp [embMetaC20b, embInNC20b, plainNodeC20b, isInstance, classBases, isNone]
      refine (Tag_init_scriptC20b hT hA hu hav han hTL ht hf hfr hit G f' _ _ _ (fun v hv' => (hkid _ v hv').1)
        (fun v hv' => (hkid _ v hv').2)).trans ?_
      simp only [scriptObjC20b, jsWrap_partsC20b, jsWrapPartsC20b, walk_metas, List.singleton_append, List.cons_append,
        List.nil_append])

/-! ### jsx.__new__, jsx.__add__, jsx_tag_create -/

theorem pyJoinJ_strs_tupleC20b (sep : Str) (l : List Str) :
    pyJoinJ (.str sep) (.tuple (l.map PVal.str)) = .ok (.str (joinStr sep l)) := by
  simp [pyJoinJ, asStr, jsxText?, pyIterJ, pyIter, strsOfJ_strs]

/-- `jsx(*args)` (`jsx.__new__` for `cls = jsx`) as the source has it: the `jsx` string whose text is the arguments joined by
    line breaks -/
theorem src_jsx_newC20b (h : jsx_newC20b_available = true) (G : Globals) (ss : List Str) :
    jsx_newC20b G (.tuple (ss.map PVal.str)) = .ok (mkJsx (joinStr ['\n'] ss)) := by
  first
  | exact absurd h (by decide)
  | (unfold jsx_newC20b
     simp only [char10C20b, pyJoinJ_strs_tupleC20b, ok_bind, pure_eq_ok, pyJsxNewC20b, asStr_str])

/-- `jsx.__add__(self, other)` as the source has it is what the primitive `pyAddJ` (Py/PrimC20.lean) states for a `jsx` left
    operand: `jsx + str` is a plain `str`, `jsx + jsx` a `jsx` -/
theorem src_jsx_addC20b (h : jsx_addC20b_available = true) (hn : jsx_newC20b_available = true) (G : Globals)
    (add : PVal → PVal → PyM PVal) (a b : Str) :
    jsx_addC20b G (mkJsx a) (.str b) = pyAddJ add (mkJsx a) (.str b)
    ∧ jsx_addC20b G (mkJsx a) (mkJsx b) = pyAddJ add (mkJsx a) (mkJsx b) := by
  first
  | exact absurd h (by decide)
  | skip
  all_goals (
    have hnew := src_jsx_newC20b hn G [a ++ b]
    simp only [List.map_cons, List.map_nil, joinStr] at hnew
    constructor
    · unfold jsx_addC20b
      simp [pyStrAddC20b, asStr_jsx, asStr_str, isInstanceJ, jsxText?, isInstance, builtinClasses, pyAddJ, mkJsx, fieldGet?, asStr]
    · unfold jsx_addC20b
      simp only [pyStrAddC20b, asStr_jsx, ok_bind, pure_eq_ok, truthy_bool]
      have : isInstanceJ (mkJsx b) ["jsx"] = true := by simp [isInstanceJ, jsxText?, mkJsx, fieldGet?]
      simp only [this, if_true, hnew, ok_bind]
      simp [pyAddJ, jsxText?, mkJsx, fieldGet?])

/-- the names of the parameters of `JSXTag.__init__` other than `*args` / `**kwargs`: a keyword of that name does not reach
    `**kwargs` -/
def jsxReservedC20b : List Str := [chars% "self", chars% "_name", chars% "allowedProps"]

theorem kwFree_selfC20b (kw : List (Str × JVal)) (h : kwFreeC20b jsxReservedC20b kw = true) :
    kwFreeC20b [chars% "self"] kw = true := by
  rw [kwFreeC20b, List.all_eq_true] at h ⊢
  intro kv hkv
  have := h kv hkv
  simp only [jsxReservedC20b, List.contains_cons, List.contains_nil, Bool.or_false, Bool.not_eq_true', Bool.or_eq_false_iff] at this ⊢
  exact this.1

/-- the function `jsx_tag_create(name, allowedProps)` returns, called with `*kids, **kw` — as the source has it = `jsxInit`
    (`JSXTag(name, *args, allowedProps=allowedProps, **kwargs)`): the component, or NotImplementedError -/
theorem src_jsx_create_tagC20b (h : jsx_create_tagC20b_available = true) (hI : JSXTag_initC20b_available = true)
    (hA : JSXTagAttrDict_initC20b_available = true) (hu : JSXTagAttrDict_updateC20b_available = true)
    (hm : JSXTagAttrDict_updateMapC20b_available = true) (hnn : JSX_normalize_attr_name_available = true)
    (hT : TagList_init_available = true) (ht : tagchilds_to_tagnodes_available = true)
    (hf : util_flatten_available = true) (hr : util_flatten_recurse_available = true) (hn : is_tag_node_available = true)
    (G : Globals) (ι : Str → Option Int) (upper : Str → Str) (fuel : Nat)
    (name : Str) (allowed : Option (List Str)) (kw : List (Str × JVal)) (kids : JNodes)
    (hup : G.upperC20b (nameInitial name) = some (upper (nameInitial name)))
    (hkw : kwFreeC20b jsxReservedC20b kw = true)
    (hk : noJsxKidsC20b kids = true) :
    jsx_create_tagC20b G (fuel + 6) (.str name) (embAllowedC20b allowed) (.tuple (embJNodes ι kids)) (embKwC20b ι kw)
      = embRes (embJNode ι) (jsxInit upper name allowed kw kids) := by
  first
  | exact absurd h (by decide)
  | skip
  all_goals (
    rw [jsx_create_tagC20b]
    have hkw' := hkw
    unfold jsxReservedC20b at hkw'
    simp only [pyIter_tuple, ok_bind, pure_eq_ok, pyKwRest_embKwC20b ι kw _ hkw',
      src_jsx_tag_initC20b hI hA hu hm hnn hT ht hf hr hn G ι upper fuel name allowed kw kids hup (kwFree_selfC20b kw hkw) hk])

/-- `jsx_tag_create(name, allowedProps)` as the source has it: the closure over its two arguments (whose body is
    `jsx_create_tagC20b`: `src_jsx_create_tagC20b`), named `name` -/
theorem src_jsx_tag_createC20b (h : jsx_tag_createC20b_available = true) (G : Globals) (name : Str) (a : PVal) :
    jsx_tag_createC20b G (.str name) a
      = .ok (.obj "closure" [("fn", .str "jsx_tag_create.<inner>".toList), ("captured", .list [.str name, a]),
          ("__name__", .str name)]) := by
  first
  | exact absurd h (by decide)
  | (unfold jsx_tag_createC20b
     simp [mkClosureC17, pySetFuncNameC20b, asStr_str, pySetAttr, fieldSet])

end HtmlVerif.SrcTie
