"""Human-readable reproduction of a wire line for replay files (never used for comparison)."""
from __future__ import annotations

from wire import Toks, p_node, p_list, p_str, p_bool, ds


def py_of_node(n) -> str:
    k = n[0]
    if k == "tag":
        parts = [repr(n[1])]
        if n[3]:
            d = ", ".join(f"{key!r}: " + (f"HTML({v[1]!r})" if v[0] == "h" else repr(v[1])) for key, v in n[3])
            parts.append("{" + d + "}")
        parts += [py_of_node(c) for c in n[4]]
        parts.append(f"_add_ws={n[2]}")
        return "Tag(" + ", ".join(parts) + ")"
    if k == "text":
        return repr(n[1])
    if k == "html":
        return f"HTML({n[1]!r})"
    if k == "robj":
        return f"ReprObj({n[1]!r})  # object whose _repr_html_() returns that"
    if k == "meta":
        return f"Meta({n[1]})  # a MetadataNode"
    if k == "dep":
        d = n[1]
        return f"HTMLDependency({d['name']!r}, {d['version']!r}, …)"
    if k == "tobjL":
        return "TObjL([" + ", ".join(py_of_node(c) for c in n[2]) + "]" + (f", _repr_html_={n[1]!r}" if n[1] is not None else "") + ")"
    if k == "tobj1":
        return "TObj1(" + py_of_node(n[2]) + (f", _repr_html_={n[1]!r}" if n[1] is not None else "") + ")"
    return repr(n)


def describe(line: str) -> str:
    if line.startswith("after "):
        # process history: every line is evaluated, in order, in ONE fresh process; the answer judged is the last one's
        parts = line[6:].split(" ;; ")
        ds_ = [describe(p) or f"<{p.split(' ', 1)[0]} line>" for p in parts]
        hist = []
        for d in ds_[:-1]:
            hist.append("try:\n    " + d.replace("\n", "\n    ") + "\nexcept Exception:\n    pass   # history only")
        return "# in one fresh process, in this order:\n" + "\n".join(hist) + "\n# then (this is the answer that is judged):\n" + ds_[-1]
    try:
        t = Toks(line)
        op = t.next()
        if op == "render_tag":
            n = p_node(t)
            i = int(t.next())
            e = p_str(t)
            return f"from htmltools import *\n{py_of_node(n)}.get_html_string({i}, {e!r})"
        if op == "render_tag_via":
            mode = t.next()
            n = p_node(t)
            i = int(t.next())
            e = p_str(t)
            return f"# children added via {mode}\n{py_of_node(n)}.get_html_string({i}, {e!r})"
        if op == "render_list":
            ns = p_list(t, p_node)
            i = int(t.next())
            e = p_str(t)
            aw = p_bool(t)
            esc = p_bool(t)
            return ("TagList(" + ", ".join(py_of_node(c) for c in ns) + f").get_html_string({i}, {e!r}, add_ws={aw}, _escape_strings={esc})")
        if op == "escape":
            a = p_bool(t)
            return f"htmltools.html_escape({p_str(t)!r}, attr={a})"
    except Exception:
        pass
    return ""


def decode_answer(ans: str) -> str:
    try:
        if ans.startswith("ok "):
            rest = ans[3:].split()
            if len(rest) == 1:
                return "ok " + repr(ds(rest[0]))
        if ans and " " not in ans and all(c in "0123456789abcdef.-" for c in ans):
            return repr(ds(ans))
    except Exception:
        pass
    return ans
