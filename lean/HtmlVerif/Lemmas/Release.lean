/-
Helper lemmas for C10: release tuples, trailing zeros, lexicographic order.
-/
import HtmlVerif.Spec.Deps

namespace HtmlVerif

theorem dropWhile_append_eq {α} (p : α → Bool) (l1 l2 : List α) :
    (l1 ++ l2).dropWhile p = if (l1.dropWhile p).isEmpty then l2.dropWhile p else l1.dropWhile p ++ l2 := by
  induction l1 with
  | nil => simp
  | cons a l ih =>
    simp only [List.cons_append, List.dropWhile_cons]
    by_cases h : p a = true
    · simp [h, ih]
    · simp [h]

/-- recursive description of trailing-zero stripping -/
theorem stripTrailingZeros_cons (a : Nat) (r : List Nat) :
    stripTrailingZeros (a :: r)
      = if a = 0 ∧ stripTrailingZeros r = [] then [] else a :: stripTrailingZeros r := by
  unfold stripTrailingZeros
  rw [List.reverse_cons, dropWhile_append_eq]
  by_cases h : (r.reverse.dropWhile (· == 0)) = []
  · by_cases ha : a = 0 <;> simp [h, ha]
  · have h2 : (r.reverse.dropWhile (· == 0)).isEmpty = false := by
      cases hh : r.reverse.dropWhile (· == 0) with
      | nil => exact absurd hh h
      | cons _ _ => rfl
    simp [h, h2]

@[simp] theorem stripTrailingZeros_nil : stripTrailingZeros [] = [] := rfl

theorem lexLe_nil_right (a : List Nat) : lexLe a [] = true ↔ a = [] := by
  cases a <;> simp [lexLe]

theorem lexLe_total (a : List Nat) : ∀ b, lexLe a b = true ∨ lexLe b a = true := by
  induction a with
  | nil => intro b; simp [lexLe]
  | cons x a ih =>
    intro b
    cases b with
    | nil => simp [lexLe]
    | cons y b =>
      simp only [lexLe, Bool.or_eq_true, decide_eq_true_eq, Bool.and_eq_true, beq_iff_eq]
      rcases Nat.lt_trichotomy x y with h | h | h
      · left; left; exact h
      · subst h
        rcases ih b with h | h
        · left; right; exact ⟨rfl, h⟩
        · right; right; exact ⟨rfl, h⟩
      · right; left; exact h

theorem lexLe_trans (a : List Nat) : ∀ b c, lexLe a b = true → lexLe b c = true → lexLe a c = true := by
  induction a with
  | nil => intro b c _ _; simp [lexLe]
  | cons x a ih =>
    intro b c hab hbc
    cases b with
    | nil => simp [lexLe] at hab
    | cons y b =>
      cases c with
      | nil => simp [lexLe] at hbc
      | cons z c =>
        simp only [lexLe, Bool.or_eq_true, decide_eq_true_eq, Bool.and_eq_true, beq_iff_eq] at hab hbc ⊢
        rcases hab with h1 | ⟨h1, h1'⟩
        · rcases hbc with h2 | ⟨h2, _⟩
          · left; omega
          · left; omega
        · rcases hbc with h2 | ⟨h2, h2'⟩
          · left; omega
          · right; exact ⟨by omega, ih b c h1' h2'⟩

theorem lexLe_refl (a : List Nat) : lexLe a a = true := by
  rcases lexLe_total a a with h | h <;> exact h

end HtmlVerif
