"""Translator validation for C13 (DESIGN §14): value generators for the regenerated
`HTMLTextDocument._static_extract_serialized_html_deps`, `_extract_serialized_html_deps`, `__init__` (and, further down,
`render` and `HTMLDependency.serialize_to_script_json`).

The extraction rebuilds dependencies with `HTMLDependency(**json.loads(text))`, which calls `packaging.version.Version`: the
lines use the op `srcc13`, which carries what `packaging` answers for every version string that occurs in a JSON object
of the line (`add_src_c13(ck, [...])`)."""
from __future__ import annotations

import json

from wire import es

from srctie import S, H

OPEN = '<script type="application/json" data-html-dependency="">'
CLOSE = "</script>"

GOOD_VERSIONS = ["1.0", "1.2", "1.10.0", "2", "1.0a1", "1.0.post1", "1.0+local", "v1.0", "01.02", "1.0RC1"]
BAD_VERSIONS = ["", "x", "1..2", "not a version"]
TEXT = ["", "a", "<p>x</p>", "é😀", 'q"uote', "back\\slash", "</script>", "</SCRIPT >", "<script>", "a\nb", "\r\n", "\t", "<!-- -->",
        "</", "<\\/", " ", "\x7f", "&amp;"]


def _extra():
    import gen
    return list(gen.EXTRA)


def text(rng) -> str:
    ex = _extra()
    if ex and rng.random() < 0.2:
        return rng.choice(ex)
    return rng.choice(TEXT)


def kv(rng, must=()) -> dict:
    d = {}
    ks = list(must)
    for _ in range(rng.choice([0, 0, 1, 2])):
        ks.append(rng.choice(["src", "href", "name", "content", "rel", "integrity", "type", "zz"] + _extra()[:3]))
    if rng.random() < 0.3:
        rng.shuffle(ks)
    for k in ks:
        d[k] = "v" + text(rng) if rng.random() < 0.93 else rng.choice([None, True, ["x"]])
    return d


def items(rng, req):
    r = rng.random()
    if r < 0.25:
        return None
    if r < 0.4:
        return kv(rng, req)
    if r < 0.9:
        return [kv(rng, req) if rng.random() < 0.9 else kv(rng) for _ in range(rng.choice([0, 1, 1, 2, 3]))]
    return rng.choice(["", "ab", True, [None], ["x"], {"zz": "1"}, [[]]])


def record(rng) -> dict:
    """the keyword arguments of one dependency, mostly well-typed"""
    d = {}
    if rng.random() < 0.95:
        d["name"] = rng.choice(["lib", "a b", "jquery", "", text(rng)]) if rng.random() < 0.95 else rng.choice([None, True, ["n"]])
    if rng.random() < 0.95:
        r = rng.random()
        d["version"] = rng.choice(GOOD_VERSIONS) if r < 0.85 else rng.choice(BAD_VERSIONS) if r < 0.95 else rng.choice([None, True, ["1.0"]])
    r = rng.random()
    if r < 0.3:
        d["source"] = None
    elif r < 0.75:
        d["source"] = rng.choice([{"href": "https://x/" + text(rng)}, {"subdir": "www"}, {"subdir": "www", "package": "pkg"},
                                  {"package": "pkg", "subdir": "w"}, {"subdir": "w", "package": None}, {}, {"zz": "q"}, {"href": None}])
    elif r < 0.8:
        d["source"] = rng.choice(["x", True, [], ["href"]])
    if rng.random() < 0.7:
        d["script"] = items(rng, ["src"])
    if rng.random() < 0.7:
        d["stylesheet"] = items(rng, ["href"])
    if rng.random() < 0.6:
        d["meta"] = items(rng, ["name", "content"])
    if rng.random() < 0.6:
        d["all_files"] = rng.choice([True, False, True, False, None, "x"])
    if rng.random() < 0.6:
        d["head"] = rng.choice([None, "<script>x</script>", "", text(rng), "</script>", True, ["a", "b"], [], {"a": "b"}, [["a"]], [None, "x"]])
    if rng.random() < 0.06:
        d[rng.choice(["zz", "self", "Name", "lib_prefix"])] = "q"
    if rng.random() < 0.3:
        ks = list(d)
        rng.shuffle(ks)
        d = {k: d[k] for k in ks}
    return d


#: texts that are not JSON (no digit, `-`, `N`, `I`, `\u`: the Lean side gives a verdict), not an object, or oddly spaced
ODD_BODIES = ["", " ", "nul", "null", "true", '"str"', "[]", "{}", '{"name": }', '{"name":"a",}', "{'name':'a'}", '["a",]', '{"name" "a"}',
              '{"name":"a"} x', ' { "name" : "lib" , "version" : "1.0" } ', '{"name":"lib","version":"1.0","name":"other"}',
              '{"name":"lib","version":"1.0","script":{"src":"a","src":"b"}}', '﻿{}', '{"name":"l\\nib","version":"1.0"}',
              '{"name":"a\x1fb","version":"1.0"}', '{"name":"\\x","version":"1.0"}', "[", '"', "tru", '{"version":"1.0","name":"lib"}',
              # outside the model's JSON fragment: no verdict on the Lean side
              "1", '{"name":"lib","version":1}', '{"name":"lib","version":"1.0","all_files":NaN}', '{"name":"\\ud800","version":"1.0"}',
              '{"name":"\\u00e9","version":"1.0"}']


def body(rng) -> str:
    r = rng.random()
    if r < 0.8:
        b = json.dumps(record(rng), indent=rng.choice([None, None, 0, 2]), ensure_ascii=rng.random() < 0.8)
        if rng.random() < 0.9:
            b = b.replace("</", "<\\/")
        return b
    return rng.choice(ODD_BODIES)


def html(rng) -> tuple[str, list[str]]:
    """text with serialised elements in it; the bodies (for the version table)"""
    r = rng.random()
    if r < 0.05:
        return rng.choice([OPEN, CLOSE, OPEN + OPEN + CLOSE, CLOSE + OPEN, OPEN + "x", OPEN[:-1] + CLOSE, OPEN.upper() + "{}" + CLOSE,
                           OPEN + "{}" + "</SCRIPT>", OPEN + "{}" + CLOSE + CLOSE, ""]), ["{}"]
    n = rng.choice([0, 1, 1, 2, 2, 3, 4])
    bodies = []
    out = text(rng)
    for _ in range(n):
        b = rng.choice(bodies) if bodies and rng.random() < 0.3 else body(rng)
        bodies.append(b)
        out += OPEN + b + CLOSE + text(rng)
    return out, bodies


def version_table(bodies: list[str]) -> list:
    """what `packaging` says about every version string that a body holds; ranks follow the normalised text"""
    from packaging.version import Version
    raws = []
    for b in bodies:
        for cand in (b, b.replace("<\\/", "</")):
            try:
                j = json.loads(cand)
            except Exception:  # noqa: BLE001
                continue
            if isinstance(j, dict) and isinstance(j.get("version"), str) and j["version"] not in raws:
                raws.append(j["version"])
    ok = {}
    for r in raws:
        try:
            ok[r] = str(Version(r))
        except Exception:  # noqa: BLE001  (InvalidVersion)
            ok[r] = None
    texts = sorted({t for t in ok.values() if t is not None}, key=lambda t: Version(t))
    return [(r, ok[r] is not None, texts.index(ok[r]) if ok[r] is not None else 0, ok[r] or "") for r in raws]


def given_dep(rng) -> str:
    """an element of `deps=`: the constructor does not look at it"""
    return rng.choice([S("not a dependency"), "I 1", "N",
                       "O HTMLDependency [ name " + S("given") + " version O Version [ rank I 0 text " + S("1.0") + " ] ]"])


def deps_arg(rng) -> str:
    r = rng.random()
    if r < 0.35:
        return "N"
    if r < 0.9:
        return "L [ " + "".join(given_dep(rng) + " " for _ in range(rng.choice([0, 1, 2]))) + "]"
    return rng.choice(["U [ ]", "U [ I 1 ]", S("ab"), "I 3", "M [ ]", "T"])


def ph_arg(rng) -> str:
    return rng.choice(["N", "N", S("<meta data-foo>"), S(""), S("PH"), H("PH"), "I 1"])


def html_arg(rng):
    if rng.random() < 0.93:
        h, bodies = html(rng)
        return S(h), bodies
    return rng.choice(["N", H(OPEN + "{}" + CLOSE), "I 3", "L [ ]"]), ["{}"]


def _static_extract(rng):
    h, bodies = html_arg(rng)
    return version_table(bodies), f"[ {h} ]"


def _extract(rng):
    h, bodies = html_arg(rng)
    r = rng.random()
    if r < 0.9:
        fields = f"_html {h} _deps {deps_arg(rng)} _deps_replace_pattern {ph_arg(rng)} "
    elif r < 0.95:
        fields = f"_deps {deps_arg(rng)} _html {h} "
    else:
        fields = rng.choice([f"_html {h} ", f"_deps {deps_arg(rng)} ", ""])
    return version_table(bodies), f"[ O HTMLTextDocument [ {fields}] ]"


def _init(rng):
    h, bodies = html_arg(rng)
    return version_table(bodies), f"[ O HTMLTextDocument [ ] {h} {deps_arg(rng)} {ph_arg(rng)} ]"


C13_GENS = {
    "HTMLTextDocument_static_extract": _static_extract,
    "HTMLTextDocument_extract": _extract,
    "HTMLTextDocument_init": _init,
}


# ------------------------------------------------------------------ render
def penc(v) -> str:
    """a Python value (the kinds that occur in a dependency and in what `as_html_tags` returns) as a pval term"""
    import htmltools
    from packaging.version import Version
    if v is None:
        return "N"
    if v is True:
        return "T"
    if v is False:
        return "F"
    if type(v) is int:
        return f"I {v}"
    if type(v) is str:
        return S(v)
    if type(v) is htmltools.HTML:
        return H(v.as_string())
    if type(v) is list:
        return "L [ " + "".join(penc(x) + " " for x in v) + "]"
    if type(v) is tuple:
        return "U [ " + "".join(penc(x) + " " for x in v) + "]"
    if isinstance(v, dict):
        return "M [ " + "".join(es(k) + " " + penc(x) + " " for k, x in v.items()) + "]"
    if isinstance(v, Version):
        return f"O Version [ rank I {getattr(v, '_rank', 0)} text {S(str(v))} ]"
    if type(v) is htmltools.TagList:
        return "O TagList [ data " + penc(list(v.data)) + " ]"
    if type(v) is htmltools.Tag:
        return f"O Tag [ name {penc(v.name)} attrs {penc(dict(v.attrs))} children {penc(v.children)} add_ws {penc(v.add_ws)} ]"
    raise ValueError(type(v))


def real_dep(rng):
    """a real dependency of every shape the constructor accepts (URL / directory / no source, 0-2 items of each kind, head)"""
    from htmltools import HTMLDependency, HTML, tags
    name = rng.choice(["lib", "a b", "jq", "é", "x<y", "n&m", text(rng) or "z"])
    version = rng.choice(GOOD_VERSIONS)
    src = rng.choice([None, {"href": "https://x/y"}, {"href": "/r&s"}, {"subdir": "www"}, {"subdir": "w w", "package": "htmltools"}])
    kw = {}
    if rng.random() < 0.7:
        kw["script"] = [{"src": rng.choice(["a.js", "x y.js", "ü.js", "q'\"<.js"]), **({"defer": ""} if rng.random() < 0.3 else {})}
                        for _ in range(rng.choice([1, 1, 2]))]
    if rng.random() < 0.5:
        kw["stylesheet"] = [{"href": rng.choice(["s.css", "t&u.css"])} for _ in range(rng.choice([1, 2]))]
    if rng.random() < 0.4:
        kw["meta"] = {"name": "viewport", "content": rng.choice(["width=device-width", "a\"b"])}
    r = rng.random()
    if r < 0.3:
        kw["head"] = rng.choice(["<script>h()</script>", "", "<x>", "plain & text", "</script>"])
    elif r < 0.45:
        kw["head"] = rng.choice([tags.meta(charset="utf-8"), HTML("<b>"), [tags.link(href="z"), "te<xt"], tags.title("a", tags.b("c"))])
    return HTMLDependency(name, version, source=src, all_files=rng.random() < 0.3, **kw)


def dep_term(d, lp, iv, rank: int, table: bool = True) -> str:
    """the dependency as the object the translated functions see: its attributes and, under `as_html_tags`, what the real
    method answers for the argument pair of the line"""
    fields = "".join(f"{k} {penc(v) if k != 'version' else f'O Version [ rank I {rank} text {S(str(v))} ]'} " for k, v in vars(d).items())
    if table:
        pairs = [(lp, iv)]
        tbl = "L [ " + "".join(f"U [ {penc(a)} {penc(b)} {penc(d.as_html_tags(lib_prefix=a, include_version=b))} ] " for a, b in pairs) + "]"
        fields += f"as_html_tags {tbl} "
    return f"O HTMLDependency [ {fields}]"


def _render(rng):
    from packaging.version import Version
    lp = rng.choice(["lib", "lib", None, "x/y", ""])
    iv = rng.choice([True, True, False])
    deps = [real_dep(rng) for _ in range(rng.choice([0, 1, 1, 2, 3]))]
    if deps and rng.random() < 0.2:
        deps.append(deps[0])
    order = sorted({str(d.version) for d in deps}, key=Version)
    dts = [dep_term(d, lp, iv, order.index(str(d.version))) for d in deps]
    r = rng.random()
    if r < 0.06:       # elements that are not dependencies / have no record for the pair
        dts.append(rng.choice([S("not a dep"), "N", "I 1", "O HTMLDependency [ name " + S("n") + " version " + S("1") + " ]"]))
    ph = rng.choice(["PH", "<meta data-foo>", "", "a", "</head>"])
    n = rng.choice([0, 1, 1, 1, 2, 3])
    body = text(rng) + "".join(ph + text(rng) for _ in range(n))
    html_v = S(body) if rng.random() < 0.94 else rng.choice([H(body), "N", "I 1"])
    ph_v = S(ph) if rng.random() < 0.9 else rng.choice(["N", H(ph), "I 1"])
    deps_v = "L [ " + "".join(t + " " for t in dts) + "]"
    if rng.random() < 0.04:
        deps_v = rng.choice(["N", "U [ ]", "I 1"])
    obj = f"O HTMLTextDocument [ _html {html_v} _deps {deps_v} _deps_replace_pattern {ph_v} ]"
    # the table: under which rank the implementation side reports the (deep-copied) Version objects back
    return [(t, True, i, t) for i, t in enumerate(order)], f"[ {obj} {penc(lp)} {penc(iv)} ]"


def _taglist_render(rng):
    lp, iv = "lib", True
    items = []
    for _ in range(rng.choice([0, 1, 2])):
        d = real_dep(rng)
        items += list(d.as_html_tags(lib_prefix=lp, include_version=iv).data)
    if rng.random() < 0.3:
        items.append(rng.choice(["te<xt", 3]) if rng.random() < 0.5 else real_dep(rng))
    from htmltools import HTMLDependency
    terms = [dep_term(x, lp, iv, 0, table=False) if isinstance(x, HTMLDependency) else penc(x) for x in items]
    return [], "[ O TagList [ data L [ " + "".join(t + " " for t in terms) + "] ] ]"


def _serialize(rng):
    d = real_dep(rng)
    r = rng.random()
    t = dep_term(d, None, True, 0, table=False)
    if r < 0.08:        # attribute values the constructor would not produce
        t = rng.choice([
            "O HTMLDependency [ name I 1 version " + S("1") + " source N script L [ ] stylesheet L [ ] meta L [ ] all_files F head N ]",
            "O HTMLDependency [ name " + H("h") + " version " + S("1") + " source N script L [ ] stylesheet L [ ] meta L [ ] all_files F head N ]",
            "O HTMLDependency [ name " + S("n") + " version " + S("1") + " source N script U [ ] stylesheet L [ ] meta L [ ] all_files N head " + S("txt") + " ]",
            "O HTMLDependency [ name " + S("n") + " ]", S("not a dep"), "N"])
    ind = rng.choice(["N", "N", "I 0", "I 2", "I 4", "I 1"]) if rng.random() < 0.97 else rng.choice(["I -1", S("  "), "T"])
    return [(str(d.version), True, 0, str(d.version))], f"[ {t} {ind} ]"


# ------------------------------------------------------------------ the primitives by themselves
def _anyval(rng) -> str:
    """a value of every kind of the universe"""
    return rng.choice(["N", "T", "F", "I 0", "I 3", "D " + es("1.5"), S(""), S("ab"), H(""), H("ab"), "L [ ]", "L [ " + S("a") + " ]",
                       "U [ ]", "U [ " + S("a") + " N ]", "M [ ]", "M [ " + es("a") + " " + S("b") + " ]"])


def _strval(rng) -> str:
    return S(rng.choice(["", "a", "ab", "aXbXc", "XX", "X", "é😀", "</", "aa"]))


def _prim_replace_first(rng):
    r = rng.random()
    if r < 0.7:
        hay = rng.choice(["", "a", "aXbXc", "XaX", "XX", "aaa", "é😀é", "abc"])
        return [], f"[ {rng.choice([S, S, S, H])(hay)} {rng.choice([S, S, S, H])(rng.choice(['', 'X', 'a', 'aa', 'zz', 'é', 'XX', 'abc', 'abcd']))} " \
                   f"{rng.choice([S, S, S, H])(rng.choice(['', 'Y', 'X', 'XX', '<b>']))} ]"
    return [], f"[ {_anyval(rng) if rng.random() < 0.5 else _strval(rng)} {_anyval(rng) if rng.random() < 0.5 else _strval(rng)} " \
               f"{_anyval(rng) if rng.random() < 0.5 else _strval(rng)} ]"


def _prim_scan(rng):
    if rng.random() < 0.85:
        parts = [rng.choice([OPEN, CLOSE, OPEN, CLOSE, "x", "\n", "\r", "</", "<script", "{}", " ", OPEN[:-1], CLOSE[1:], "é"])
                 for _ in range(rng.choice([0, 1, 2, 3, 4, 5, 6, 8]))]
        return [], f"[ {S(''.join(parts))} ]"
    return [], f"[ {_anyval(rng)} ]"


def _prim_json_loads(rng):
    r = rng.random()
    if r < 0.5:
        return [], f"[ {S(body(rng))} ]"
    if r < 0.85:
        return [], f"[ {S(rng.choice(ODD_BODIES + ['[[], {}]', '{\"a\": {\"b\": [true, false, null]}}', '\"\\\\ \\/ \\b\\f\\n\\r\\t \\\"\"', '[ ]', '{ }', ' [ true , null ] ', '[\"a\" \"b\"]', '{\"a\"}', '{\"a\":}', '{:\"a\"}', '[null,,null]', 'nulll', 'TRUE', '\"\\t\"', '\"\t\"', '\"\x7f\"']))} ]"
    return [], f"[ {_anyval(rng)} ]"


def _jsonable(rng, depth=0) -> str:
    r = rng.random()
    if depth > 2 or r < 0.45:
        return rng.choice(["N", "T", "F", S(text(rng)), S("é😀\x7f\x1f\u2028"), S('q"\\/')])
    if r < 0.7:
        return rng.choice(["L", "L", "U"]) + " [ " + "".join(_jsonable(rng, depth + 1) + " " for _ in range(rng.choice([0, 1, 2, 3]))) + "]"
    if r < 0.98:
        ks = rng.sample(["a", "b", "k k", "é", "", '"'], rng.choice([0, 1, 2, 3]))
        return "M [ " + "".join(es(k) + " " + _jsonable(rng, depth + 1) + " " for k in ks) + "]"
    return rng.choice(["I 1", "D " + es("1.5"), H("h"), H("h"), "T"])


def _prim_json_dumps(rng):
    ind = rng.choice(["N", "N", "I 0", "I 1", "I 2", "I 4"]) if rng.random() < 0.97 else rng.choice(["I -1", S(" "), "T", "F"])
    return [], f"[ {_jsonable(rng)} {ind} ]"


def _norm(v: str) -> str:
    from packaging.version import Version
    return str(Version(v))


def _prim_str(rng):
    return [], f"[ {rng.choice([_anyval(rng), 'O Version [ rank I ' + str(rng.choice([0, 1, 2])) + ' text ' + S(_norm(rng.choice(GOOD_VERSIONS))) + ' ]'])} ]"


def _prim_mk_tag(rng):
    name = S(rng.choice(["script", "div", "x-y"])) if rng.random() < 0.97 else _anyval(rng)
    kids = "U [ " + "".join((rng.choice([S, S, H])(text(rng)) if rng.random() < 0.97 else _anyval(rng)) + " " for _ in range(rng.choice([0, 1, 1, 2]))) + "]"
    ks = rng.sample(["type", "data_html_dependency", "class_", "a_b_", "id", "x__", "a"] + (["a_"] if rng.random() < 0.1 else []),
                    rng.choice([0, 1, 2, 2, 3]))
    kw = "M [ " + "".join(es(k) + " " + (rng.choice([S(text(rng)), "T"]) if rng.random() < 0.96 else rng.choice(["F", "N", "I 3", H("h")])) + " " for k in ks) + "]"
    return [], f"[ {name} {kids} {kw} ]"


def _prim_call_kw(rng):
    if rng.random() < 0.15:
        return [], f"[ {_anyval(rng)} ]"
    ks = rng.sample(["a", "b", "c", "d", "e", "self", "A"], rng.choice([0, 1, 2, 2, 3, 4]))
    if rng.random() < 0.5:
        ks = [k for k in ["a", "b"] if k not in ks] + ks
        rng.shuffle(ks)
    return [], "[ M [ " + "".join(es(k) + " " + _anyval(rng) + " " for k in ks) + "] ]"


C13_GENS["prim_replace_first"] = _prim_replace_first
C13_GENS["prim_findall"] = _prim_scan
C13_GENS["prim_sub"] = _prim_scan
C13_GENS["prim_json_loads"] = _prim_json_loads
C13_GENS["prim_json_dumps"] = _prim_json_dumps
C13_GENS["prim_str"] = _prim_str
C13_GENS["prim_mk_tag"] = _prim_mk_tag
C13_GENS["prim_call_kw"] = _prim_call_kw
PRIMS = [k for k in C13_GENS if k.startswith("prim_")]
#: the translated functions of the area
FUNCS = ["HTMLTextDocument_static_extract", "HTMLTextDocument_extract", "HTMLTextDocument_init", "TagList_render",
         "HTMLTextDocument_render", "HTMLDependency_serialize"]

C13_GENS["HTMLDependency_serialize"] = _serialize
C13_GENS["HTMLTextDocument_render"] = _render
C13_GENS["TagList_render"] = _taglist_render


def register(GENS):
    pass


def lines_c13(rng, funcs: list[str], n: int) -> list[str]:
    out = []
    for f in funcs:
        seen = set()
        for _ in range(n):
            tbl, args = C13_GENS[f](rng)
            l = ("srcc13 [ " + "".join(f"{es(raw)} {'T' if ok else 'F'} {rk} {es(text)} " for raw, ok, rk, text in tbl)
                 + f"] {f} {args}")
            if l not in seen:
                seen.add(l)
                out.append(l)
    return out


def add_src_c13(ck, funcs: list[str] | None = None, quick: int = 120, thorough: int = 1500):
    """`Check.add_src` for the functions of this area and the primitives of Py/PrimC13.lean (op `srcc13`)"""
    import core
    funcs = FUNCS + PRIMS if funcs is None else funcs
    ls = lines_c13(ck.rng, funcs, thorough if ck.tier == "thorough" else quick)
    ck.src_lines += list(zip(ls, core.impl_many(ls)))
