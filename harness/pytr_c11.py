"""Translator plug-in for C11 (HTMLDocument builds one head/body and hoists every dependency into head) — DESIGN §14.

Functions (callees first; all of htmltools/_core.py):

  TagAttrDict.__init__                     -> TagAttrDict_initC11          (returns the new self)
  Tag.insert / Tag.extend / Tag.append     -> Tag_insertC11 / Tag_extendC11 / Tag_appendC11   (return the new self)
  HTMLDocument._hoist_head_content         -> HTMLDocument_hoist_head_contentC11
  HTMLDocument._gen_html_tag_tree          -> HTMLDocument_gen_html_tag_treeC11
  Tag.render                               -> Tag_renderC11
  HTMLDocument.render / __init__ / append  -> HTMLDocument_renderC11 / HTMLDocument_initC11 / HTMLDocument_appendC11

They call the translations of other areas (`Tag.tagify`, `TagList.tagify`, `Tag/TagList.get_dependencies`,
`Tag/TagList.get_html_string`, `TagAttrDict.update`, `TagList.__init__ / insert / extend / append`), so their specs are
appended in `register_late` (after every plug-in has registered: translation order = dependency order).  Each is its own
`group` (it takes the fuel argument it hands on to the recursive callees).

New syntax, all of it confined to the functions of this plug-in (`MINE`).  Each item states the syntactic condition
under which the functional reading is what Python does; where the condition is not met the hook raises `Untranslatable`
(the function, and every function that calls it, becomes `…_available = false`).

* `N = copy(e)` -> `pyCopy` (Py/PrimC10.lean: a `PVal` is immutable, the copy is the value).  `N` is then a **fresh object**
  provided it is bound exactly once, by this statement, at the top level of the body, is not a parameter, is never the
  whole right-hand side of another assignment, never an element of a display and never an argument of a call (it may be
  a receiver, and it may be returned).  What is assumed of `copy` on a `Tag` (`Tag.__copy__`, not translated): the values
  of the instance's fields are copied one level, so `N.children` and `N.attrs` are new containers — mutating them does not
  reach the original.

* `R.F[I] = e` with `R` a fresh object: `R := setattr(R, F, setitem(R.F, I, e))` (`pySetItemU`: `F` may hold a UserList).
  Python evaluates `e` first; so does the translation.

* **place alias**  `H = cast(T, R.F[I])` / `H = R.F[I]` — `H` names the object stored at a place of a fresh object.
  Accepted when: the statement is at the top level of the body and the only binding of `H` (not a parameter); `R` is a fresh
  object, `I` a local name; the statement immediately before it is `R.F[I] = copy(R.F[I])` (the same place: the object `H`
  names is itself a copy made here, so — by the assumption on `copy` above — mutating `H.children` reaches nothing else);
  after it, `R` and `I` are not assigned, `R` is not mutated by any other statement (no `R.m(…)` statement, no assignment
  through `R`), and `H` occurs only as the receiver of statement calls `H.m(…)` with `m` one of insert / extend / append,
  whose arguments mention neither `H` nor `R`.  Each such call becomes `H := Tag_m(H, …)` followed by the write-back
  `R := setattr(R, F, setitem(R.F, I, H))`, so that every later read of `R` (the `return R`) sees the mutation, as in
  Python.

* `N.m(a…)` as a statement, `N` a fresh object or a place alias, `m` ∈ insert / extend / append: resolved to the translated
  `Tag.m` (which returns the new `N`); a receiver of any other class is outside the fragment (`pyRecvOfClassC11`:
  `unsupported`).

* `N.attrs.update(**E)` as a statement: accepted when the statement immediately before it (same block) is
  `N = <expr>.tagify()` — `Tag.tagify` returns a copy, whose `attrs` is a new dict (assumption on `copy` above), so the
  update reaches nothing else; becomes `N := setattr(N, "attrs", TagAttrDict.update(N.attrs, (), E'))`.

* `N[K] = e` as a statement, accepted when the statement immediately before it (same block) is `N = <call>` and `e` does
  not mention names other than `N`, constants: the dict is the new one the call returned (`Tag.render` builds it with a
  display).  `pySetItem`.

* star arguments in calls of translated functions (`star_call`): `f(a…, *S)` where the explicit positional arguments fill
  all named parameters of `f` (then `*args := tuple(extras) + tuple(S)`), or leave exactly one unfilled
  (`pyStarSplit1C11`: the first item of `S` binds it, none is TypeError); `f(…, **E)` where `f` has `**kwargs` and the call
  gives no other extra keyword (`pyKwSplatC11`: a key of `E` equal to a named parameter that the call supplies is
  "multiple values" — TypeError —, one equal to a named parameter it does not supply is outside the fragment).

* `super().__init__()` with no argument in a `dict` subclass: `pyDictInit0C11` (leaves the dict as it is).

* `Tag(name, kid…, _add_ws=w, k=v… | **E)` -> `mkTagC11` (Py/PrimC11.lean): **`Tag.__init__` is not translated in this area**;
  the attributes go through the translated `TagAttrDict.update` on an empty dict (`TagAttrDict.__init__` is translated:
  `super().__init__(); self.update(*args, **kwargs)` — its tie is `src_TagAttrDict_initC11`), the children must already be
  normalised (plain tag nodes, or a TagList of such; anything else is `unsupported`).  Accepted only when `Tag` is the class
  of this module, no positional argument is starred, and the keywords are either all explicit or a single `**E`.

* `C.m(a…)` where `C` is the name of the class being translated and `m` one of its translated static methods.

* `x.tagify()`, `len(x)`, `x[i]`: as in pytr_c10.py (`pyTagifyObj`, `pyLenU`, `pyGetItemU`); `str(x)` -> `pyStrC11` (also
  for a `packaging` Version); `x.render()` decided by the class of `x` (a `Tag` goes to the translated `Tag.render`);
  `d.as_html_tags(lib_prefix=…, include_version=…)` -> `pyAsHtmlTagsC11 G d lp iv` (**not translated**: a parameter).

* a list comprehension in *argument position* of a simple statement (`head.extend([… for d in deps])`,
  `Tag("script", ";".join([… for d in deps]), …)`): the loop is emitted before the statement (`Fn.listcomp_stmts`) and its
  value used in place.  Accepted when everything Python evaluates before the comprehension in that statement is a name or
  a constant (so hoisting the loop changes neither the order of effects nor which exception is raised first).
"""
from __future__ import annotations

import ast

T = None

F = "htmltools/_core.py"
#: (qualname, lean name, returns_self, takes fuel — it calls fuel-recursive translations and hands the fuel on)
FUNCS = [
    ("TagAttrDict.__init__", "TagAttrDict_initC11", True, False),
    ("Tag.insert", "Tag_insertC11", True, True),
    ("Tag.extend", "Tag_extendC11", True, True),
    ("Tag.append", "Tag_appendC11", True, True),
    ("HTMLDocument._hoist_head_content", "HTMLDocument_hoist_head_contentC11", False, True),
    ("HTMLDocument._gen_html_tag_tree", "HTMLDocument_gen_html_tag_treeC11", False, True),
    ("Tag.render", "Tag_renderC11", False, True),
    ("HTMLDocument.render", "HTMLDocument_renderC11", False, True),
    ("HTMLDocument.__init__", "HTMLDocument_initC11", True, True),
    ("HTMLDocument.append", "HTMLDocument_appendC11", True, True),
]
MINE = {f[1] for f in FUNCS}
ARITIES = {"TagAttrDict_initC11": 3, "Tag_insertC11": 3, "Tag_extendC11": 2, "Tag_appendC11": 2,
           "HTMLDocument_hoist_head_contentC11": 3, "HTMLDocument_gen_html_tag_treeC11": 3, "Tag_renderC11": 1,
           "HTMLDocument_renderC11": 3, "HTMLDocument_initC11": 3, "HTMLDocument_appendC11": 2}
MUTATORS = ("insert", "extend", "append")
#: named parameters of `Tag.__init__(self, _name, *args, _add_ws=True, **kwargs)` (the class is not translated here; the
#: hook checks these against the source text, see `tag_init_signature_ok`)
TAG_INIT = dict(pos=["self", "_name"], vararg="args", kwonly=["_add_ws"], kwarg="kwargs")


# ---------------------------------------------------------------------------------------------- per-function analysis
class A:
    """facts about one function, computed once from the AST"""

    def __init__(self, fn):
        self.fn = fn
        node = fn.node
        self.parent: dict[int, ast.AST] = {}
        for p in ast.walk(node):
            for c in ast.iter_child_nodes(p):
                self.parent[id(c)] = p
        self.nested = any(n is not node and isinstance(n, (ast.FunctionDef, ast.Lambda, ast.AsyncFunctionDef, ast.ClassDef))
                          for n in ast.walk(node))
        self.stores: dict[str, int] = {}
        for n in ast.walk(node):
            if isinstance(n, ast.Name) and isinstance(n.ctx, (ast.Store, ast.Del)):
                self.stores[n.id] = self.stores.get(n.id, 0) + 1
        self.fresh_objs = self.find_copy_bound()
        self.alias: dict[str, tuple[str, str, str, ast.stmt]] = {}    # H -> (R, F, I, the binding statement)
        self.find_aliases()
        self.subst: dict[int, str] = {}                                # id(ListComp) -> Lean term of its value

    # -- blocks
    def block_of(self, s: ast.stmt):
        p = self.parent.get(id(s))
        if p is None:
            return None
        for fld in ("body", "orelse", "finalbody"):
            b = getattr(p, fld, None)
            if isinstance(b, list) and any(x is s for x in b):
                return b
        return None

    def prev_stmt(self, s: ast.stmt):
        b = self.block_of(s)
        if b is None:
            return None
        k = next(i for i, x in enumerate(b) if x is s)
        k -= 1
        while k >= 0 and isinstance(b[k], ast.Expr) and isinstance(b[k].value, ast.Constant) and isinstance(b[k].value.value, str):
            k -= 1          # a docstring-like string statement does nothing
        return b[k] if k >= 0 else None

    # -- fresh objects
    def find_copy_bound(self) -> set[str]:
        fn = self.fn
        if self.nested:
            return set()
        cand = set()
        for s in fn.node.body:
            if isinstance(s, ast.Assign) and len(s.targets) == 1 and isinstance(s.targets[0], ast.Name) and is_copy_call(s.value):
                cand.add(s.targets[0].id)
        bad = set()
        for n in ast.walk(fn.node):
            v = None
            if isinstance(n, ast.Assign):
                v = n.value
            elif isinstance(n, (ast.AnnAssign, ast.AugAssign, ast.NamedExpr)):
                v = n.value
            if v is not None:
                if isinstance(v, ast.Name):
                    bad.add(v.id)
                if isinstance(v, ast.Call) and is_cast_like(v) and isinstance(v.args[1], ast.Name):
                    bad.add(v.args[1].id)
            if isinstance(n, (ast.List, ast.Tuple, ast.Dict, ast.Set)) and isinstance(getattr(n, "ctx", ast.Load()), ast.Load):
                for x in ast.iter_child_nodes(n):
                    if isinstance(x, ast.Name):
                        bad.add(x.id)
                    if isinstance(x, ast.Starred) and isinstance(x.value, ast.Name):
                        bad.add(x.value.id)
            if isinstance(n, ast.Call) and not (isinstance(n.func, ast.Name) and n.func.id in ("len", "isinstance")):
                for a in list(n.args) + [k.value for k in n.keywords]:
                    if isinstance(a, ast.Name):
                        bad.add(a.id)
                    if isinstance(a, ast.Starred) and isinstance(a.value, ast.Name):
                        bad.add(a.value.id)
            if isinstance(n, (ast.Yield, ast.YieldFrom, ast.Await)):
                return set()
        return {c for c in cand if self.stores.get(c, 0) == 1 and c not in bad and c not in fn.all_params}

    # -- place aliases
    @staticmethod
    def place(e: ast.expr):
        """(R, F, I) if `e` is `R.F[I]` with names R, I"""
        if (isinstance(e, ast.Subscript) and not isinstance(e.slice, ast.Slice) and isinstance(e.slice, ast.Name)
                and isinstance(e.value, ast.Attribute) and isinstance(e.value.value, ast.Name)):
            return e.value.value.id, e.value.attr, e.slice.id
        return None

    def find_aliases(self):
        fn = self.fn
        if self.nested:
            return
        body = fn.node.body
        for k, s in enumerate(body):
            if not (isinstance(s, ast.Assign) and len(s.targets) == 1 and isinstance(s.targets[0], ast.Name)):
                continue
            v = s.value
            if isinstance(v, ast.Call) and is_cast_like(v):
                v = v.args[1]
            pl = self.place(v)
            if pl is None:
                continue
            h = s.targets[0].id
            r, f, i = pl
            if r not in self.fresh_objs:
                continue
            why = self.alias_problem(h, r, f, i, k)
            if why is None:
                self.alias[h] = (r, f, i, s)
            else:
                self.alias_refused = getattr(self, "alias_refused", {})
                self.alias_refused[h] = why

    def alias_problem(self, h, r, f, i, k) -> str | None:
        fn = self.fn
        body = fn.node.body
        if h in fn.all_params or self.stores.get(h, 0) != 1:
            return f"`{h}` is bound more than once"
        if i in fn.all_params and False:
            return None
        # the statement before: R.F[I] = copy(R.F[I])
        prev = self.prev_stmt(body[k])
        ok = (isinstance(prev, ast.Assign) and len(prev.targets) == 1 and self.place(prev.targets[0]) == (r, f, i)
              and is_copy_call(prev.value) and self.place(prev.value.args[0]) == (r, f, i))
        if not ok:
            return f"the object `{h}` names is not a copy made by the statement before (`{r}.{f}[{i}] = copy({r}.{f}[{i}])`)"
        for s in body[k + 1:]:
            for n in ast.walk(s):
                if isinstance(n, ast.Name) and n.id in (r, i) and isinstance(n.ctx, (ast.Store, ast.Del)):
                    return f"`{n.id}` is assigned after `{h}` was bound to a place of it"
                if isinstance(n, ast.Name) and n.id == r:
                    p = self.parent.get(id(n))
                    if isinstance(p, ast.Return) and p.value is n:
                        continue
                    return f"`{r}` is used after `{h}` was bound to a place of it, other than in `return {r}`"
                if isinstance(n, ast.Name) and n.id == h:
                    if not self.is_mutator_receiver(n, forbid=(h, r)):
                        return f"`{h}` is used other than as the receiver of a statement call of insert / extend / append"
        for s in body[:k]:
            for n in ast.walk(s):
                if isinstance(n, ast.Name) and n.id == h:
                    return f"`{h}` is used before it is bound"
        return None

    def is_mutator_receiver(self, occ: ast.Name, forbid=()) -> bool:
        a = self.parent.get(id(occ))
        if not (isinstance(a, ast.Attribute) and a.value is occ and a.attr in MUTATORS):
            return False
        c = self.parent.get(id(a))
        if not (isinstance(c, ast.Call) and c.func is a):
            return False
        if not isinstance(self.parent.get(id(c)), ast.Expr):
            return False
        for x in list(c.args) + [k.value for k in c.keywords]:
            for n in ast.walk(x):
                if isinstance(n, ast.Name) and n.id in forbid:
                    return False
        return True


def analysis(fn) -> A:
    a = getattr(fn, "_c11", None)
    if a is None:
        a = A(fn)
        fn._c11 = a
    return a


def is_copy_call(e) -> bool:
    return (isinstance(e, ast.Call) and isinstance(e.func, ast.Name) and e.func.id == "copy" and len(e.args) == 1
            and not e.keywords and not isinstance(e.args[0], ast.Starred))


def is_cast_like(e) -> bool:
    return (isinstance(e, ast.Call) and isinstance(e.func, ast.Name) and e.func.id == "cast" and len(e.args) == 2
            and not e.keywords and not any(isinstance(a, ast.Starred) for a in e.args))


def _module(fn) -> ast.Module:
    import os
    cache = _module.__dict__.setdefault("cache", {})
    path = os.path.join(T.repo(), fn.spec.file)
    if path not in cache:
        with open(path, encoding="utf-8") as f:
            cache[path] = ast.parse(f.read())
    return cache[path]


def module_binds(fn, name: str, kinds=(ast.ClassDef,)) -> ast.AST | None:
    """the single module-level definition of `name` (a class), if the module binds the name in no other way"""
    found = None
    for n in _module(fn).body:
        if isinstance(n, (ast.ClassDef, ast.FunctionDef, ast.AsyncFunctionDef)) and n.name == name:
            if found is not None:
                return None
            found = n
        if isinstance(n, ast.Assign) and any(isinstance(t, ast.Name) and t.id == name for t in n.targets):
            return None
        if isinstance(n, (ast.Import, ast.ImportFrom)) and any((a.asname or a.name) == name for a in n.names):
            return None
    return found if isinstance(found, kinds) else None


def local_or_param(fn, name: str) -> bool:
    return name in fn.all_params or name in fn.locals


def tag_init_signature_ok(fn) -> str | None:
    """`Tag.__init__` still has the signature `mkTagC11` was written for"""
    cls = module_binds(fn, "Tag")
    if cls is None:
        return "`Tag` is not the class of this module"
    if cls.keywords or any(isinstance(m, ast.FunctionDef) and m.name in ("__new__", "__init_subclass__") for m in cls.body):
        return "`Tag` has a metaclass / __new__"
    init = next((m for m in cls.body if isinstance(m, ast.FunctionDef) and m.name == "__init__"), None)
    if init is None:
        return "`Tag` has no __init__"
    a = init.args
    sig = dict(pos=[x.arg for x in a.posonlyargs + a.args], vararg=a.vararg.arg if a.vararg else None,
               kwonly=[x.arg for x in a.kwonlyargs], kwarg=a.kwarg.arg if a.kwarg else None)
    if sig != TAG_INIT:
        return f"`Tag.__init__` has another signature ({sig})"
    d = a.kw_defaults[0]
    if not (isinstance(d, ast.Constant) and d.value is True) or a.defaults:
        return "`Tag.__init__` has other defaults"
    return None


def trivial(e: ast.expr) -> bool:
    return isinstance(e, (ast.Constant, ast.Name))


# ---------------------------------------------------------------------------------------------- calls with star arguments
def star_call(fn, info, args, kws, recv):
    """the Lean term of a call of the translated function `info` whose arguments include `*S` and / or `**E`
    (see the module docstring); `recv` is the Lean term of the receiver or None"""
    if not info.available:
        raise T.Untranslatable(f"calls {info.spec.qual}, which is not translated")
    params = list(info.params)
    vals: dict[str, str] = {}
    rest = params
    if recv is not None:
        vals[params[0]] = recv
        rest = params[1:]
    star = [a for a in args if isinstance(a, ast.Starred)]
    if len(star) > 1 or (star and args[-1] is not star[0]):
        raise T.Untranslatable("more than one starred argument / a positional argument after it")
    dstar = [k for k in kws if k.arg is None]
    if len(dstar) > 1:
        raise T.Untranslatable("more than one ** argument")
    plain = [a for a in args if not isinstance(a, ast.Starred)]
    pre = ""
    if len(plain) > len(rest) and info.vararg is None:
        raise T.ArityMismatch("too many arguments")
    for p, a in zip(rest, plain):
        vals[p] = fn.V(a)
    extras = [fn.V(a) for a in plain[len(rest):]]
    unfilled = rest[len(plain):]
    if star:
        s = fn.V(star[0].value)
        if not unfilled:
            if info.vararg is None:
                raise T.Untranslatable("starred argument for a function without *args")
            vals[info.vararg] = (f"(← pyStarArgsC11 {s})" if not extras
                                 else f"(PVal.tuple ([{', '.join(extras)}] ++ (← pyIter {s})))")
        elif len(unfilled) == 1 and info.vararg is not None and unfilled[0] not in info.defaults \
                and not any(k.arg == unfilled[0] for k in kws):
            sp = fn.fresh("sp")
            pre = sp
            vals[unfilled[0]] = f"{sp}.1"
            vals[info.vararg] = f"{sp}.2"
            star_term = s
        else:
            raise T.Untranslatable("a starred argument that fills more than one named parameter")
    elif info.vararg is not None:
        vals[info.vararg] = "(PVal.tuple [" + ", ".join(extras) + "])"
    kwextra = []
    for k in kws:
        if k.arg is None:
            continue
        if k.arg in vals:
            raise T.ArityMismatch("duplicate argument")
        if k.arg in info.params or k.arg in info.kwonly:
            vals[k.arg] = fn.V(k.value)
        elif info.kwarg is not None:
            kwextra.append((k.arg, fn.V(k.value)))
        else:
            raise T.ArityMismatch(f"unknown keyword {k.arg}")
    if dstar:
        if info.kwarg is None:
            raise T.Untranslatable("** argument for a function without **kwargs")
        if kwextra:
            raise T.Untranslatable("** argument together with other extra keywords")
        named = [p for p in list(info.params) + list(info.kwonly)]
        supplied = [p for p in named if p in vals]
        open_ = [p for p in named if p not in vals]
        vals[info.kwarg] = (f"(← pyKwSplatC11 {fn.V(dstar[0].value)} [{', '.join(T.lstr(p) for p in supplied)}] "
                            f"[{', '.join(T.lstr(p) for p in open_)}])")
    elif info.kwarg is not None:
        vals[info.kwarg] = "(PVal.dict [" + ", ".join(f"({T.lstr(k)}, {v})" for k, v in kwextra) + "])"
    out = []
    for p in info.all_params:
        if p in vals:
            out.append(vals[p])
        elif p in info.defaults:
            d = info.defaults[p]
            if not isinstance(d, ast.Constant):
                raise T.Untranslatable("non-constant default")
            out.append(fn.const(d.value))
        else:
            raise T.ArityMismatch(f"missing argument {p}")
    fuel = " fuel" if info.spec.recursive else ""
    call = f"(← {info.spec.lean} G{fuel} " + " ".join(out) + ")"
    if pre:
        return call, (pre, star_term)
    return call, None


def has_star(c: ast.Call) -> bool:
    return any(isinstance(a, ast.Starred) for a in c.args) or any(k.arg is None for k in c.keywords)


def emit_pre(fn, ind, pre):
    if pre is not None:
        sp, term = pre
        fn.emit(ind, f"let {sp} ← pyStarSplit1C11 {term}")


def find_info(fn, qual: str):
    return fn.pick(qual) if hasattr(fn, "pick") else next((i for i in fn.known.values() if i.spec.qual == qual), None)


# ---------------------------------------------------------------------------------------------- `Tag(…)`
def mk_tag(fn, e: ast.Call) -> str:
    why = tag_init_signature_ok(fn)
    if why:
        raise T.Untranslatable(f"constructor call Tag(…): {why}")
    upd = fn.known.get("TagAttrDict_update")
    ini = fn.known.get("TagAttrDict_initC11")
    if upd is None or not upd.available or ini is None or not ini.available:
        raise T.Untranslatable("constructor call Tag(…): TagAttrDict.update / TagAttrDict.__init__ is not translated")
    if not e.args or any(isinstance(a, ast.Starred) for a in e.args):
        raise T.Untranslatable("constructor call Tag(…) without a name / with starred children")
    # evaluation order: positional arguments, then keywords in source order
    name = fn.V(e.args[0])
    kids = [fn.V(a) for a in e.args[1:]]
    has_ws = any(k.arg == "_add_ws" for k in e.keywords)
    if sum(1 for k in e.keywords if k.arg is None) > 1:
        raise T.Untranslatable("constructor call Tag(…) with more than one ** argument")
    wsterm = "(PVal.bool true)"           # the default of `_add_ws` (checked by tag_init_signature_ok)
    explicit = []
    splat = None
    for k in e.keywords:
        if k.arg is None:
            supplied = ["self", "_name"] + (["_add_ws"] if has_ws else [])
            open_ = [] if has_ws else ["_add_ws"]
            splat = (f"(← pyKwSplatC11 {fn.V(k.value)} [{', '.join(T.lstr(p) for p in supplied)}] "
                     f"[{', '.join(T.lstr(p) for p in open_)}])")
        elif k.arg == "_add_ws":
            # emitted before the attribute keywords: must not change the order of evaluation
            if not trivial(k.value) and e.keywords[0] is not k:
                raise T.Untranslatable("constructor call Tag(…): a computed `_add_ws=` after other keywords")
            wsterm = fn.V(k.value)
        elif k.arg in ("self", "_name"):
            raise T.Untranslatable(f"constructor call Tag(…) with keyword {k.arg}")
        else:
            explicit.append((k.arg, fn.V(k.value)))
    if splat is not None and explicit:
        raise T.Untranslatable("constructor call Tag(…) with ** and other attribute keywords")
    kw = splat if splat is not None else "(PVal.dict [" + ", ".join(f"({T.lstr(a)}, {v})" for a, v in explicit) + "])"
    # TagAttrDict(**kw): the translated __init__ on a new, empty dict
    if ini.spec.recursive or upd.spec.recursive or list(ini.all_params) != ["self", "args", "kwargs"]:
        raise T.Untranslatable("constructor call Tag(…): TagAttrDict.__init__ has another signature")
    attrs = f"(← TagAttrDict_initC11 G (PVal.dict []) (PVal.tuple []) {kw})"
    # Python evaluates the positional arguments, then the keywords, then runs `__init__`
    return f"(← mkTagC11 {name} [{', '.join(kids)}] {wsterm} {attrs})"


# ---------------------------------------------------------------------------------------------- expressions
def expr_hook(fn, e):
    if fn.spec.lean not in MINE:
        return None
    a = analysis(fn)
    if id(e) in a.subst:
        return a.subst[id(e)]
    if is_copy_call(e) and not local_or_param(fn, "copy"):
        return f"(← pyCopy {fn.V(e.args[0])})"
    if isinstance(e, ast.Subscript) and not isinstance(e.slice, ast.Slice):
        return f"(← pyGetItemU {fn.V(e.value)} {fn.V(e.slice)})"
    if not isinstance(e, ast.Call):
        return None
    f = e.func
    if isinstance(f, ast.Name) and not local_or_param(fn, f.id):
        if f.id == "len" and len(e.args) == 1 and not e.keywords and not has_star(e):
            return f"(← pyLenU {fn.V(e.args[0])})"
        if f.id == "str" and len(e.args) == 1 and not e.keywords and not has_star(e):
            return f"(← pyStrC11 {fn.V(e.args[0])})"
        if f.id == "Tag":
            return mk_tag(fn, e)
        return None
    if not isinstance(f, ast.Attribute):
        return None
    # C.m(a…): a translated static method of the class being translated
    if isinstance(f.value, ast.Name) and fn.cls is not None and f.value.id == fn.cls.name and not local_or_param(fn, f.value.id):
        info = find_info(fn, f"{fn.cls.name}.{f.attr}")
        m = next((x for x in fn.cls.body if isinstance(x, ast.FunctionDef) and x.name == f.attr), None)
        static = m is not None and any(isinstance(d, ast.Name) and d.id == "staticmethod" for d in m.decorator_list)
        if info is None or not static or module_binds(fn, fn.cls.name) is None:
            raise T.Untranslatable(f"call of {f.value.id}.{f.attr}: not a translated static method of this class")
        if info.spec.returns_self:
            raise T.Untranslatable("self-mutating method used as an expression")
        if has_star(e):
            raise T.Untranslatable("star arguments in a static-method call")
        return fn.call_known(info, e.args, e.keywords, recv=None)
    if f.attr == "tagify":
        if e.args or e.keywords:
            raise T.Untranslatable("tagify() with arguments")
        recv = fn.V(f.value)
        arms = []
        for cls in ("Tag", "TagList"):
            info = find_info(fn, f"{cls}.tagify")
            if info is None or not info.available:
                raise T.Untranslatable(f"method {cls}.tagify is not translated")
            arms.append(f'| "{cls}" => (do pure {fn.call_known(info, [], [], recv=recv)})')
        return f"(← (match pyClassOf {recv} with " + " ".join(arms) + f" | _ => (do pyTagifyObj {recv})))"
    if f.attr in T.DISPATCH:
        # as the base translator does, but as a *term* (parenthesised): a `match` directly after `←` is a do-`match`, whose
        # continuation becomes a join point that every later rewriting step copies into each arm
        recv = fn.V(f.value)
        arms = []
        for cls in T.DISPATCH[f.attr]:
            info = find_info(fn, f"{cls}.{f.attr}")
            if info is None or not info.available:
                raise T.Untranslatable(f"method {cls}.{f.attr} is not translated")
            if has_star(e):
                raise T.Untranslatable(f"star arguments in a call of .{f.attr}()")
            try:
                arms.append(f'| "{cls}" => (do pure {fn.call_known(info, e.args, e.keywords, recv=recv)})')
            except T.ArityMismatch:
                arms.append(f'| "{cls}" => throw PyErr.typeError')
        return f"(← (match pyClassOf {recv} with " + " ".join(arms) + " | _ => throw PyErr.attributeError))"
    if f.attr == "render":
        if e.args or e.keywords:
            raise T.Untranslatable("render() with arguments")
        recv = fn.V(f.value)
        info = find_info(fn, "Tag.render")
        if info is None or not info.available:
            raise T.Untranslatable("method Tag.render is not translated")
        return (f'(← (match pyClassOf {recv} with | "Tag" => (do pure {fn.call_known(info, [], [], recv=recv)}) '
                f"| _ => throw PyErr.unsupported))")
    if f.attr == "as_html_tags":
        kw = {k.arg: k.value for k in e.keywords}
        if e.args or set(kw) != {"lib_prefix", "include_version"} or len(e.keywords) != 2:
            raise T.Untranslatable("as_html_tags(…) other than with the keywords lib_prefix=, include_version=")
        recv = fn.V(f.value)
        # keywords are evaluated in source order
        terms = {k.arg: fn.V(k.value) for k in e.keywords}
        return f"(← pyAsHtmlTagsC11 G {recv} {terms['lib_prefix']} {terms['include_version']})"
    return None


# ---------------------------------------------------------------------------------------------- statements
def hoist_comprehensions(fn, ind, s) -> None:
    """list comprehensions in argument position of a simple statement: emitted before it"""
    a = analysis(fn)
    if not isinstance(s, (ast.Expr, ast.Assign, ast.Return, ast.AnnAssign)):
        return
    root = s.value
    if root is None:
        return
    comps = [n for n in ast.walk(root) if isinstance(n, ast.ListComp) and id(n) not in a.subst]
    if isinstance(s, (ast.Assign, ast.AnnAssign)) and isinstance(root, ast.ListComp):
        comps = [c for c in comps if c is not root]       # the base translator handles `x = [...]`
    if not comps:
        return
    if len(comps) > 1:
        raise T.Untranslatable("more than one list comprehension in one statement")
    comp = comps[0]
    # the path from the statement's expression down to the comprehension
    path = [comp]
    while path[-1] is not root:
        path.append(a.parent[id(path[-1])])
    path.reverse()
    for up, down in zip(path, path[1:]):
        if not isinstance(up, ast.Call) or any(k.value is down for k in up.keywords):
            raise T.Untranslatable("a list comprehension that is not a positional argument of a call")
        if not any(x is down for x in up.args):
            raise T.Untranslatable("a list comprehension in the callee expression of a call")
        fu = up.func
        if not (isinstance(fu, ast.Name) or (isinstance(fu, ast.Attribute) and trivial(fu.value))):
            raise T.Untranslatable("a list comprehension argument of a computed callee")
        for x in up.args:
            if x is down:
                break
            if not trivial(x):
                raise T.Untranslatable("something that is not a name or a constant is evaluated before the list comprehension")
    a.subst[id(comp)] = fn.listcomp_stmts(ind, comp)


def write_back(fn, ind, h):
    a = analysis(fn)
    r, f, i, _ = a.alias[h]
    R, I, H = fn.name(r), fn.name(i), fn.name(h)
    fn.emit(ind, f'{R} := (← pySetAttr {R} "{f}" (← pySetItemU (← pyGetAttr {R} "{f}") {I} {H}))')


def stmt_hook(fn, ind, s):
    if fn.spec.lean not in MINE:
        return False
    a = analysis(fn)
    hoist_comprehensions(fn, ind, s)

    # ---- N = copy(e): N becomes a fresh object; H = cast(T, R.F[I]): a place alias
    if isinstance(s, ast.Assign) and len(s.targets) == 1 and isinstance(s.targets[0], ast.Name):
        n = s.targets[0].id
        if is_copy_call(s.value) and n in a.fresh_objs:
            fn.fresh_objects.add(n)
        return False       # the ordinary assignment path emits it

    # ---- R.F[I] = e
    if isinstance(s, ast.Assign) and len(s.targets) == 1 and isinstance(s.targets[0], ast.Subscript) \
            and isinstance(s.targets[0].value, ast.Attribute):
        t = s.targets[0]
        at = t.value
        if not (isinstance(at.value, ast.Name) and at.value.id in a.fresh_objs and not isinstance(t.slice, ast.Slice)):
            raise T.Untranslatable("item assignment through an attribute of something that is not a copy made in this function")
        if any(h for h, (r, f, i, st) in a.alias.items() if r == at.value.id and st.lineno < s.lineno):
            raise T.Untranslatable(f"`{at.value.id}` is mutated after a local was bound to a place of it")
        if isinstance(s.value, ast.Name) and (s.value.id in a.fresh_objs or s.value.id in fn.fresh_containers):
            raise T.Untranslatable("a fresh object is stored in a container")
        R = fn.name(at.value.id)
        rhs = fn.fresh("rhs")
        fn.emit(ind, f"let {rhs} := {fn.V(s.value)}")
        fn.emit(ind, f'{R} := (← pySetAttr {R} "{at.attr}" (← pySetItemU (← pyGetAttr {R} "{at.attr}") {fn.V(t.slice)} {rhs}))')
        return True

    # ---- N[K] = e on the dict the call in the statement before returned
    if isinstance(s, ast.Assign) and len(s.targets) == 1 and isinstance(s.targets[0], ast.Subscript) \
            and isinstance(s.targets[0].value, ast.Name) and not isinstance(s.targets[0].slice, ast.Slice) \
            and s.targets[0].value.id not in fn.fresh_containers:
        t = s.targets[0]
        n = t.value.id
        prev = a.prev_stmt(s)
        if not (isinstance(prev, ast.Assign) and len(prev.targets) == 1 and isinstance(prev.targets[0], ast.Name)
                and prev.targets[0].id == n and isinstance(prev.value, ast.Call) and n not in fn.all_params):
            raise T.Untranslatable(f"item assignment into {n}, which is not the value a call in the statement before returned")
        for x in list(ast.walk(s.value)) + list(ast.walk(t.slice)):
            if isinstance(x, ast.Name) and x.id != n:
                raise T.Untranslatable(f"item assignment into {n}: the right-hand side mentions other names")
        N = fn.name(n)
        rhs = fn.fresh("rhs")
        fn.emit(ind, f"let {rhs} := {fn.V(s.value)}")
        fn.emit(ind, f"{N} := (← pySetItem {N} {fn.V(t.slice)} {rhs})")
        return True

    if not (isinstance(s, ast.Expr) and isinstance(s.value, ast.Call)):
        return False
    c = s.value
    f = c.func

    # ---- super().__init__() in a dict subclass
    if (isinstance(f, ast.Attribute) and f.attr == "__init__" and isinstance(f.value, ast.Call) and isinstance(f.value.func, ast.Name)
            and f.value.func.id == "super" and not f.value.args and not f.value.keywords and fn.cls is not None):
        is_dict = len(fn.cls.bases) == 1 and not fn.cls.keywords and (
            isinstance(fn.cls.bases[0], ast.Name) and fn.cls.bases[0].id == "dict"
            or isinstance(fn.cls.bases[0], ast.Subscript) and isinstance(fn.cls.bases[0].value, ast.Name)
            and fn.cls.bases[0].value.id in ("dict", "Dict"))
        if not is_dict or c.args or c.keywords or "self" not in fn.all_params:
            raise T.Untranslatable("super().__init__(…) other than dict.__init__() without arguments")
        me = fn.name("self")
        fn.mutates_self = True
        fn.emit(ind, f"{me} := (← pyDictInit0C11 {me})")
        return True

    if not isinstance(f, ast.Attribute):
        return False

    # ---- self.m(*A, **K): a translated self-mutating method of the same class, with star arguments
    if isinstance(f.value, ast.Name) and f.value.id == "self" and fn.cls is not None and has_star(c) and "self" in fn.all_params:
        info = find_info(fn, f"{fn.cls.name}.{f.attr}")
        if info is None or not info.spec.returns_self:
            raise T.Untranslatable(f"star arguments in a call of self.{f.attr}, which is not a translated self-mutating method")
        me = fn.name("self")
        call, pre = star_call(fn, info, c.args, c.keywords, recv=me)
        emit_pre(fn, ind, pre)
        fn.mutates_self = True
        fn.emit(ind, f"{me} := {call}")
        return True

    # ---- self.<field>.<m>(…): the field holds an instance whose translated method mutates it (with or without star
    #      arguments).  The method is resolved statically (T.FIELD_CLASS); a receiver of another class is `unsupported`.
    if (isinstance(f.value, ast.Attribute) and isinstance(f.value.value, ast.Name) and f.value.value.id == "self"
            and fn.cls is not None and (fn.cls.name, f.value.attr) in T.FIELD_CLASS and "self" in fn.all_params):
        owner = T.FIELD_CLASS[(fn.cls.name, f.value.attr)]
        info = find_info(fn, f"{owner}.{f.attr}")
        if info is None or not info.spec.returns_self:
            raise T.Untranslatable(f"call of {owner}.{f.attr}, which is not a translated self-mutating method")
        me = fn.name("self")
        fld = f.value.attr
        rv = fn.fresh("recv")           # Python evaluates the receiver before it unpacks the starred arguments
        fn.emit(ind, f'let {rv} ← pyRecvOfClassC11 (← pyGetAttr {me} "{fld}") "{owner}"')
        call, pre = star_call(fn, info, c.args, c.keywords, recv=rv)
        emit_pre(fn, ind, pre)
        fn.mutates_self = True
        fn.emit(ind, f'{me} := (← pySetAttr {me} "{fld}" {call})')
        return True

    # ---- N.attrs.update(**E) right after N = <expr>.tagify()
    if (isinstance(f.value, ast.Attribute) and isinstance(f.value.value, ast.Name) and f.attr == "update"
            and f.value.value.id != "self"):
        n, fld = f.value.value.id, f.value.attr
        prev = a.prev_stmt(s)
        ok = (isinstance(prev, ast.Assign) and len(prev.targets) == 1 and isinstance(prev.targets[0], ast.Name)
              and prev.targets[0].id == n and isinstance(prev.value, ast.Call) and isinstance(prev.value.func, ast.Attribute)
              and prev.value.func.attr == "tagify" and not prev.value.args and not prev.value.keywords
              and n in fn.locals)
        if not ok or (fld != "attrs"):
            raise T.Untranslatable(f"`{n}.{fld}.update(…)`: `{n}` is not bound by `{n} = ….tagify()` in the statement before")
        owner = T.FIELD_CLASS.get(("Tag", fld))
        info = find_info(fn, f"{owner}.update") if owner else None
        if info is None or not info.spec.returns_self:
            raise T.Untranslatable(f"{owner}.update is not a translated self-mutating method")
        for x in list(c.args) + [k.value for k in c.keywords]:
            if any(isinstance(y, ast.Name) and y.id == n for y in ast.walk(x)):
                raise T.Untranslatable(f"`{n}.{fld}.update(…)`: an argument mentions `{n}`")
        N = fn.name(n)
        rv = fn.fresh("recv")
        fn.emit(ind, f'let {rv} ← pyRecvOfClassC11 (← pyGetAttr {N} "{fld}") "dict"')     # a TagAttrDict is a `.dict`
        call, pre = star_call(fn, info, c.args, c.keywords, recv=rv)
        emit_pre(fn, ind, pre)
        fn.emit(ind, f'{N} := (← pySetAttr {N} "{fld}" {call})')
        return True

    # ---- N.m(a…) on a fresh object / a place alias
    if isinstance(f.value, ast.Name) and f.attr in MUTATORS and f.value.id != "self" and f.value.id in fn.locals:
        n = f.value.id
        if n in getattr(a, "alias_refused", {}):
            raise T.Untranslatable(f"`{n}.{f.attr}(…)`: {a.alias_refused[n]}")
        if n not in a.fresh_objs and n not in a.alias:
            return False
        if n in a.fresh_objs and any(r == n and st.lineno < s.lineno for (r, _, _, st) in a.alias.values()):
            raise T.Untranslatable(f"`{n}` is mutated after a local was bound to a place of it")
        if not a.is_mutator_receiver(f.value, forbid=(n,) + ((a.alias[n][0],) if n in a.alias else ())):
            raise T.Untranslatable(f"`{n}.{f.attr}(…)`: an argument mentions the receiver")
        info = find_info(fn, f"Tag.{f.attr}")
        if info is None or not info.spec.returns_self:
            raise T.Untranslatable(f"Tag.{f.attr} is not a translated self-mutating method")
        N = fn.name(n)
        if has_star(c):
            raise T.Untranslatable("star arguments in a mutator call on a local")
        # the method is resolved statically to `Tag.m`; a receiver of another class is outside the fragment
        rv = fn.fresh("recv")
        fn.emit(ind, f'let {rv} ← pyRecvOfClassC11 {N} "Tag"')
        call = fn.call_known(info, c.args, c.keywords, recv=rv)
        fn.emit(ind, f"{N} := {call}")
        if n in a.alias:
            write_back(fn, ind, n)
        return True
    return False


def register(pytranslate):
    global T
    T = pytranslate
    if "HtmlVerif.Py.PrimC11" not in T.IMPORTS:
        T.IMPORTS.append("HtmlVerif.Py.PrimC11")
    T.ARITY.update(ARITIES)
    T.FIELD_CLASS[("HTMLDocument", "_content")] = "TagList"
    T.EXPR_HOOKS.append(expr_hook)
    T.STMT_HOOKS.append(stmt_hook)


def register_late(pytranslate):
    for k, (qual, lean, rs, fuel) in enumerate(FUNCS):
        T.SPECS.append(T.FnSpec(F, qual, lean, returns_self=rs, group=f"c11_{k}" if fuel else None))
