"""Implementation side of the `src` op for the C08 area: `_equals_impl`, `Tag.__eq__`, `TagList.__eq__`,
`HTMLDependency.__eq__` called on the realised values (translator + Py/PrimC08.lean validation)."""
from __future__ import annotations

import ops_src


def _version(fields):
    from packaging.version import Version
    return Version(fields["__str__"])


def _dep(fields):
    """an HTMLDependency with the instance attributes given (those absent keep the constructor's defaults)"""
    import htmltools
    d = htmltools.HTMLDependency(fields.get("name") or "d", "1.0")
    for k, v in fields.items():
        setattr(d, k, v)
    return d


def _repr_obj(fields):
    import adapters
    return adapters.ReprObj(fields["s"])


def _meta(fields):
    import adapters
    return adapters.Meta(fields["n"])


ops_src.REALIZE.setdefault("Version", _version)
ops_src.REALIZE.setdefault("HTMLDependency", _dep)
ops_src.REALIZE["EqReprObj"] = _repr_obj
ops_src.REALIZE["EqMeta"] = _meta


def _core():
    from htmltools import _core
    return _core


ops_src.CALLS["equals_impl"] = lambda a: _core()._equals_impl(a[0], a[1])
ops_src.CALLS["Tag_eq"] = lambda a: _core().Tag.__eq__(a[0], a[1])
ops_src.CALLS["TagList_eq"] = lambda a: _core().TagList.__eq__(a[0], a[1])
ops_src.CALLS["HTMLDependency_eq"] = lambda a: _core().HTMLDependency.__eq__(a[0], a[1])
