"""Translator plug-in for C10 (dependency resolution) and C09 (tagify) — DESIGN §14.

Functions (callees first):
  _resolve_dependencies                      -> resolve_dependencies
  Tag.get_dependencies / TagList.get_dependencies   -> group "deps" (mutual, fuel)
  Tag.tagify / TagList.tagify                -> group "tagify" (mutual, fuel)

New syntax, all of it confined to the functions of this plug-in (`MINE`), so that no other area's translation changes:

* `xs.append(e)` / `xs.extend(e)` as a statement, `xs` a container created in the function and never aliased
  (`Fn.find_fresh_containers`): functional update `xs := pyListAppend xs e` / `pyListExtend xs e`.
* `cp = copy(e)`: `pyCopy` (a value of `PVal` is immutable, so a copy is the same value; what `copy` buys in Python —
  the mutations below do not reach the original — holds by construction).  The name bound this way is a *fresh object*:
  it must be bound exactly once, by this statement, at the top level of the function body, and never be the whole
  right-hand side of another assignment nor stored anywhere (checked); then `cp[i] = v`, `cp[i:j] = v`, `cp.f = v` are
  functional updates of the name.
* `len(x)`, `x[i]`, `x[i] = v`, `x[i : i + 1] = v` on a `UserList` instance (TagList): `pyLenU`, `pyGetItemU`, `pySetItemU`,
  `pySetSliceU` of Py/PrimC10.lean (they go through `data`, as `UserList` does).
* `child.tagify()`: decided at run time by the class of the receiver — `Tag` / `TagList` go to the translated methods,
  any other instance to `pyTagifyObj` (the value its `tagify()` returns is recorded in the instance, like `_repr_html_`).
* `_tagchilds_to_tagnodes(x)`: if a translation of it is registered (another area), that one is called; otherwise the
  primitive `pyTagchildsToTagnodes`, defined only for a TagList whose items are already valid tag nodes (on which the
  real function is the identity) and `unsupported` elsewhere.
"""
from __future__ import annotations

import ast

MINE = {"resolve_dependencies", "Tag_get_dependencies", "TagList_get_dependencies", "Tag_tagify", "TagList_tagify"}
USERLIST_FNS = {"TagList_tagify"}          # functions whose `len` / subscripts may meet a UserList instance


def register(T):
    F = "htmltools/_core.py"
    T.SPECS += [
        T.FnSpec(F, "_resolve_dependencies", "resolve_dependencies"),
        T.FnSpec(F, "Tag.get_dependencies", "Tag_get_dependencies", group="deps"),
        T.FnSpec(F, "TagList.get_dependencies", "TagList_get_dependencies", group="deps"),
        T.FnSpec(F, "Tag.tagify", "Tag_tagify", group="tagify"),
        T.FnSpec(F, "TagList.tagify", "TagList_tagify", group="tagify"),
    ]
    T.DISPATCH["get_dependencies"] = ["Tag", "TagList"]
    T.ARITY.update({"resolve_dependencies": 1, "Tag_get_dependencies": 2, "TagList_get_dependencies": 2,
                    "Tag_tagify": 1, "TagList_tagify": 1})
    if "HtmlVerif.Py.PrimC10" not in T.IMPORTS:
        T.IMPORTS.append("HtmlVerif.Py.PrimC10")

    # ------------------------------------------------------------------ fresh objects (`cp = copy(…)`)
    def copy_bound(fn) -> set[str]:
        """names bound exactly once, by `name = copy(<expr>)` at the top level of the body, never aliased"""
        if hasattr(fn, "_c10_copy_bound"):
            return fn._c10_copy_bound
        cand: set[str] = set()
        for s in fn.node.body:
            if (isinstance(s, ast.Assign) and len(s.targets) == 1 and isinstance(s.targets[0], ast.Name)
                    and is_copy_call(s.value)):
                cand.add(s.targets[0].id)
        bad: set[str] = set()
        count: dict[str, int] = {}
        for n in ast.walk(fn.node):
            tg = []
            if isinstance(n, ast.Assign):
                tg = [(t, n.value) for t in n.targets]
            elif isinstance(n, (ast.AnnAssign, ast.AugAssign)):
                tg = [(n.target, n.value)]
            elif isinstance(n, ast.For):
                tg = [(n.target, None)]
            elif isinstance(n, (ast.NamedExpr,)):
                tg = [(n.target, n.value)]
            for t, v in tg:
                for nm in ast.walk(t):
                    if isinstance(nm, ast.Name) and isinstance(nm.ctx, ast.Store):
                        count[nm.id] = count.get(nm.id, 0) + 1
                # aliasing: the whole right-hand side, or an element of a display on the right-hand side
                if v is not None:
                    if isinstance(v, ast.Name):
                        bad.add(v.id)
                    if isinstance(v, (ast.List, ast.Tuple, ast.Dict, ast.Set)):
                        for x in ast.walk(v):
                            if isinstance(x, ast.Name):
                                bad.add(x.id)
            if isinstance(n, (ast.Lambda, ast.FunctionDef, ast.AsyncFunctionDef)) and n is not fn.node:
                for x in ast.walk(n):
                    if isinstance(x, ast.Name):
                        bad.add(x.id)
            # handed to a call as an argument (the callee might keep it) — only `return name` and reads through the name are allowed
            if isinstance(n, ast.Call) and not (isinstance(n.func, ast.Name) and n.func.id in ("len", "isinstance")):
                for a in list(n.args) + [k.value for k in n.keywords]:
                    if isinstance(a, ast.Name):
                        bad.add(a.id)
                    if isinstance(a, ast.Starred) and isinstance(a.value, ast.Name):
                        bad.add(a.value.id)
        ok = {c for c in cand if count.get(c, 0) == 1 and c not in bad and c not in fn.all_params}
        fn._c10_copy_bound = ok
        return ok

    def is_copy_call(e) -> bool:
        return (isinstance(e, ast.Call) and isinstance(e.func, ast.Name) and e.func.id == "copy" and len(e.args) == 1
                and not e.keywords and not isinstance(e.args[0], ast.Starred))

    # ------------------------------------------------------------------ expressions
    def expr_hook(fn, e):
        if fn.spec.lean not in MINE:
            return None
        if is_copy_call(e):
            return f"(← pyCopy {fn.V(e.args[0])})"
        if isinstance(e, ast.Call) and isinstance(e.func, ast.Name) and e.func.id == "len" and len(e.args) == 1 \
                and not e.keywords and fn.spec.lean in USERLIST_FNS:
            return f"(← pyLenU {fn.V(e.args[0])})"
        if isinstance(e, ast.Subscript) and not isinstance(e.slice, ast.Slice) and fn.spec.lean in USERLIST_FNS:
            return f"(← pyGetItemU {fn.V(e.value)} {fn.V(e.slice)})"
        if isinstance(e, ast.Call) and isinstance(e.func, ast.Attribute) and e.func.attr == "tagify":
            if e.args or e.keywords:
                raise T.Untranslatable("tagify() with arguments")
            recv = fn.V(e.func.value)
            arms = []
            for cls in ("Tag", "TagList"):
                info = fn.pick(f"{cls}.tagify")
                if info is None or not info.available:
                    raise T.Untranslatable(f"method {cls}.tagify is not translated")
                arms.append(f'| "{cls}" => (do pure {fn.call_known(info, [], [], recv=recv)})')
            return f"(← match pyClassOf {recv} with " + " ".join(arms) + f" | _ => pyTagifyObj {recv})"
        if isinstance(e, ast.Call) and isinstance(e.func, ast.Name) and e.func.id == "_tagchilds_to_tagnodes" \
                and len(e.args) == 1 and not e.keywords:
            other = fn.known_by_pyname().get("_tagchilds_to_tagnodes")
            if other is not None and other.available:
                return None                      # a translation exists: the ordinary call path
            return f"(← pyTagchildsToTagnodes {fn.V(e.args[0])})"
        return None

    # ------------------------------------------------------------------ statements
    def stmt_hook(fn, ind, s):
        if fn.spec.lean not in MINE:
            return False
        # xs.append(e) / xs.extend(e) on a fresh container
        if isinstance(s, ast.Expr) and isinstance(s.value, ast.Call) and isinstance(s.value.func, ast.Attribute) \
                and s.value.func.attr in ("append", "extend") and isinstance(s.value.func.value, ast.Name):
            c = s.value
            tgt = c.func.value.id
            if len(c.args) != 1 or c.keywords or isinstance(c.args[0], ast.Starred):
                raise T.Untranslatable(f".{c.func.attr}() with other than one positional argument")
            if tgt not in fn.fresh_containers:
                raise T.Untranslatable(f".{c.func.attr}() on {tgt}, which is not a container created in this function")
            if isinstance(c.args[0], ast.Name) and c.args[0].id in fn.fresh_containers | copy_bound(fn):
                raise T.Untranslatable("a fresh container is stored in a container")
            nm = fn.name(tgt)
            prim = "pyListAppend" if c.func.attr == "append" else "pyListExtend"
            fn.emit(ind, f"{nm} := (← {prim} {nm} {fn.V(c.args[0])})")
            return True
        # cp = copy(e): cp becomes a fresh object / container
        if isinstance(s, ast.Assign) and len(s.targets) == 1 and isinstance(s.targets[0], ast.Name) and is_copy_call(s.value):
            nm = s.targets[0].id
            if nm in copy_bound(fn):
                fn.fresh_objects.add(nm)
            return False                          # the ordinary assignment path emits it (through expr_hook)
        # cp[i] = v / cp[i : j] = v on a fresh object that may be a UserList
        if isinstance(s, ast.Assign) and len(s.targets) == 1 and isinstance(s.targets[0], ast.Subscript) \
                and isinstance(s.targets[0].value, ast.Name) and fn.spec.lean in USERLIST_FNS:
            t = s.targets[0]
            c = t.value.id
            if c not in copy_bound(fn):
                raise T.Untranslatable(f"item assignment into {c}, which is not a copy made in this function")
            if isinstance(s.value, ast.Name) and s.value.id in fn.fresh_containers | copy_bound(fn):
                raise T.Untranslatable("a fresh container is stored in a container")
            nm = fn.name(c)
            if isinstance(t.slice, ast.Slice):
                if t.slice.step is not None or t.slice.lower is None or t.slice.upper is None:
                    raise T.Untranslatable("slice assignment other than x[a:b] = v")
                # Python evaluates the right-hand side before the subexpressions of the target
                rhs = fn.fresh("rhs")
                fn.emit(ind, f"let {rhs} := {fn.V(s.value)}")
                fn.emit(ind, f"{nm} := (← pySetSliceU {nm} {fn.V(t.slice.lower)} {fn.V(t.slice.upper)} {rhs})")
            else:
                rhs = fn.fresh("rhs")
                fn.emit(ind, f"let {rhs} := {fn.V(s.value)}")
                fn.emit(ind, f"{nm} := (← pySetItemU {nm} {fn.V(t.slice)} {rhs})")
            return True
        return False

    T.EXPR_HOOKS.append(expr_hook)
    T.STMT_HOOKS.append(stmt_hook)
