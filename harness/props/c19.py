"""C19 — Every tag function creates its own element with the documented default."""
from __future__ import annotations

import inspect

import core
import gen
import ops
from adapters import realize, canon, Tag, HTML
from wire import es

PID = "C19"
MANIFEST = dict(
    text="Lean theorems (decide +kernel, no axioms) over tables regenerated from the AST of tags.py/svg.py/__init__.py/"
         "generate_tags.py on every run: every wrapper has the canonical forwarding shape, its literal equals its name, its default "
         "flag is the negation of membership in the project's inline list, names are distinct, the shortcuts are re-exported; "
         "C19_call derives the call behaviour (default / explicit / non-bool _add_ws). Census by NAME, not by count (C19_census): every one "
         "of the 113 html / 66 svg wrappers and 17 shortcuts recorded from the pinned tree (harness/mkcensus.py) still has a row / is still "
         "re-exported — additions are allowed; C19_declared_exports: tags.__all__ and the __all__ written by scripts/generate_tags.py name "
         "wrappers. Rows are emitted for public top-level functions only (private helpers are listed in translator_notes). On every run, "
         "exhaustively and in both directions: every public callable the imported tags/svg modules expose is covered by a row of good shape, "
         "every row and every census name is a public callable; every one of them is also called for real.",
    design="DESIGN.md §6 C19",
    note="Python call semantics of *args/**kwargs forwarding is trusted; the translator is the tie and is cross-checked against the imported modules.",
    technique="Lean 4 kernel decision (decide +kernel) over source-regenerated tables + exhaustive calls of all wrappers",
)
PROP_FILES = ["HtmlVerif/Props/C19.lean", "HtmlVerif/Props/SrcC15b.lean"]


def exported_functions(mod):
    """every public callable the module exposes at run time: names not starting with an underscore (plus whatever
    `__all__` lists) whose value can be called — functions defined in the module, but also partials, lambdas, functions
    imported from elsewhere — except what the module merely imports from htmltools._core for its annotations (`Tag`,
    `TagAttrs`, …: the very same object under the same name there)"""
    import htmltools._core as _core
    listed = set(getattr(mod, "__all__", ()) or ())
    out = []
    for name, f in vars(mod).items():
        if name.startswith("_") and name not in listed:
            continue
        if inspect.ismodule(f) or not callable(f):
            continue
        if getattr(_core, name, None) is f or name == "annotations":
            continue
        out.append((name, f))
    return out


def load_census():
    """the names recorded from the pinned tree by harness/mkcensus.py (+ the digest the Lean copy carries)"""
    import hashlib
    import json
    import os
    import re
    with open(os.path.join(core.VERIF, "corpus", "c19_census.json")) as f:
        c = json.load(f)
    dg = hashlib.sha1(json.dumps([c["html"], c["svg"], c["top"]]).encode()).hexdigest()
    with open(os.path.join(core.VERIF, "lean", "HtmlVerif", "Spec", "TagCensus.lean"), encoding="utf-8") as f:
        m = re.search(r"names-sha1: ([0-9a-f]{40})", f.read())
    if dg != c.get("digest") or not m or m.group(1) != dg:
        raise core.Infra("corpus/c19_census.json and lean/HtmlVerif/Spec/TagCensus.lean disagree: re-run harness/mkcensus.py")
    return c


class MapNode(__import__("collections.abc").abc.Mapping):
    """a self-rendering node that also implements the Mapping interface (a record / dataset-like component); it is not a dict,
    so it is a child, never an attribute map"""

    def __init__(self, **kw):
        self.d = kw

    def __getitem__(self, k):
        return self.d[k]

    def __iter__(self):
        return iter(self.d)

    def __len__(self):
        return len(self.d)

    def _repr_html_(self):
        return "<table>map</table>"


def rand_args(rng):
    """arbitrary argument list: children, attribute dicts, keyword attributes"""
    args = []
    for _ in range(rng.randint(0, 4)):
        r = rng.random()
        if r < 0.3:
            args.append({rng.choice(["id", "class_", "data_x", "x__", "a_b"]): rng.choice(["v", HTML("<h>"), True, 3, None, 'q"'])})
        elif r < 0.5:
            args.append([rng.choice(["n", None, 2.5]), realize(gen.rand_node(rng, 1))])
        else:
            args.append(realize(gen.rand_node(rng, 2)))
    kw = {}
    if gen.EXTRA and rng.random() < 0.5:       # change-directed: a new source literal, spelled as a keyword / dict key
        import re as _re
        for w in rng.sample(gen.EXTRA, min(2, len(gen.EXTRA))):
            k = rng.choice(gen.spellings(w))
            if _re.fullmatch(r"[A-Za-z_][A-Za-z0-9_]*", k) and k != "_add_ws":
                kw[k] = rng.choice(["k", "#a", True])
            elif k and not _re.search(r"[\s\"'>/=<]", k):
                args.append({k: rng.choice(["v", 3])})
    for _ in range(rng.randint(0, 4)):
        kw[rng.choice(["class_", "id", "style", "data_y", "for_", "x", "href", "src", "alt", "type", "name", "value", "title", "lang", "rel",
                       "target", "width", "height", "role", "action", "method", "content", "charset"])] = rng.choice(["k", HTML("&"), False, True, 7, "a b"])
    return args, kw


def run(tier: str) -> int:
    import htmltools
    ck = core.Check(PID, tier, PROP_FILES)
    ck.prepare()
    rng = ck.rng
    info = ck.proof.translate_info
    inline = set(info.get("inline", []))
    ck.rule = ("one case per (module, exported function, _add_ws argument kind) plus random argument lists; every exported "
               "function of tags/svg and every top-level shortcut is enumerated (exhaustive); distinct by (function, arguments)")
    lines = []
    mods = {"tags": htmltools.tags, "svg": htmltools.svg}
    n_fn = 0
    rows = {(r["mod"], r["fn"]) for r in info.get("html_rows", []) + info.get("svg_rows", [])}
    census = load_census()
    cen = {"tags": census["html"], "svg": census["svg"]}
    runtime = {m: dict(exported_functions(mod)) for m, mod in mods.items()}
    for mname, mod in mods.items():
        # both directions, every run, exhaustive: every public callable of the module must be covered by a table row
        # (the model answers `missing` otherwise), and every row — and every name of the recorded census — must be a
        # public callable of the module (the implementation answers `missing` otherwise)
        names = set(runtime[mname]) | {fn for (m, fn) in rows if m == mname} | set(cen[mname])
        for name in sorted(names):
            n_fn += 1
            for w in "NTFO":
                lines.append(f"tagfn {es(mname)} {es(name)} {w}")
        for name in cen[mname]:
            if name not in runtime[mname]:
                ck.py_violation(f"tagfn {es(mname)} {es(name)} N", "missing",
                                f"htmltools.{mname}.{name} is one of the {len(cen[mname])} public tag functions of the pinned tree "
                                f"({census['commit']}) and is no longer there: calling it raises AttributeError",
                                py=f"import htmltools; htmltools.{mname}.{name}()")
        for name in sorted(runtime[mname]):
            if (mname, name) not in rows:
                ck.py_violation(f"tagfn {es(mname)} {es(name)} N", "?",
                                f"htmltools.{mname}.{name} is a public callable of the module but the translator found no "
                                f"`def {name}(*args, _add_ws=…, **kwargs)` for it in {mname}.py: not a generated tag wrapper, "
                                f"so none of the C19 theorems covers it",
                                py=f"import htmltools; htmltools.{mname}.{name}")
    for name in census["top"]:
        if not (hasattr(htmltools, name) and getattr(htmltools, name) is getattr(htmltools.tags, name, None) and name in htmltools.__all__):
            ck.py_violation(f"reexport {es(name)}", "F",
                            f"htmltools.{name} is one of the {len(census['top'])} top-level shortcuts of the pinned tree "
                            f"({census['commit']}) and is no longer re-exported (attribute of htmltools, same object as "
                            f"htmltools.tags.{name}, listed in htmltools.__all__)",
                            py=f"import htmltools; htmltools.{name}('x'); '{name}' in htmltools.__all__")
    tops = sorted(set(info.get("reexports", [])) | {n for n in getattr(htmltools.tags, "__all__", ())} | set(census["top"]))
    n_rows = {m: len([1 for (mm, _) in rows if mm == m]) for m in mods}
    ck.extra_cov["census"] = {
        "reference_commit": census["commit"],
        "reference": {"html": len(census["html"]), "svg": len(census["svg"]), "top": len(census["top"])},
        "now_rows": {"html": n_rows["tags"], "svg": n_rows["svg"], "top": len(info.get("reexports", []))},
        "now_runtime_public_callables": {"html": len(runtime["tags"]), "svg": len(runtime["svg"])},
        "added_since_reference": {"html": sorted(set(runtime["tags"]) - set(census["html"])), "svg": sorted(set(runtime["svg"]) - set(census["svg"])),
                                  "top": sorted(set(info.get("reexports", [])) - set(census["top"]))},
        "tags___all___not_reexported_at_top_level": sorted(set(getattr(htmltools.tags, "__all__", ())) - set(info.get("reexports", []))),
        "generator___all__": info.get("gen_tags_all"),
    }
    for name in tops:
        lines.append(f"reexport {es(name)}")
    impl = [ops.run_line(l) for l in lines]
    for l, im in zip(lines, impl):
        ck.add(l, im, nontrivial=True, tag=l.split(" ", 1)[0])
    ck.exhaustive_scopes.append({"scope": "every exported function of htmltools.tags and htmltools.svg x {_add_ws omitted, True, False, non-bool}; every top-level shortcut",
                                 "functions": n_fn, "shortcuts": len(tops), "exhaustive": True})
    ck.add_src(['Tag_initC15b'])      # the `_add_ws` clause of Tag.__init__ (Props/SrcC15b.lean)
    ck.correspond(holds=False)
    # the statement itself, evaluated on the implementation for every function
    reps = 8 if tier == "quick" else 60
    targets = [(m, n, f) for m, mod in mods.items() for n, f in exported_functions(mod)]
    targets += [("top", n, getattr(htmltools, n)) for n in tops if hasattr(htmltools, n)]
    for mname, name, f in targets:
        line = f"tagfn {es(mname)} {es(name)} N"
        try:
            t0 = f()
            want_ws = name not in inline
            if not isinstance(t0, Tag) or t0.name != name:
                ck.py_violation(line, repr(t0), f"{mname}.{name}() does not create a <{name}> Tag", py=f"htmltools.{mname}.{name}()")
                continue
            if t0.add_ws is not want_ws:
                ck.py_violation(line, f"add_ws={t0.add_ws}", f"{mname}.{name}() default add_ws={t0.add_ws}, project classifies it as {'inline' if not want_ws else 'block'}",
                                py=f"htmltools.{mname}.{name}().add_ws")
            # "creates its own element": a call never hands out an object another call handed out, even after
            # the earlier result has been modified through the public API (multi-step history)
            t0.add_class("mine")
            t0.append("extra child")
            t0.attrs["data-owner"] = "first"
            t1 = f()
            ck.holds_checked += 1
            if t1 is t0 or canon(t1) != canon(Tag(name, _add_ws=want_ws)) or str(t1) != str(Tag(name, _add_ws=want_ws)):
                ck.py_violation(line, str(t1), f"{mname}.{name}() after modifying an earlier result returns {str(t1)!r} "
                                f"(same object: {t1 is t0}); a fresh <{name}> element is required",
                                py=f"t = htmltools.{mname}.{name}(); t.add_class('mine'); t.append('extra child'); htmltools.{mname}.{name}()")
                continue
            for kwargs in ({"id": "x"}, {"_add_ws": want_ws}):
                a1 = f("c", **kwargs)
                a1.append("more")
                a2 = f("c", **kwargs)
                if a2 is a1 or len(a2.children) != 1:
                    ck.py_violation(line, str(a2), f"{mname}.{name}('c', **{kwargs}) shares state between calls")
                    break
            # its own element also when the one child argument is a TagList: the element's child list is the element's own
            from htmltools import TagList as _TL
            shared = _TL("a", Tag("b", "c"))
            e1 = f(shared)
            e1.append("more")
            e1.children.insert(0, "first")
            e2 = f(shared, {"id": "second"})
            ck.holds_checked += 1
            if len(shared) != 2 or len(e2.children) != 2 or e1.children is shared or e1.children.data is shared.data:
                ck.py_violation(line, str(e2), f"{mname}.{name}(tl) with a TagList as its one child shares storage with it: after appending to / inserting into the element the "
                                f"TagList has {len(shared)} items (2 expected) and a second element built from it has {len(e2.children)} children",
                                py=f"tl = TagList('a', Tag('b', 'c')); e = htmltools.{mname}.{name}(tl); e.append('more'); len(tl), len(htmltools.{mname}.{name}(tl).children)")
                continue
            mp = MapNode(title="t", id="m")
            tm = f("a", mp, {"lang": "en"})
            ck.holds_checked += 1
            if not any(c is mp for c in tm.children) or dict(tm.attrs) != {"lang": "en"} or "<table>map</table>" not in str(tm):
                ck.py_violation(line, str(tm), f"{mname}.{name}('a', node, {{'lang': 'en'}}) where node is a self-rendering object that implements Mapping (not a dict): "
                                f"children {list(tm.children)!r}, attrs {dict(tm.attrs)!r}; the node is a child and only the dict gives attributes",
                                py=f"class MapNode(collections.abc.Mapping): ...  # with _repr_html_\nhtmltools.{mname}.{name}('a', MapNode(title='t', id='m'), {{'lang': 'en'}})")
                continue
            for b in (True, False):
                if f(_add_ws=b).add_ws is not b:
                    ck.py_violation(line, "", f"{mname}.{name}(_add_ws={b}) not honoured")
            for bad in (1, 0, None, "x", 1.0):
                try:
                    f(_add_ws=bad)
                    ck.py_violation(line, "", f"{mname}.{name}(_add_ws={bad!r}) accepted", py=f"htmltools.{mname}.{name}(_add_ws={bad!r})")
                    break
                except TypeError:
                    pass
            for _ in range(reps):
                args, kw = rand_args(rng)
                ws = rng.choice([None, True, False])
                kws = dict(kw)
                if ws is not None:
                    kws["_add_ws"] = ws
                a = f(*args, **kws)
                b = Tag(name, *args, _add_ws=(want_ws if ws is None else ws), **kw)
                ck.holds_checked += 1
                if canon(a) != canon(b) or str(a) != str(b) or not (a == b):
                    ck.py_violation(line, str(a), f"{mname}.{name}(*args, **kw) differs from Tag({name!r}, *args, **kw): {str(b)!r}",
                                    py=f"args={args!r} kw={kws!r}")
                    break
        except Exception as e:
            ck.py_violation(line, repr(e), f"{mname}.{name}() raised {type(e).__name__}: {e}")
    ck.extra_cov["extra_evaluations"] = ck.holds_checked
    return ck.finish()
