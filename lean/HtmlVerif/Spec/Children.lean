/-
Specification side of C14: the one-pass flattening the property describes, and what each child
operation is supposed to do in terms of it.
-/
import HtmlVerif.Model.Children

namespace HtmlVerif

mutual
  /-- the nodes one supplied child contributes: depth-first, left to right -/
  def Arg.spec : Arg → Except Err (List Node)
    | .none => .ok []                           -- None dropped
    | .num _ txt => .ok [.text txt]             -- numbers become their str() text
    | .node n => .ok [n]                        -- strings kept whole, nodes kept
    | .list xs => xs.spec                       -- nested lists, tuples and TagLists spliced
    | .tuple xs => xs.spec
    | .taglist xs => xs.spec
    | .seqLike _ _ => .error .typeError         -- unsupported type
    | .bad _ => .error .typeError
  def Args.spec : Args → Except Err (List Node)
    | .nil => .ok []
    | .cons h t =>
      match h.spec with
      | .error e => .error e
      | .ok a =>
        match t.spec with
        | .error e => .error e
        | .ok b => .ok (a ++ b)
end

/-- the flattening of a sequence of supplied children -/
def flatSpec (args : List Arg) : Except Err (List Node) := (Args.ofList args).spec

mutual
  /-- the supported child types, at every depth -/
  def Arg.supported : Arg → Bool
    | .none => true
    | .num _ _ => true
    | .node _ => true
    | .list xs => xs.supported
    | .tuple xs => xs.supported
    | .taglist xs => xs.supported
    | .seqLike _ _ => false
    | .bad _ => false
  def Args.supported : Args → Bool
    | .nil => true
    | .cons h t => h.supported && t.supported
end

/-- the children supplied by the operand of `extend`, `+`, reflected `+`, `+=` (an *iterable of*
    children): a `str` is one child and is kept whole; any other iterable supplies what iterating it yields -/
def childrenOf (a : Arg) : Except Err (List Arg) :=
  if a.isStr then .ok [a]
  else match a.iter with
    | .ok items => .ok items.toList
    | .error e => .error e

/-- the nodes such an operand contributes -/
def operandSpec (a : Arg) : Except Err (List Node) :=
  match childrenOf a with
  | .ok cs => flatSpec cs
  | .error e => .error e

/-- the receiver, seen as the argument value it is when an operand mentions it -/
def selfArg (s : List Node) : Arg := .taglist (Args.ofList (s.map Arg.node))

def OArg.resolveSpec (s : List Node) : OArg → Arg
  | .val a => a
  | .self => selfArg s
  | .inList pre post => .list (Args.ofList (pre ++ selfArg s :: post))

def mapOk {α β} (f : α → β) : Except Err α → Except Err β
  | .ok a => .ok (f a)
  | .error e => .error e

/-- what one operation is supposed to leave in `x`, given that `x` held the nodes `s` -/
def specStep (s : List Node) : Op → Except Err (List Node)
  | .init args => flatSpec args
  | .extend a => mapOk (s ++ ·) (operandSpec (a.resolveSpec s))
  | .append [] => .error .typeError
  | .append (a :: r) => mapOk (s ++ ·) (flatSpec ((a :: r).map (·.resolveSpec s)))
  | .insert i a =>
    mapOk (fun ns => s.take (clampIdx s.length i) ++ ns ++ s.drop (clampIdx s.length i))
      (flatSpec [a.resolveSpec s])
  | .add a => mapOk (s ++ ·) (operandSpec (a.resolveSpec s))
  | .radd a => mapOk (· ++ s) (operandSpec (a.resolveSpec s))
  | .iadd a => mapOk (s ++ ·) (operandSpec (a.resolveSpec s))
  | .slice lo hi st => if st = some 0 then .error .valueError else .ok (pySlice s lo hi (st.getD 1))
  | .mul n => .ok (rep n s)
  | .rmul n => .ok (rep n s)
  | .imul n => .ok (rep n s)

/-- the step outcome a specification result stands for: on an error the list is left unchanged -/
def StepOut.ofSpec (s : List Node) : Except Err (List Node) → StepOut
  | .ok ns => ⟨.ok (), ns.map .node⟩
  | .error e => ⟨.error e, s.map .node⟩

/-- the nodes a whole history is supposed to leave -/
def specOps (s : List Node) : List Op → List Node
  | [] => s
  | op :: r =>
    match specStep s op with
    | .ok s' => specOps s' r
    | .error _ => specOps s r

/-- the outcome of every step a history is supposed to have -/
def specTrace (s : List Node) : List Op → List StepOut
  | [] => []
  | op :: r =>
    match specStep s op with
    | .ok s' => ⟨.ok (), s'.map .node⟩ :: specTrace s' r
    | .error e => ⟨.error e, s.map .node⟩ :: specTrace s r

/-- the operation is not a `Tag(...)` call that passes a dict (dicts are attributes there, not children) -/
def Op.noDictInit : Op → Bool
  | .init args => args.all (fun a => !a.isDict)
  | _ => true

/-- the invariant: every stored element is a normalised node -/
def Inv (s : TL) : Prop := ∀ x ∈ s, x.isNode = true

def invB (s : TL) : Bool := s.all Stored.isNode

/-- the nodes of a list that satisfies the invariant (raw elements are skipped) -/
def TL.nodes : TL → List Node
  | [] => []
  | .node n :: r => n :: TL.nodes r
  | .raw _ :: r => TL.nodes r

end HtmlVerif
