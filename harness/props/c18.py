"""C18 — Output is deterministic across processes and independent of history (partial: runtime half by the tie)."""
from __future__ import annotations

import hashlib
import json
import os
import subprocess
import sys

import core
import gen
from wire import enode, enodes, es, eb

PID = "C18"
MANIFEST = dict(
    text="PARTIAL by nature. Lean: in the model every observable is a function of the construction (no state, no hash order), so history "
         "independence of the model is by construction; theorems with content: head_content name = 'headcontent_' + H(rendered content), version "
         "0.0 (C18_headContent_name); equal name iff equal rendered content for any injective digest (C18_name_iff_content); every reported "
         "dependency order is positional — first occurrence, never a sort or hash order — and every name is represented exactly once after "
         "resolution (C18_order_is_positional, C18_once_per_document, from C10). What only the runtime can show — no dependence on the hash seed or "
         "on earlier calls — is decided by the tie: a battery of constructions (trees, lists, head_content payloads, dependency lists, tagified "
         "trees, JSON-mode strings) is evaluated in fresh subprocesses under different PYTHONHASHSEED values, in forward / reverse / shuffled "
         "order with unrelated renderings interleaved, and every digest from every process must equal the digest of the MODEL's single answer "
         "(SHA-1 itself is implemented in Lean and compared with hashlib). The battery = hash-order probes (harness/c18_probes.py: one family per "
         "place where a dict/set order or hash() could reach an observable — attribute dicts/kwargs, class/style helpers, css(), html_escape, "
         "HTMLDocument keyword attributes and hoisting incl. equal and distinct head_content items in one document, as_dict/as_html_tags, "
         "resolution, JSON serialisation, HTMLTextDocument extraction, JSX props — each with >= 4 distinct keys there) + a corpus of every op "
         "kind of every other property (harness/mkbattery.py) + a random battery. C18_doc_head_content_once/_two_equal/_two_distinct carry "
         "'once per document' from `resolve` to the document model (docTree).",
    design="DESIGN.md §6 C18",
    note="Runtime behaviour a Lean model cannot exhibit (hash seed, module-level caches, set iteration) is observed, not proved. SHA-1 collision "
         "resistance is assumed (injective H).",
    technique="Lean 4 proof for naming/ordering + cross-process differential check against the model's answers",
)
PROP_FILES = ["HtmlVerif/Props/C18.lean", "HtmlVerif/Props/ConstsHead.lean", "HtmlVerif/Props/SrcC18.lean"]
WORKER = os.path.join(os.path.dirname(os.path.dirname(os.path.abspath(__file__))), "c18_worker.py")


C18_OWN_OPS = {"head_content", "head_content_json"}
NOISE_STRINGS = ["sm", "lg", "card", "btn-primary", "x"]


def battery(rng, n: int):
    from props import c10
    lines = []

    def with_deps(t):
        """sprinkle dependencies (several names / versions) into a tag term"""
        if t[0] != "tag":
            return t
        kids = []
        for c in t[4]:
            if rng.random() < 0.25:
                kids.append(c10.mk_dep(rng.choice(["a", "b", "jq", "héllo"]), rng.choice(["1.9", "1.10", "1.10.0", "2", "0.0.1"]),
                                       script=[[("src", rng.choice(["x.js", "y z.js"]))]] if rng.random() < 0.5 else None))
            kids.append(with_deps(c))
        return ("tag", t[1], t[2], t[3], kids)
    for k in range(n):
        r = k % 8
        if r == 0:
            lines.append(f"render_tag {enode(gen.rand_tag(rng, rng.randint(1, 6)))} {rng.choice([0, 1])} {es(chr(10))}")
        elif r == 1:
            ks = [gen.rand_node(rng, 3) for _ in range(rng.randint(0, 4))]
            lines.append(f"render_list {enodes(ks)} 0 {es(chr(10))} T T")
        elif r == 2:
            if k % 16 == 2:
                ks = [gen.rand_node(rng, 2, leaves=("text", "html", "robj")) for _ in range(rng.randint(0, 3))]
                lines.append(f"head_content {enodes(ks)} 0")
            else:
                # payloads that compare/hash equal as Python values but render differently (str vs HTML vs a tag with that markup)
                s = rng.choice(["<style>b{}</style>", "<title>T</title>", "a&b", gen.alias_string(rng, rng.choice([8, 48, 100]))])
                for role in rng.sample(["text", "html", "robj"], 3):
                    lines.append(f"head_content {enodes([(role, s)])} 0")
                lines.append(f"head_content {enodes([('tag', 'style', True, [], [('text', 'b{}')])])} 0")
        elif r in (3, 4, 5, 6):
            t = with_deps(gen.rand_tag(rng, rng.randint(1, 5), leaves=("text", "html", "meta")))
            terms = c10.finish_terms([t])
            t = terms[0]
            if r == 3:
                lines.append(f"deps_tag {enode(t)} T")
            elif r == 4:
                lines.append(f"deps_list {enodes(t[4])} {eb(rng.random() < 0.7)}")
            elif r == 5:
                lines.append(f"render_full_tag {enode(t)}")
            else:
                lines.append(f"tagify_tag {enode(t)}")
        elif k % 16 == 7:
            lines.append("escape " + eb(rng.random() < 0.5) + " " + es(gen.rand_text(rng, 30)))
        else:
            # one and the same long string as HTML() in one construction and as plain text in another
            # (cross-construction history: caches keyed on content show up under some evaluation orders only)
            s = gen.alias_string(rng, rng.choice(gen.ALIAS_LENGTHS))
            role = rng.choice(["text", "html", "robj"])
            lines.append(f"render_tag {enode(('tag', 'div', True, [('title', ('p', s))] if rng.random() < 0.3 else [], [(role, s)]))} 0 {es(chr(10))}")
            other = {"text": "html", "html": "text", "robj": "text"}[role]
            lines.append(f"render_tag {enode(('tag', 'p', True, [], [(other, s), ('text', 'x')]))} 0 {es(chr(10))}")
    # plain strings that the worker's interleaved noise also uses as values of a str SUBCLASS with a different str()
    for sx in NOISE_STRINGS:
        lines.append(f"render_tag {enode(('tag', 'div', True, [('class', ('p', sx)), ('title', ('p', sx))], [('text', sx)]))} 0 {es(chr(10))}")
        lines.append("escape T " + es(sx))
    # head_content payloads holding an invisible dependency, named while the global render mode is "json" and while it is not
    try:
        from props import c10 as _c10
        for _ in range(max(4, n // 40)):
            inner = _c10.mk_dep(rng.choice(["a", "b"]), rng.choice(["1.0", "2"]))
            inner = _c10.finish_terms([("tag", "div", True, [], [inner])])[0][4][0]
            payload = [("tag", "title", True, [], [("text", rng.choice(["T", "U"]))]), inner]
            rng.shuffle(payload)
            lines.append(f"head_content {enodes(payload)} 0")
            lines.append(f"head_content_json {enodes(payload)} 0")
    except Exception:  # noqa: BLE001
        pass
    # values with several whitespace-separated tokens / declarations handed to the class and style helpers in one call
    # (an implementation that goes through a set shows hash-order dependence exactly here)
    try:
        from ops_attrs import chist_line
        toks = ["btn", "btn-primary", "btn-lg", "a", "b", "c", "é", "x-1", "x-2", "w3", "zz", "q"]
        for _ in range(max(8, n // 12)):
            many = " ".join(rng.sample(toks, rng.randint(2, 6)))
            init = [("class", ("p", " ".join(rng.sample(toks, rng.randint(0, 3)))))] if rng.random() < 0.6 else []
            steps = [("ac", many, rng.random() < 0.3), ("hc", many.split()[0])]
            if rng.random() < 0.5:
                steps.insert(1, ("rc", many.split()[-1]))
            lines.append(chist_line(init, steps))
    except Exception:  # noqa: BLE001  (op family not present in this tree)
        pass
    return lines


def _sha(s: str) -> str:
    return hashlib.sha1(s.encode("utf-8", "surrogatepass")).hexdigest()


def _decode_tok(tok: str) -> str:
    from wire import ds
    if tok == "-" or (tok and all(c in "0123456789abcdef." for c in tok) and any(c in "0123456789abcdef" for c in tok)):
        try:
            return ds(tok)
        except Exception:  # noqa: BLE001
            return tok
    return tok


def first_difference(model: str, other: str) -> str:
    """human-readable first difference between two wire answers (token-wise; string tokens are decoded)"""
    a, b = model.split(" "), other.split(" ")
    for k in range(max(len(a), len(b))):
        x, y = (a[k] if k < len(a) else "<end>"), (b[k] if k < len(b) else "<end>")
        if x != y:
            dx, dy = _decode_tok(x), _decode_tok(y)
            j = next((i for i in range(min(len(dx), len(dy))) if dx[i] != dy[i]), min(len(dx), len(dy)))
            lo = max(0, j - 70)
            return (f"first difference in token {k} of the answer, at character {j}: the model / reference has "
                    f"{dx[lo:j + 110]!r}, this process produced {dy[lo:j + 110]!r}")
    return "answers are equal"


def snippet_for(line: str) -> str:
    """a public-API reproduction of the op line, from whichever property owns the op (a reading aid only)"""
    op = line.split(" ", 1)[0]
    tries = []
    if op in ("document_render", "document_tree"):
        from props import c11
        tries.append(lambda: c11.snippet(line))
    if op in ("ahist", "attr_render", "chist", "css", "consolidate", "norm_name"):
        import ops_attrs
        tries.append(lambda: ops_attrs.python_snippet(line))
    if op.startswith("deps_") or op == "dep_init":
        from props import c10
        tries.append(lambda: c10.snippet(line))
    if op in ("as_dict", "as_html_tags", "source_path_map"):
        from props import c12
        tries.append(lambda: c12.py_snippet(line))
    import pretty
    tries.append(lambda: pretty.describe(line))
    for f in tries:
        try:
            r = f()
            if r:
                return r
        except Exception:  # noqa: BLE001
            continue
    return f"# evaluate the op line with harness/ops.py: ops.run_line(<line>)  (op {op})"


def run(tier: str) -> int:
    ck = core.Check(PID, tier, PROP_FILES)
    ck.prepare()
    rng = ck.rng
    ck.rule = ("one case per construction of the battery; it is evaluated in every subprocess (hash seed x order); non-trivial = all of them "
               "(each digest of each process is compared with the model's); distinct by wire line")
    n = 240 if tier == "quick" else 600
    # 1. hash-order probes: one family per place where a dict/set iteration order or hash() could reach an observable,
    #    each line with >= 4 distinct keys at that place (harness/c18_probes.py; deterministic lines)
    try:
        import c18_probes
        families = c18_probes.probes()
    except Exception as e:  # noqa: BLE001
        raise core.Infra(f"C18 hash-order probes could not be built: {type(e).__name__}: {e}")
    origin: dict[str, str] = {}
    lines = []
    for fam, ls in families.items():
        for l in ls:
            origin.setdefault(l, "probe:" + fam)
            lines.append(l)
    ck.extra_cov["probe_families"] = {fam: len(ls) for fam, ls in families.items()}
    # 2. corpus: a sample of every op kind the other properties' generators produce (harness/mkbattery.py), so the
    # whole public surface — attribute / class / css histories, child-list operations, display hook programs, JSX,
    # JSON serialisation and extraction, dependency resolution, whole documents, dependency URLs — is evaluated across
    # processes, not only rendering
    cpath = os.path.join(core.VERIF, "corpus", "c18_battery.txt")
    corpus = [l.rstrip("\n") for l in open(cpath, encoding="utf-8")] if os.path.exists(cpath) else []
    if corpus and ck.driver is not None:
        ans = ck.driver.run(corpus)
        stale = sum(1 for a in ans if a.startswith("bad-op"))
        corpus = [l for l, a in zip(corpus, ans) if not a.startswith("bad-op")]
        ck.extra_cov["corpus_lines"] = len(corpus)
        ck.extra_cov["corpus_stale_lines_skipped"] = stale
        ck.extra_cov["corpus_op_kinds"] = len({l.split(" ", 1)[0] for l in corpus})
        need = {"document_render", "document_tree", "as_html_tags", "as_dict", "textdoc", "deps_list", "ser", "css", "chist", "ahist", "jsx_render"}
        missing = sorted(need - {l.split(" ", 1)[0] for l in corpus})
        if missing:
            raise core.Infra(f"corpus/c18_battery.txt holds no {', '.join(missing)} lines: re-run harness/mkbattery.py")
        for l in corpus:
            origin.setdefault(l, "corpus")
        lines += corpus
    # 3. random battery of this run
    for l in battery(rng, n):
        origin.setdefault(l, "battery")
        lines.append(l)
    # the in-process answer (also history dependent: this process has rendered many things before) and the model's
    import contextlib
    import io
    with contextlib.redirect_stdout(io.StringIO()):      # a changed library may print (e.g. a display hook that echoes)
        impl = core.impl_many(lines)
    for l, im in zip(lines, impl):
        ck.add(l, im, nontrivial=True, tag=l.split(" ", 1)[0])
    __import__('srctie_c18').add_src_c18(ck, ['hash_deterministic', 'head_content'])   # source tie: op srcc18 (SHA-1 = Model/Sha1.lean)
    ck.extra_cov["protocol_per_instance_scenarios"] = __import__("flexhist").oracle(ck)
    # the same document (and documents sharing a component that hands back a stored tag) rendered again gives the same bytes
    ck.extra_cov["repeat_render_cases"] = __import__("props.c11", fromlist=["repeat_render_oracle"]).repeat_render_oracle(ck)
    ck.correspond(holds=False)
    if ck.driver is None:
        return ck.finish()
    model = ck.driver.run(lines)
    want = {str(i): _sha(m) for i, m in enumerate(model)}
    seeds = ["0", "1", "2", "random"] if tier == "quick" else ["0", "1", "2", "3", "7", "42", "123456", "4294967295"] + ["random"] * 8
    orders = ["forward", "reverse", "shuffle"] if tier == "quick" else ["forward", "reverse", "shuffle", "shuffle2", "evens-first", "noise-heavy"]
    noise = [l for l in battery(rng, 40)] + ["noise_strsub " + es(sx) for sx in NOISE_STRINGS] * 2
    rng.shuffle(noise)
    jobs = []
    for sd in seeds:
        for od in orders:
            idx = list(range(len(lines)))
            if od == "reverse":
                idx.reverse()
            elif od.startswith("shuffle") or od == "noise-heavy":
                rng.shuffle(idx)
            elif od == "evens-first":
                idx = idx[::2] + idx[1::2]
            jobs.append((sd, od, idx))
    env0 = dict(os.environ)
    env0["VERIF_REPO"] = core.REPO
    in_process = {str(i): _sha(im) for i, im in enumerate(impl)}

    def launch(sd, idx, with_noise):
        env = dict(env0)
        env["PYTHONHASHSEED"] = sd
        p = subprocess.Popen([sys.executable, WORKER], stdin=subprocess.PIPE, stdout=subprocess.PIPE, stderr=subprocess.PIPE, env=env, text=True)
        return p, json.dumps({"lines": lines, "order": idx, "noise": noise if with_noise else [], "want": want})

    def read_report(p, payload, budget_s):
        """-> (rows [(index, digest, answer|None)], done-record | None, stderr tail).  Never raises on what the worker did:
        a worker that dies, hangs (killed after `budget_s`) or writes something else simply yields fewer rows."""
        try:
            out, err = p.communicate(payload, timeout=budget_s)
        except subprocess.TimeoutExpired:
            p.kill()
            try:
                out, err = p.communicate(timeout=30)
            except Exception:  # noqa: BLE001
                out, err = "", "killed after timeout"
        except Exception as e:  # noqa: BLE001  (e.g. the worker exited before reading its input)
            out, err = "", f"{type(e).__name__}: {e}"
        rows, done = [], None
        for ln in (out or "").split("\n"):
            try:
                r = json.loads(ln)
            except ValueError:
                continue
            if isinstance(r, dict) and "i" in r and "d" in r:
                rows.append((int(r["i"]), str(r["d"]), r.get("a")))
            elif isinstance(r, dict) and (r.get("done") or "import_failed" in r):
                done = r
        return rows, done, (err or "")[-600:]

    budget_s = 900 if tier == "quick" else 3000

    def run_job(job):
        """one (hash seed, order) pair, evaluated to the end whatever the library does: -> (rows, hash('a'), import error, restarts)"""
        sd, od, idx = job
        got: list = []
        rest = list(idx)
        nrestart = 0
        for _ in range(25):
            p, payload = launch(sd, rest, od != "forward")
            rows, done, err = read_report(p, payload, budget_s)
            got += rows
            if done is not None and "import_failed" in done:
                return got, None, done["import_failed"], nrestart
            if done is not None:
                return got, done.get("hash_of_a"), None, nrestart
            # the interpreter died (or was killed) while evaluating the construction after the last reported one:
            # that construction `crashed` in this process; resume after it in a fresh process with the same seed
            rest = rest[len(rows):]
            if not rest:
                break
            got.append((rest[0], _sha("err crashed-or-hung"), "err crashed-or-hung (the worker process died or was killed here: " + err[-200:] + ")"))
            rest = rest[1:]
            nrestart += 1
            if not rest:
                break
        return got, None, None, nrestart

    from concurrent.futures import ThreadPoolExecutor
    with ThreadPoolExecutor(min(len(jobs), max(2, min(16, os.cpu_count() or 2)))) as ex:
        results = list(ex.map(run_job, jobs))
    n_digests = 0
    hashes_seen = set()
    differing: dict[int, list] = {}      # construction -> [(seed, order, digest, answer or None, hash('a') of that process)]
    agreeing: dict[int, int] = {}
    digests_of: dict[int, set] = {}      # construction -> every digest seen for it in any process (incl. this one)
    restarts = 0
    for (sd, od, idx), (got, ha, import_failed, nrestart) in zip(jobs, results):
        restarts += nrestart
        if import_failed:
            ck.py_violation("", import_failed, f"the library could not be imported in a process with PYTHONHASHSEED={sd}",
                            py=f"PYTHONHASHSEED={sd} python -c 'import htmltools'")
        hashes_seen.add(ha)
        for k, dg, ans in got:
            n_digests += 1
            ck.holds_checked += 1
            digests_of.setdefault(k, {in_process[str(k)]}).add(dg)
            if dg != want[str(k)]:
                differing.setdefault(k, []).append((sd, od, dg, ans, ha))
            else:
                agreeing[k] = agreeing.get(k, 0) + 1
    ck.extra_cov["worker_restarts"] = restarts
    # A construction that gives ONE answer everywhere (every subprocess and this process) which is not the model's is
    # deterministic: the model/implementation correspondence is broken there (reported above by `correspond`), but no
    # process disagrees with another.  A failing input of C18 is a construction with more than one answer.
    # Exception: the head_content ops — there the model's answer IS this property's statement (name = prefix + digest of
    # the rendered content only, C18_headContent_name / C18_name_iff_content), so any other name is a failing input.
    uniform = sorted(k for k in differing if len(digests_of.get(k, ())) == 1 and lines[k].split(" ", 1)[0] not in C18_OWN_OPS)
    ck.extra_cov["constructions_uniformly_different_from_model"] = len(uniform)
    for k in uniform:
        del differing[k]
    # one failing input per construction (probes first — they name the place — and the shortest line first), with
    # what each process produced
    for k in sorted(differing, key=lambda k: (not origin.get(lines[k], "").startswith("probe:"), len(lines[k]), k)):
        rows = differing[k]
        line = lines[k]
        opn = line.split(" ", 1)[0]
        shown = next((r for r in rows if r[3] is not None), None)
        per = "; ".join(f"PYTHONHASHSEED={sd} (hash('a')={ha}) order={od}: digest {dg[:12]}" for sd, od, dg, _, ha in rows[:12])
        by_digest: dict[str, list] = {}
        for sd, od, dg, _, ha in rows:
            by_digest.setdefault(dg[:12], []).append(sd)
        detail = (f"op `{opn}` ({origin.get(line, '?')}, construction #{k} of the battery): {len(rows)} of {len(jobs)} processes gave a result "
                  f"different from the model's single answer (digest {want[str(k)][:12]}; {agreeing.get(k, 0)} processes agree with it); "
                  f"{len(by_digest)} different wrong digests ({', '.join(d + ' x' + str(len(v)) for d, v in list(by_digest.items())[:6])}). "
                  f"Per process: {per}" + (" …" if len(rows) > 12 else "") + ". "
                  + (first_difference(model[k], shown[3]) + f" (process with PYTHONHASHSEED={shown[0]}, order {shown[1]})" if shown else
                     "(full answers were kept for the first differing constructions of each process only)"))
        seeds_bad = sorted({r[0] for r in rows if r[0] != "random"})
        seeds_ok = [sd for sd in seeds if sd != "random" and sd not in seeds_bad]
        py = (snippet_for(line) + "\n# run this in fresh interpreters started with different PYTHONHASHSEED values"
              + (f" (differs from the reference under PYTHONHASHSEED={','.join(seeds_bad)}" + (f"; agrees under {','.join(seeds_ok)}" if seeds_ok else "") + ")" if seeds_bad else "")
              + "\n# or: echo '<line>' through harness/c18_worker.py with {\"lines\": [line], \"order\": [0]}")
        ck.py_fail.append(core.Failure("property", line=line, impl=(shown[3] if shown else rows[0][2]), model=model[k], detail=detail, py=py))
    ck.extra_cov.update(processes=len(jobs), hash_seeds=seeds, orders=orders, digests_compared=n_digests,
                        distinct_str_hash_values_observed=len(hashes_seen), extra_evaluations=n_digests,
                        constructions_by_origin={o: sum(1 for l in set(lines) if origin.get(l) == o) for o in sorted(set(origin.values()))})
    ck.exhaustive_scopes.append({"scope": f"{len(lines)} constructions x {len(seeds)} hash seeds x {len(orders)} evaluation orders, every digest compared with the model's answer",
                                 "exhaustive": False})
    return ck.finish()
