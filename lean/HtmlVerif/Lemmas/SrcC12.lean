/-
Helper definitions and lemmas of the source tie for C12 / C11 (Props/SrcC12.lean): the embedding of an `HTMLDependency`
(with the run-time facts it records) and of its item dicts into Python values, the primitives of Py/PrimC12.lean on
those shapes, the model's item loops as one generic `mapE`, and the loop rules for "update every item" loops and for
list comprehensions.  Nothing here mentions a regenerated function.
-/
import HtmlVerif.Py.PrimC12
import HtmlVerif.Lemmas.PyLoop
import HtmlVerif.Lemmas.SrcTie
import HtmlVerif.Lemmas.SrcRender
import HtmlVerif.Model.DepTags

set_option linter.unusedSimpArgs false

namespace HtmlVerif.SrcTie
open HtmlVerif HtmlVerif.Py

/-! ### embeddings -/

/-- a `dict[str, str]` (script / stylesheet / meta item) -/
def embKVs (kv : KVs) : PVal := .dict (kv.map fun p => (p.1, PVal.str p.2))

def kSubdir : Str := ['s', 'u', 'b', 'd', 'i', 'r']
def kPackage : Str := ['p', 'a', 'c', 'k', 'a', 'g', 'e']
def kSource : Str := ['s', 'o', 'u', 'r', 'c', 'e']

/-- `source=`: None, `{"href": h}`, `{"subdir": dir}` or `{"subdir": dir, "package": pkg}` -/
def embSource : DepSource → PVal
  | .none => .none
  | .href h => .dict [(dtKHref, .str h)]
  | .subdir none dir _ => .dict [(kSubdir, .str dir)]
  | .subdir (some p) dir _ => .dict [(kSubdir, .str dir), (kPackage, .str p)]

/-- the resolved source directory the model carries (`os.path.realpath(subdir)` for a source without a package) -/
def absOf : DepSource → Str
  | .subdir _ _ abs => abs
  | _ => []

def embOptStr : Option Str → PVal
  | none => .none
  | some s => .str s

/-- `self.head`: None or a TagList -/
def embHead (hasHead : Bool) (head : Nodes) : PVal :=
  if hasHead then .obj "TagList" [("data", .list (embNodes head))] else .none

/-- an `HTMLDependency` instance as the three methods see it: its `__dict__`, and the two run-time facts the methods ask
    the operating system / the import system for, recorded under pseudo-attributes: `__realpath__` is what
    `os.path.realpath(source["subdir"])` answers (the model's `abs` for a source without a package), `__package_dir__`
    is what `package_dir(source["package"])` answers (`pdir`) -/
def embDep (d : DepInfo) (hasHead : Bool) (head : Nodes) (pdir : Str) : PVal :=
  .obj "HTMLDependency"
    [("name", .str d.name),
     ("version", .obj "Version" [("__str__", .str d.version), ("rank", .int d.vrank)]),
     ("source", embSource d.source),
     ("script", .list (d.script.map embKVs)),
     ("stylesheet", .list (d.stylesheet.map embKVs)),
     ("meta", .list (d.metas.map embKVs)),
     ("all_files", .bool d.allFiles),
     ("head", embHead hasHead head),
     ("__realpath__", .str (absOf d.source)),
     ("__package_dir__", .str pdir)]

/-- `SourcePathMapping` -/
def embPathMap (m : PathMap) : PVal := .dict [(kSource, .str m.source), (dtKHref, .str m.href)]

def kName : Str := ['n', 'a', 'm', 'e']
def kVersion : Str := ['v', 'e', 'r', 's', 'i', 'o', 'n']
def kScript : Str := ['s', 'c', 'r', 'i', 'p', 't']
def kStylesheet : Str := ['s', 't', 'y', 'l', 'e', 's', 'h', 'e', 'e', 't']
def kMeta : Str := ['m', 'e', 't', 'a']
def kHead : Str := ['h', 'e', 'a', 'd']

/-- the dict `as_dict()` returns: name and version copied from the object, the four computed fields -/
def embDepDict (d : DepInfo) (dd : DepDict) : PVal :=
  .dict [(kName, .str d.name), (kVersion, .str d.version),
         (kScript, .list (dd.script.map embKVs)), (kStylesheet, .list (dd.stylesheet.map embKVs)),
         (kMeta, .list (dd.metas.map embKVs)), (kHead, embOptStr dd.head)]

/-- the key literals of the generated code, folded into the model's names for them -/
theorem lit_href : (['h', 'r', 'e', 'f'] : Str) = dtKHref := rfl
theorem lit_src : (['s', 'r', 'c'] : Str) = dtKSrc := rfl
theorem lit_rel : (['r', 'e', 'l'] : Str) = dtKRel := rfl
theorem lit_stylesheet : (['s', 't', 'y', 'l', 'e', 's', 'h', 'e', 'e', 't'] : Str) = vStylesheet := rfl

/-! ### reading the object -/

theorem getattr_dep (d : DepInfo) (hh : Bool) (head : Nodes) (pdir : Str) :
    pyGetAttr (embDep d hh head pdir) "name" = .ok (.str d.name)
    ∧ pyGetAttr (embDep d hh head pdir) "version" = .ok (.obj "Version" [("__str__", .str d.version), ("rank", .int d.vrank)])
    ∧ pyGetAttr (embDep d hh head pdir) "source" = .ok (embSource d.source)
    ∧ pyGetAttr (embDep d hh head pdir) "script" = .ok (.list (d.script.map embKVs))
    ∧ pyGetAttr (embDep d hh head pdir) "stylesheet" = .ok (.list (d.stylesheet.map embKVs))
    ∧ pyGetAttr (embDep d hh head pdir) "meta" = .ok (.list (d.metas.map embKVs))
    ∧ pyGetAttr (embDep d hh head pdir) "head" = .ok (embHead hh head) := by
  simp [embDep, pyGetAttr, fieldGet?]

theorem pyStr_version (v : Str) (r : Int) :
    pyStr (.obj "Version" [("__str__", .str v), ("rank", .int r)]) = .ok (.str v) := by
  simp [pyStr, List.find?]

theorem osRealpath_dep (d : DepInfo) (hh : Bool) (head : Nodes) (pdir p : Str) :
    osRealpath (embDep d hh head pdir) (.str p) = .ok (.str (absOf d.source)) := by
  simp [osRealpath, embDep, fieldGet?]

theorem pyPackageDir_dep (d : DepInfo) (hh : Bool) (head : Nodes) (pdir p : Str) (hp : p ≠ []) :
    pyPackageDir (embDep d hh head pdir) (.str p) = .ok (.str pdir) := by
  have : p.isEmpty = false := by cases p <;> simp_all
  simp [pyPackageDir, embDep, fieldGet?, this]

@[simp] theorem pyPosixJoin_str (a b : Str) : pyPosixJoin (.str a) (.str b) = .ok (.str (posixJoin a b)) := rfl
@[simp] theorem pyQuote_str (s : Str) : pyQuote (.str s) = .ok (.str (quote s)) := rfl
@[simp] theorem pyDeepcopy_list (l : List PVal) : pyDeepcopy (.list l) = .ok (.list l) := rfl
@[simp] theorem pyListAppendC12_list (l : List PVal) (v : PVal) : pyListAppendC12 (.list l) v = .ok (.list (l ++ [v])) := rfl
@[simp] theorem pyWithItems_list (l xs : List PVal) : pyWithItems (.list l) (.list xs) = .ok (.list xs) := rfl

/-! ### item dicts -/

theorem dictGet_embKVs (k : Str) (s : KVs) :
    Py.dictGet? k (s.map fun p => (p.1, PVal.str p.2)) = (alookup k s).map PVal.str := by
  induction s with
  | nil => rfl
  | cons x t ih =>
    obtain ⟨k', v'⟩ := x
    simp only [List.map_cons, Py.dictGet?, alookup]
    split <;> simp_all

theorem dictSet_embKVs (k v : Str) (s : KVs) :
    Py.dictSet k (.str v) (s.map fun p => (p.1, PVal.str p.2)) = (kvSet k v s).map fun p => (p.1, PVal.str p.2) := by
  induction s with
  | nil => rfl
  | cons x t ih =>
    obtain ⟨k', v'⟩ := x
    simp only [List.map_cons, Py.dictSet, kvSet]
    split <;> simp_all

theorem pyGetItem_embKVs (k : Str) (s : KVs) :
    pyGetItem (embKVs s) (.str k) = match alookup k s with
      | some v => .ok (.str v)
      | none => .error .keyError := by
  simp only [pyGetItem, embKVs, dictGet_embKVs]
  cases alookup k s <;> rfl

theorem pyDictUpdate_embKVs1 (s : KVs) (k v : Str) :
    pyDictUpdate (embKVs s) (.dict [(k, .str v)]) = .ok (embKVs (kvSet k v s)) := by
  simp [pyDictUpdate, embKVs, dictSet_embKVs]

theorem pyDictUpdate_embKVs2 (s : KVs) (k v k2 v2 : Str) :
    pyDictUpdate (embKVs s) (.dict [(k, .str v), (k2, .str v2)]) = .ok (embKVs (kvSet k2 v2 (kvSet k v s))) := by
  simp [pyDictUpdate, embKVs, dictSet_embKVs]

/-! ### the model's item loops as one generic map with errors -/

/-- apply `step` to every item, left to right; the first failure is the result -/
def mapE {α β : Type} (step : α → Except Err β) : List α → Except Err (List β)
  | [] => .ok []
  | a :: r =>
    match step a with
    | .error e => .error e
    | .ok b =>
      match mapE step r with
      | .error e => .error e
      | .ok bs => .ok (b :: bs)

/-- what one pass of the loop "apply `step`, append the result to the accumulator" does -/
def accStep {α β : Type} (step : α → Except Err β) (a : α) (acc : List β) : Except Err (List β) :=
  match step a with
  | .error e => .error e
  | .ok b => .ok (acc ++ [b])

theorem mapE_fold {α β : Type} (step : α → Except Err β) (l : List α) (acc : List β) :
    l.foldlM (fun acc a => accStep step a acc) acc
      = match mapE step l with
        | .error e => .error e
        | .ok bs => .ok (acc ++ bs) := by
  induction l generalizing acc with
  | nil => simp [mapE, pure, Except.pure]
  | cons a t ih =>
    simp only [List.foldlM_cons, mapE, accStep]
    cases step a with
    | error e => rfl
    | ok b =>
      simp only [bind, Except.bind]
      have := ih (acc ++ [b])
      simp only [accStep] at this
      rw [this]
      cases mapE step t <;> simp

/-- one stylesheet item of `as_dict` -/
def sheetStep (base : Str) (s : KVs) : Except Err KVs :=
  match alookup dtKHref s with
  | none => .error .keyError
  | some p => .ok (kvSet dtKRel vStylesheet (kvSet dtKHref (posixJoin base (quote p)) s))

/-- one script item of `as_dict` -/
def scriptStep (base : Str) (s : KVs) : Except Err KVs :=
  match alookup dtKSrc s with
  | none => .error .keyError
  | some p => .ok (kvSet dtKSrc (posixJoin base (quote p)) s)

theorem asDictSheets_mapE (base : Str) (l : List KVs) : asDictSheets base l = mapE (sheetStep base) l := by
  induction l with
  | nil => rfl
  | cons s r ih =>
    simp only [asDictSheets, mapE, sheetStep, ih]
    cases alookup dtKHref s with
    | none => simp
    | some p => simp only []; cases mapE (sheetStep base) r <;> rfl

theorem asDictScripts_mapE (base : Str) (l : List KVs) : asDictScripts base l = mapE (scriptStep base) l := by
  induction l with
  | nil => rfl
  | cons s r ih =>
    simp only [asDictScripts, mapE, scriptStep, ih]
    cases alookup dtKSrc s with
    | none => simp
    | some p => simp only []; cases mapE (scriptStep base) r <;> rfl

theorem mkTags_mapE (cfg : Cfg) (name : Str) (l : List KVs) : mkTags cfg name l = mapE (mkTag cfg name) l := by
  induction l with
  | nil => rfl
  | cons s r ih =>
    simp only [mkTags, mapE, ih]
    cases mkTag cfg name s with
    | error e => simp
    | ok t => simp only []; cases mapE (mkTag cfg name) r <;> rfl

/-- `as_dict` as a sequence: stylesheets, scripts, head -/
theorem asDict_seq (cfg : Cfg) (d : DepInfo) (hasHead : Bool) (head : Nodes) (lp : Option Str) (iv : Bool) :
    asDict cfg d hasHead head lp iv
      = (mapE (sheetStep (sourcePathMap d lp iv).href) d.stylesheet >>= fun sheets =>
         mapE (scriptStep (sourcePathMap d lp iv).href) d.script >>= fun scripts =>
         (if hasHead then (renderListChecked cfg head 0 eolLF true true).map some else .ok none) >>= fun h =>
         (.ok { script := scripts, stylesheet := sheets, metas := d.metas, head := h } : Except Err DepDict)) := by
  simp only [asDict, asDictSheets_mapE, asDictScripts_mapE]
  cases mapE (sheetStep (sourcePathMap d lp iv).href) d.stylesheet with
  | error e => rfl
  | ok sheets =>
    cases mapE (scriptStep (sourcePathMap d lp iv).href) d.script with
    | error e => rfl
    | ok scripts =>
      cases hasHead
      · rfl
      · simp only [if_true, bind, Except.bind, Except.map]
        cases renderListChecked cfg head 0 eolLF true true <;> rfl

/-! ### sequencing simulations; the two loop shapes -/

/-- sequencing: a simulated computation followed by continuations that simulate each other on related results -/
theorem Sim.seq {σ τ β γ ε : Type} {R : σ → β → Prop} {R' : τ → γ → Prop} {emb : ε → PyErr}
    {x : PyM σ} {y : Except ε β} {k : σ → PyM τ} {m : β → Except ε γ}
    (hx : Sim R emb x y) (hk : ∀ s b, R s b → Sim R' emb (k s) (m b)) : Sim R' emb (x >>= k) (y >>= m) := by
  cases y with
  | error e => simp only [Sim] at hx; rw [hx]; exact rfl
  | ok b =>
    obtain ⟨s, hs, hR⟩ := hx
    rw [hs]
    exact hk s b hR

/-- a computation that succeeds on the Python side whatever the model does next -/
theorem Sim.ok_left {σ τ γ ε : Type} {R' : τ → γ → Prop} {emb : ε → PyErr}
    {x : PyM σ} {k : σ → PyM τ} {y : Except ε γ} (s : σ) (hx : x = .ok s) (hk : Sim R' emb (k s) y) :
    Sim R' emb (x >>= k) y := by
  rw [hx]; exact hk

theorem Sim.of_eq {σ β ε : Type} {R : σ → β → Prop} {emb : ε → PyErr} {s : σ} {b : β} (h : R s b) :
    Sim R emb (.ok s) (.ok b : Except ε β) := ⟨s, rfl, h⟩

/-- a simulated computation whose results are related by "is the embedding of" is the embedded model result -/
theorem Sim.eq_embRes' {β : Type} {f : β → PVal} {x : PyM PVal} {y : Except Err β}
    (h : Sim (fun s b => s = f b) embErr x y) : x = embRes f y := by
  cases y with
  | error e => exact h
  | ok b => obtain ⟨s, hs, rfl⟩ := h; exact hs

/-- the loop "for every item: compute the updated item, append it to the accumulator", whatever its body is and whatever
    else its state carries besides the accumulator (its first component): if each pass on the embedded item does what
    `step` does — appends the embedded result, or raises the corresponding exception — the loop computes `mapE step` -/
theorem item_loop {α β ρ : Type} (ea : α → PVal) (eb : β → PVal) (step : α → Except Err β) (items : List α) (r0 : ρ)
    (f : PVal → PVal × ρ → PyM (ForInStep (PVal × ρ)))
    (hstep : ∀ a ∈ items, ∀ (acc : List β) (rest : ρ),
      Sim (fun (r : ForInStep (PVal × ρ)) (b' : List β) => ∃ s', r = .yield s' ∧ s'.1 = .list (b'.map eb)) embErr
        (f (ea a) (.list (acc.map eb), rest)) (accStep step a acc)) :
    Sim (fun (s : PVal × ρ) (b : List β) => s.1 = .list (b.map eb)) embErr
      (forIn (items.map ea) (PVal.list [], r0) f) (mapE step items) := by
  have sim := forIn_sim (fun (s : PVal × ρ) (b : List β) => s.1 = .list (b.map eb)) embErr ea items f
    (fun a acc => accStep step a acc) (PVal.list [], r0) [] rfl
    (by
      intro a ha s b hR
      obtain ⟨s1, s2⟩ := s
      simp only at hR; subst hR
      exact hstep a ha b s2)
  rw [mapE_fold] at sim
  cases hm : mapE step items with
  | error e => rw [hm] at sim; exact sim
  | ok bs => rw [hm] at sim; simpa using sim

/-- a list comprehension `[g(x) for x in items]`, whatever its body: if each pass appends the embedded result of `step`
    to the accumulated list — or raises the corresponding exception — the loop computes `mapE step` -/
theorem comp_loop {α β : Type} (ea : α → PVal) (eb : β → PVal) (step : α → Except Err β) (items : List α)
    (f : PVal → List PVal → PyM (ForInStep (List PVal)))
    (hstep : ∀ a ∈ items, ∀ (acc : List β),
      Sim (fun (r : ForInStep (List PVal)) (b' : List β) => ∃ s', r = .yield s' ∧ s' = b'.map eb) embErr
        (f (ea a) (acc.map eb)) (accStep step a acc)) :
    Sim (fun (s : List PVal) (b : List β) => s = b.map eb) embErr
      (forIn (items.map ea) ([] : List PVal) f) (mapE step items) := by
  have sim := forIn_sim (fun (s : List PVal) (b : List β) => s = b.map eb) embErr ea items f
    (fun a acc => accStep step a acc) [] [] rfl
    (by
      intro a ha s b hR
      subst hR
      exact hstep a ha b)
  rw [mapE_fold] at sim
  cases hm : mapE step items with
  | error e => rw [hm] at sim; exact sim
  | ok bs => rw [hm] at sim; simpa using sim

theorem ok_bindE {ε α β : Type} (a : α) (f : α → Except ε β) : ((Except.ok a : Except ε α) >>= f) = f a := rfl

/-- the tag list `as_html_tags()` returns -/
def embTagList (ns : Nodes) : PVal := .obj "TagList" [("data", .list (embNodes ns))]

theorem asHtmlTags_seq (cfg : Cfg) (d : DepInfo) (hasHead : Bool) (head : Nodes) (lp : Option Str) (iv : Bool) :
    asHtmlTags cfg d hasHead head lp iv
      = (asDict cfg d hasHead head lp iv >>= fun dd =>
         mapE (mkTag cfg nMeta) dd.metas >>= fun metas =>
         mapE (mkTag cfg nLink) dd.stylesheet >>= fun links =>
         mapE (mkTag cfg nScript) dd.script >>= fun scripts =>
         (.ok (Nodes.ofList (metas ++ links ++ scripts) ++ (if hasHead then head else .nil)) : Except Err Nodes)) := by
  simp only [asHtmlTags, mkTags_mapE]
  cases asDict cfg d hasHead head lp iv with
  | error e => rfl
  | ok dd =>
    simp only [bind, Except.bind]
    cases mapE (mkTag cfg nMeta) dd.metas with
    | error e => rfl
    | ok metas =>
      simp only []
      cases mapE (mkTag cfg nLink) dd.stylesheet with
      | error e => rfl
      | ok links =>
        simp only []
        cases mapE (mkTag cfg nScript) dd.script <;> rfl

/-! ### `Tag(name, **kw)` and `TagList(*children)` on embedded values -/

/-- the keyword dict of `Tag(name, **m)` for an item dict `m`, as `TagAttrDict.update` receives it -/
def kwOf (m : KVs) : List (Str × AttrArg) := m.map fun kv => (kv.1, AttrArg.str kv.2)

theorem embArgDict_kwOf (m : KVs) : embArgDict (kwOf m) = embKVs m := by
  simp [embArgDict, kwOf, embKVs, List.map_map, Function.comp_def, embArg]

theorem kwOf_isEmpty (m : KVs) : (kwOf m).isEmpty = m.isEmpty := by cases m <;> rfl

/-- the three keyword names that collide with a parameter of `Tag.__init__`, on an item dict: `self` / `_name` are
    found by name, `_add_ws` is found with its (`str`) value -/
theorem reserved_embKVs (s : KVs) :
    (s.any fun kv => reservedKw.contains kv.1)
      = (((s.map fun p => (p.1, PVal.str p.2)).any fun kv =>
            decide (kv.1 = ['s', 'e', 'l', 'f']) || decide (kv.1 = ['_', 'n', 'a', 'm', 'e']))
          || (Py.dictGet? ['_', 'a', 'd', 'd', '_', 'w', 's'] (s.map fun p => (p.1, PVal.str p.2))).isSome) := by
  induction s with
  | nil => rfl
  | cons x t ih =>
    obtain ⟨k, v⟩ := x
    rw [List.any_cons, ih]
    simp only [List.map_cons, List.any_cons, Py.dictGet?]
    generalize ((List.map (fun p : Str × Str => (p.1, PVal.str p.2)) t).any _) = A
    generalize Py.dictGet? ['_', 'a', 'd', 'd', '_', 'w', 's'] (List.map (fun p : Str × Str => (p.1, PVal.str p.2)) t) = B
    by_cases h3 : k = ['_', 'a', 'd', 'd', '_', 'w', 's']
    · subst h3; simp [reservedKw]
    · by_cases h1 : k = ['s', 'e', 'l', 'f'] <;> by_cases h2 : k = ['_', 'n', 'a', 'm', 'e'] <;>
        simp [reservedKw, h1, h2, h3]

theorem dictGet_embKVs_str (k : Str) (s : KVs) :
    (∃ v, Py.dictGet? k (s.map fun p => (p.1, PVal.str p.2)) = some (.str v))
      ∨ Py.dictGet? k (s.map fun p => (p.1, PVal.str p.2)) = none := by
  rw [dictGet_embKVs]
  cases alookup k s with
  | none => exact .inr rfl
  | some v => exact .inl ⟨v, rfl⟩

theorem isPlainTagNode_emb (c : Node) : isPlainTagNodeC12 (embNode c) = true := by
  cases c with
  | tobjL rh c => cases rh <;> simp [isPlainTagNodeC12, embNode, isInstance, builtinClasses, classBases, pyClassOf]
  | tobj1 rh c => cases rh <;> simp [isPlainTagNodeC12, embNode, isInstance, builtinClasses, classBases, pyClassOf]
  | _ => simp [isPlainTagNodeC12, embNode, isInstance, builtinClasses, classBases, pyClassOf]

theorem embNodes_append (a b : Nodes) : embNodes (a ++ b) = embNodes a ++ embNodes b := by
  show embNodes (a.append b) = _
  induction a using Nodes.rec (motive_1 := fun _ => True) with
  | nil => rfl
  | cons h t _ ih => simp [Nodes.append, embNodes, ih]
  | _ => trivial

theorem embNodes_ofList (l : List Node) : embNodes (Nodes.ofList l) = l.map embNode := by
  induction l with
  | nil => rfl
  | cons h t ih => simp [Nodes.ofList, embNodes, ih]

/-- tag nodes are kept by `TagList(...)` -/
theorem tagListItems_nodes (l : List Node) (r : List PVal) :
    tagListItems (l.map embNode ++ r) = (tagListItems r).map (l.map embNode ++ ·) := by
  induction l with
  | nil => cases h : tagListItems r <;> simp [Except.map, h]
  | cons c t ih =>
    have hp := isPlainTagNode_emb c
    have hcls : ∀ fs, embNode c ≠ .obj "TagList" fs := by
      intro fs; cases c <;> simp [embNode]
    have hnone : embNode c ≠ .none := by cases c <;> simp [embNode]
    simp only [List.map_cons, List.cons_append]
    rw [tagListItems.eq_def]
    split
    · rename_i heq; cases heq
    · rename_i heq; injection heq with h1 _; exact absurd h1 hnone
    · rename_i fs r' heq; injection heq with h1 _; exact absurd h1 (hcls fs)
    · rename_i v r' _ _ heq
      injection heq with h1 h2
      subst h1; subst h2
      simp only [hp, if_true, ih]
      cases tagListItems r <;> simp [Except.map, bind, Except.bind, pure, Except.pure]

/-- `self.head` at the end of the argument list: None is dropped, a TagList is spliced in -/
theorem tagListItems_head (hh : Bool) (head : Nodes) :
    tagListItems [embHead hh head] = .ok (embNodes (if hh then head else .nil)) := by
  cases hh
  · simp [embHead, tagListItems, embNodes]
  · have : (embNodes head).all isPlainTagNodeC12 = true := by
      rw [embNodes_toList, List.all_map]
      simp [Function.comp_def, isPlainTagNode_emb]
    simp [embHead, tagListItems, fieldGet?, this, bind, Except.bind, pure, Except.pure]

end HtmlVerif.SrcTie
