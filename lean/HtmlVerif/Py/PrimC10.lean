/-
Primitives of the Python fragment used by the translations of `_resolve_dependencies`, `Tag/TagList.get_dependencies`
and `Tag/TagList.tagify` (harness/pytr_c10.py).  Same rules as Py/Prim.lean: what CPython does on that argument shape,
the exception kind CPython raises, or `unsupported`.
-/
import HtmlVerif.Py.Prim

namespace HtmlVerif.Py
open HtmlVerif

/-- `xs.append(x)` as a statement, `xs` a list created in the function and never aliased: the new list -/
def pyListAppend (l x : PVal) : PyM PVal :=
  match l with
  | .list xs => pure (.list (xs ++ [x]))
  | _ => throw .unsupported

/-- `xs.extend(it)` as a statement (same condition): the new list; a non-iterable argument raises TypeError -/
def pyListExtend (l it : PVal) : PyM PVal :=
  match l with
  | .list xs => do pure (.list (xs ++ (← pyIter it)))
  | _ => throw .unsupported

/-- `copy(x)`.  A `PVal` is an immutable value, so the copy *is* the value; what `copy` buys in Python (mutating the
    copy does not reach the original) holds by construction, because the translator turns the mutations of the copy into
    functional updates of the name bound to it.  An instance that brings its own `__copy__` is outside the fragment. -/
def pyCopy (x : PVal) : PyM PVal :=
  match x with
  | .obj _ fs => if (fieldGet? "__copy__" fs).isSome then throw .unsupported else pure x
  | _ => pure x

/-- the `data` of a `UserList` instance (TagList) -/
def userListData? : PVal → Option (List PVal)
  | .obj _ fs => match fieldGet? "data" fs with
    | some (.list xs) => some xs
    | _ => Option.none
  | _ => Option.none

/-- `len(x)`, also for a `UserList` instance (`len(self.data)`) -/
def pyLenU (x : PVal) : PyM PVal :=
  match userListData? x with
  | some xs => pure (.int xs.length)
  | Option.none => pyLen x

/-- `x[i]`, also for a `UserList` instance (`self.data[i]`) -/
def pyGetItemU (c k : PVal) : PyM PVal :=
  match userListData? c with
  | some xs => pyGetItem (.list xs) k
  | Option.none => pyGetItem c k

/-- `x[i] = v` (the new container), also for a `UserList` instance (`self.data[i] = v`) -/
def pySetItemU (c k v : PVal) : PyM PVal :=
  match c, userListData? c with
  | .obj cls fs, some xs => do
    let l ← pySetItem (.list xs) k v
    pure (.obj cls (fieldSet "data" l fs))
  | _, _ => pySetItem c k v

/-- `xs[lo:hi] = items` on a list: bounds clamped as for slicing, an upper bound below the lower one counts as the lower one -/
def setSlice {α} (xs : List α) (lo hi : Int) (items : List α) : List α :=
  let n := xs.length
  let l := clampIdx n lo
  let h := max l (clampIdx n hi)
  xs.take l ++ items ++ xs.drop h

/-- `x[lo:hi] = v` (the new container) for a list or a `UserList` instance; `v` must be iterable (TypeError otherwise) -/
def pySetSliceU (c lo hi v : PVal) : PyM PVal :=
  match lo, hi with
  | .int a, .int b =>
    match c, userListData? c with
    | .obj cls fs, some xs => do
      let items ← pyIter v
      pure (.obj cls (fieldSet "data" (.list (setSlice xs a b items)) fs))
    | .list xs, _ => do
      let items ← pyIter v
      pure (.list (setSlice xs a b items))
    | _, _ => throw .unsupported
  | _, _ => throw .unsupported

/-- `x.tagify()` for an instance of a class outside the library: the value its method returns is recorded in the
    instance under `tagify` (in the spirit of `pyReprHtml`); no such attribute: AttributeError -/
def pyTagifyObj : PVal → PyM PVal
  | .obj _ fs => match fieldGet? "tagify" fs with
    | some v => pure v
    | Option.none => throw .attributeError
  | _ => throw .attributeError

/-- an item on which `_tagchilds_to_tagnodes` is the identity: a tag node (`is_tag_node`) that `flatten` does not
    unnest (not a list / tuple / TagList), does not drop (not None) and that is not a number -/
def isPlainTagNode (v : PVal) : Bool :=
  match v with
  | .str _ => true
  | .html _ => true
  | .obj c _ => c != "TagList" && isInstance v ["Tagifiable", "MetadataNode", "ReprHtml"]
  | _ => false

/-- `_tagchilds_to_tagnodes(x)` (htmltools/_core.py), **restricted** to a `TagList` whose items are all plain tag nodes:
    there `flatten(x)` is `list(x)` and the loop changes nothing, so the result is the list of the items.
    Everything else is outside the fragment (`unsupported`), not a claim about Python. -/
def pyTagchildsToTagnodes (x : PVal) : PyM PVal :=
  match x with
  | .obj "TagList" _ =>
    match userListData? x with
    | some xs => if xs.all isPlainTagNode then pure (.list xs) else throw .unsupported
    | Option.none => throw .unsupported
  | _ => throw .unsupported

end HtmlVerif.Py
