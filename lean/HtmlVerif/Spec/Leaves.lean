/-
Specification side of C02/C04: the content leaves of a tree, in document order, classified by how
they must be emitted (escaped text vs. verbatim), and text substitution.
-/
import HtmlVerif.Spec.Pieces

namespace HtmlVerif

mutual
  /-- plain-text leaves that sit in an escaping context (parent is not script/style), document order -/
  def Node.txtLeaves (cfg : Cfg) : Node → List Str
    | .tag name _ _ kids => kids.txtLeavesKids cfg (!cfg.noesc.contains name)
    | _ => []
  def Nodes.txtLeavesKids (cfg : Cfg) : Nodes → Bool → List Str
    | .nil, _ => []
    | .cons h t, esc =>
      (match h with
        | .text s => if esc then [s] else []
        | .tag .. => h.txtLeaves cfg
        | _ => []) ++ t.txtLeavesKids cfg esc
end

mutual
  /-- content that must appear verbatim: HTML(), `_repr_html_()` results, text directly under script/style -/
  def Node.rawLeaves (cfg : Cfg) : Node → List Str
    | .tag name _ _ kids => kids.rawLeavesKids cfg (!cfg.noesc.contains name)
    | _ => []
  def Nodes.rawLeavesKids (cfg : Cfg) : Nodes → Bool → List Str
    | .nil, _ => []
    | .cons h t, esc =>
      (match h with
        | .text s => if esc then [] else [s]
        | .html s => [s]
        | .robj s => [s]
        | .tobjL rh _ => [rh.getD []]
        | .tobj1 rh _ => [rh.getD []]
        | .tag .. => h.rawLeaves cfg
        | .mnode _ => []
        | .dep .. => []) ++ t.rawLeavesKids cfg esc
end

mutual
  /-- replace the content of every plain-text leaf (at every depth the renderer reaches) -/
  def Node.mapText (g : Str → Str) : Node → Node
    | .tag n w a k => .tag n w a (k.mapTextKids g)
    | .text s => .text (g s)
    | x => x
  def Nodes.mapTextKids (g : Str → Str) : Nodes → Nodes
    | .nil => .nil
    | .cons h t => .cons (h.mapText g) (t.mapTextKids g)
end

def Piece.txt? : Piece → Option Str
  | .txt s => some s
  | _ => none

def Piece.raw? : Piece → Option Str
  | .raw s => some s
  | _ => none

/-- forget the content of content pieces, keep their kind and position and all markup/layout -/
def Piece.skel : Piece → Piece
  | .txt _ => .txt []
  | .raw _ => .raw []
  | p => p

/-- forget only the content of escaped-text pieces -/
def Piece.skelTxt : Piece → Piece
  | .txt _ => .txt []
  | p => p

end HtmlVerif
