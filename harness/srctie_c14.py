"""Translator validation lines for the C14 translations: every value shape the functions can meet — None, bool / int /
float, str, HTML, Tag trees, self-rendering / tagifiable / metadata objects, lists / tuples / TagLists nested (TagLists whose
own data is not normalised included), bytes / range / set / dict, objects that are neither iterable nor tag nodes — plus,
for the primitives' own error branches, indices and accumulators of the wrong type."""
from __future__ import annotations

import srctie
from srctie import S, H, rstr
from wire import es


def num(rng) -> str:
    r = rng.random()
    if r < 0.45:
        return "I " + str(rng.choice([0, 1, -1, 3, 7, 42, -300, 10 ** 12]))
    if r < 0.6:
        return rng.choice(["T", "F"])
    return "D " + es(rng.choice(["1.5", "0.0", "-0.0", "2.0", "1e+100", "0.1", "-3.25", "inf", "nan"]))


def node(rng, depth=2) -> str:
    import gen
    r = rng.random()
    if r < 0.12:
        return rng.choice(["O TagifiableObj [ tagify N ]", "O TagifiableObj [ tagify N _repr_html_ " + S("<r>") + " ]"])
    if r < 0.2:
        return f"O HTMLDependency [ name {S(rng.choice(['d', 'dep2']))} ]"
    return srctie.pv_node(gen.rand_node(rng, rng.randint(0, depth), leaves=("text", "html", "robj", "meta"), fan=2))


def opaque(rng) -> str:
    return f"O Opaque [ id I {rng.randint(0, 3)} ]"


def seqlike(rng) -> str:
    r = rng.random()
    if r < 0.3:
        return "O bytes [ data L [ " + "".join(f"I {rng.choice([0, 97, 98, 255])} " for _ in range(rng.randint(0, 3))) + "] ]"
    if r < 0.55:
        return "O range [ data L [ " + "".join(f"I {i} " for i in range(rng.randint(0, 3))) + "] ]"
    if r < 0.75:
        return "O set [ data L [ " + (rng.choice([S("k"), "I 5", "N", "T"]) + " " if rng.random() < 0.7 else "") + "] ]"
    ks = rng.sample(["k", "m", "class", ""], rng.randint(0, 2))
    return "M [ " + "".join(es(k) + " N " for k in ks) + "]"


def arg(rng, depth=3) -> str:
    """any value of the child-list model"""
    r = rng.random()
    if depth > 0 and r < 0.34:
        k = rng.choice(["L", "L", "U", "TL"])
        items = "".join(arg(rng, depth - 1) + " " for _ in range(rng.choice([0, 1, 2, 2, 3, 4])))
        return f"O TagList [ data L [ {items}] ]" if k == "TL" else f"{k} [ {items}]"
    if r < 0.44:
        return "N"
    if r < 0.58:
        return num(rng)
    if r < 0.70:
        return S(rstr(rng))
    if r < 0.76:
        return H(rstr(rng))
    if r < 0.95:
        return node(rng)
    if r < 0.98:
        return seqlike(rng)
    return opaque(rng)


def container(rng, depth=3) -> str:
    """mostly iterables (what `flatten` / `extend` are given), sometimes anything"""
    if rng.random() < 0.75:
        k = rng.choice(["L", "L", "U", "TL"])
        items = "".join(arg(rng, depth - 1) + " " for _ in range(rng.choice([0, 1, 2, 3, 5])))
        return f"O TagList [ data L [ {items}] ]" if k == "TL" else f"{k} [ {items}]"
    return arg(rng, depth)


def taglist(rng, raw=0.15) -> str:
    """a TagList receiver: normalised data, or (rarely) data that holds raw values"""
    n = rng.choice([0, 1, 2, 3, 4])
    if rng.random() < raw:
        items = "".join(arg(rng, 1) + " " for _ in range(n))
    else:
        items = "".join((S(rstr(rng)) if rng.random() < 0.5 else node(rng, 1)) + " " for _ in range(n))
    return f"O TagList [ data L [ {items}] ]"


def index(rng) -> str:
    r = rng.random()
    if r < 0.8:
        return "I " + str(rng.choice([-7, -2, -1, 0, 1, 2, 3, 7]))
    return rng.choice(["T", "F", "N", "D " + es("1.5"), S("1")])


def acc(rng) -> str:
    r = rng.random()
    if r < 0.85:
        return "L [ " + "".join(arg(rng, 1) + " " for _ in range(rng.choice([0, 0, 1, 2]))) + "]"
    return rng.choice(["U [ ]", "N", "I 1", S("ab"), "M [ ]"])


def register(GENS):
    GENS["is_tag_node"] = lambda rng: f"[ {arg(rng)} ]"
    GENS["is_tag_child"] = lambda rng: f"[ {arg(rng)} ]"
    GENS["util_flatten_recurse"] = lambda rng: f"[ {container(rng)} {acc(rng)} ]"
    GENS["util_flatten"] = lambda rng: f"[ {container(rng)} ]"
    GENS["tagchilds_to_tagnodes"] = lambda rng: f"[ {container(rng)} ]"
    GENS["TagList_should_not_expand"] = lambda rng: f"[ {taglist(rng)} {arg(rng, 1)} ]"
    GENS["TagList_init"] = lambda rng: "[ O TagList [ ] U [ " + "".join(arg(rng) + " " for _ in range(rng.choice([0, 1, 2, 3]))) + "] ]"
    GENS["TagList_extend"] = lambda rng: f"[ {taglist(rng)} {container(rng)} ]"
    GENS["TagList_append"] = lambda rng: (f"[ {taglist(rng)} {arg(rng)} U [ " + "".join(arg(rng, 2) + " " for _ in range(rng.choice([0, 0, 1, 2])))
                                          + "] ]")
    GENS["TagList_insert"] = lambda rng: f"[ {taglist(rng)} {index(rng)} {arg(rng)} ]"
    GENS["TagList_add"] = lambda rng: f"[ {taglist(rng)} {container(rng)} ]"
    GENS["TagList_radd"] = lambda rng: f"[ {taglist(rng)} {container(rng)} ]"
    GENS["TagList_iadd"] = lambda rng: f"[ {taglist(rng)} {container(rng)} ]"
