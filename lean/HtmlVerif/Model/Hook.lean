/-
The display-hook protocol of `with tag:` blocks (htmltools/_core.py:692-707 `Tag.__enter__` / `Tag.__exit__`,
1015-1034 `wrap_displayhook_handler`, 723-728 `Tag.append`, 283-294 `TagList.extend/append`,
1927-1944 `_tagchilds_to_tagnodes`, _util.py:80-100 `flatten`).

Programs are an inductive type (statements `display v`, `with tag: body`, `raise`, and `rebind`: a tag is given a new
child-list object holding the same nodes), so "any nesting of with-blocks, with or without exceptions" is a quantifier
over `Prog`/`Progs`.  Displayed values include lists and tuples (nested), TagLists, Tagifiable objects and objects that
are Tagifiable and self-rendering at once (`Val`/`Vals`).  The process-global `sys.displayhook` is the `hook`
field of the state; each tag carries its `children` and its `prev_displayhook`; the outermost hook is the harness's
recorder, which appends whatever it is handed to a log and never raises (the guard of DESIGN §6 C17).
Tags are mutable objects referred to by identity: a stored child that is a Tag is a *reference* (`Item.tagRef`).
-/
import HtmlVerif.Model.Render

namespace HtmlVerif.Hook
open HtmlVerif

/-- identity of a `Tag` object -/
abbrev TagId := Nat

/-- the callables that can sit in `sys.displayhook` / `Tag.prev_displayhook`:
    the outermost recorder, the wrapper made by `tag.__enter__` (one per tag: a tag can be entered at most once),
    and `None` (what `__exit__` would install if `prev_displayhook` were still `None`) -/
inductive HookId
  | outer
  | wrap (t : TagId)
  | unset
  deriving DecidableEq, Repr, Inhabited

/-- a stored child (`TagNode`) -/
inductive Item
  | text (s : Str)
  | html (s : Str)
  | robj (s : Str)          -- `_repr_html_` object kept as the object (direct `append`, or inside a displayed list/tuple)
  | tagRef (t : TagId)      -- reference to the Tag object `t`
  | tobj (s : Str)          -- Tagifiable object (has `tagify`, no `_repr_html_`) named `s`, kept as the object
  | trobj (s : Str)         -- object named `s` with `tagify` AND `_repr_html_` (JSXTag, widgets), kept as the object
  deriving DecidableEq, Repr, Inhabited

mutual
  /-- a displayed Python value -/
  inductive Val
    | none                    -- `None`
    | ellipsis                -- `...`
    | text (s : Str)          -- `str`
    | num (s : Str)           -- `int` / `float` / `bool`; `s` = `str(value)`, supplied by the harness
    | html (s : Str)          -- `HTML(s)`
    | reprHtml (s : Str)      -- object whose `_repr_html_()` returns `s` (no `tagify`)
    | tagRef (t : TagId)      -- the Tag object `t`
    | invalid                 -- an object that is no TagChild at all (dict, bytes, object(), …)
    | tagifiable (s : Str)    -- object named `s` with `tagify` only
    | tagifiableRepr (s : Str)  -- object named `s` with `tagify` and `_repr_html_` (e.g. a `JSXTag`)
    | tagList (its : List Item) -- a `TagList`; it holds normalised nodes already
    | list (vs : Vals)        -- `list`
    | tuple (vs : Vals)       -- `tuple`
  inductive Vals
    | nil
    | cons (v : Val) (vs : Vals)
end

deriving instance DecidableEq for Val, Vals
deriving instance Repr for Val, Vals
instance : Inhabited Val := ⟨.none⟩
instance : Inhabited Vals := ⟨.nil⟩

def Vals.ofList : List Val → Vals
  | [] => .nil
  | v :: vs => .cons v (Vals.ofList vs)

def Vals.toList : Vals → List Val
  | .nil => []
  | .cons v vs => v :: vs.toList

/-- the Python object a stored child is (a TagList hands its elements on as they are) -/
def Item.toVal : Item → Val
  | .text s => .text s
  | .html s => .html s
  | .robj s => .reprHtml s
  | .tagRef t => .tagRef t
  | .tobj s => .tagifiable s
  | .trobj s => .tagifiableRepr s

inductive Outcome
  | done
  | raised (e : Err)
  deriving DecidableEq, Repr, Inhabited

mutual
  /-- statements -/
  inductive Prog
    | display (v : Val)                     -- `sys.displayhook(v)`
    | block (t : TagId) (body : Progs)      -- `with tag_t: body`
    | raise                                 -- `raise SomeException()`
    | rebind (t : TagId)                    -- `tag_t.children = <a new TagList holding the same nodes>`
  inductive Progs
    | nil
    | cons (p : Prog) (ps : Progs)
end

instance : Inhabited Prog := ⟨.raise⟩
instance : Inhabited Progs := ⟨.nil⟩

def Progs.ofList : List Prog → Progs
  | [] => .nil
  | p :: ps => .cons p (Progs.ofList ps)

def Progs.toList : Progs → List Prog
  | .nil => []
  | .cons p ps => p :: ps.toList

/-- per-tag state -/
structure TagSt where
  children : List Item
  prev     : Option HookId          -- `self.prev_displayhook`
  deriving DecidableEq, Repr, Inhabited

structure St where
  hook  : HookId                    -- `sys.displayhook`
  tags  : TagId → TagSt
  outer : List Val                  -- what the outermost recorder has been handed, in order

/-- `handler_wrapper` (_core.py:1026-1032): the value handed on to `handler`, `none` = handler not called -/
def wrapFilter : Val → Option Val
  | .tagRef t => some (.tagRef t)       -- isinstance(value, (Tag, TagList, Tagifiable)): handler(value)
  | .tagList its => some (.tagList its)
  | .tagifiable s => some (.tagifiable s)
  | .tagifiableRepr s => some (.tagifiableRepr s)   -- it has `_repr_html_` too, but the first test wins: kept as the object
  | .reprHtml s => some (.html s)       -- isinstance(value, ReprHtml): handler(HTML(value._repr_html_()))
  | .none => Option.none                -- value in (None, ...)
  | .ellipsis => Option.none
  | v => some v                         -- str, number, HTML, list, tuple, anything else

mutual
  /-- `_flatten_recurse` (_util.py:88-100) on one element: lists, tuples and TagLists are opened at any depth,
      `None` is dropped, order is kept -/
  def Val.flat : Val → List Val
    | .list vs => vs.flat
    | .tuple vs => vs.flat
    | .tagList its => its.map Item.toVal
    | .none => []
    | v => [v]
  def Vals.flat : Vals → List Val
    | .nil => []
    | .cons v vs => v.flat ++ vs.flat
end

/-- the body of the loop of `_tagchilds_to_tagnodes` (_core.py:1927-1944) on one flattened element: numbers become
    `str`, a TagNode stays the object it is, anything else is a `TypeError` (sequences and `None` do not reach it) -/
def nodeOf : Val → Except Err Item
  | .text s => .ok (.text s)
  | .num s => .ok (.text s)
  | .html s => .ok (.html s)
  | .reprHtml s => .ok (.robj s)
  | .tagRef t => .ok (.tagRef t)
  | .tagifiable s => .ok (.tobj s)
  | .tagifiableRepr s => .ok (.trobj s)
  | _ => .error .typeError

/-- the loop itself: elements in order, the first one that is no TagNode raises -/
def toNodes : List Val → Except Err (List Item)
  | [] => .ok []
  | v :: vs =>
    match nodeOf v with
    | .error e => .error e
    | .ok i =>
      match toNodes vs with
      | .error e => .error e
      | .ok is => .ok (i :: is)

/-- `_tagchilds_to_tagnodes([v])`, i.e. what `tag.append(v)` adds: `flatten`, then the loop -/
def toItems (v : Val) : Except Err (List Item) := toNodes v.flat

/-- `tag_t.children.extend(items)` -/
def St.addChildren (s : St) (t : TagId) (items : List Item) : St :=
  { s with tags := fun u => if u = t then { s.tags t with children := (s.tags t).children ++ items } else s.tags u }

/-- call the callable `h` with `v`.  On an exception nothing has been mutated
    (`_tagchilds_to_tagnodes` runs before `UserList.extend`). -/
def callHook (h : HookId) (v : Val) (s : St) : Except Err St :=
  match h with
  | .outer => .ok { s with outer := s.outer ++ [v] }
  | .unset => .error .typeError                     -- 'NoneType' object is not callable
  | .wrap t =>
    match wrapFilter v with
    | Option.none => .ok s
    | some v' =>
      match toItems v' with
      | .error e => .error e
      | .ok items => .ok (s.addChildren t items)

/-- the two assignments of `Tag.__enter__`: `self.prev_displayhook = sys.displayhook; sys.displayhook = wrapper(self.append)` -/
def St.entered (s : St) (t : TagId) : St :=
  { s with
    hook := .wrap t,
    tags := fun u => if u = t then { s.tags t with prev := some s.hook } else s.tags u }

/-- `Tag.__enter__` (_core.py:692-702) -/
def enterTag (t : TagId) (s : St) : Except Err St :=
  match (s.tags t).prev with
  | some _ => .error .runtimeError
  | Option.none => .ok (s.entered t)

/-- `Tag.__exit__` (_core.py:704-707): `sys.displayhook = self.prev_displayhook; sys.displayhook(self)`.
    `prev_displayhook` is *not* cleared. -/
def exitTag (t : TagId) (s : St) : St × Outcome :=
  let h : HookId := match (s.tags t).prev with
    | some h => h
    | Option.none => .unset
  let s1 : St := { s with hook := h }
  match callHook h (.tagRef t) s1 with
  | .ok s2 => (s2, .done)
  | .error e => (s1, .raised e)

/-- Python's `with` protocol: an exception of `__exit__` replaces the one in flight; `__exit__` returns `None`,
    so the in-flight exception propagates -/
def withOutcome (body exit : Outcome) : Outcome :=
  match exit with
  | .raised e => .raised e
  | .done => body

mutual
  def Prog.exec : Prog → St → St × Outcome
    | .display v, s =>
      match callHook s.hook v s with
      | .ok s' => (s', .done)
      | .error e => (s, .raised e)
    | .raise, s => (s, .raised .exception)
    | .rebind _, s => (s, .done)                  -- the new list holds the same nodes: no value changes (the model has
                                                  -- no identity for child lists; "that block's tag" is what counts)
    | .block t body, s =>
      match enterTag t s with
      | .error e => (s, .raised e)                -- `__enter__` raised: `__exit__` is not called
      | .ok s1 =>
        let r := body.exec s1
        let x := exitTag t r.1                    -- runs on normal and on exceptional exit
        (x.1, withOutcome r.2 x.2)
  def Progs.exec : Progs → St → St × Outcome
    | .nil, s => (s, .done)
    | .cons p ps, s =>
      match p.exec s with
      | (s', .done) => ps.exec s'
      | (s', .raised e) => (s', .raised e)
end

/-- normalisation of one value displayed inside a block: the wrapper, then `append` -/
def normDisplayed (v : Val) : Except Err (List Item) :=
  match wrapFilter v with
  | Option.none => .ok []
  | some v' => toItems v'

/-- initial state: the recorder is installed, no tag has been entered -/
def St.init (kids : TagId → List Item) : St :=
  { hook := .outer, tags := fun t => { children := kids t, prev := Option.none }, outer := [] }

end HtmlVerif.Hook
