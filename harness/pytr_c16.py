"""Translator plug-in for C16 (DESIGN §14): `Tag.has_class`, `Tag.add_class`, `Tag.add_style`, `Tag.remove_class`
(htmltools/_core.py) and `css` (htmltools/_util.py).

New syntax (through hooks, for the functions of this area only):
  * `re.sub(<pattern>, <replacement>, s)` -> `reSub` (Py/PrimC16.lean), a primitive that is defined for exactly the two
    pattern / replacement pairs `css` uses and `unsupported` for every other pair (so an edited pattern never gets a
    made-up meaning);
  * `sep.join(x)` -> `pyJoinStrict` (Py/PrimC16.lean): CPython's `str.join` accepts only real `str` items — a `UserString`
    (`HTML`) item raises TypeError.  (`Py.pyJoin` of Prim.lean accepts `HTML` items; it is left as it is for the functions
    translated before.)
  * `x in c` -> `pyInC16` (Py/PrimC16.lean): `Py.pyIn` extended to any left operand when `c` is a list of `str`.
"""
from __future__ import annotations

import ast

#: Lean names of this area's translations
MINE = ("Tag_has_class", "Tag_add_class", "Tag_add_style", "Tag_remove_class", "util_css")


def _expr_hook(fn, e):
    if fn.spec.lean not in MINE:
        return None
    if isinstance(e, ast.Call) and isinstance(e.func, ast.Attribute) and not e.keywords:
        f = e.func
        # re.sub(pattern, replacement, string)
        if isinstance(f.value, ast.Name) and f.value.id == "re" and f.attr == "sub" and len(e.args) == 3 \
                and not any(isinstance(a, ast.Starred) for a in e.args):
            return f"(← reSub {fn.V(e.args[0])} {fn.V(e.args[1])} {fn.V(e.args[2])})"
        # sep.join(iterable)
        if f.attr == "join" and len(e.args) == 1 and not isinstance(e.args[0], ast.Starred):
            return f"(← pyJoinStrict {fn.V(f.value)} {fn.V(e.args[0])})"
    # x in c / x not in c
    if isinstance(e, ast.Compare) and len(e.ops) == 1 and isinstance(e.ops[0], (ast.In, ast.NotIn)):
        t = f"(← pyInC16 {fn.V(e.left)} {fn.V(e.comparators[0])})"
        return t if isinstance(e.ops[0], ast.In) else f"(PVal.bool (!truthy {t}))"
    return None


def register(T):
    T.SPECS += [
        T.FnSpec("htmltools/_core.py", "Tag.has_class", "Tag_has_class"),
        T.FnSpec("htmltools/_core.py", "Tag.add_class", "Tag_add_class"),
        T.FnSpec("htmltools/_core.py", "Tag.add_style", "Tag_add_style"),
        T.FnSpec("htmltools/_core.py", "Tag.remove_class", "Tag_remove_class"),
        T.FnSpec("htmltools/_util.py", "css", "util_css"),
    ]
    T.ARITY.update({"Tag_has_class": 2, "Tag_add_class": 3, "Tag_add_style": 3, "Tag_remove_class": 2, "util_css": 2})
    if "HtmlVerif.Py.PrimC16" not in T.IMPORTS:
        T.IMPORTS.append("HtmlVerif.Py.PrimC16")
    T.EXPR_HOOKS.append(_expr_hook)
