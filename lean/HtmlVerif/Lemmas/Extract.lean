/-
Extraction (C13): scanning an interleaving of text and serialised dependencies, recovering each body.
-/
import HtmlVerif.Lemmas.Scan
import HtmlVerif.Lemmas.NoOpen
import HtmlVerif.Lemmas.Recover

namespace HtmlVerif

abbrev Item := Option Nat × SDep × Str

/-- the text between the tags of an item's element -/
def Item.body (it : Item) : Str := serBody it.1 it.2.1

/-- the text chunks with every serialised element removed -/
def remText (t0 : Str) : List Item → Str
  | [] => t0
  | (_, _, t) :: r => t0 ++ remText t r

theorem interleave_eq (t0 : Str) (items : List Item) :
    interleave t0 items = interleaveB t0 (items.map fun it => (it.body, it.2.2)) := by
  induction items generalizing t0 with
  | nil => rfl
  | cons it r ih => obtain ⟨i, d, t⟩ := it; simp [interleave, interleaveB, tdSerialize, Item.body, ih]

theorem chunksOf_eq (t0 : Str) (items : List Item) :
    chunksOf t0 (items.map fun it => (it.body, it.2.2)) = remText t0 items := by
  induction items generalizing t0 with
  | nil => rfl
  | cons it r ih => obtain ⟨i, d, t⟩ := it; simp [chunksOf, remText, ih]

theorem serBody_noLtSlash (ind : Option Nat) (d : SDep) : hasLtSlash (serBody ind d) = false :=
  neutG_no_lt_slash false _

/-- every serialised body parses back to the record it was made from -/
theorem jsonParse_serBody (ind : Option Nat) (d : SDep) : jsonParse (serBody ind d) = some (depToJson d) := by
  rw [serBody, neutralise_jsonPrint]
  exact jsonParse_printVal neutBody neutBody_ok ind _

theorem recover_serBody (ind : Option Nat) (d : SDep) (hw : d.wellFormed = true) :
    recover (serBody ind d) = .ok d.norm := by
  simp [recover, jsonParse_serBody, depOfJson_depToJson d hw]

theorem recoverAll_bodies (l : List Item) (hw : ∀ it ∈ l, it.2.1.wellFormed = true) :
    recoverAll (l.map Item.body) = .ok (l.map fun it => it.2.1.norm) := by
  induction l with
  | nil => rfl
  | cons it r ih =>
    have h1 := recover_serBody it.1 it.2.1 (hw it (by simp))
    have h2 := ih (fun x hx => hw x (by simp [hx]))
    simp only [List.map_cons, recoverAll]
    rw [show it.body = serBody it.1 it.2.1 from rfl, h1]
    simp only [h2]

theorem scan_interleave (t0 : Str) (items : List Item) (f : Nat) (hf : items.length ≤ f)
    (h0 : ¬ openMarker <:+: t0) (hi : ∀ it ∈ items, ¬ openMarker <:+: it.2.2) :
    scan f (interleave t0 items) = (remText t0 items, items.map Item.body) := by
  rw [interleave_eq, scan_interleaveB t0 _ f (by simpa using hf) h0, chunksOf_eq]
  · simp [List.map_map, Function.comp_def]
  · intro it hit
    simp only [List.mem_map] at hit
    obtain ⟨x, hx, rfl⟩ := hit
    exact ⟨serBody_noLtSlash _ _, hi x hx⟩

theorem extract_interleave (t0 : Str) (items : List Item)
    (h0 : ¬ openMarker <:+: t0) (hi : ∀ it ∈ items, ¬ openMarker <:+: it.2.2)
    (hw : ∀ it ∈ items, it.2.1.wellFormed = true) :
    extract (interleave t0 items)
      = .ok (remText t0 items, (dedupOn Item.body items).map fun it => it.2.1.norm) := by
  have hlen : items.length ≤ (interleave t0 items).length := by
    rw [interleave_eq]; simpa using length_interleaveB t0 (items.map fun it => (it.body, it.2.2))
  have hs := scan_interleave t0 items _ hlen h0 hi
  have hr := recoverAll_bodies (dedupOn Item.body items)
    (fun it hit => hw it (dedupOnGo_mem _ _ _ _ hit))
  simp only [extract, hs, dedupKeepFirst_map, hr]

/-! ### JSON render mode as an interleaving -/

/-- the serialised copies appended in JSON mode: joined by newlines -/
def jmItems : List SDep → List Item
  | [] => []
  | [d] => [(none, d, [])]
  | d :: d' :: r => (none, d, ['\n']) :: jmItems (d' :: r)

theorem jsonModeStr_eq (html : Str) (ds : List SDep) : jsonModeStr html ds = interleave html (jmItems ds) := by
  have key : ∀ (ds : List SDep) (t : Str), t ++ joinStr ['\n'] (ds.map (tdSerialize none)) = interleave t (jmItems ds) := by
    intro ds
    induction ds with
    | nil => intro t; simp [joinStr, jmItems, interleave]
    | cons d r ih =>
      intro t
      cases r with
      | nil => simp [joinStr, jmItems, interleave]
      | cons d' r' =>
        have := ih ['\n']
        simp only [List.map_cons, joinStr, jmItems, interleave] at this ⊢
        rw [← this]; simp
  exact key ds html

theorem remText_jmItems (html : Str) (ds : List SDep) :
    remText html (jmItems ds) = html ++ List.replicate (ds.length - 1) '\n' := by
  induction ds generalizing html with
  | nil => simp [jmItems, remText]
  | cons d r ih =>
    cases r with
    | nil => simp [jmItems, remText]
    | cons d' r' =>
      have := ih ['\n']
      simp only [jmItems, remText] at this ⊢
      rw [this]; simp [List.replicate_succ]

theorem jmItems_chunks (ds : List SDep) : ∀ it ∈ jmItems ds, ¬ openMarker <:+: it.2.2 := by
  induction ds with
  | nil => simp [jmItems]
  | cons d r ih =>
    cases r with
    | nil =>
      intro it hit
      simp only [jmItems, List.mem_singleton] at hit
      subst hit
      intro h; obtain ⟨a, b, e⟩ := h
      have := congrArg List.length e
      simp [openMarker] at this
    | cons d' r' =>
      intro it hit
      simp only [jmItems, List.mem_cons] at hit
      rcases hit with rfl | hit
      · intro h; obtain ⟨a, b, e⟩ := h
        have := congrArg List.length e
        simp [openMarker] at this; omega
      · exact ih it (by simpa [jmItems] using hit)

theorem jmItems_deps (ds : List SDep) : (jmItems ds).map (·.2.1) = ds := by
  induction ds with
  | nil => rfl
  | cons d r ih =>
    cases r with
    | nil => rfl
    | cons d' r' => simp only [jmItems, List.map_cons] at ih ⊢; rw [ih]

theorem jmItems_body (ds : List SDep) : (jmItems ds).map Item.body = ds.map (serBody none) := by
  induction ds with
  | nil => rfl
  | cons d r ih =>
    cases r with
    | nil => rfl
    | cons d' r' => simp only [jmItems, List.map_cons] at ih ⊢; rw [ih]; rfl

end HtmlVerif
