/-
Driver op that runs primitives of Py/PrimC08.lean which no translated function calls yet (so `src` cannot reach them):

  srcc08 replace [ <pval s> <pval old> <pval new> ]    → ok <pval> | err <kind> | unsupported     (`s.replace(old, new)`)

The harness calls the real `str.replace` / `UserString.replace` on the same values (harness/ops_src_c08.py); a difference
means the stated semantics is not faithful on that input.  (pval syntax as in Ops/Src.lean.)
-/
import HtmlVerif.Ops.Base
import HtmlVerif.Py.PrimC08

namespace HtmlVerif.Ops
open HtmlVerif HtmlVerif.Wire HtmlVerif.Py

private partial def pvalC08 : P PVal := do
  let t ← next
  match t with
  | "N" => pure .none
  | "T" => pure (.bool true)
  | "F" => pure (.bool false)
  | "I" => do
    let s ← next
    match s.toInt? with
    | some n => pure (.int n)
    | none => throw s!"bad int {s}"
  | "D" => .float <$> str
  | "S" => .str <$> str
  | "H" => .html <$> str
  | "L" => .list <$> listOf pvalC08
  | "U" => .tuple <$> listOf pvalC08
  | "M" => .dict <$> listOf (do let k ← str; let v ← pvalC08; pure (k, v))
  | "O" => do
    let c ← next
    let fs ← listOf (do let k ← next; let v ← pvalC08; pure (k, v))
    pure (.obj c fs)
  | _ => throw s!"bad pval {t}"

private def encScalarC08 : PVal → String
  | .str s => "ok S " ++ encStr s
  | .html s => "ok H " ++ encStr s
  | _ => "unsupported"

private def encErrC08 : PyErr → String
  | .typeError => "err TypeError"
  | .valueError => "err ValueError"
  | .keyError => "err KeyError"
  | .indexError => "err IndexError"
  | .attributeError => "err AttributeError"
  | .runtimeError => "err RuntimeError"
  | .notImplemented => "err NotImplementedError"
  | .exception => "err Exception"
  | .fuel => "unsupported fuel"
  | .unsupported => "unsupported"

def srcC08Ops : OpTable
  | "srcc08" => some do
    let f ← next
    let a ← listOf pvalC08
    match f, a with
    | "replace", [s, o, v] =>
      match pyReplaceAll s o v with
      | .ok r => pure (encScalarC08 r)
      | .error e => pure (encErrC08 e)
    | _, _ => pure "unsupported"
  | _ => none

end HtmlVerif.Ops
