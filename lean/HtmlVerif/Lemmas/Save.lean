/-
Helper lemmas for C12: save_html as a whole.
-/
import HtmlVerif.Lemmas.CopyAll
import HtmlVerif.Lemmas.Guards

namespace HtmlVerif
open FS

theorem apart_of_ne_last (D : Path) {x y : Bytes} (h : x ≠ y) : Apart (D ++ [x]) (D ++ [y]) := by
  constructor
  · intro hp
    rw [List.prefix_append_right_inj] at hp
    simp at hp
    exact h hp
  · intro hp
    rw [List.prefix_append_right_inj] at hp
    simp at hp
    exact h hp.symm

theorem isLocal_cases {d : DepInfo} (h : isLocal d = true) :
    ∃ pkg dir abs, d.source = .subdir pkg dir abs := by
  unfold isLocal at h
  cases hs : d.source with
  | none => simp [hs] at h
  | href u => simp [hs] at h
  | subdir a b c => exact ⟨a, b, c, rfl⟩

theorem srcDir_subdir {d : DepInfo} {pkg : Option Str} {dir abs : Str} (hs : d.source = .subdir pkg dir abs) :
    srcDir d = pathResolve abs := by simp [srcDir, hs]

theorem saveHtml_of_copyAll_ok {render : Option Str → Bool → FsRendered} {file fileAbs : Str} {libdir : Option Str}
    {iv : Bool} {fs fs1 : FS}
    (hc : copyAll (render libdir iv).deps (destDir fileAbs libdir) iv fs = (fs1, .ok ()))
    (hd : fs1.isDir (pathResolve fileAbs) = false) (hp : fs1.fileOnPath (pathResolve fileAbs).dropLast = false) :
    saveHtml render file fileAbs libdir iv fs
      = (fs1.write (pathResolve fileAbs) (utf8 (render libdir iv).html), .ok file) := by
  simp [saveHtml, hc, hd, hp]

theorem saveHtml_of_copyAll_error {render : Option Str → Bool → FsRendered} {file fileAbs : Str}
    {libdir : Option Str} {iv : Bool} {fs fs1 : FS} {e : Err}
    (hc : copyAll (render libdir iv).deps (destDir fileAbs libdir) iv fs = (fs1, .error e)) :
    saveHtml render file fileAbs libdir iv fs = (fs1, .error e) := by
  simp [saveHtml, hc]

/-- the HTML file can still be created after changes confined to directories apart from it -/
theorem writable_transfer (fs fs1 : FS) (F : Path) (Ts : List Path)
    (hframe : ∀ q, (∀ T ∈ Ts, ¬ T <+: q) → fs1.read q = fs.read q)
    (hap : ∀ T ∈ Ts, Apart F T)
    (hd : fs.isDir F = false) (hp : fs.fileOnPath F.dropLast = false) :
    fs1.isDir F = false ∧ fs1.fileOnPath F.dropLast = false := by
  constructor
  · rw [Bool.eq_false_iff] at hd ⊢
    intro h
    apply hd
    rw [isDir_iff] at h ⊢
    rcases h with h | ⟨r, hr, hs⟩
    · exact .inl h
    · refine .inr ⟨r, hr, ?_⟩
      rw [← hframe]
      · exact hs
      · intro T hT; exact not_prefix_of_apart (hap T hT) r
  · rw [fileOnPath_false_iff] at hp ⊢
    intro k hk
    rw [hframe]
    · exact hp k hk
    · intro T hT hx
      have h1 : F.dropLast.take k <+: F :=
        List.IsPrefix.trans (List.take_prefix k _) (List.dropLast_prefix F)
      exact (hap T hT).2 (List.IsPrefix.trans hx h1)

end HtmlVerif
