/-
Specification-side definitions for C20:
  * `jsStringDenotes` — what a JavaScript double-quoted string literal denotes (ECMAScript StringLiteral, without
    the hex / unicode / legacy-octal escapes, which the library never writes);
  * `Js` — a JavaScript expression tree, `Js.print` its layout, and `mirror`, the expression a (walked) component
    tree corresponds to: `C20_mirror` proves `_render_react_js = print ∘ mirror`;
  * `metasIn` — the metadata nodes attached anywhere in a component, in document order.
-/
import HtmlVerif.Model.Jsx

namespace HtmlVerif

/-! ### denotation of a double-quoted JavaScript string literal -/

/-- `\c` inside a string literal: the characters it stands for; `none` = an escape form not modelled here -/
def jsEscChar (c : Char) : Option Str :=
  if c = 'n' then some ['\n']
  else if c = 't' then some ['\t']
  else if c = 'r' then some ['\r']
  else if c = 'b' then some [Char.ofNat 8]
  else if c = 'f' then some [Char.ofNat 12]
  else if c = 'v' then some [Char.ofNat 11]
  else if c = '\n' ∨ c = '\r' ∨ c = Char.ofNat 0x2028 ∨ c = Char.ofNat 0x2029 then some []   -- line continuation
  else if c = 'x' ∨ c = 'u' ∨ ('0' ≤ c ∧ c ≤ '9') then none
  else some [c]                                                                              -- `\"` `\'` `\\` and NonEscapeCharacter

/-- the characters after the opening quote; `esc`: the previous character was an unescaped backslash.
    The literal must end exactly at the first unescaped `"`; a raw line break is not allowed inside. -/
def jsBody : Bool → Str → Option Str
  | _, [] => none
  | true, c :: r =>
    match jsEscChar c with
    | none => none
    | some e => (jsBody false r).map (e ++ ·)
  | false, c :: r =>
    if c = '"' then (if r = [] then some [] else none)
    else if c = '\\' then jsBody true r
    else if c = '\n' ∨ c = '\r' then none
    else (jsBody false r).map (c :: ·)

/-- the text a double-quoted JavaScript string literal denotes (`none`: not a well-formed literal) -/
def jsStringDenotes : Str → Option Str
  | [] => none
  | c :: r => if c = '"' then jsBody false r else none

/-- the restriction C20 puts on strings: free of backslashes and line breaks -/
def plainJsText (s : Str) : Bool :=
  s.all fun c => c != '\\' && c != '\n' && c != '\r'

/-! ### denotation of a JavaScript number

`jsNumParse` reads the text of a JavaScript numeric expression of the forms the library can write: an optional unary
minus, then a DecimalLiteral (ECMAScript: `DecimalIntegerLiteral . DecimalDigits? ExponentPart?` | `. DecimalDigits
ExponentPart?` | `DecimalIntegerLiteral ExponentPart?`, no leading zeros, no separators) or the global `Infinity`; or
the global `NaN`.  A decimal literal denotes its exact mathematical value `m · 10^e`, which JavaScript then rounds to
the nearest double (ties to even).  `jsNumberDenotes txt v`: `txt` is such an expression and evaluates to the Python
number `v` — for an `int` the literal's exact value is `v` (that a JavaScript number cannot hold an integer beyond
2^53 exactly is the target type's limit, not the text's), for a `float` the literal rounds to exactly that double
(and the sign of a zero is kept), `Infinity` / `-Infinity` / `NaN` for the non-finite floats. -/

namespace JsLit

def isDig (c : Char) : Bool := decide ('0' ≤ c ∧ c ≤ '9')

/-- value of a digit string -/
def digits (ds : Str) : Nat := ds.foldl (fun a c => 10 * a + (c.toNat - 48)) 0

/-- `ExponentPart?` followed by the end of the text: the exponent (0 when absent); `none`: anything else -/
def exponentPart : Str → Option Int
  | [] => some 0
  | c :: r =>
    if c = 'e' ∨ c = 'E' then
      let (neg, r') : Bool × Str := match r with
        | '+' :: q => (false, q)
        | '-' :: q => (true, q)
        | q => (false, q)
      if r' ≠ [] ∧ r'.all isDig then some (if neg then -(digits r' : Int) else (digits r' : Int)) else none
    else none

/-- an unsigned DecimalLiteral: `(m, e)` with value `m · 10^e` -/
def decimalLiteral (s : Str) : Option (Nat × Int) :=
  let ip := s.takeWhile isDig
  let r1 := s.dropWhile isDig
  let ipOk : Bool := ip == ['0'] || (!ip.isEmpty && ip.head? != some '0')
  match r1 with
  | '.' :: r =>
    let fp := r.takeWhile isDig
    let r2 := r.dropWhile isDig
    if (ipOk || (ip.isEmpty && !fp.isEmpty)) then
      (exponentPart r2).map fun e => (digits (ip ++ fp), e - fp.length)
    else none
  | r2 => if ipOk then (exponentPart r2).map fun e => (digits ip, e) else none

end JsLit

/-- what a JavaScript numeric expression evaluates to, before rounding to a double -/
inductive JsNum
  | dec (neg : Bool) (m : Nat) (e : Int)     -- (-1)^neg · m · 10^e
  | inf (neg : Bool)
  | nan
  deriving DecidableEq, Repr

def jsNumParse (s : Str) : Option JsNum :=
  if s = chars% "NaN" then some .nan
  else
    let (neg, r) : Bool × Str := match s with
      | '-' :: r => (true, r)
      | r => (false, r)
    if r = chars% "Infinity" then some (.inf neg)
    else (JsLit.decimalLiteral r).map fun me => .dec neg me.1 me.2

/-- a Python number, exactly: an `int`, a finite `float` `(-1)^neg · mant · 2^exp` in canonical form, or a non-finite float -/
inductive PyNum
  | int (i : Int)
  | float (neg : Bool) (mant : Nat) (exp : Int)
  | inf (neg : Bool)
  | nan
  deriving DecidableEq, Repr

def PyNum.finite : PyNum → Bool
  | .int _ => true
  | .float .. => true
  | _ => false

/-- canonical form of a double: 53-bit significand, normalised unless subnormal, exponent range of binary64 -/
def PyNum.wf : PyNum → Bool
  | .float _ mant exp =>
    decide (mant < 2 ^ 53 ∧ -1074 ≤ exp ∧ exp ≤ 971 ∧ (2 ^ 52 ≤ mant ∨ exp = -1074))
  | _ => true

namespace JsLit

/-- `m · 10^e` compared with `b · 2^k` -/
def cmpScaled (m : Nat) (e : Int) (b : Nat) (k : Int) : Ordering :=
  compare (m * 10 ^ e.toNat * 2 ^ (-k).toNat) (b * 2 ^ k.toNat * 10 ^ (-e).toNat)

/-- the real number `m · 10^e` rounds (to nearest, ties to even) to the double `mant · 2^exp`: it lies between the
    midpoints to the two neighbouring doubles (in units of a quarter of the spacing `2^exp`: the lower neighbour of a
    power of two is only half as far), a midpoint itself only when `mant` is even -/
def roundsTo (m : Nat) (e : Int) (mant : Nat) (exp : Int) : Bool :=
  let even := mant % 2 == 0
  let hi := cmpScaled m e (4 * mant + 2) (exp - 2)
  let loB := if mant == 2 ^ 52 && exp > -1074 then 4 * mant - 1 else 4 * mant - 2
  let lo := cmpScaled m e loB (exp - 2)
  (hi == .lt || (hi == .eq && even)) && (mant == 0 || lo == .gt || (lo == .eq && even))

end JsLit

def JsNum.denotes : JsNum → PyNum → Bool
  | .dec neg m e, .int i =>
    -- exact; an exponent beyond a few thousand is not something to evaluate
    decide (e.natAbs ≤ 5000) && !(neg && m == 0) &&
      (if e ≥ 0 then (if neg then -((m * 10 ^ e.toNat : Nat) : Int) else ((m * 10 ^ e.toNat : Nat) : Int)) == i
       else m % 10 ^ (-e).toNat == 0 && (if neg then -((m / 10 ^ (-e).toNat : Nat) : Int) else ((m / 10 ^ (-e).toNat : Nat) : Int)) == i)
  | .dec neg m e, .float fneg mant exp =>
    decide (e.natAbs ≤ 5000) && neg == fneg && (PyNum.float fneg mant exp).wf && JsLit.roundsTo m e mant exp
  | .inf n, .inf n' => n == n'
  | .nan, .nan => true
  | _, _ => false

/-- `txt` is a JavaScript numeric expression that evaluates to the Python number `v` -/
def jsNumberDenotes (txt : Str) (v : PyNum) : Bool :=
  match jsNumParse txt with
  | none => false
  | some n => n.denotes v

/-- what Python's `str()` gives for a number, as far as C20 relies on it (a fact about the runtime, evaluated on every
    generated number by the executable statement): a finite number is written as a decimal literal that denotes it;
    the non-finite floats are written `inf`, `-inf`, `nan` -/
def pyStrOf (t : Str) : PyNum → Bool
  | .inf false => t == chars% "inf"
  | .inf true => t == chars% "-inf"
  | .nan => t == chars% "nan"
  | v => jsNumberDenotes t v

/-! ### JavaScript expressions -/

mutual
  inductive Js
    | strLit (s : Str)                  -- a string, written as a double-quoted literal
    | raw (s : Str)                     -- text written as it is: number, null / true / false, jsx() expression
    | arr (items : Jss)
    | obj (fields : JsFields)
    /-- `React.createElement(nm, {props}, kids…)`; `noKids`: the element's child list was empty
        (a child list holding only metadata nodes prints nothing but keeps the multi-line layout) -/
    | create (nm : Str) (props : JsFields) (noKids : Bool) (kids : Jss)
  inductive Jss
    | nil
    | cons (h : Js) (t : Jss)
  inductive JsFields
    | nil
    | cons (k : Str) (v : Js) (t : JsFields)
end

def Jss.toList : Jss → List Js
  | .nil => []
  | .cons h t => h :: t.toList

def JsFields.toList : JsFields → List (Str × Js)
  | .nil => []
  | .cons k v t => (k, v) :: t.toList

def JsFields.keys : JsFields → List Str
  | .nil => []
  | .cons k _ t => k :: t.keys

def JsFields.isEmpty : JsFields → Bool
  | .nil => true
  | _ => false

mutual
  /-- layout of an expression at nesting level `i` with line separator `eol` (values of props are laid out
      at level 0 with `"\n"`, as `_serialize_attr` does) -/
  def Js.print : Js → Nat → Str → Str
    | .strLit s, i, _ => indentStr i ++ jsQuote s
    | .raw s, _, _ => s
    | .arr items, _, _ => jsArr items.printItems
    | .obj fields, _, _ => jsObj fields.printFields
    | .create nm props noKids kids, i, eol =>
      let ind := indentStr i
      if props.isEmpty && noKids then ind ++ sCreate ++ nm ++ [')']
      else
        let res := ind ++ sCreate ++ eol ++ ind ++ [' ', ' '] ++ nm ++ [',', ' '] ++ jsObj props.printFields
        if noKids then res ++ [')'] else res ++ kids.printKids (i + 1) eol ++ eol ++ ind ++ [')']
  def Jss.printItems : Jss → List Str
    | .nil => []
    | .cons h t => h.print 0 ['\n'] :: t.printItems
  /-- children: each on its own line after a comma -/
  def Jss.printKids : Jss → Nat → Str → Str
    | .nil, _, _ => []
    | .cons h t, i, eol => ',' :: eol ++ h.print i eol ++ t.printKids i eol
  def JsFields.printFields : JsFields → List Str
    | .nil => []
    | .cons k v t => jsField k (v.print 0 ['\n']) :: t.printFields
end

/-- a CSS string as a style object -/
def styleFields : List (Str × Str) → JsFields
  | [] => .nil
  | (k, v) :: r => .cons k (.strLit v) (styleFields r)

def attrValMirror (k : Str) (v : AttrVal) : Except Err Js :=
  if k = chars% "style" then
    match v with
    | .plain s =>
      match parseStyle s with
      | .ok kvs => .ok (.obj (styleFields kvs))
      | .error e => .error e
    | .html _ => .error .typeError
  else .ok (.strLit v.str)

def attrsMirror : Attrs → Except Err JsFields
  | [] => .ok .nil
  | (k, v) :: r =>
    match attrValMirror k v with
    | .error e => .error e
    | .ok j =>
      match attrsMirror r with
      | .error e => .error e
      | .ok js => .ok (.cons k j js)

/-- assemble an element, failing in the order the renderer evaluates its parts -/
def createMirror (nm : Str) (noKids : Bool) (props : Except Err JsFields) (kids : Except Err Jss) : Except Err Js :=
  match props with
  | .error e => .error e
  | .ok ps =>
    if noKids then .ok (.create nm ps true .nil)
    else match kids with
      | .error e => .error e
      | .ok ks => .ok (.create nm ps false ks)

mutual
  /-- the JavaScript expression a tree node stands for (a metadata node stands for nothing: see `mirrorKids`) -/
  def JNode.mirror : JNode → Except Err Js
    | .md _ => .ok (.raw [])
    | .str .html _ => .error .typeError
    | .str _ s => .ok (.strLit s)
    | .comp name props kids =>
      createMirror name kids.isEmpty (props.mirrorFields true) kids.mirrorKids
    | .tag name attrs kids =>
      createMirror ('\'' :: name ++ ['\'']) kids.isEmpty (attrsMirror attrs) kids.mirrorKids
    | .tobj _ => .error .typeError
    | .tobjL _ => .error .typeError
  /-- every child that is not a metadata node, once, in order -/
  def JNodes.mirrorKids : JNodes → Except Err Jss
    | .nil => .ok .nil
    | .cons (.md _) t => t.mirrorKids
    | .cons h t =>
      match h.mirror with
      | .error e => .error e
      | .ok j =>
        match t.mirrorKids with
        | .error e => .error e
        | .ok js => .ok (.cons j js)
  def JVal.mirrorVal : JVal → Except Err Js
    | .null => .ok (.raw (chars% "null"))
    | .bool b => .ok (.raw (if b then chars% "true" else chars% "false"))
    | .num t => .ok (.raw (numJs t))
    | .list _ vs =>
      match vs.mirrorVals with
      | .error e => .error e
      | .ok js => .ok (.arr js)
    | .dict fs =>
      match fs.mirrorFields false with
      | .error e => .error e
      | .ok js => .ok (.obj js)
    | .node (.str .jsx s) => .ok (.raw s)
    | .node (.str _ s) => .ok (.strLit s)
    | .node (.comp n p k) => (JNode.comp n p k).mirror
    | .node (.tag n a k) => (JNode.tag n a k).mirror
    | .node _ => .error .exception
  def JVals.mirrorVals : JVals → Except Err Jss
    | .nil => .ok .nil
    | .cons h t =>
      match h.mirrorVal with
      | .error e => .error e
      | .ok j =>
        match t.mirrorVals with
        | .error e => .error e
        | .ok js => .ok (.cons j js)
  /-- the value of the `style` prop -/
  def JVal.mirrorStyle : JVal → Except Err Js
    | .null => .ok (.obj .nil)
    | .node (.str .html _) => .error .typeError
    | .node (.str _ s) =>
      match parseStyle s with
      | .ok kvs => .ok (.obj (styleFields kvs))
      | .error e => .error e
    | .dict fs =>
      match fs.mirrorFields false with
      | .error e => .error e
      | .ok js => .ok (.obj js)
    | _ => .error .typeError
  /-- every prop once, under the name it is stored with, in stored order -/
  def JProps.mirrorFields (top : Bool) : JProps → Except Err JsFields
    | .nil => .ok .nil
    | .cons k v t =>
      match (if top && k = chars% "style" then v.mirrorStyle else v.mirrorVal) with
      | .error e => .error e
      | .ok j =>
        match t.mirrorFields top with
        | .error e => .error e
        | .ok js => .ok (.cons k j js)
end

/-! ### metadata nodes attached to a component -/

mutual
  /-- the metadata nodes found at a node: among its children, nested tags and components, props whose value is
      a tag / component / tagifiable object, and the expansions of tagifiable descendants — in document order -/
  def JNode.metasIn : JNode → List JMeta
    | .comp _ ps ks => ps.metasInProps ++ ks.metasInKids
    | .tag _ _ ks => ks.metasInKids
    | .str _ _ => []
    | .md m => [m]
    | .tobj e => e.metasInExp
    | .tobjL _ => []
  /-- … of the value a `tagify()` returned (not expanded a second time) -/
  def JNode.metasInExp : JNode → List JMeta
    | .comp _ ps ks => ps.metasInProps ++ ks.metasInKids
    | .tag _ _ ks => ks.metasInKids
    | .md m => [m]
    | _ => []
  def JNodes.metasInKids : JNodes → List JMeta
    | .nil => []
    | .cons h t => h.metasIn ++ t.metasInKids
  def JVal.metasInVal : JVal → List JMeta
    | .node n => n.metasIn
    | _ => []
  def JProps.metasInProps : JProps → List JMeta
    | .nil => []
    | .cons _ v t => v.metasInVal ++ t.metasInProps
end

/-! ### the same, as a relation: "metadata node `m` is attached to the component" (the wording of C20) -/

mutual
  /-- `m` is found at node `x`: it is `x`, or it is attached to a child of the component / tag `x`, or to a prop of the
      component `x` whose value is a tag, component or tagifiable object, or to the expansion of the tagifiable object `x` -/
  inductive Attached : JNode → JMeta → Prop
    | here (m : JMeta) : Attached (.md m) m
    | compChild {n ps ks m} : AttachedKids ks m → Attached (.comp n ps ks) m
    | compProp {n ps ks m} : AttachedProps ps m → Attached (.comp n ps ks) m
    | tagChild {n a ks m} : AttachedKids ks m → Attached (.tag n a ks) m
    | expansion {e m} : AttachedExp e m → Attached (.tobj e) m
  /-- `m` is found on the value a `tagify()` returned (which is not expanded a second time) -/
  inductive AttachedExp : JNode → JMeta → Prop
    | here (m : JMeta) : AttachedExp (.md m) m
    | compChild {n ps ks m} : AttachedKids ks m → AttachedExp (.comp n ps ks) m
    | compProp {n ps ks m} : AttachedProps ps m → AttachedExp (.comp n ps ks) m
    | tagChild {n a ks m} : AttachedKids ks m → AttachedExp (.tag n a ks) m
  inductive AttachedKids : JNodes → JMeta → Prop
    | head {h t m} : Attached h m → AttachedKids (.cons h t) m
    | tail {h t m} : AttachedKids t m → AttachedKids (.cons h t) m
  inductive AttachedProps : JProps → JMeta → Prop
    | head {k n t m} : Attached n m → AttachedProps (.cons k (.node n) t) m
    | tail {k v t m} : AttachedProps t m → AttachedProps (.cons k v t) m
end

/-- the script element C20 describes for the component `comp name props kids`, given the JavaScript of the
    expression and the two library dependencies -/
def expectedScript (versions : List (Str × Str)) (name : Str) (component : Str) (metas : List JMeta) :
    Except Err Node :=
  match libDependency versions (chars% "react") (chars% "react.production.min.js") with
  | .error e => .error e
  | .ok react =>
    match libDependency versions (chars% "react-dom") (chars% "react-dom.production.min.js") with
    | .error e => .error e
    | .ok reactDom => .ok (scriptTag (jsWrap name component) react reactDom metas)

end HtmlVerif
